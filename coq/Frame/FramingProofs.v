(* Proofs about the framing model (C07). *)
From Coq Require Import List NArith ZArith Lia Bool Arith.
From Coq Require Import ZifyN ZifyNat ZifyBool.
From TarsV Require Import Base.Hex Frame.Framing.
Import ListNotations.
Open Scope N_scope.

(* ---------- proofs ---------- *)
Lemma tars_request_full max buf n : tars_request max buf = Full n ->
  (4 <= n <= length buf)%nat /\ hdr buf = Some (N.of_nat n) /\ N.of_nat n <= max.
Proof.
  unfold tars_request. destruct (hdr buf) as [l|] eqn:E; [|discriminate].
  destruct ((l <? 4) || (max <? l)) eqn:E1; [discriminate|].
  destruct (N.of_nat (length buf) <? l) eqn:E2; [discriminate|].
  intros H; inversion H; subst. repeat split; try lia. f_equal. lia.
Qed.

Lemma hdr_app buf more l : hdr buf = Some l -> hdr (buf ++ more) = Some l.
Proof. destruct buf as [|a [|b [|c [|d r]]]]; cbn; try discriminate. auto. Qed.

Lemma drain_fuel f1 : forall f2 max buf, (length buf < f1)%nat -> (length buf < f2)%nat ->
  drain f1 max buf = drain f2 max buf.
Proof.
  induction f1; intros f2 max buf H1 H2; [lia|]. destruct f2; [lia|]. cbn.
  destruct (tars_request max buf) eqn:E; try reflexivity.
  apply tars_request_full in E. destruct E as ([A B] & _).
  rewrite (IHf1 f2); [reflexivity| |]; rewrite skipn_length; lia.
Qed.

(* incrementality: draining a buffer and later its remainder plus more input
   is the same as draining everything at once *)
Lemma drain_app f : forall max buf more, (length buf < f)%nat ->
  drain' max (buf ++ more) =
  match drain f max buf with
  | (ps, None) => (ps, None)
  | (ps, Some r) => let '(ps', r') := drain' max (r ++ more) in (ps ++ ps', r')
  end.
Proof.
  induction f; intros max buf more Hf; [lia|]. cbn [drain].
  destruct (tars_request max buf) eqn:E.
  - cbn [app]. destruct (drain' max (buf ++ more)); reflexivity.
  - pose proof (tars_request_full _ _ _ E) as ([A B] & Hh & Hm).
    unfold drain' at 1. cbn [drain].
    assert (E' : tars_request max (buf ++ more) = Full n).
    { unfold tars_request in *. rewrite (hdr_app _ more _ Hh). rewrite Hh in E.
      destruct ((N.of_nat n <? 4) || (max <? N.of_nat n)) eqn:E1; [discriminate|].
      rewrite app_length.
      destruct (N.of_nat (length buf + length more) <? N.of_nat n) eqn:E2; [lia|].
      f_equal. lia. }
    rewrite E'. rewrite firstn_app, skipn_app.
    replace (n - length buf)%nat with 0%nat by lia. cbn [firstn skipn]. rewrite app_nil_r.
    specialize (IHf max (skipn n buf) more ltac:(rewrite skipn_length; lia)).
    unfold drain' in IHf.
    rewrite (drain_fuel _ (S (length (skipn n buf ++ more)))); [| rewrite !app_length, skipn_length in *; lia | lia].
    rewrite IHf. unfold drain'. destruct (drain f max (skipn n buf)) as [ps [r|]].
    + destruct (drain (S (length (r ++ more))) max (r ++ more)). reflexivity.
    + reflexivity.
  - unfold drain'. cbn [drain].
    assert (E' : tars_request max (buf ++ more) = Bad).
    { unfold tars_request in *. destruct (hdr buf) as [l|] eqn:Hh; [|discriminate].
      rewrite (hdr_app _ more _ Hh).
      destruct ((l <? 4) || (max <? l)) eqn:E1; [reflexivity|].
      destruct (N.of_nat (length buf) <? l); discriminate. }
    rewrite E'. reflexivity.
Qed.

Definition stable max cur := drain' max cur = ([], Some cur).

Lemma drain_stable f : forall max buf ps r, drain f max buf = (ps, Some r) -> (length buf < f)%nat -> stable max r.
Proof.
  induction f; intros max buf ps r H Hf; [lia|]. cbn in H.
  destruct (tars_request max buf) eqn:E.
  - inversion H; subst. unfold stable, drain'. cbn. rewrite E. reflexivity.
  - destruct (drain f max (skipn n buf)) as [ps' r'] eqn:D. inversion H; subst.
    apply tars_request_full in E. eapply IHf; [exact D|]. rewrite skipn_length. lia.
  - discriminate.
Qed.

(* Independence of segmentation: whatever the chunking (single bytes, coalesced packets, cuts inside
   the header), the receive loop delivers exactly what one pass over the whole stream delivers, in
   the same order, and ends in the same state (same remainder, or closed) *)
Theorem recv_loop_concat max : forall chunks cur, stable max cur ->
  recv_loop max cur chunks = drain' max (cur ++ concat chunks).
Proof.
  induction chunks as [|c cs IH]; intros cur Hs.
  - cbn. rewrite app_nil_r. symmetry. exact Hs.
  - cbn [recv_loop concat]. rewrite app_assoc.
    rewrite (drain_app (S (length (cur ++ c))) max (cur ++ c) (concat cs)) by lia.
    fold (drain' max (cur ++ c)).
    destruct (drain' max (cur ++ c)) as [ps [r|]] eqn:D; [|reflexivity].
    rewrite IH; [reflexivity|]. unfold drain' in D. eapply drain_stable; [exact D|lia].
Qed.

(* what one pass delivers: exactly the packets that were sent *)
Definition valid (max : N) (pk : list N) : Prop :=
  hdr pk = Some (N.of_nat (length pk)) /\ (4 <= length pk)%nat /\ N.of_nat (length pk) <= max.

Lemma tars_request_valid max pk rest : valid max pk -> tars_request max (pk ++ rest) = Full (length pk).
Proof.
  intros (Hh & H4 & Hm). unfold tars_request. rewrite (hdr_app _ rest _ Hh).
  destruct ((N.of_nat (length pk) <? 4) || (max <? N.of_nat (length pk))) eqn:E1; [lia|].
  rewrite app_length. destruct (N.of_nat (length pk + length rest) <? N.of_nat (length pk)) eqn:E2; [lia|].
  f_equal. lia.
Qed.

Lemma drain_packets max pks : Forall (valid max) pks -> forall tail,
  drain' max (concat pks ++ tail) =
  let '(ps, r) := drain' max tail in (pks ++ ps, r).
Proof.
  induction 1 as [|pk pks Hv _ IH]; intros tail.
  - cbn [concat app]. destruct (drain' max tail). reflexivity.
  - cbn [concat]. rewrite <- app_assoc. unfold drain' at 1. cbn [drain].
    rewrite (tars_request_valid _ _ _ Hv).
    rewrite firstn_app, skipn_app, Nat.sub_diag, firstn_all, skipn_all. cbn [firstn skipn app]. rewrite app_nil_r.
    destruct Hv as (_ & H4 & _).
    rewrite (drain_fuel _ (S (length (concat pks ++ tail)))); [| rewrite !app_length in *; lia | lia].
    fold (drain' max (concat pks ++ tail)). rewrite IH. destruct (drain' max tail). reflexivity.
Qed.

(* C07, assembled *)
Theorem C07_reassembly max pks chunks : Forall (valid max) pks -> concat chunks = concat pks ->
  recv_loop max [] chunks = (pks, Some []).
Proof.
  intros Hv Hc. rewrite recv_loop_concat by reflexivity. cbn [app]. rewrite Hc.
  rewrite <- (app_nil_r (concat pks)). rewrite drain_packets by assumption. cbn. now rewrite app_nil_r.
Qed.

Theorem C07_partial max pks q chunks : Forall (valid max) pks -> tars_request max q = Less ->
  concat chunks = concat pks ++ q -> recv_loop max [] chunks = (pks, Some q).
Proof.
  intros Hv Hq Hc. rewrite recv_loop_concat by reflexivity. cbn [app]. rewrite Hc.
  rewrite drain_packets by assumption. unfold drain'. cbn [drain]. rewrite Hq. now rewrite app_nil_r.
Qed.

Theorem C07_error max pks bad junk l chunks : Forall (valid max) pks ->
  hdr bad = Some l -> (l < 4 \/ max < l) ->
  concat chunks = concat pks ++ bad ++ junk -> recv_loop max [] chunks = (pks, None).
Proof.
  intros Hv Hh Hl Hc. rewrite recv_loop_concat by reflexivity. cbn [app]. rewrite Hc.
  rewrite drain_packets by assumption. unfold drain'. cbn [drain].
  unfold tars_request. rewrite (hdr_app _ junk _ Hh).
  destruct ((l <? 4) || (max <? l)) eqn:E; [|lia]. now rewrite app_nil_r.
Qed.

(* non-vacuity: a 5-byte packet and a 4-byte packet, max = 5, delivered from single-byte chunks *)
Example C07_example :
  recv_loop 5 [] [[0];[0];[0];[5];[9];[0];[0];[0];[4]] = ([[0;0;0;5;9];[0;0;0;4]], Some []).
Proof. vm_compute. reflexivity. Qed.

(* ---------- strengthened forms used by Props/C07.v ---------- *)

(* a proper prefix of a valid packet is never a complete or an illegal packet *)
Lemma proper_prefix_less max pk q t : valid max pk -> pk = q ++ t -> t <> [] -> tars_request max q = Less.
Proof.
  intros (Hh & H4 & Hm) -> Ht. unfold tars_request.
  destruct (hdr q) as [l|] eqn:E; [|reflexivity].
  rewrite (hdr_app _ t _ E) in Hh. inversion Hh; subst l.
  rewrite app_length in *. assert (0 < length t)%nat by (destruct t; [congruence|cbn; lia]).
  destruct ((N.of_nat (length q + length t) <? 4) || (max <? N.of_nat (length q + length t))) eqn:E1; [lia|].
  destruct (N.of_nat (length q) <? N.of_nat (length q + length t)) eqn:E2; [reflexivity|lia].
Qed.

Theorem C07_partial_prefix max pks pk q t chunks : Forall (valid max) pks -> valid max pk ->
  pk = q ++ t -> t <> [] ->
  concat chunks = concat pks ++ q -> recv_loop max [] chunks = (pks, Some q).
Proof. intros Hv Hp E Ht Hc. eapply C07_partial; eauto. eapply proper_prefix_less; eauto. Qed.

(* independence of segmentation: the outcome is a function of the concatenated stream only *)
Theorem C07_segmentation_independent max chunks1 chunks2 :
  concat chunks1 = concat chunks2 -> recv_loop max [] chunks1 = recv_loop max [] chunks2.
Proof. intros E. rewrite !recv_loop_concat by reflexivity. now rewrite E. Qed.

(* packets as the senders build them: 4-byte big-endian total length, then the body *)
Definition be32 (n : N) : list N := [n / 16777216 mod 256; n / 65536 mod 256; n / 256 mod 256; n mod 256].
Definition mk_packet (body : list N) : list N := be32 (4 + N.of_nat (length body)) ++ body.

Lemma hdr_be32 n r : n < 4294967296 -> hdr (be32 n ++ r) = Some n.
Proof.
  intros H. unfold be32, hdr. cbn [app]. f_equal.
  Ltac Zify.zify_post_hook ::= Z.div_mod_to_equations. lia.
Qed.

Lemma valid_mk_packet max body : 4 + N.of_nat (length body) <= max -> 4 + N.of_nat (length body) < 4294967296 ->
  valid max (mk_packet body).
Proof.
  intros Hm Hr. unfold valid, mk_packet. rewrite app_length. cbn [be32 length].
  replace (N.of_nat (4 + length body)) with (4 + N.of_nat (length body)) by lia.
  split; [apply (hdr_be32 _ body Hr)|]. split; lia.
Qed.

(* a packet of exactly the maximum length is accepted, one byte more is a protocol error *)
Theorem C07_max_accepted max body chunks : 4 + N.of_nat (length body) = max -> max < 4294967296 ->
  concat chunks = mk_packet body -> recv_loop max [] chunks = ([mk_packet body], Some []).
Proof.
  intros Hm Hr Hc. apply C07_reassembly.
  - constructor; [|constructor]. apply valid_mk_packet; lia.
  - cbn [concat]. now rewrite app_nil_r.
Qed.

Theorem C07_max_plus_one_rejected max body junk pks chunks : Forall (valid max) pks ->
  4 + N.of_nat (length body) = max + 1 -> max + 1 < 4294967296 ->
  concat chunks = concat pks ++ mk_packet body ++ junk -> recv_loop max [] chunks = (pks, None).
Proof.
  intros Hv Hm Hr Hc. eapply (C07_error max pks (mk_packet body) junk (max + 1)); eauto.
  - unfold mk_packet. rewrite Hm. apply hdr_be32. lia.
  - right. lia.
Qed.

Theorem C07_short_length_rejected max l junk pks chunks : Forall (valid max) pks -> l < 4 ->
  concat chunks = concat pks ++ be32 l ++ junk -> recv_loop max [] chunks = (pks, None).
Proof.
  intros Hv Hl Hc. eapply (C07_error max pks (be32 l) junk l); eauto.
  - rewrite <- (app_nil_r (be32 l)). apply hdr_be32. lia.
Qed.

Example C07_example_max :
  recv_loop 6 [] [[0;0];[0;6;1];[2;0;0;0;7;1;2;3]] = ([[0;0;0;6;1;2]], None).
Proof. vm_compute. reflexivity. Qed.
