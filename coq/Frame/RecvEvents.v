(* C07 model, extended from chunks to read EVENTS: what the receive loops of tars/transport (tcpHandler.recv on the
   server, connection.recv on the client) do with everything conn.Read can return - a chunk of data, a read timeout
   (isNoDataError), the end of the stream, any other error - the server also looking at its shutdown flag and at the
   idle state of the connection after a failed read.
   [recv_loop] of Framing.v is the special case in which every event is data ([srv_events_data], [cli_events_data]).
   Definitions and the facts that need no code; the tie to the source is Xlate/RecvEventsEquiv.v. *)
From Coq Require Import List NArith Bool.
From TarsV Require Import Base.Hex Frame.Framing.
Import ListNotations.
Open Scope N_scope.

Inductive rev := EData (c : list N) | ETimeout | EEof | EFail.
Definition is_timeout (e : rev) : bool := match e with ETimeout => true | _ => false end.
Definition is_empty (l : list N) : bool := match l with [] => true | _ => false end.

(* ---------- server ---------- *)
(* with the event: is the server shutting down when the loop looks at the flag after the failed read, and does the
   connection count as idle then (no call in progress and the idle time has passed) *)
Record sev := { s_ev : rev; s_closing : bool; s_idle : bool }.

(* after a failed read the server leaves the loop (and closes the connection) when it is shutting down and holds no
   partial package, when the connection is idle and holds no partial package, or when the failure is not a timeout *)
Definition srv_leaves (cur : list N) (e : sev) : bool :=
  (s_closing e && is_empty cur) || (is_empty cur && s_idle e) || negb (is_timeout (s_ev e)).

Fixpoint srv_events (max : N) (cur : list N) (evs : list sev) : list (list N) * option (list N) :=
  match evs with
  | [] => ([], Some cur)
  | e :: es =>
      match s_ev e with
      | EData c => match drain' max (cur ++ c) with
                   | (ps, None) => (ps, None)
                   | (ps, Some cur') => let '(ps', r) := srv_events max cur' es in (ps ++ ps', r)
                   end
      | _ => if srv_leaves cur e then ([], None) else srv_events max cur es
      end
  end.

(* ---------- client ---------- *)
(* a timeout is not an error: next read, same buffer; everything else closes the connection *)
Fixpoint cli_events (max : N) (cur : list N) (evs : list rev) : list (list N) * option (list N) :=
  match evs with
  | [] => ([], Some cur)
  | EData c :: es => match drain' max (cur ++ c) with
                     | (ps, None) => (ps, None)
                     | (ps, Some cur') => let '(ps', r) := cli_events max cur' es in (ps ++ ps', r)
                     end
  | ETimeout :: es => cli_events max cur es
  | _ :: _ => ([], None)
  end.

(* ---------- facts ---------- *)
Lemma srv_events_data : forall max chunks cur f g,
  srv_events max cur (map (fun c => {| s_ev := EData c; s_closing := f c; s_idle := g c |}) chunks) = recv_loop max cur chunks.
Proof.
  intros max. induction chunks as [|c cs IH]; intros cur f g; cbn [map srv_events recv_loop s_ev]; [reflexivity|].
  destruct (drain' max (cur ++ c)) as [ps [cur'|]]; [|reflexivity]. rewrite IH. reflexivity.
Qed.
Lemma cli_events_data : forall max chunks cur, cli_events max cur (map EData chunks) = recv_loop max cur chunks.
Proof.
  intros max. induction chunks as [|c cs IH]; intros cur; cbn [map cli_events recv_loop]; [reflexivity|].
  destruct (drain' max (cur ++ c)) as [ps [cur'|]]; [|reflexivity]. rewrite IH. reflexivity.
Qed.

(* read timeouts are invisible to the client: same packages, same buffered bytes, same end, with or without them *)
Lemma cli_timeouts_invisible : forall max evs cur,
  cli_events max cur evs = cli_events max cur (filter (fun e => negb (is_timeout e)) evs).
Proof.
  intros max. induction evs as [|e es IH]; intros cur; [reflexivity|].
  destruct e as [c| | |]; cbn [filter is_timeout negb cli_events]; try reflexivity.
  - destruct (drain' max (cur ++ c)) as [ps [cur'|]]; [|reflexivity]. rewrite IH. reflexivity.
  - apply IH.
Qed.

(* a read timeout on the server: the loop is left, or goes on with exactly the bytes it held; and it is left only when
   it holds no partial package (and the server shuts down or the connection is idle) *)
Lemma srv_timeout_keeps : forall max cur e es, s_ev e = ETimeout ->
  srv_events max cur (e :: es) = if srv_leaves cur e then ([], None) else srv_events max cur es.
Proof. intros max cur e es H. cbn [srv_events]. rewrite H. reflexivity. Qed.
Lemma srv_timeout_leaves_only_empty : forall cur e, s_ev e = ETimeout -> srv_leaves cur e = true ->
  cur = [] /\ (s_closing e = true \/ s_idle e = true).
Proof.
  intros cur e H. unfold srv_leaves. rewrite H. cbn [is_timeout negb]. rewrite orb_false_r.
  destruct cur; cbn [is_empty]; rewrite ?andb_false_r, ?andb_true_r; cbn [orb andb];
    [|discriminate]. intros L. split; [reflexivity|]. destruct (s_closing e); [left; reflexivity|right; exact L].
Qed.
(* with a partial package buffered, neither shutdown nor idleness nor any number of timeouts makes the server drop it *)
Lemma srv_partial_survives_timeouts : forall max cur es es', cur <> [] ->
  Forall (fun e => s_ev e = ETimeout) es -> srv_events max cur (es ++ es') = srv_events max cur es'.
Proof.
  intros max cur es es' Hc. induction 1 as [|e es He _ IH]; [reflexivity|].
  cbn [app]. rewrite srv_timeout_keeps by exact He. unfold srv_leaves. rewrite He.
  destruct cur; [congruence|]. cbn [is_empty is_timeout negb]. rewrite andb_false_r. cbn [orb andb]. exact IH.
Qed.
