(* C07 model: protocol.TarsRequest and the receive loops of tcphandler.recv / tarsclient.recv.
   Model only; proofs live in FramingProofs.v so the model still evaluates when a proof breaks. *)
From Coq Require Import List NArith Bool Arith.
From TarsV Require Import Base.Hex.
Import ListNotations.
Open Scope N_scope.

(* ---------- model of protocol.TarsRequest and of the receive loops ---------- *)
Inductive pstat := Less | Full (n : nat) | Bad.

Definition hdr (buf : list N) : option N :=
  match buf with a :: b :: c :: d :: _ => Some (((a * 256 + b) * 256 + c) * 256 + d) | _ => None end.

Definition tars_request (max : N) (buf : list N) : pstat :=
  match hdr buf with
  | None => Less
  | Some l => if (l <? 4) || (max <? l) then Bad
              else if N.of_nat (length buf) <? l then Less else Full (N.to_nat l)
  end.

(* inner loop: returns delivered packets and Some remainder, or None when the connection is closed *)
Fixpoint drain (fuel : nat) (max : N) (buf : list N) : list (list N) * option (list N) :=
  match fuel with
  | O => ([], Some buf)
  | S f => match tars_request max buf with
           | Less => ([], Some buf)
           | Bad => ([], None)
           | Full n => let '(ps, r) := drain f max (skipn n buf) in (firstn n buf :: ps, r)
           end
  end.
Definition drain' max buf := drain (S (length buf)) max buf.

(* outer loop over the chunks returned by conn.Read *)
Fixpoint recv_loop (max : N) (cur : list N) (chunks : list (list N)) : list (list N) * option (list N) :=
  match chunks with
  | [] => ([], Some cur)
  | c :: cs => match drain' max (cur ++ c) with
               | (ps, None) => (ps, None)
               | (ps, Some cur') => let '(ps', r) := recv_loop max cur' cs in (ps ++ ps', r)
               end
  end.


(* ---------- correspondence: one case = (max, chunks as read by conn.Read, delivered packets as
   observed on the implementation, connection closed by a protocol error as observed) ---------- *)
Definition c07_case := (N * list hexs * list hexs * bool)%type.
Definition c07_check (c : c07_case) : bool :=
  let '(max, chunks, delivered, closed) := c in
  let '(ps, r) := recv_loop max [] (map unhex chunks) in
  list_eqb bytes_eqb ps (map unhex delivered) &&
  Bool.eqb closed (match r with None => true | Some _ => false end).
Definition c07_mismatches (cs : list c07_case) : list N := failing c07_check cs.
