(* GENERATED from the Go source of the tree by `harness gen-translated` on every run - do not edit.
   Translator: harness/xlate.go; units: harness/xlate_units.go; target language: Xlate/GoSem.v; see design/XLATE.md *)
From Coq Require Import List NArith ZArith Bool.
From TarsV Require Import Xlate.GoSem.
Import ListNotations.
Open Scope Z_scope.

Definition k_protocol_PackageFull : Z := 1.
Definition k_protocol_PackageLess : Z := 0.
Definition k_protocol_PackageError : Z := 2.
(* tars/protocol/tarsprotocol.go: func TarsRequest *)
Definition tr_TarsRequest (maxPackageLength : Z) (rev : (list N)) : ctl unit (Z * Z) :=
  if ((go_len rev) <? 4)
    then Return (0, k_protocol_PackageLess)
    else go_guard (andb (go_slice_ok rev 0 4) (4 <=? go_len (go_slice rev 0 4))) (let iHeaderLen := (go_be_u32 (go_slice rev 0 4)) in
    if (orb (iHeaderLen <? 4) (maxPackageLength <? iHeaderLen))
    then Return (0, k_protocol_PackageError)
    else if ((go_len rev) <? iHeaderLen)
    then Return (0, k_protocol_PackageLess)
    else Return (iHeaderLen, k_protocol_PackageFull)).
