(* GENERATED from the Go source of the tree by `harness gen-translated` on every run - do not edit.
   Translator: harness/xlate.go; units: harness/xlate_units.go; target language: Xlate/GoSem.v; see design/XLATE.md *)
From Coq Require Import List NArith ZArith Bool.
From TarsV Require Import Xlate.GoSem.
Import ListNotations.
Open Scope Z_scope.

Definition k_protocol_PackageFull : Z := 1.
Definition k_protocol_PackageLess : Z := 0.
Definition k_protocol_PackageError : Z := 2.
(* tars/protocol/tarsprotocol.go: func TarsRequest *)
Definition tr_TarsRequest (maxPackageLength : Z) (rev : (list N)) : ctl unit (Z * Z) :=
  if ((go_len rev) <? 4)
    then Return (0, k_protocol_PackageLess)
    else if (andb (go_slice_ok rev 0 4) (4 <=? go_len (go_slice rev 0 4))) then (let iHeaderLen := (go_be_u32 (go_slice rev 0 4)) in
    if (if (iHeaderLen <? 4) then true else (maxPackageLength <? iHeaderLen))
    then Return (0, k_protocol_PackageError)
    else if ((go_len rev) <? iHeaderLen)
    then Return (0, k_protocol_PackageLess)
    else Return (iHeaderLen, k_protocol_PackageFull)) else Panic.

(* tars/protocol/codec/codec.go: func Buffer.WriteHead *)
Definition tr_WriteHead (ty : Z) (tag : Z) (out : list N) : ctl (list N) (list N * bool) :=
  bindc (if (tag <? 15)
      then let data := (Z.lor (wrapU 8 (Z.shiftl tag 4)) ty) in
        let out := out ++ (go_emit_u8 data) in let err__ := false in
        Return (out, err__)
      else let data_1 := (Z.lor 240 ty) in
        let out := out ++ (go_emit_u8 data_1) in let err := false in
        bindc (if (Bool.eqb err false)
          then Next out
          else Return (out, err))
        (fun out : (list N) =>
        let out := out ++ (go_emit_u8 tag) in let err__ := false in
        Return (out, err__)))
    (fun out : (list N) =>
    Next out).

Definition k_codec_ZeroTag : Z := 12.
Definition k_codec_BYTE : Z := 0.
(* tars/protocol/codec/codec.go: func Buffer.WriteInt8 *)
Definition tr_WriteInt8 (data : Z) (tag : Z) (out : list N) : ctl (list N) (list N * bool) :=
  let err : bool := false in
    bindc (if (data =? 0)
      then go_call (tr_WriteHead k_codec_ZeroTag tag out) (fun r__ => let '(out, err) := r__ in
        bindc (if (Bool.eqb err false)
          then Next out
          else Return (out, err))
        (fun out : (list N) =>
        Next (out, err)))
      else go_call (tr_WriteHead k_codec_BYTE tag out) (fun r__ => let '(out, err) := r__ in
        bindc (if (Bool.eqb err false)
          then Next out
          else Return (out, err))
        (fun out : (list N) =>
        let out := out ++ (go_emit_u8 (wrapU 8 data)) in let err := false in
        bindc (if (Bool.eqb err false)
          then Next out
          else Return (out, err))
        (fun out : (list N) =>
        Next (out, err)))))
    (fun st : (list N) * bool => let '(out, err) := st in
    Return (out, false)).

Definition k_math_MinInt8 : Z := (-128).
Definition k_math_MaxInt8 : Z := 127.
Definition k_codec_SHORT : Z := 1.
(* tars/protocol/codec/codec.go: func Buffer.WriteInt16 *)
Definition tr_WriteInt16 (data : Z) (tag : Z) (out : list N) : ctl (list N) (list N * bool) :=
  let err : bool := false in
    bindc (if (if (data <=? k_math_MaxInt8) then (k_math_MinInt8 <=? data) else false)
      then go_call (tr_WriteInt8 (wrapS 8 data) tag out) (fun r__ => let '(out, err) := r__ in
        bindc (if (Bool.eqb err false)
          then Next out
          else Return (out, err))
        (fun out : (list N) =>
        Next (out, err)))
      else go_call (tr_WriteHead k_codec_SHORT tag out) (fun r__ => let '(out, err) := r__ in
        bindc (if (Bool.eqb err false)
          then Next out
          else Return (out, err))
        (fun out : (list N) =>
        let out := out ++ (go_emit_u16 (wrapU 16 data)) in let err := false in
        bindc (if (Bool.eqb err false)
          then Next out
          else Return (out, err))
        (fun out : (list N) =>
        Next (out, err)))))
    (fun st : (list N) * bool => let '(out, err) := st in
    Return (out, false)).

Definition k_math_MinInt16 : Z := (-32768).
Definition k_math_MaxInt16 : Z := 32767.
Definition k_codec_INT : Z := 2.
(* tars/protocol/codec/codec.go: func Buffer.WriteInt32 *)
Definition tr_WriteInt32 (data : Z) (tag : Z) (out : list N) : ctl (list N) (list N * bool) :=
  let err : bool := false in
    bindc (if (if (data <=? k_math_MaxInt16) then (k_math_MinInt16 <=? data) else false)
      then go_call (tr_WriteInt16 (wrapS 16 data) tag out) (fun r__ => let '(out, err) := r__ in
        bindc (if (Bool.eqb err false)
          then Next out
          else Return (out, err))
        (fun out : (list N) =>
        Next (out, err)))
      else go_call (tr_WriteHead k_codec_INT tag out) (fun r__ => let '(out, err) := r__ in
        bindc (if (Bool.eqb err false)
          then Next out
          else Return (out, err))
        (fun out : (list N) =>
        let out := out ++ (go_emit_u32 (wrapU 32 data)) in let err := false in
        bindc (if (Bool.eqb err false)
          then Next out
          else Return (out, err))
        (fun out : (list N) =>
        Next (out, err)))))
    (fun st : (list N) * bool => let '(out, err) := st in
    Return (out, false)).

Definition k_math_MinInt32 : Z := (-2147483648).
Definition k_math_MaxInt32 : Z := 2147483647.
Definition k_codec_LONG : Z := 3.
(* tars/protocol/codec/codec.go: func Buffer.WriteInt64 *)
Definition tr_WriteInt64 (data : Z) (tag : Z) (out : list N) : ctl (list N) (list N * bool) :=
  let err : bool := false in
    bindc (if (if (data <=? k_math_MaxInt32) then (k_math_MinInt32 <=? data) else false)
      then go_call (tr_WriteInt32 (wrapS 32 data) tag out) (fun r__ => let '(out, err) := r__ in
        bindc (if (Bool.eqb err false)
          then Next out
          else Return (out, err))
        (fun out : (list N) =>
        Next (out, err)))
      else go_call (tr_WriteHead k_codec_LONG tag out) (fun r__ => let '(out, err) := r__ in
        bindc (if (Bool.eqb err false)
          then Next out
          else Return (out, err))
        (fun out : (list N) =>
        let out := out ++ (go_emit_u64 (wrapU 64 data)) in let err := false in
        bindc (if (Bool.eqb err false)
          then Next out
          else Return (out, err))
        (fun out : (list N) =>
        Next (out, err)))))
    (fun st : (list N) * bool => let '(out, err) := st in
    Return (out, false)).

(* tars/protocol/codec/codec.go: func Buffer.WriteBool *)
Definition tr_WriteBool (data : bool) (tag : Z) (out : list N) : ctl (list N) (list N * bool) :=
  let tmp := 0 in
    bindc (if data
      then let tmp := 1 in
        Next (out, tmp)
      else Next (out, tmp))
    (fun st : (list N) * Z => let '(out, tmp) := st in
    go_call (tr_WriteInt8 tmp tag out) (fun r__ => let '(out, err__) := r__ in
    Return (out, err__))).

(* tars/protocol/codec/codec.go: func Buffer.WriteUint8 *)
Definition tr_WriteUint8 (data : Z) (tag : Z) (out : list N) : ctl (list N) (list N * bool) :=
  go_call (tr_WriteInt16 data tag out) (fun r__ => let '(out, err__) := r__ in
    Return (out, err__)).

(* tars/protocol/codec/codec.go: func Buffer.WriteUint16 *)
Definition tr_WriteUint16 (data : Z) (tag : Z) (out : list N) : ctl (list N) (list N * bool) :=
  go_call (tr_WriteInt32 data tag out) (fun r__ => let '(out, err__) := r__ in
    Return (out, err__)).

(* tars/protocol/codec/codec.go: func Buffer.WriteUint32 *)
Definition tr_WriteUint32 (data : Z) (tag : Z) (out : list N) : ctl (list N) (list N * bool) :=
  go_call (tr_WriteInt64 data tag out) (fun r__ => let '(out, err__) := r__ in
    Return (out, err__)).

Definition k_codec_STRING4 : Z := 7.
Definition k_codec_STRING1 : Z := 6.
(* tars/protocol/codec/codec.go: func Buffer.WriteString *)
Definition tr_WriteString (data : (list N)) (tag : Z) (out : list N) : ctl (list N) (list N * bool) :=
  let err : bool := false in
    bindc (if (255 <? (go_len data))
      then go_call (tr_WriteHead k_codec_STRING4 tag out) (fun r__ => let '(out, err) := r__ in
        bindc (if (Bool.eqb err false)
          then Next out
          else Return (out, err))
        (fun out : (list N) =>
        let out := out ++ (go_emit_u32 (wrapU 32 (go_len data))) in let err := false in
        bindc (if (Bool.eqb err false)
          then Next out
          else Return (out, err))
        (fun out : (list N) =>
        Next (out, err))))
      else go_call (tr_WriteHead k_codec_STRING1 tag out) (fun r__ => let '(out, err) := r__ in
        bindc (if (Bool.eqb err false)
          then Next out
          else Return (out, err))
        (fun out : (list N) =>
        let out := out ++ (go_emit_u8 (wrapU 8 (go_len data))) in let err := false in
        bindc (if (Bool.eqb err false)
          then Next out
          else Return (out, err))
        (fun out : (list N) =>
        Next (out, err)))))
    (fun st : (list N) * bool => let '(out, err) := st in
    let out := out ++ (go_emit_bytes data) in let err := false in
    bindc (if (Bool.eqb err false)
      then Next out
      else Return (out, err))
    (fun out : (list N) =>
    Return (out, false))).

Definition k_codec_FLOAT : Z := 4.
(* tars/protocol/codec/codec.go: func Buffer.WriteFloat32 *)
Definition tr_WriteFloat32 (data : Z) (tag : Z) (out : list N) : ctl (list N) (list N * bool) :=
  let err : bool := false in
    go_call (tr_WriteHead k_codec_FLOAT tag out) (fun r__ => let '(out, err) := r__ in
    bindc (if (Bool.eqb err false)
      then Next out
      else Return (out, err))
    (fun out : (list N) =>
    let out := out ++ (go_emit_u32 data) in let err := false in
    Return (out, err))).

Definition k_codec_DOUBLE : Z := 5.
(* tars/protocol/codec/codec.go: func Buffer.WriteFloat64 *)
Definition tr_WriteFloat64 (data : Z) (tag : Z) (out : list N) : ctl (list N) (list N * bool) :=
  let err : bool := false in
    go_call (tr_WriteHead k_codec_DOUBLE tag out) (fun r__ => let '(out, err) := r__ in
    bindc (if (Bool.eqb err false)
      then Next out
      else Return (out, err))
    (fun out : (list N) =>
    let out := out ++ (go_emit_u64 data) in let err := false in
    Return (out, err))).

(* tars/protocol/codec/codec.go: func Buffer.WriteBytes *)
Definition tr_WriteBytes (data : (list N)) (out : list N) : ctl (list N) (list N * bool) :=
  let out := out ++ (go_emit_bytes data) in let err := false in
    Return (out, err).

Definition k_endpoint_EStaticWeight : Z := 1.
Definition k_selector_minStaticWeightLimit : Z := 10.
Definition k_selector_maxStaticWeightLimit : Z := 100.
(* struct github.com/TarsCloud/TarsGo/tars/util/endpoint.Endpoint *)
Record go_endpoint_Endpoint := { go_endpoint_Endpoint_Host : (list N);
  go_endpoint_Endpoint_Port : Z;
  go_endpoint_Endpoint_Timeout : Z;
  go_endpoint_Endpoint_Istcp : Z;
  go_endpoint_Endpoint_Grid : Z;
  go_endpoint_Endpoint_Qos : Z;
  go_endpoint_Endpoint_Weight : Z;
  go_endpoint_Endpoint_WeightType : Z;
  go_endpoint_Endpoint_AuthType : Z;
  go_endpoint_Endpoint_Proto : (list N);
  go_endpoint_Endpoint_Bind : (list N);
  go_endpoint_Endpoint_Container : (list N);
  go_endpoint_Endpoint_SetId : (list N);
  go_endpoint_Endpoint_Key : (list N) }.

(* tars/selector/selector.go: func BuildStaticWeightList, statements "^" .. "if minWeight > 0 {" *)
Definition tr_BSWL_range (endpoints : (list go_endpoint_Endpoint)) : ctl (Z * Z * Z * Z) (list Z) :=
  let maxRange : Z := 0 in let totalWeight : Z := 0 in
    let '(minWeight, maxWeight) := (k_math_MaxInt32, k_math_MinInt32) in
    bindc (go_range endpoints (fun (_ : Z) (node : go_endpoint_Endpoint) => fun st : Z * Z => let '(minWeight, maxWeight) := st in
      if ((go_endpoint_Endpoint_WeightType node) =? k_endpoint_EStaticWeight)
      then let weight := (go_endpoint_Endpoint_Weight node) in
      bindc (if (maxWeight <? weight)
        then let maxWeight := weight in
          Next maxWeight
        else Next maxWeight)
      (fun maxWeight : Z =>
      bindc (if (weight <? minWeight)
        then let minWeight := weight in
          Next minWeight
        else Next minWeight)
      (fun minWeight : Z =>
      Next (minWeight, maxWeight)))
      else Return (@nil Z)) (minWeight, maxWeight))
    (fun st : Z * Z => let '(minWeight, maxWeight) := st in
    if (maxWeight <=? 0)
    then Return (@nil Z)
    else bindc (if (0 <? minWeight)
      then if (negb (minWeight =? 0)) then (let maxRange := (wrapS 64 (Z.quot maxWeight minWeight)) in
        bindc (if (maxRange <? k_selector_minStaticWeightLimit)
          then let maxRange := k_selector_minStaticWeightLimit in
            Next maxRange
          else Next maxRange)
        (fun maxRange : Z =>
        bindc (if (k_selector_maxStaticWeightLimit <? maxRange)
          then let maxRange := k_selector_maxStaticWeightLimit in
            Next maxRange
          else Next maxRange)
        (fun maxRange : Z =>
        Next (maxRange, totalWeight)))) else Panic
      else let '(maxRange, totalWeight) := (1, 1) in
        Next (maxRange, totalWeight))
    (fun st : Z * Z => let '(maxRange, totalWeight) := st in
    Next (maxRange, totalWeight, minWeight, maxWeight))).

(* tars/protocol/codec/codec.go: func Reader.readHead *)
Definition tr_readHead (rd : go_reader) : ctl unit (go_reader * Z * Z * bool) :=
  let ty : Z := 0 in
    let tag : Z := 0 in
    let err : bool := false in
    let '(rd, data, err) := (go_rd_readbyte rd) in
    bindc (if (Bool.eqb err false)
      then Next rd
      else Return (rd, ty, tag, err))
    (fun rd : go_reader =>
    let ty := (Z.land data 15) in
    let tag := (Z.shiftr (Z.land data 240) 4) in
    bindc (if (tag =? 15)
      then let '(rd, data, err) := (go_rd_readbyte rd) in
        bindc (if (Bool.eqb err false)
          then Next rd
          else Return (rd, ty, tag, err))
        (fun rd : go_reader =>
        let tag := data in
        Next (rd, tag, err, data))
      else Next (rd, tag, err, data))
    (fun st : go_reader * Z * bool * Z => let '(rd, tag, err, data) := st in
    Return (rd, ty, tag, err))).

(* tars/protocol/codec/codec.go: func Reader.unreadHead *)
Definition tr_unreadHead (curTag : Z) (rd : go_reader) : ctl unit go_reader :=
  let '(rd, _) := (go_rd_unreadbyte rd) in
    bindc (if (15 <=? curTag)
      then let '(rd, _) := (go_rd_unreadbyte rd) in
        Next rd
      else Next rd)
    (fun rd : go_reader =>
    Return rd).

(* tars/protocol/codec/codec.go: func Reader.Next *)
Definition tr_Next (n : Z) (rd : go_reader) : ctl unit (go_reader * (list N)) :=
  bindc (if (n <=? 0)
      then Return (rd, (@nil N))
      else Next rd)
    (fun rd : go_reader =>
    let beg := (wrapS 64 ((go_len (rd_ref rd)) - (go_rd_len rd))) in
    let '(rd, _, _) := (go_rd_seekcur n rd) in
    let end_ := (wrapS 64 ((go_len (rd_ref rd)) - (go_rd_len rd))) in
    if (go_slice_ok (rd_ref rd) beg end_) then (Return (rd, (go_slice (rd_ref rd) beg end_))) else Panic).

(* tars/protocol/codec/codec.go: func Reader.Skip *)
Definition tr_Skip (n : Z) (rd : go_reader) : ctl unit go_reader :=
  bindc (if (n <=? 0)
      then Return rd
      else Next rd)
    (fun rd : go_reader =>
    let '(rd, _, _) := (go_rd_seekcur n rd) in
    Return rd).

Definition k_codec_maxSkipDepth : Z := 512.
(* tars/protocol/codec/codec.go: func Reader.skipNested *)
Definition tr_skipNested (skip : go_reader -> ctl unit (go_reader * bool)) (rd : go_reader) : ctl unit (go_reader * bool) :=
  bindc (if (k_codec_maxSkipDepth <=? (rd_depth rd))
      then Return (rd, true)
      else Next rd)
    (fun rd : go_reader =>
    let rd := go_rd_set_depth rd (wrapS 64 ((rd_depth rd) + 1)) in
    go_call (skip rd) (fun r__ => let '(rd, err) := r__ in
    let rd := go_rd_set_depth rd (wrapS 64 ((rd_depth rd) - 1)) in
    Return (rd, err))).

Definition k_codec_StructEnd : Z := 11.
(* tars/protocol/codec/codec.go: func Reader.skipFieldMap *)
Fixpoint tr_skipFieldMap (fuel : nat) (rd : go_reader) {struct fuel} : ctl unit (go_reader * bool) :=
  match fuel with O => Panic | S fuel =>
  let length : Z := 0 in
    go_call (tr_ReadInt32 fuel length 0 true rd) (fun r__ => let '(rd, length, err) := r__ in
    bindc (if (Bool.eqb err false)
      then Next rd
      else Return (rd, err))
    (fun rd : go_reader =>
    bindc (go_count 0 (wrapS 32 (length * 2)) (fun (i : Z) => fun rd : go_reader =>
      go_call (tr_readHead rd) (fun r__ => let '(rd, tyCur, _, err_1) := r__ in
      bindc (if (Bool.eqb err_1 false)
        then Next rd
        else Return (rd, err_1))
      (fun rd : go_reader =>
      go_call (tr_skipField fuel tyCur rd) (fun r__ => let '(rd, _) := r__ in
      Next rd)))) rd)
    (fun rd : go_reader =>
    Return (rd, false))))
  end
(* tars/protocol/codec/codec.go: func Reader.skipFieldList *)
with tr_skipFieldList (fuel : nat) (rd : go_reader) {struct fuel} : ctl unit (go_reader * bool) :=
  match fuel with O => Panic | S fuel =>
  let length : Z := 0 in
    go_call (tr_ReadInt32 fuel length 0 true rd) (fun r__ => let '(rd, length, err) := r__ in
    bindc (if (Bool.eqb err false)
      then Next rd
      else Return (rd, err))
    (fun rd : go_reader =>
    bindc (go_count 0 length (fun (i : Z) => fun rd : go_reader =>
      go_call (tr_readHead rd) (fun r__ => let '(rd, tyCur, _, err_1) := r__ in
      bindc (if (Bool.eqb err_1 false)
        then Next rd
        else Return (rd, err_1))
      (fun rd : go_reader =>
      go_call (tr_skipField fuel tyCur rd) (fun r__ => let '(rd, _) := r__ in
      Next rd)))) rd)
    (fun rd : go_reader =>
    Return (rd, false))))
  end
(* tars/protocol/codec/codec.go: func Reader.skipFieldSimpleList *)
with tr_skipFieldSimpleList (fuel : nat) (rd : go_reader) {struct fuel} : ctl unit (go_reader * bool) :=
  match fuel with O => Panic | S fuel =>
  go_call (tr_readHead rd) (fun r__ => let '(rd, tyCur, _, err) := r__ in
    bindc (if (tyCur =? k_codec_BYTE)
      then Next rd
      else Return (rd, true))
    (fun rd : go_reader =>
    bindc (if (Bool.eqb err false)
      then Next rd
      else Return (rd, err))
    (fun rd : go_reader =>
    let length : Z := 0 in
    go_call (tr_ReadInt32 fuel length 0 true rd) (fun r__ => let '(rd, length, err) := r__ in
    bindc (if (Bool.eqb err false)
      then Next rd
      else Return (rd, err))
    (fun rd : go_reader =>
    go_call (tr_Skip length rd) (fun rd =>
    Return (rd, false)))))))
  end
(* tars/protocol/codec/codec.go: func Reader.skipField *)
with tr_skipField (fuel : nat) (ty : Z) (rd : go_reader) {struct fuel} : ctl unit (go_reader * bool) :=
  match fuel with O => Panic | S fuel =>
  let tag__1 := ty in
    bindc (if (tag__1 =? 0) then go_call (tr_Skip 1 rd) (fun rd =>
        Next rd)
      else (if (tag__1 =? 1) then go_call (tr_Skip 2 rd) (fun rd =>
        Next rd)
      else (if (tag__1 =? 2) then go_call (tr_Skip 4 rd) (fun rd =>
        Next rd)
      else (if (tag__1 =? 3) then go_call (tr_Skip 8 rd) (fun rd =>
        Next rd)
      else (if (tag__1 =? 4) then go_call (tr_Skip 4 rd) (fun rd =>
        Next rd)
      else (if (tag__1 =? 5) then go_call (tr_Skip 8 rd) (fun rd =>
        Next rd)
      else (if (tag__1 =? 6) then let '(rd, data, err) := (go_rd_readbyte rd) in
        bindc (if (Bool.eqb err false)
          then Next rd
          else Return (rd, err))
        (fun rd : go_reader =>
        let l := data in
        go_call (tr_Skip l rd) (fun rd =>
        Next rd))
      else (if (tag__1 =? 7) then let l_1 : Z := 0 in
        let '(rd, l_1, err_1) := (go_rd_u32 rd) in
        bindc (if (Bool.eqb err_1 false)
          then Next rd
          else Return (rd, err_1))
        (fun rd : go_reader =>
        go_call (tr_Skip l_1 rd) (fun rd =>
        Next rd))
      else (if (tag__1 =? 8) then go_call (tr_skipNested (tr_skipFieldMap fuel) rd) (fun r__ => let '(rd, err_2) := r__ in
        bindc (if (Bool.eqb err_2 false)
          then Next rd
          else Return (rd, err_2))
        (fun rd : go_reader =>
        Next rd))
      else (if (tag__1 =? 9) then go_call (tr_skipNested (tr_skipFieldList fuel) rd) (fun r__ => let '(rd, err_3) := r__ in
        bindc (if (Bool.eqb err_3 false)
          then Next rd
          else Return (rd, err_3))
        (fun rd : go_reader =>
        Next rd))
      else (if (tag__1 =? 13) then go_call (tr_skipFieldSimpleList fuel rd) (fun r__ => let '(rd, err_4) := r__ in
        bindc (if (Bool.eqb err_4 false)
          then Next rd
          else Return (rd, err_4))
        (fun rd : go_reader =>
        Next rd))
      else (if (tag__1 =? 10) then go_call (tr_skipNested (tr_SkipToStructEnd fuel) rd) (fun r__ => let '(rd, err_5) := r__ in
        bindc (if (Bool.eqb err_5 false)
          then Next rd
          else Return (rd, err_5))
        (fun rd : go_reader =>
        Next rd))
      else (if (tag__1 =? 11) then Next rd
      else (if (tag__1 =? 12) then Next rd
      else (Return (rd, true))))))))))))))))
    (fun rd : go_reader =>
    Return (rd, false))
  end
(* tars/protocol/codec/codec.go: func Reader.SkipToStructEnd *)
with tr_SkipToStructEnd (fuel : nat) (rd : go_reader) {struct fuel} : ctl unit (go_reader * bool) :=
  match fuel with O => Panic | S fuel =>
  go_iter (go_call (tr_readHead rd) (fun r__ => let '(rd, ty, _, err) := r__ in
      bindc (if (Bool.eqb err false)
        then Next rd
        else Return (inr (rd, err)))
      (fun rd : go_reader =>
      go_call (tr_skipField fuel ty rd) (fun r__ => let '(rd, err) := r__ in
      bindc (if (Bool.eqb err false)
        then Next rd
        else Return (inr (rd, err)))
      (fun rd : go_reader =>
      bindc (if (ty =? k_codec_StructEnd)
        then Return (inl rd)
        else Next rd)
      (fun rd : go_reader =>
      Next rd))))))
    (fun rd : go_reader =>
    Return (rd, false))
    (fun rd : go_reader => tr_SkipToStructEnd fuel rd)
  end
(* tars/protocol/codec/codec.go: func Reader.SkipToNoCheck *)
with tr_SkipToNoCheck (fuel : nat) (tag : Z) (require : bool) (rd : go_reader) {struct fuel} : ctl unit (go_reader * bool * Z * bool) :=
  match fuel with O => Panic | S fuel =>
  go_iter (go_call (tr_readHead rd) (fun r__ => let '(rd, tyCur, tagCur, err) := r__ in
      bindc (if (Bool.eqb err false)
        then Next rd
        else bindc (if require
            then Return (inr (rd, false, tyCur, true))
            else Next rd)
          (fun rd : go_reader =>
          Return (inr (rd, false, tyCur, false))))
      (fun rd : go_reader =>
      bindc (if (if (tag <? tagCur) then true else (tyCur =? k_codec_StructEnd))
        then bindc (if require
            then Return (inr (rd, false, tyCur, true))
            else Next rd)
          (fun rd : go_reader =>
          go_call (tr_unreadHead tagCur rd) (fun rd =>
          Return (inr (rd, false, tyCur, false))))
        else Next rd)
      (fun rd : go_reader =>
      bindc (if (tagCur =? tag)
        then Return (inr (rd, true, tyCur, false))
        else Next rd)
      (fun rd : go_reader =>
      go_call (tr_skipField fuel tyCur rd) (fun r__ => let '(rd, err) := r__ in
      bindc (if (Bool.eqb err false)
        then Next rd
        else Return (inr (rd, false, tyCur, err)))
      (fun rd : go_reader =>
      Next rd)))))))
    (fun rd : go_reader =>
    Panic)
    (fun rd : go_reader => tr_SkipToNoCheck fuel tag require rd)
  end
(* tars/protocol/codec/codec.go: func Reader.ReadInt32 *)
with tr_ReadInt32 (fuel : nat) (data : Z) (tag : Z) (require : bool) (rd : go_reader) {struct fuel} : ctl unit (go_reader * Z * bool) :=
  match fuel with O => Panic | S fuel =>
  go_call (tr_SkipToNoCheck fuel tag require rd) (fun r__ => let '(rd, have, ty, err) := r__ in
    bindc (if (Bool.eqb err false)
      then Next rd
      else Return (rd, data, err))
    (fun rd : go_reader =>
    bindc (if have
      then Next rd
      else Return (rd, data, false))
    (fun rd : go_reader =>
    let tag__1 := ty in
    bindc (if (tag__1 =? 12) then let data := 0 in
        Next (rd, data, err)
      else (if (tag__1 =? 0) then let tmp : Z := 0 in
        let '(rd, tmp, err) := (go_rd_u8 rd) in
        let data := (wrapS 8 tmp) in
        Next (rd, data, err)
      else (if (tag__1 =? 1) then let tmp_1 : Z := 0 in
        let '(rd, tmp_1, err) := (go_rd_u16 rd) in
        let data := (wrapS 16 tmp_1) in
        Next (rd, data, err)
      else (if (tag__1 =? 2) then let tmp_2 : Z := 0 in
        let '(rd, tmp_2, err) := (go_rd_u32 rd) in
        let data := (wrapS 32 tmp_2) in
        Next (rd, data, err)
      else (Return (rd, data, true))))))
    (fun st : go_reader * Z * bool => let '(rd, data, err) := st in
    bindc (if (Bool.eqb err false)
      then Next (rd, err)
      else let err := true in
        Next (rd, err))
    (fun st : go_reader * bool => let '(rd, err) := st in
    Return (rd, data, err))))))
  end.

(* tars/protocol/codec/codec.go: func Reader.SkipTo *)
Definition tr_SkipTo (fuel : nat) (ty : Z) (tag : Z) (require : bool) (rd : go_reader) : ctl unit (go_reader * bool * bool) :=
  go_call (tr_SkipToNoCheck fuel tag require rd) (fun r__ => let '(rd, have, tyCur, err) := r__ in
    bindc (if (Bool.eqb err false)
      then Next rd
      else Return (rd, false, err))
    (fun rd : go_reader =>
    bindc (if (if (negb (ty =? tyCur)) then have else false)
      then Return (rd, false, true)
      else Next rd)
    (fun rd : go_reader =>
    Return (rd, have, false)))).

(* tars/protocol/codec/codec.go: func Reader.ReadInt8 *)
Definition tr_ReadInt8 (fuel : nat) (data : Z) (tag : Z) (require : bool) (rd : go_reader) : ctl unit (go_reader * Z * bool) :=
  go_call (tr_SkipToNoCheck fuel tag require rd) (fun r__ => let '(rd, have, ty, err) := r__ in
    bindc (if (Bool.eqb err false)
      then Next rd
      else Return (rd, data, err))
    (fun rd : go_reader =>
    bindc (if have
      then Next rd
      else Return (rd, data, false))
    (fun rd : go_reader =>
    let tag__1 := ty in
    bindc (if (tag__1 =? 12) then let data := 0 in
        Next (rd, data, err)
      else (if (tag__1 =? 0) then let tmp : Z := 0 in
        let '(rd, tmp, err) := (go_rd_u8 rd) in
        let data := (wrapS 8 tmp) in
        Next (rd, data, err)
      else (Return (rd, data, true))))
    (fun st : go_reader * Z * bool => let '(rd, data, err) := st in
    bindc (if (Bool.eqb err false)
      then Next (rd, err)
      else let err := true in
        Next (rd, err))
    (fun st : go_reader * bool => let '(rd, err) := st in
    Return (rd, data, err)))))).

(* tars/protocol/codec/codec.go: func Reader.ReadInt16 *)
Definition tr_ReadInt16 (fuel : nat) (data : Z) (tag : Z) (require : bool) (rd : go_reader) : ctl unit (go_reader * Z * bool) :=
  go_call (tr_SkipToNoCheck fuel tag require rd) (fun r__ => let '(rd, have, ty, err) := r__ in
    bindc (if (Bool.eqb err false)
      then Next rd
      else Return (rd, data, err))
    (fun rd : go_reader =>
    bindc (if have
      then Next rd
      else Return (rd, data, false))
    (fun rd : go_reader =>
    let tag__1 := ty in
    bindc (if (tag__1 =? 12) then let data := 0 in
        Next (rd, data, err)
      else (if (tag__1 =? 0) then let tmp : Z := 0 in
        let '(rd, tmp, err) := (go_rd_u8 rd) in
        let data := (wrapS 8 tmp) in
        Next (rd, data, err)
      else (if (tag__1 =? 1) then let tmp_1 : Z := 0 in
        let '(rd, tmp_1, err) := (go_rd_u16 rd) in
        let data := (wrapS 16 tmp_1) in
        Next (rd, data, err)
      else (Return (rd, data, true)))))
    (fun st : go_reader * Z * bool => let '(rd, data, err) := st in
    bindc (if (Bool.eqb err false)
      then Next (rd, err)
      else let err := true in
        Next (rd, err))
    (fun st : go_reader * bool => let '(rd, err) := st in
    Return (rd, data, err)))))).

(* tars/protocol/codec/codec.go: func Reader.ReadInt64 *)
Definition tr_ReadInt64 (fuel : nat) (data : Z) (tag : Z) (require : bool) (rd : go_reader) : ctl unit (go_reader * Z * bool) :=
  go_call (tr_SkipToNoCheck fuel tag require rd) (fun r__ => let '(rd, have, ty, err) := r__ in
    bindc (if (Bool.eqb err false)
      then Next rd
      else Return (rd, data, err))
    (fun rd : go_reader =>
    bindc (if have
      then Next rd
      else Return (rd, data, false))
    (fun rd : go_reader =>
    let tag__1 := ty in
    bindc (if (tag__1 =? 12) then let data := 0 in
        Next (rd, data, err)
      else (if (tag__1 =? 0) then let tmp : Z := 0 in
        let '(rd, tmp, err) := (go_rd_u8 rd) in
        let data := (wrapS 8 tmp) in
        Next (rd, data, err)
      else (if (tag__1 =? 1) then let tmp_1 : Z := 0 in
        let '(rd, tmp_1, err) := (go_rd_u16 rd) in
        let data := (wrapS 16 tmp_1) in
        Next (rd, data, err)
      else (if (tag__1 =? 2) then let tmp_2 : Z := 0 in
        let '(rd, tmp_2, err) := (go_rd_u32 rd) in
        let data := (wrapS 32 tmp_2) in
        Next (rd, data, err)
      else (if (tag__1 =? 3) then let tmp_3 : Z := 0 in
        let '(rd, tmp_3, err) := (go_rd_u64 rd) in
        let data := (wrapS 64 tmp_3) in
        Next (rd, data, err)
      else (Return (rd, data, true)))))))
    (fun st : go_reader * Z * bool => let '(rd, data, err) := st in
    bindc (if (Bool.eqb err false)
      then Next (rd, err)
      else let err := true in
        Next (rd, err))
    (fun st : go_reader * bool => let '(rd, err) := st in
    Return (rd, data, err)))))).

(* tars/protocol/codec/codec.go: func Reader.ReadUint8 *)
Definition tr_ReadUint8 (fuel : nat) (data : Z) (tag : Z) (require : bool) (rd : go_reader) : ctl unit (go_reader * Z * bool) :=
  let n := data in
    go_call (tr_ReadInt16 fuel n tag require rd) (fun r__ => let '(rd, n, err) := r__ in
    let data := (wrapU 8 n) in
    Return (rd, data, err)).

(* tars/protocol/codec/codec.go: func Reader.ReadUint16 *)
Definition tr_ReadUint16 (fuel : nat) (data : Z) (tag : Z) (require : bool) (rd : go_reader) : ctl unit (go_reader * Z * bool) :=
  let n := data in
    go_call (tr_ReadInt32 fuel n tag require rd) (fun r__ => let '(rd, n, err) := r__ in
    let data := (wrapU 16 n) in
    Return (rd, data, err)).

(* tars/protocol/codec/codec.go: func Reader.ReadUint32 *)
Definition tr_ReadUint32 (fuel : nat) (data : Z) (tag : Z) (require : bool) (rd : go_reader) : ctl unit (go_reader * Z * bool) :=
  let n := data in
    go_call (tr_ReadInt64 fuel n tag require rd) (fun r__ => let '(rd, n, err) := r__ in
    let data := (wrapU 32 n) in
    Return (rd, data, err)).

(* tars/protocol/codec/codec.go: func Reader.ReadBool *)
Definition tr_ReadBool (fuel : nat) (data : bool) (tag : Z) (require : bool) (rd : go_reader) : ctl unit (go_reader * bool * bool) :=
  let tmp : Z := 0 in
    bindc (if data
      then let tmp := 1 in
        Next (rd, tmp)
      else Next (rd, tmp))
    (fun st : go_reader * Z => let '(rd, tmp) := st in
    go_call (tr_ReadInt8 fuel tmp tag require rd) (fun r__ => let '(rd, tmp, err) := r__ in
    bindc (if (Bool.eqb err false)
      then Next rd
      else Return (rd, data, err))
    (fun rd : go_reader =>
    bindc (if (tmp =? 0)
      then let data := false in
        Next (rd, data)
      else let data := true in
        Next (rd, data))
    (fun st : go_reader * bool => let '(rd, data) := st in
    Return (rd, data, false))))).

(* tars/protocol/codec/codec.go: func Reader.ReadString *)
Definition tr_ReadString (fuel : nat) (data : (list N)) (tag : Z) (require : bool) (rd : go_reader) : ctl unit (go_reader * (list N) * bool) :=
  go_call (tr_SkipToNoCheck fuel tag require rd) (fun r__ => let '(rd, have, ty, err) := r__ in
    bindc (if (Bool.eqb err false)
      then Next rd
      else Return (rd, data, err))
    (fun rd : go_reader =>
    bindc (if have
      then Next rd
      else Return (rd, data, false))
    (fun rd : go_reader =>
    bindc (if (ty =? k_codec_STRING4)
      then let length : Z := 0 in
        let '(rd, length, err) := (go_rd_u32 rd) in
        bindc (if (Bool.eqb err false)
          then Next rd
          else Return (rd, data, true))
        (fun rd : go_reader =>
        bindc (if ((go_rd_len rd) <? length)
          then Return (rd, data, true)
          else Next rd)
        (fun rd : go_reader =>
        go_call (tr_Next length rd) (fun r__ => let '(rd, buff) := r__ in
        let data := buff in
        Next (rd, data, err))))
      else bindc (if (ty =? k_codec_STRING1)
          then let length_1 : Z := 0 in
            let '(rd, length_1, err) := (go_rd_u8 rd) in
            bindc (if (Bool.eqb err false)
              then Next rd
              else Return (rd, data, true))
            (fun rd : go_reader =>
            bindc (if ((go_rd_len rd) <? length_1)
              then Return (rd, data, true)
              else Next rd)
            (fun rd : go_reader =>
            go_call (tr_Next length_1 rd) (fun r__ => let '(rd, buff_1) := r__ in
            let data := buff_1 in
            Next (rd, data, err))))
          else Return (rd, data, true))
        (fun st : go_reader * (list N) * bool => let '(rd, data, err) := st in
        Next (rd, data, err)))
    (fun st : go_reader * (list N) * bool => let '(rd, data, err) := st in
    Return (rd, data, false))))).

(* tars/protocol/codec/codec.go: func Reader.ReadFloat32 *)
Definition tr_ReadFloat32 (fuel : nat) (data : Z) (tag : Z) (require : bool) (rd : go_reader) : ctl unit (go_reader * Z * bool) :=
  go_call (tr_SkipToNoCheck fuel tag require rd) (fun r__ => let '(rd, have, ty, err) := r__ in
    bindc (if (Bool.eqb err false)
      then Next rd
      else Return (rd, data, err))
    (fun rd : go_reader =>
    bindc (if have
      then Next rd
      else Return (rd, data, false))
    (fun rd : go_reader =>
    let tag__1 := ty in
    bindc (if (tag__1 =? 12) then let data := 0 in
        Next (rd, data, err)
      else (if (tag__1 =? 4) then let tmp : Z := 0 in
        let '(rd, tmp, err) := (go_rd_u32 rd) in
        let data := tmp in
        Next (rd, data, err)
      else (Return (rd, data, true))))
    (fun st : go_reader * Z * bool => let '(rd, data, err) := st in
    bindc (if (Bool.eqb err false)
      then Next (rd, err)
      else let err := true in
        Next (rd, err))
    (fun st : go_reader * bool => let '(rd, err) := st in
    Return (rd, data, err)))))).

(* tars/protocol/codec/codec.go: func Reader.ReadFloat64 *)
Definition tr_ReadFloat64 (fuel : nat) (data : Z) (tag : Z) (require : bool) (rd : go_reader) : ctl unit (go_reader * Z * bool) :=
  go_call (tr_SkipToNoCheck fuel tag require rd) (fun r__ => let '(rd, have, ty, err) := r__ in
    bindc (if (Bool.eqb err false)
      then Next rd
      else Return (rd, data, err))
    (fun rd : go_reader =>
    bindc (if have
      then Next rd
      else Return (rd, data, false))
    (fun rd : go_reader =>
    let tag__1 := ty in
    bindc (if (tag__1 =? 12) then let data := 0 in
        Next (rd, data, err)
      else (if (tag__1 =? 4) then let tmp : Z := 0 in
        let '(rd, tmp, err) := (go_rd_u32 rd) in
        let data := (go_f32_to_f64 tmp) in
        Next (rd, data, err)
      else (if (tag__1 =? 5) then let tmp_1 : Z := 0 in
        let '(rd, tmp_1, err) := (go_rd_u64 rd) in
        let data := tmp_1 in
        Next (rd, data, err)
      else (Return (rd, data, true)))))
    (fun st : go_reader * Z * bool => let '(rd, data, err) := st in
    bindc (if (Bool.eqb err false)
      then Next (rd, err)
      else let err := true in
        Next (rd, err))
    (fun st : go_reader * bool => let '(rd, err) := st in
    Return (rd, data, err)))))).

(* tars/protocol/codec/codec.go: func Reader.ReadSliceUint8 *)
Definition tr_ReadSliceUint8 (data : (list N)) (len : Z) (require : bool) (rd : go_reader) : ctl unit (go_reader * (list N) * bool) :=
  bindc (if (if (len <? 0) then true else ((go_rd_len rd) <? len))
      then Return (rd, data, true)
      else Next rd)
    (fun rd : go_reader =>
    if (0 <=? len) then (let data := (go_make len 0%N) in
    bindc (if (len =? 0)
      then Return (rd, data, false)
      else Next rd)
    (fun rd : go_reader =>
    let '(rd, data, _, err) := (go_rd_read data rd) in
    bindc (if (Bool.eqb err false)
      then Next (rd, err)
      else let err := true in
        Next (rd, err))
    (fun st : go_reader * bool => let '(rd, err) := st in
    Return (rd, data, err)))) else Panic).

(* tars/protocol/codec/codec.go: func Reader.ReadBytes *)
Definition tr_ReadBytes (data : (list N)) (len : Z) (require : bool) (rd : go_reader) : ctl unit (go_reader * (list N) * bool) :=
  bindc (if (if (len <? 0) then true else ((go_rd_len rd) <? len))
      then Return (rd, data, true)
      else Next rd)
    (fun rd : go_reader =>
    if (0 <=? len) then (let data := (go_make len 0%N) in
    let '(rd, data, _, err) := (go_rd_readfull data rd) in
    Return (rd, data, err)) else Panic).

(* tars/servant.go: func ServantProxy.genRequestID, statements "^" .. "atomic.CompareAndSwapInt32(&msgID, maxInt32, 1)" *)
Definition tr_genRequestID_cas (maxInt32 : Z) (rd : Z) : ctl Z (Z * Z) :=
  let '(rd, _) := (go_atomic_cas32 maxInt32 1 rd) in
    Next rd.

(* tars/servant.go: func ServantProxy.genRequestID, statements "for {" .. "for {" *)
Fixpoint tr_genRequestID_loop (fuel : nat) (rd : Z) {struct fuel} : ctl Z (Z * Z) :=
  match fuel with O => Panic | S fuel =>
  go_iter (let '(rd, v) := (go_atomic_add32 1 rd) in
      bindc (if (v =? 0)
        then Next rd
        else Return (inr (rd, v)))
      (fun rd : Z =>
      Next rd))
    (fun rd : Z =>
    Next rd)
    (fun rd : Z => tr_genRequestID_loop fuel rd)
  end.

(* tars/selector/roundrobin/round_robin.go: func RoundRobin.Select *)
Definition tr_rr_Select (r_endpoints : (list go_endpoint_Endpoint)) (r_lastPosition : Z) (r_staticWeightRouterCache : (list Z)) (r_lastStaticWeightPosition : Z) : ctl unit (go_endpoint_Endpoint * bool * Z * Z) :=
  let ep : go_endpoint_Endpoint := (Build_go_endpoint_Endpoint (@nil N) 0 0 0 0 0 0 0 0 (@nil N) (@nil N) (@nil N) (@nil N) (@nil N)) in
    if ((go_len r_endpoints) =? 0)
    then Return (ep, true, r_lastPosition, r_lastStaticWeightPosition)
    else if ((go_len r_staticWeightRouterCache) =? 0)
    then let r_lastPosition := (wrapU 64 (r_lastPosition + 1)) in let idx := r_lastPosition in
    if (andb (negb ((wrapU 64 (go_len r_endpoints)) =? 0)) (go_in_range r_endpoints (Z.rem idx (wrapU 64 (go_len r_endpoints))))) then (let ep := (go_nth r_endpoints (Z.rem idx (wrapU 64 (go_len r_endpoints))) (Build_go_endpoint_Endpoint (@nil N) 0 0 0 0 0 0 0 0 (@nil N) (@nil N) (@nil N) (@nil N) (@nil N))) in
    Return (ep, false, r_lastPosition, r_lastStaticWeightPosition)) else Panic
    else let r_lastStaticWeightPosition := (wrapU 64 (r_lastStaticWeightPosition + 1)) in let idx_1 := r_lastStaticWeightPosition in
      if (andb (andb (negb ((wrapU 64 (go_len r_staticWeightRouterCache)) =? 0)) (go_in_range r_staticWeightRouterCache (Z.rem idx_1 (wrapU 64 (go_len r_staticWeightRouterCache))))) (go_in_range r_endpoints (go_nth r_staticWeightRouterCache (Z.rem idx_1 (wrapU 64 (go_len r_staticWeightRouterCache))) 0))) then (Return ((go_nth r_endpoints (go_nth r_staticWeightRouterCache (Z.rem idx_1 (wrapU 64 (go_len r_staticWeightRouterCache))) 0) (Build_go_endpoint_Endpoint (@nil N) 0 0 0 0 0 0 0 0 (@nil N) (@nil N) (@nil N) (@nil N) (@nil N))), false, r_lastPosition, r_lastStaticWeightPosition)) else Panic.

(* tars/selector/modhash/modhash.go: func ModHash.Select *)
Definition tr_mh_Select (m_endpoints : (list go_endpoint_Endpoint)) (m_staticWeightRouterCache : (list Z)) (hashCode_ : Z) : ctl unit (go_endpoint_Endpoint * bool) :=
  let ep : go_endpoint_Endpoint := (Build_go_endpoint_Endpoint (@nil N) 0 0 0 0 0 0 0 0 (@nil N) (@nil N) (@nil N) (@nil N) (@nil N)) in
    if ((go_len m_endpoints) =? 0)
    then Return (ep, true)
    else let hashCode := hashCode_ in
    if ((go_len m_staticWeightRouterCache) =? 0)
    then if (andb (negb ((wrapU 32 (go_len m_endpoints)) =? 0)) (go_in_range m_endpoints (Z.rem hashCode (wrapU 32 (go_len m_endpoints))))) then (Return ((go_nth m_endpoints (Z.rem hashCode (wrapU 32 (go_len m_endpoints))) (Build_go_endpoint_Endpoint (@nil N) 0 0 0 0 0 0 0 0 (@nil N) (@nil N) (@nil N) (@nil N) (@nil N))), false)) else Panic
    else if (andb (negb ((wrapU 32 (go_len m_staticWeightRouterCache)) =? 0)) (go_in_range m_staticWeightRouterCache (Z.rem hashCode (wrapU 32 (go_len m_staticWeightRouterCache))))) then (let idx := (go_nth m_staticWeightRouterCache (Z.rem hashCode (wrapU 32 (go_len m_staticWeightRouterCache))) 0) in
      if (go_in_range m_endpoints idx) then (Return ((go_nth m_endpoints idx (Build_go_endpoint_Endpoint (@nil N) 0 0 0 0 0 0 0 0 (@nil N) (@nil N) (@nil N) (@nil N) (@nil N))), false)) else Panic) else Panic.

(* tars/selector/random/random.go: func Random.Select *)
Definition tr_rnd_Select (r_endpoints : (list go_endpoint_Endpoint)) (r_staticWeightRouterCache : (list Z)) (draw_eps : Z) (draw_cache : Z) : ctl unit (go_endpoint_Endpoint * bool) :=
  let ep : go_endpoint_Endpoint := (Build_go_endpoint_Endpoint (@nil N) 0 0 0 0 0 0 0 0 (@nil N) (@nil N) (@nil N) (@nil N) (@nil N)) in
    if ((go_len r_endpoints) =? 0)
    then Return (ep, true)
    else if ((go_len r_staticWeightRouterCache) =? 0)
    then if (go_in_range r_endpoints draw_eps) then (Return ((go_nth r_endpoints draw_eps (Build_go_endpoint_Endpoint (@nil N) 0 0 0 0 0 0 0 0 (@nil N) (@nil N) (@nil N) (@nil N) (@nil N))), false)) else Panic
    else if (go_in_range r_staticWeightRouterCache draw_cache) then (let idx := (go_nth r_staticWeightRouterCache draw_cache 0) in
      if (go_in_range r_endpoints idx) then (Return ((go_nth r_endpoints idx (Build_go_endpoint_Endpoint (@nil N) 0 0 0 0 0 0 0 0 (@nil N) (@nil N) (@nil N) (@nil N) (@nil N))), false)) else Panic) else Panic.

(* tars/selector/consistenthash/consistenthash_new.go: func ConsistentHash.FindInt32 *)
Definition tr_ch_FindInt32 (key : Z) (c_hashRing : (list (Z * go_endpoint_Endpoint))) (c_sortedKeys : (list Z)) : ctl unit (go_endpoint_Endpoint * bool) :=
  let point : go_endpoint_Endpoint := (Build_go_endpoint_Endpoint (@nil N) 0 0 0 0 0 0 0 0 (@nil N) (@nil N) (@nil N) (@nil N) (@nil N)) in
    if ((go_len c_sortedKeys) =? 0)
    then Return (point, false)
    else if (go_search_ok (go_len c_sortedKeys) (fun x : Z => if (go_in_range c_sortedKeys x) then Some (key <=? (go_nth c_sortedKeys x 0)) else None)) then (let index := (go_search (go_len c_sortedKeys) (fun x : Z => if (go_in_range c_sortedKeys x) then Some (key <=? (go_nth c_sortedKeys x 0)) else None)) in
    bindc (if ((go_len c_sortedKeys) <=? index)
      then let index := 0 in
        Next index
      else Next index)
    (fun index : Z =>
    if (go_in_range c_sortedKeys index) then (Return ((go_map_get c_hashRing (go_nth c_sortedKeys index 0) (Build_go_endpoint_Endpoint (@nil N) 0 0 0 0 0 0 0 0 (@nil N) (@nil N) (@nil N) (@nil N) (@nil N))), true)) else Panic)) else Panic.

(* tars/util/rtimer/timewheel.go: func TimeWheel.After, statements "^" .. "pos = (tw.currPos + pos) % len(tw.timeWheel)" *)
Definition tr_tw_After_pos (timeout : Z) (tw_t : Z) (tw_maxT : Z) (tw_currPos : Z) (wheel_size : Z) : ctl Z unit :=
  if (tw_maxT <=? timeout)
    then Panic
    else if (negb (tw_t =? 0)) then (let pos := (wrapS 64 (Z.quot timeout tw_t)) in
    bindc (if (0 <? pos)
      then let pos := (wrapS 64 (pos - 1)) in
        Next pos
      else Next pos)
    (fun pos : Z =>
    if (negb (wheel_size =? 0)) then (let pos := (Z.rem (wrapS 64 (tw_currPos + pos)) wheel_size) in
    Next pos) else Panic)) else Panic.

Definition k_transport_PackageLess : Z := 0.
Definition k_transport_PackageFull : Z := 1.
(* tars/transport/tcphandler.go: func tcpHandler.recv, statements "currBuffer = append(currBuffer, buffer[:n]...)" .. "for {" *)
Definition tr_srv_recv_chunk (fuel : nat) (buffer : (list N)) (currBuffer : (list N)) (n : Z) (parse_package : list N -> Z * Z) (out : list (list N)) : ctl ((list (list N)) * (list N)) (list (list N) * unit) :=
  if (go_slice_ok buffer 0 n) then (let currBuffer := currBuffer ++ (go_slice buffer 0 n) in
    bindc (go_loop fuel (fun st : (list (list N)) * (list N) => let '(out, currBuffer) := st in
      let '(pkgLen, status) := (parse_package currBuffer) in
      bindc (if (status =? k_transport_PackageLess)
        then Return (inl (inl (out, currBuffer)))
        else Next out)
      (fun out : (list (list N)) =>
      bindc (if (status =? k_transport_PackageFull)
        then if (0 <=? pkgLen) then (let pkg := (go_make pkgLen 0%N) in
          if (go_slice_ok currBuffer 0 pkgLen) then (let pkg := go_copy pkg (go_slice currBuffer 0 pkgLen) in
          if (go_slice_ok currBuffer pkgLen (go_len currBuffer)) then (let currBuffer := (go_slice currBuffer pkgLen (go_len currBuffer)) in
          let out := out ++ (go_deliver pkg) in let _ := false in
          bindc (if (0 <? (go_len currBuffer))
            then Return (inl (inr (out, currBuffer)))
            else Next out)
          (fun out : (list (list N)) =>
          let currBuffer := (@nil N) in
          Return (inl (inl (out, currBuffer))))) else Panic) else Panic) else Panic
        else Next (out, currBuffer))
      (fun st : (list (list N)) * (list N) => let '(out, currBuffer) := st in
      Return (inr (out, tt))))) (out, currBuffer))
    (fun st : (list (list N)) * (list N) => let '(out, currBuffer) := st in
    Next (out, currBuffer))) else Panic.

(* tars/errors.go: func Error.Error *)
Definition tr_Error_Error (e_Message : (list N)) : ctl unit (list N) :=
  Return e_Message.

(* struct github.com/TarsCloud/TarsGo/tars/protocol/res/requestf.ResponsePacket *)
Record go_requestf_ResponsePacket := { go_requestf_ResponsePacket_IVersion : Z;
  go_requestf_ResponsePacket_CPacketType : Z;
  go_requestf_ResponsePacket_IRequestId : Z;
  go_requestf_ResponsePacket_IMessageType : Z;
  go_requestf_ResponsePacket_IRet : Z;
  go_requestf_ResponsePacket_SBuffer : (list Z);
  go_requestf_ResponsePacket_Status : (list ((list N) * (list N)));
  go_requestf_ResponsePacket_SResultDesc : (list N);
  go_requestf_ResponsePacket_Context : (list ((list N) * (list N))) }.

(* tars/tarsprotocol.go: func Protocol.Invoke, statements "rspPackage := requestf.ResponsePacket{}" .. "rspPackage := requestf.ResponsePacket{}" *)
Definition tr_Invoke_rsp_init  : ctl go_requestf_ResponsePacket (list N) :=
  let rspPackage := {|
      go_requestf_ResponsePacket_IVersion := 0;
      go_requestf_ResponsePacket_CPacketType := 0;
      go_requestf_ResponsePacket_IRequestId := 0;
      go_requestf_ResponsePacket_IMessageType := 0;
      go_requestf_ResponsePacket_IRet := 0;
      go_requestf_ResponsePacket_SBuffer := (@nil Z);
      go_requestf_ResponsePacket_Status := (@nil ((list N) * (list N)));
      go_requestf_ResponsePacket_SResultDesc := (@nil N);
      go_requestf_ResponsePacket_Context := (@nil ((list N) * (list N))) |} in
    Next rspPackage.

(* tars/tarsprotocol.go: func Protocol.InvokeTimeout, statements "^" .. "rspPackage := requestf.ResponsePacket{}" *)
Definition tr_InvokeTimeout_rsp_init  : ctl go_requestf_ResponsePacket (list N) :=
  let rspPackage := {|
      go_requestf_ResponsePacket_IVersion := 0;
      go_requestf_ResponsePacket_CPacketType := 0;
      go_requestf_ResponsePacket_IRequestId := 0;
      go_requestf_ResponsePacket_IMessageType := 0;
      go_requestf_ResponsePacket_IRet := 0;
      go_requestf_ResponsePacket_SBuffer := (@nil Z);
      go_requestf_ResponsePacket_Status := (@nil ((list N) * (list N)));
      go_requestf_ResponsePacket_SResultDesc := (@nil N);
      go_requestf_ResponsePacket_Context := (@nil ((list N) * (list N))) |} in
    Next rspPackage.

(* struct github.com/TarsCloud/TarsGo/tars/protocol/res/requestf.RequestPacket *)
Record go_requestf_RequestPacket := { go_requestf_RequestPacket_IVersion : Z;
  go_requestf_RequestPacket_CPacketType : Z;
  go_requestf_RequestPacket_IMessageType : Z;
  go_requestf_RequestPacket_IRequestId : Z;
  go_requestf_RequestPacket_SServantName : (list N);
  go_requestf_RequestPacket_SFuncName : (list N);
  go_requestf_RequestPacket_SBuffer : (list Z);
  go_requestf_RequestPacket_ITimeout : Z;
  go_requestf_RequestPacket_Context : (list ((list N) * (list N)));
  go_requestf_RequestPacket_Status : (list ((list N) * (list N))) }.

(* tars/tarsprotocol.go: func Protocol.Invoke, statements "rspPackage.IVersion = reqPackage.IVersion" .. "rspPackage.IRequestId = reqPackage.IRequestId" *)
Definition tr_Invoke_identity (reqPackage : go_requestf_RequestPacket) (rspPackage : go_requestf_ResponsePacket) : ctl go_requestf_ResponsePacket (list N) :=
  let rspPackage := {| go_requestf_ResponsePacket_IVersion := (go_requestf_RequestPacket_IVersion reqPackage); go_requestf_ResponsePacket_CPacketType := go_requestf_ResponsePacket_CPacketType rspPackage; go_requestf_ResponsePacket_IRequestId := go_requestf_ResponsePacket_IRequestId rspPackage; go_requestf_ResponsePacket_IMessageType := go_requestf_ResponsePacket_IMessageType rspPackage; go_requestf_ResponsePacket_IRet := go_requestf_ResponsePacket_IRet rspPackage; go_requestf_ResponsePacket_SBuffer := go_requestf_ResponsePacket_SBuffer rspPackage; go_requestf_ResponsePacket_Status := go_requestf_ResponsePacket_Status rspPackage; go_requestf_ResponsePacket_SResultDesc := go_requestf_ResponsePacket_SResultDesc rspPackage; go_requestf_ResponsePacket_Context := go_requestf_ResponsePacket_Context rspPackage |} in
    let rspPackage := {| go_requestf_ResponsePacket_IVersion := go_requestf_ResponsePacket_IVersion rspPackage; go_requestf_ResponsePacket_CPacketType := go_requestf_ResponsePacket_CPacketType rspPackage; go_requestf_ResponsePacket_IRequestId := (go_requestf_RequestPacket_IRequestId reqPackage); go_requestf_ResponsePacket_IMessageType := go_requestf_ResponsePacket_IMessageType rspPackage; go_requestf_ResponsePacket_IRet := go_requestf_ResponsePacket_IRet rspPackage; go_requestf_ResponsePacket_SBuffer := go_requestf_ResponsePacket_SBuffer rspPackage; go_requestf_ResponsePacket_Status := go_requestf_ResponsePacket_Status rspPackage; go_requestf_ResponsePacket_SResultDesc := go_requestf_ResponsePacket_SResultDesc rspPackage; go_requestf_ResponsePacket_Context := go_requestf_ResponsePacket_Context rspPackage |} in
    Next rspPackage.

Definition k_basef_TARSSERVERQUEUETIMEOUT : Z := (-6).
(* tars/tarsprotocol.go: func Protocol.Invoke, statements "rspPackage.IRet = basef.TARSSERVERQUEUETIMEOUT" .. "rspPackage.SResultDesc = \"server invoke timeout\"" *)
Definition tr_Invoke_queue_timeout (rspPackage : go_requestf_ResponsePacket) : ctl go_requestf_ResponsePacket (list N) :=
  let rspPackage := {| go_requestf_ResponsePacket_IVersion := go_requestf_ResponsePacket_IVersion rspPackage; go_requestf_ResponsePacket_CPacketType := go_requestf_ResponsePacket_CPacketType rspPackage; go_requestf_ResponsePacket_IRequestId := go_requestf_ResponsePacket_IRequestId rspPackage; go_requestf_ResponsePacket_IMessageType := go_requestf_ResponsePacket_IMessageType rspPackage; go_requestf_ResponsePacket_IRet := k_basef_TARSSERVERQUEUETIMEOUT; go_requestf_ResponsePacket_SBuffer := go_requestf_ResponsePacket_SBuffer rspPackage; go_requestf_ResponsePacket_Status := go_requestf_ResponsePacket_Status rspPackage; go_requestf_ResponsePacket_SResultDesc := go_requestf_ResponsePacket_SResultDesc rspPackage; go_requestf_ResponsePacket_Context := go_requestf_ResponsePacket_Context rspPackage |} in
    let rspPackage := {| go_requestf_ResponsePacket_IVersion := go_requestf_ResponsePacket_IVersion rspPackage; go_requestf_ResponsePacket_CPacketType := go_requestf_ResponsePacket_CPacketType rspPackage; go_requestf_ResponsePacket_IRequestId := go_requestf_ResponsePacket_IRequestId rspPackage; go_requestf_ResponsePacket_IMessageType := go_requestf_ResponsePacket_IMessageType rspPackage; go_requestf_ResponsePacket_IRet := go_requestf_ResponsePacket_IRet rspPackage; go_requestf_ResponsePacket_SBuffer := go_requestf_ResponsePacket_SBuffer rspPackage; go_requestf_ResponsePacket_Status := go_requestf_ResponsePacket_Status rspPackage; go_requestf_ResponsePacket_SResultDesc := (115%N :: (101%N :: (114%N :: (118%N :: (101%N :: (114%N :: (32%N :: (105%N :: (110%N :: (118%N :: (111%N :: (107%N :: (101%N :: (32%N :: (116%N :: (105%N :: (109%N :: (101%N :: (111%N :: (117%N :: (116%N :: (@nil N)))))))))))))))))))))); go_requestf_ResponsePacket_Context := go_requestf_ResponsePacket_Context rspPackage |} in
    Next rspPackage.

(* tars/tarsprotocol.go: func Protocol.Invoke, statements "rspPackage.IRet = 1" .. "if tarsErr, ok := err.(*Error); ok {" *)
Definition tr_Invoke_error (rspPackage : go_requestf_ResponsePacket) (err_is_tars : bool) (err_text : list N) (err_code : Z) : ctl go_requestf_ResponsePacket (list N) :=
  let rspPackage := {| go_requestf_ResponsePacket_IVersion := go_requestf_ResponsePacket_IVersion rspPackage; go_requestf_ResponsePacket_CPacketType := go_requestf_ResponsePacket_CPacketType rspPackage; go_requestf_ResponsePacket_IRequestId := go_requestf_ResponsePacket_IRequestId rspPackage; go_requestf_ResponsePacket_IMessageType := go_requestf_ResponsePacket_IMessageType rspPackage; go_requestf_ResponsePacket_IRet := 1; go_requestf_ResponsePacket_SBuffer := go_requestf_ResponsePacket_SBuffer rspPackage; go_requestf_ResponsePacket_Status := go_requestf_ResponsePacket_Status rspPackage; go_requestf_ResponsePacket_SResultDesc := go_requestf_ResponsePacket_SResultDesc rspPackage; go_requestf_ResponsePacket_Context := go_requestf_ResponsePacket_Context rspPackage |} in
    let rspPackage := {| go_requestf_ResponsePacket_IVersion := go_requestf_ResponsePacket_IVersion rspPackage; go_requestf_ResponsePacket_CPacketType := go_requestf_ResponsePacket_CPacketType rspPackage; go_requestf_ResponsePacket_IRequestId := go_requestf_ResponsePacket_IRequestId rspPackage; go_requestf_ResponsePacket_IMessageType := go_requestf_ResponsePacket_IMessageType rspPackage; go_requestf_ResponsePacket_IRet := go_requestf_ResponsePacket_IRet rspPackage; go_requestf_ResponsePacket_SBuffer := go_requestf_ResponsePacket_SBuffer rspPackage; go_requestf_ResponsePacket_Status := go_requestf_ResponsePacket_Status rspPackage; go_requestf_ResponsePacket_SResultDesc := err_text; go_requestf_ResponsePacket_Context := go_requestf_ResponsePacket_Context rspPackage |} in
    let ok := err_is_tars in
    bindc (if ok
      then let rspPackage := {| go_requestf_ResponsePacket_IVersion := go_requestf_ResponsePacket_IVersion rspPackage; go_requestf_ResponsePacket_CPacketType := go_requestf_ResponsePacket_CPacketType rspPackage; go_requestf_ResponsePacket_IRequestId := go_requestf_ResponsePacket_IRequestId rspPackage; go_requestf_ResponsePacket_IMessageType := go_requestf_ResponsePacket_IMessageType rspPackage; go_requestf_ResponsePacket_IRet := err_code; go_requestf_ResponsePacket_SBuffer := go_requestf_ResponsePacket_SBuffer rspPackage; go_requestf_ResponsePacket_Status := go_requestf_ResponsePacket_Status rspPackage; go_requestf_ResponsePacket_SResultDesc := go_requestf_ResponsePacket_SResultDesc rspPackage; go_requestf_ResponsePacket_Context := go_requestf_ResponsePacket_Context rspPackage |} in
        Next rspPackage
      else Next rspPackage)
    (fun rspPackage : go_requestf_ResponsePacket =>
    Next rspPackage).

(* tars/tarsprotocol.go: func Protocol.Invoke, statements "rspPackage.CPacketType = reqPackage.CPacketType" .. "rspPackage.CPacketType = reqPackage.CPacketType" *)
Definition tr_Invoke_ptype (reqPackage : go_requestf_RequestPacket) (rspPackage : go_requestf_ResponsePacket) : ctl go_requestf_ResponsePacket (list N) :=
  let rspPackage := {| go_requestf_ResponsePacket_IVersion := go_requestf_ResponsePacket_IVersion rspPackage; go_requestf_ResponsePacket_CPacketType := (go_requestf_RequestPacket_CPacketType reqPackage); go_requestf_ResponsePacket_IRequestId := go_requestf_ResponsePacket_IRequestId rspPackage; go_requestf_ResponsePacket_IMessageType := go_requestf_ResponsePacket_IMessageType rspPackage; go_requestf_ResponsePacket_IRet := go_requestf_ResponsePacket_IRet rspPackage; go_requestf_ResponsePacket_SBuffer := go_requestf_ResponsePacket_SBuffer rspPackage; go_requestf_ResponsePacket_Status := go_requestf_ResponsePacket_Status rspPackage; go_requestf_ResponsePacket_SResultDesc := go_requestf_ResponsePacket_SResultDesc rspPackage; go_requestf_ResponsePacket_Context := go_requestf_ResponsePacket_Context rspPackage |} in
    Next rspPackage.

Definition k_basef_TARSONEWAY : Z := 1.
(* tars/tarsprotocol.go: func Protocol.InvokeTimeout, statements "if reqPackage.CPacketType == basef.TARSONEWAY {" .. "rspPackage.SResultDesc = \"server invoke timeout\"" *)
Definition tr_InvokeTimeout_fill (rspPackage : go_requestf_ResponsePacket) (reqPackage : go_requestf_RequestPacket) : ctl go_requestf_ResponsePacket (list N) :=
  if ((go_requestf_RequestPacket_CPacketType reqPackage) =? k_basef_TARSONEWAY)
    then Return (@nil N)
    else let rspPackage := {| go_requestf_ResponsePacket_IVersion := (go_requestf_RequestPacket_IVersion reqPackage); go_requestf_ResponsePacket_CPacketType := go_requestf_ResponsePacket_CPacketType rspPackage; go_requestf_ResponsePacket_IRequestId := go_requestf_ResponsePacket_IRequestId rspPackage; go_requestf_ResponsePacket_IMessageType := go_requestf_ResponsePacket_IMessageType rspPackage; go_requestf_ResponsePacket_IRet := go_requestf_ResponsePacket_IRet rspPackage; go_requestf_ResponsePacket_SBuffer := go_requestf_ResponsePacket_SBuffer rspPackage; go_requestf_ResponsePacket_Status := go_requestf_ResponsePacket_Status rspPackage; go_requestf_ResponsePacket_SResultDesc := go_requestf_ResponsePacket_SResultDesc rspPackage; go_requestf_ResponsePacket_Context := go_requestf_ResponsePacket_Context rspPackage |} in
    let rspPackage := {| go_requestf_ResponsePacket_IVersion := go_requestf_ResponsePacket_IVersion rspPackage; go_requestf_ResponsePacket_CPacketType := (go_requestf_RequestPacket_CPacketType reqPackage); go_requestf_ResponsePacket_IRequestId := go_requestf_ResponsePacket_IRequestId rspPackage; go_requestf_ResponsePacket_IMessageType := go_requestf_ResponsePacket_IMessageType rspPackage; go_requestf_ResponsePacket_IRet := go_requestf_ResponsePacket_IRet rspPackage; go_requestf_ResponsePacket_SBuffer := go_requestf_ResponsePacket_SBuffer rspPackage; go_requestf_ResponsePacket_Status := go_requestf_ResponsePacket_Status rspPackage; go_requestf_ResponsePacket_SResultDesc := go_requestf_ResponsePacket_SResultDesc rspPackage; go_requestf_ResponsePacket_Context := go_requestf_ResponsePacket_Context rspPackage |} in
    let rspPackage := {| go_requestf_ResponsePacket_IVersion := go_requestf_ResponsePacket_IVersion rspPackage; go_requestf_ResponsePacket_CPacketType := go_requestf_ResponsePacket_CPacketType rspPackage; go_requestf_ResponsePacket_IRequestId := (go_requestf_RequestPacket_IRequestId reqPackage); go_requestf_ResponsePacket_IMessageType := go_requestf_ResponsePacket_IMessageType rspPackage; go_requestf_ResponsePacket_IRet := go_requestf_ResponsePacket_IRet rspPackage; go_requestf_ResponsePacket_SBuffer := go_requestf_ResponsePacket_SBuffer rspPackage; go_requestf_ResponsePacket_Status := go_requestf_ResponsePacket_Status rspPackage; go_requestf_ResponsePacket_SResultDesc := go_requestf_ResponsePacket_SResultDesc rspPackage; go_requestf_ResponsePacket_Context := go_requestf_ResponsePacket_Context rspPackage |} in
    let rspPackage := {| go_requestf_ResponsePacket_IVersion := go_requestf_ResponsePacket_IVersion rspPackage; go_requestf_ResponsePacket_CPacketType := go_requestf_ResponsePacket_CPacketType rspPackage; go_requestf_ResponsePacket_IRequestId := go_requestf_ResponsePacket_IRequestId rspPackage; go_requestf_ResponsePacket_IMessageType := go_requestf_ResponsePacket_IMessageType rspPackage; go_requestf_ResponsePacket_IRet := 1; go_requestf_ResponsePacket_SBuffer := go_requestf_ResponsePacket_SBuffer rspPackage; go_requestf_ResponsePacket_Status := go_requestf_ResponsePacket_Status rspPackage; go_requestf_ResponsePacket_SResultDesc := go_requestf_ResponsePacket_SResultDesc rspPackage; go_requestf_ResponsePacket_Context := go_requestf_ResponsePacket_Context rspPackage |} in
    let rspPackage := {| go_requestf_ResponsePacket_IVersion := go_requestf_ResponsePacket_IVersion rspPackage; go_requestf_ResponsePacket_CPacketType := go_requestf_ResponsePacket_CPacketType rspPackage; go_requestf_ResponsePacket_IRequestId := go_requestf_ResponsePacket_IRequestId rspPackage; go_requestf_ResponsePacket_IMessageType := go_requestf_ResponsePacket_IMessageType rspPackage; go_requestf_ResponsePacket_IRet := go_requestf_ResponsePacket_IRet rspPackage; go_requestf_ResponsePacket_SBuffer := go_requestf_ResponsePacket_SBuffer rspPackage; go_requestf_ResponsePacket_Status := go_requestf_ResponsePacket_Status rspPackage; go_requestf_ResponsePacket_SResultDesc := (115%N :: (101%N :: (114%N :: (118%N :: (101%N :: (114%N :: (32%N :: (105%N :: (110%N :: (118%N :: (111%N :: (107%N :: (101%N :: (32%N :: (116%N :: (105%N :: (109%N :: (101%N :: (111%N :: (117%N :: (116%N :: (@nil N)))))))))))))))))))))); go_requestf_ResponsePacket_Context := go_requestf_ResponsePacket_Context rspPackage |} in
    Next rspPackage.

(* tars/errors.go: func GetErrorCode *)
Definition tr_GetErrorCode (err : bool) (err_code : Z) (err_is_tars : bool) : ctl unit Z :=
  if (Bool.eqb err false)
    then Return 0
    else let ok := err_is_tars in
    if ok
    then Return err_code
    else Return 1.

Definition k_basef_TARSSERVERSUCCESS : Z := 0.
(* struct github.com/TarsCloud/TarsGo/tars.Error *)
Record go_tars_Error := { go_tars_Error_Code : Z;
  go_tars_Error_Message : (list N) }.

(* tars/servant.go: func ServantProxy.doInvoke, statements "if msg.Status != basef.TARSSERVERSUCCESS || msg.Resp.IRet != 0 {" .. "if msg.Status != basef.TARSSERVERSUCCESS || msg.Resp.IRet != 0 {" *)
Definition tr_doInvoke_reply (rsp_ret : Z) (rsp_desc : list N) (msg_status : Z) (sprintf_ : list N -> Z -> list N) : ctl unit (go_error go_tars_Error) :=
  if (if (negb (msg_status =? k_basef_TARSSERVERSUCCESS)) then true else (negb (rsp_ret =? 0)))
    then let desc := rsp_desc in
      bindc (if (go_bytes_eqb desc (@nil N))
        then let desc := (sprintf_ (98%N :: (97%N :: (115%N :: (101%N :: (102%N :: (32%N :: (101%N :: (114%N :: (114%N :: (111%N :: (114%N :: (32%N :: (99%N :: (111%N :: (100%N :: (101%N :: (32%N :: (37%N :: (100%N :: (@nil N)))))))))))))))))))) rsp_ret) in
          Next desc
        else Next desc)
      (fun desc : (list N) =>
      if (if (negb (rsp_ret =? 0)) then (negb (rsp_ret =? 1)) else false)
      then Return (GoErrVal {|
      go_tars_Error_Code := rsp_ret;
      go_tars_Error_Message := desc |})
      else Return (@GoErrNew go_tars_Error desc))
    else Next tt.

Definition k_codec_MAP : Z := 8.
(* tars/protocol/tup/tup.go: func UniAttribute.Encode, statements "^" .. "err = os.WriteInt32(int32(len(u.data)), 0)" *)
Definition tr_tup_Encode_head (count : Z) (out : list N) : ctl ((list N) * bool) (list N * bool) :=
  go_call (tr_WriteHead k_codec_MAP 0 out) (fun r__ => let '(out, err) := r__ in
    bindc (if (Bool.eqb err false)
      then Next out
      else Return (out, err))
    (fun out : (list N) =>
    go_call (tr_WriteInt32 (wrapS 32 count) 0 out) (fun r__ => let '(out, err) := r__ in
    Next (out, err)))).

Definition k_codec_SimpleList : Z := 13.
(* tars/protocol/tup/tup.go: func UniAttribute.Encode, statements "err = os.WriteString(k, 0)" .. "err = os.WriteBytes(v)" *)
Definition tr_tup_Encode_entry (err : bool) (k : (list N)) (v : (list N)) (out : list N) : ctl ((list N) * bool) (list N * bool) :=
  go_call (tr_WriteString k 0 out) (fun r__ => let '(out, err) := r__ in
    bindc (if (Bool.eqb err false)
      then Next out
      else Return (out, err))
    (fun out : (list N) =>
    go_call (tr_WriteHead k_codec_SimpleList 1 out) (fun r__ => let '(out, err) := r__ in
    bindc (if (Bool.eqb err false)
      then Next out
      else Return (out, err))
    (fun out : (list N) =>
    go_call (tr_WriteHead k_codec_BYTE 0 out) (fun r__ => let '(out, err) := r__ in
    bindc (if (Bool.eqb err false)
      then Next out
      else Return (out, err))
    (fun out : (list N) =>
    go_call (tr_WriteInt32 (wrapS 32 (go_len v)) 0 out) (fun r__ => let '(out, err) := r__ in
    bindc (if (Bool.eqb err false)
      then Next out
      else Return (out, err))
    (fun out : (list N) =>
    go_call (tr_WriteBytes v out) (fun r__ => let '(out, err) := r__ in
    Next (out, err)))))))))).

(* tars/protocol/tup/tup.go: func UniAttribute.Decode *)
Definition tr_tup_Decode (fuel : nat) (rd : go_reader) (u_data : (list ((list N) * (list N)))) : ctl unit (go_reader * bool * (list ((list N) * (list N)))) :=
  let have : bool := false in let ty : Z := 0 in let err : bool := false in
    go_call (tr_SkipTo fuel k_codec_MAP 0 true rd) (fun r__ => let '(rd, _, err) := r__ in
    bindc (if (Bool.eqb err false)
      then Next rd
      else Return (rd, err, u_data))
    (fun rd : go_reader =>
    let length : Z := 0 in
    go_call (tr_ReadInt32 fuel length 0 true rd) (fun r__ => let '(rd, length, err) := r__ in
    bindc (if (Bool.eqb err false)
      then Next rd
      else Return (rd, err, u_data))
    (fun rd : go_reader =>
    let e := length in
    bindc (go_count 0 e (fun (i : Z) => fun st : go_reader * (list ((list N) * (list N))) * bool * Z * bool => let '(rd, u_data, have, ty, err) := st in
      let k : (list N) := (@nil N) in
      let v : (list N) := (@nil N) in
      go_call (tr_ReadString fuel k 0 true rd) (fun r__ => let '(rd, k, err) := r__ in
      bindc (if (Bool.eqb err false)
        then Next rd
        else Return (rd, err, u_data))
      (fun rd : go_reader =>
      go_call (tr_SkipToNoCheck fuel 1 true rd) (fun r__ => let '(rd, have, ty, err) := r__ in
      bindc (if (Bool.eqb err false)
        then Next rd
        else Return (rd, err, u_data))
      (fun rd : go_reader =>
      bindc (if have
        then bindc (if (ty =? k_codec_SimpleList)
            then go_call (tr_SkipTo fuel k_codec_BYTE 0 true rd) (fun r__ => let '(rd, _, err) := r__ in
              bindc (if (Bool.eqb err false)
                then Next rd
                else Return (rd, err, u_data))
              (fun rd : go_reader =>
              let byteLen : Z := 0 in
              go_call (tr_ReadInt32 fuel byteLen 0 true rd) (fun r__ => let '(rd, byteLen, err) := r__ in
              bindc (if (Bool.eqb err false)
                then Next rd
                else Return (rd, err, u_data))
              (fun rd : go_reader =>
              go_call (tr_ReadBytes v byteLen true rd) (fun r__ => let '(rd, v, err) := r__ in
              bindc (if (Bool.eqb err false)
                then Next rd
                else Return (rd, err, u_data))
              (fun rd : go_reader =>
              let u_data := (go_smap_put u_data k v) in
              Next (rd, u_data, err)))))))
            else let err := true in
              bindc (if (Bool.eqb err false)
                then Next rd
                else Return (rd, err, u_data))
              (fun rd : go_reader =>
              Next (rd, u_data, err)))
          (fun st : go_reader * (list ((list N) * (list N))) * bool => let '(rd, u_data, err) := st in
          Next (rd, u_data, err))
        else Next (rd, u_data, err))
      (fun st : go_reader * (list ((list N) * (list N))) * bool => let '(rd, u_data, err) := st in
      Next (rd, u_data, have, ty, err))))))) (rd, u_data, have, ty, err))
    (fun st : go_reader * (list ((list N) * (list N))) * bool * Z * bool => let '(rd, u_data, have, ty, err) := st in
    Return (rd, err, u_data)))))).

(* tars/transport/tcphandler.go: func tcpHandler.recv, statements "if err != nil {" .. "if err != nil {" *)
Definition tr_srv_recv_event (currBuffer : (list N)) (err : bool) (is_closed : Z) (is_eof : bool) (no_data : bool) (now_ : Z) (idle_timeout : Z) (idle_time : Z) (num_invoke : Z) : ctl (list N) (((list N) + (list N)) + unit) :=
  if (Bool.eqb err false)
    then Next currBuffer
    else if (if (is_closed =? 1) then ((go_len currBuffer) =? 0) else false)
      then Return (inr tt)
      else if (if (if ((go_len currBuffer) =? 0) then (num_invoke =? 0) else false) then (negb (1000000000 =? 0)) else true) then (if (if (if ((go_len currBuffer) =? 0) then (num_invoke =? 0) else false) then ((wrapS 64 (idle_time + (wrapS 64 (Z.quot idle_timeout 1000000000)))) <? now_) else false)
      then Return (inr tt)
      else bindc (if no_data
        then Return (inl (inr currBuffer))
        else Next tt)
      (fun _ : unit =>
      bindc (if is_eof
        then Next tt
        else Next tt)
      (fun _ : unit =>
      Return (inr tt)))) else Panic.

(* tars/transport/tarsclient.go: func connection.recv, statements "if err != nil {" .. "if err != nil {" *)
Definition tr_cli_recv_event (currBuffer : (list N)) (err : bool) (is_eof : bool) (is_op_error : bool) (no_data : bool) : ctl (list N) (((list N) + (list N)) + unit) :=
  if (Bool.eqb err false)
    then Next currBuffer
    else bindc (if no_data
        then Return (inl (inr currBuffer))
        else Next tt)
      (fun _ : unit =>
      let ok := is_op_error in
      if ok
      then Return (inr tt)
      else bindc (if is_eof
        then Next tt
        else Next tt)
      (fun _ : unit =>
      Return (inr tt))).

(* tars/servant.go: func ServantProxy.TarsInvoke, statements "req := requestf.RequestPacket{" .. "req := requestf.RequestPacket{" *)
Definition tr_TarsInvoke_req (cType : Z) (sFuncName : (list N)) (status : (list ((list N) * (list N)))) (reqContext : (list ((list N) * (list N)))) (msgType : Z) (s_name : (list N)) (s_timeout : Z) (s_version : Z) (gen_request_id : Z) (sbuffer : list Z) : ctl go_requestf_RequestPacket bool :=
  let req := {|
      go_requestf_RequestPacket_IVersion := s_version;
      go_requestf_RequestPacket_CPacketType := (wrapS 8 cType);
      go_requestf_RequestPacket_IMessageType := msgType;
      go_requestf_RequestPacket_IRequestId := gen_request_id;
      go_requestf_RequestPacket_SServantName := s_name;
      go_requestf_RequestPacket_SFuncName := sFuncName;
      go_requestf_RequestPacket_SBuffer := sbuffer;
      go_requestf_RequestPacket_ITimeout := (wrapS 32 s_timeout);
      go_requestf_RequestPacket_Context := reqContext;
      go_requestf_RequestPacket_Status := status |} in
    Next req.

Definition k_time_Millisecond : Z := 1000000.
(* struct time.Time *)
Record go_time_Time := { go_time_Time_wall : Z;
  go_time_Time_ext : Z }.

(* tars/servant.go: func ServantProxy.TarsInvoke, statements "timeout := time.Duration(s.timeout) * time.Millisecond" .. "if dl, ok := ctx.Deadline(); ok {" *)
Definition tr_TarsInvoke_timeout (req : go_requestf_RequestPacket) (s_timeout : Z) (has_deadline : bool) (until_deadline : Z) (client_timeout : bool * Z * bool) (out : list Z) : ctl ((list Z) * Z * go_requestf_RequestPacket) (list Z * bool) :=
  let timeout := (wrapS 64 (s_timeout * k_time_Millisecond)) in
    let '(ok, to, isTimeout) := (client_timeout) in
    bindc (if (if isTimeout then ok else false)
      then let timeout := (wrapS 64 (to * k_time_Millisecond)) in
        let req := {| go_requestf_RequestPacket_IVersion := go_requestf_RequestPacket_IVersion req; go_requestf_RequestPacket_CPacketType := go_requestf_RequestPacket_CPacketType req; go_requestf_RequestPacket_IMessageType := go_requestf_RequestPacket_IMessageType req; go_requestf_RequestPacket_IRequestId := go_requestf_RequestPacket_IRequestId req; go_requestf_RequestPacket_SServantName := go_requestf_RequestPacket_SServantName req; go_requestf_RequestPacket_SFuncName := go_requestf_RequestPacket_SFuncName req; go_requestf_RequestPacket_SBuffer := go_requestf_RequestPacket_SBuffer req; go_requestf_RequestPacket_ITimeout := (wrapS 32 to); go_requestf_RequestPacket_Context := go_requestf_RequestPacket_Context req; go_requestf_RequestPacket_Status := go_requestf_RequestPacket_Status req |} in
        Next (out, req, timeout)
      else Next (out, req, timeout))
    (fun st : (list Z) * go_requestf_RequestPacket * Z => let '(out, req, timeout) := st in
    let ok_1 := has_deadline in
    bindc (if ok_1
      then let timeout := until_deadline in
        if (negb (k_time_Millisecond =? 0)) then (let req := {| go_requestf_RequestPacket_IVersion := go_requestf_RequestPacket_IVersion req; go_requestf_RequestPacket_CPacketType := go_requestf_RequestPacket_CPacketType req; go_requestf_RequestPacket_IMessageType := go_requestf_RequestPacket_IMessageType req; go_requestf_RequestPacket_IRequestId := go_requestf_RequestPacket_IRequestId req; go_requestf_RequestPacket_SServantName := go_requestf_RequestPacket_SServantName req; go_requestf_RequestPacket_SFuncName := go_requestf_RequestPacket_SFuncName req; go_requestf_RequestPacket_SBuffer := go_requestf_RequestPacket_SBuffer req; go_requestf_RequestPacket_ITimeout := (wrapS 32 (wrapS 64 (Z.quot timeout k_time_Millisecond))); go_requestf_RequestPacket_Context := go_requestf_RequestPacket_Context req; go_requestf_RequestPacket_Status := go_requestf_RequestPacket_Status req |} in
        Next (out, req, timeout)) else Panic
      else let out := out ++ (go_arm timeout) in let _ := false in
        Next (out, req, timeout))
    (fun st : (list Z) * go_requestf_RequestPacket * Z => let '(out, req, timeout) := st in
    Next (out, timeout, req))).

(* tars/adapter.go: func AdapterProxy.Recv, statements "if packet.IRequestId == 0 {" .. "if ok {" *)
Definition tr_adapter_Recv (read_timeout : Z) (found : bool) (pkt_type : Z) (pkt_id : Z) (select_ : Z) (out : list (Z * Z)) : ctl (list (Z * Z)) (list (Z * Z) * unit) :=
  bindc (if (pkt_id =? 0)
      then let out := out ++ (go_tag 1 0 ) in let _ := false in
        Return (out, tt)
      else Next out)
    (fun out : (list (Z * Z)) =>
    bindc (if (pkt_type =? k_basef_TARSONEWAY)
      then Return (out, tt)
      else Next out)
    (fun out : (list (Z * Z)) =>
    let ok := found in
    bindc (if ok
      then let out := out ++ (go_tag 2 0) ++ (go_tag 3 read_timeout) in
        bindc (if (select_ =? 0)
          then Next out
          else Next out)
        (fun out : (list (Z * Z)) =>
        Next out)
      else Next out)
    (fun out : (list (Z * Z)) =>
    Next out))).

(* tars/transport/tarsclient.go: func connection.recv, statements "currBuffer = append(currBuffer, buffer[:n]...)" .. "for {" *)
Definition tr_cli_recv_chunk (fuel : nat) (buffer : (list N)) (currBuffer : (list N)) (n : Z) (parse_package : list N -> Z * Z) (out : list (list N)) : ctl ((list (list N)) * (list N)) (list (list N) * unit) :=
  if (go_slice_ok buffer 0 n) then (let currBuffer := currBuffer ++ (go_slice buffer 0 n) in
    bindc (go_loop fuel (fun st : (list (list N)) * (list N) => let '(out, currBuffer) := st in
      let '(pkgLen, status) := (parse_package currBuffer) in
      bindc (if (status =? k_transport_PackageLess)
        then Return (inl (inl (out, currBuffer)))
        else Next out)
      (fun out : (list (list N)) =>
      bindc (if (status =? k_transport_PackageFull)
        then if (0 <=? pkgLen) then (let pkg := (go_make pkgLen 0%N) in
          if (go_slice_ok currBuffer 0 pkgLen) then (let pkg := go_copy pkg (go_slice currBuffer 0 pkgLen) in
          if (go_slice_ok currBuffer pkgLen (go_len currBuffer)) then (let currBuffer := (go_slice currBuffer pkgLen (go_len currBuffer)) in
          let out := out ++ (go_deliver pkg) in let _ := false in
          bindc (if (0 <? (go_len currBuffer))
            then Return (inl (inr (out, currBuffer)))
            else Next out)
          (fun out : (list (list N)) =>
          let currBuffer := (@nil N) in
          Return (inl (inl (out, currBuffer))))) else Panic) else Panic) else Panic
        else Next (out, currBuffer))
      (fun st : (list (list N)) * (list N) => let '(out, currBuffer) := st in
      Return (inr (out, tt))))) (out, currBuffer))
    (fun st : (list (list N)) * (list N) => let '(out, currBuffer) := st in
    Next (out, currBuffer))) else Panic.

(* struct github.com/TarsCloud/TarsGo/tars/protocol/res/endpointf.EndpointF *)
Record go_endpointf_EndpointF := { go_endpointf_EndpointF_Host : (list N);
  go_endpointf_EndpointF_Port : Z;
  go_endpointf_EndpointF_Timeout : Z;
  go_endpointf_EndpointF_Istcp : Z;
  go_endpointf_EndpointF_Grid : Z;
  go_endpointf_EndpointF_Groupworkid : Z;
  go_endpointf_EndpointF_Grouprealid : Z;
  go_endpointf_EndpointF_SetId : (list N);
  go_endpointf_EndpointF_Qos : Z;
  go_endpointf_EndpointF_BakFlag : Z;
  go_endpointf_EndpointF_Weight : Z;
  go_endpointf_EndpointF_WeightType : Z;
  go_endpointf_EndpointF_AuthType : Z }.

(* tars/util/endpoint/convert.go: func Endpoint2tars *)
Definition tr_Endpoint2tars (end_ : go_endpoint_Endpoint) : ctl unit go_endpointf_EndpointF :=
  Return {|
      go_endpointf_EndpointF_Host := (go_endpoint_Endpoint_Host end_);
      go_endpointf_EndpointF_Port := (go_endpoint_Endpoint_Port end_);
      go_endpointf_EndpointF_Timeout := (go_endpoint_Endpoint_Timeout end_);
      go_endpointf_EndpointF_Istcp := (go_endpoint_Endpoint_Istcp end_);
      go_endpointf_EndpointF_Grid := (go_endpoint_Endpoint_Grid end_);
      go_endpointf_EndpointF_Groupworkid := 0;
      go_endpointf_EndpointF_Grouprealid := 0;
      go_endpointf_EndpointF_SetId := (go_endpoint_Endpoint_SetId end_);
      go_endpointf_EndpointF_Qos := (go_endpoint_Endpoint_Qos end_);
      go_endpointf_EndpointF_BakFlag := 0;
      go_endpointf_EndpointF_Weight := (go_endpoint_Endpoint_Weight end_);
      go_endpointf_EndpointF_WeightType := (go_endpoint_Endpoint_WeightType end_);
      go_endpointf_EndpointF_AuthType := (go_endpoint_Endpoint_AuthType end_) |}.

Definition k_endpoint_UDP : Z := 0.
(* tars/util/endpoint/convert.go: func Tars2endpoint, statements "^" .. "e := Endpoint{" *)
Definition tr_Tars2endpoint_build (end_ : go_endpointf_EndpointF) : ctl go_endpoint_Endpoint go_endpoint_Endpoint :=
  let proto := (116%N :: (99%N :: (112%N :: (@nil N)))) in
    bindc (if ((go_endpointf_EndpointF_Istcp end_) =? k_endpoint_UDP)
      then let proto := (117%N :: (100%N :: (112%N :: (@nil N)))) in
        Next proto
      else Next proto)
    (fun proto : (list N) =>
    let e := {|
      go_endpoint_Endpoint_Host := (go_endpointf_EndpointF_Host end_);
      go_endpoint_Endpoint_Port := (go_endpointf_EndpointF_Port end_);
      go_endpoint_Endpoint_Timeout := (go_endpointf_EndpointF_Timeout end_);
      go_endpoint_Endpoint_Istcp := (go_endpointf_EndpointF_Istcp end_);
      go_endpoint_Endpoint_Grid := (go_endpointf_EndpointF_Grid end_);
      go_endpoint_Endpoint_Qos := (go_endpointf_EndpointF_Qos end_);
      go_endpoint_Endpoint_Weight := (go_endpointf_EndpointF_Weight end_);
      go_endpoint_Endpoint_WeightType := (go_endpointf_EndpointF_WeightType end_);
      go_endpoint_Endpoint_AuthType := (go_endpointf_EndpointF_AuthType end_);
      go_endpoint_Endpoint_Proto := proto;
      go_endpoint_Endpoint_Bind := (@nil N);
      go_endpoint_Endpoint_Container := (@nil N);
      go_endpoint_Endpoint_SetId := (go_endpointf_EndpointF_SetId end_);
      go_endpoint_Endpoint_Key := (@nil N) |} in
    Next e).

Definition k_tars_failInterval : Z := 5.
Definition k_tars_fainN : Z := 5.
Definition k_tars_checkTime : Z := 60.
Definition k_tars_overN : Z := 2.
Definition k_tars_tryTimeInterval : Z := 30.
(* tars/adapter.go: func AdapterProxy.checkActive *)
Definition tr_checkActive (c_failCount : Z) (c_lastFailCount : Z) (c_status : bool) (c_lastSuccessTime : Z) (c_lastBlockTime : Z) (c_lastCheckTime : Z) (c_closed : bool) (ratio_ge : bool) (reconnect_err : bool) (now_ : Z) : ctl unit (bool * bool * bool * Z) :=
  if c_closed
    then Return (false, false, c_status, c_lastBlockTime)
    else let now := now_ in
    bindc (if c_status
      then bindc (if (if (k_tars_failInterval <=? (wrapS 64 (now - c_lastSuccessTime))) then (k_tars_fainN <=? c_lastFailCount) else false)
          then let c_status := false in
            let c_lastBlockTime := now in
            Return (true, false, c_status, c_lastBlockTime)
          else Next (c_status, c_lastBlockTime))
        (fun st : bool * Z => let '(c_status, c_lastBlockTime) := st in
        bindc (if (k_tars_checkTime <=? (wrapS 64 (now - c_lastCheckTime)))
          then let c_lastBlockTime := now in
            bindc (if (if (k_tars_overN <=? c_failCount) then ratio_ge else false)
              then let c_status := false in
                Return (true, false, c_status, c_lastBlockTime)
              else Next c_status)
            (fun c_status : bool =>
            Return (false, false, c_status, c_lastBlockTime))
          else Next (c_status, c_lastBlockTime))
        (fun st : bool * Z => let '(c_status, c_lastBlockTime) := st in
        Return (false, false, c_status, c_lastBlockTime)))
      else Next (c_status, c_lastBlockTime))
    (fun st : bool * Z => let '(c_status, c_lastBlockTime) := st in
    bindc (if (k_tars_tryTimeInterval <=? (wrapS 64 (now - c_lastBlockTime)))
      then let c_lastBlockTime := now in
        let err := reconnect_err in
        if (Bool.eqb err false)
        then Return (false, true, c_status, c_lastBlockTime)
        else Return (false, false, c_status, c_lastBlockTime)
      else Next c_lastBlockTime)
    (fun c_lastBlockTime : Z =>
    Return (false, false, c_status, c_lastBlockTime))).

(* struct github.com/TarsCloud/TarsGo/tars/selector.pair *)
Record go_selector_pair := { go_selector_pair_first : Z;
  go_selector_pair_second : Z }.

(* tars/selector/selector.go: func BuildStaticWeightList, statements "var weightToId []pair" .. "for idx, node := range endpoints {" *)
Definition tr_BSWL_scale (endpoints : (list go_endpoint_Endpoint)) (maxRange : Z) (totalWeight : Z) (maxWeight : Z) : ctl (Z * (list go_selector_pair) * (list (Z * Z)) * (list Z)) (list Z) :=
  let weightToId : (list go_selector_pair) := (@nil go_selector_pair) in
    let idToWeight := (@nil (Z * Z)) in
    if (andb (0 <=? 0) (0 <=? (go_len endpoints))) then (let staticWeightRouterCache := (go_make 0 0) in
    bindc (go_range endpoints (fun (idx : Z) (node : go_endpoint_Endpoint) => fun st : Z * (list go_selector_pair) * (list (Z * Z)) * (list Z) => let '(totalWeight, weightToId, idToWeight, staticWeightRouterCache) := st in
      if (negb (maxWeight =? 0)) then (let weight := (wrapS 64 (Z.quot (wrapS 64 ((go_endpoint_Endpoint_Weight node) * maxRange)) maxWeight)) in
      bindc (if (0 <? weight)
        then let totalWeight := (wrapS 64 (totalWeight + weight)) in
          let idToWeight := (go_map_set idToWeight idx weight) in
          let weightToId := weightToId ++ [{|
      go_selector_pair_first := weight;
      go_selector_pair_second := idx |}] in
          Next (totalWeight, weightToId, idToWeight, staticWeightRouterCache)
        else let staticWeightRouterCache := staticWeightRouterCache ++ [idx] in
          Next (totalWeight, weightToId, idToWeight, staticWeightRouterCache))
      (fun st : Z * (list go_selector_pair) * (list (Z * Z)) * (list Z) => let '(totalWeight, weightToId, idToWeight, staticWeightRouterCache) := st in
      Next (totalWeight, weightToId, idToWeight, staticWeightRouterCache))) else Panic) (totalWeight, weightToId, idToWeight, staticWeightRouterCache))
    (fun st : Z * (list go_selector_pair) * (list (Z * Z)) * (list Z) => let '(totalWeight, weightToId, idToWeight, staticWeightRouterCache) := st in
    Next (totalWeight, weightToId, idToWeight, staticWeightRouterCache))) else Panic.

(* tars/selector/selector.go: func BuildStaticWeightList, statements "for i := 0; i < totalWeight; i++ {" .. "return staticWeightRouterCache" *)
Definition tr_BSWL_rounds (endpoints : (list go_endpoint_Endpoint)) (totalWeight : Z) (weightToId : (list go_selector_pair)) (idToWeight : (list (Z * Z))) (staticWeightRouterCache : (list Z)) (ep_string : go_endpoint_Endpoint -> list N) : ctl unit (list Z) :=
  bindc (go_count 0 totalWeight (fun (i : Z) => fun st : (list go_selector_pair) * (list Z) => let '(weightToId, staticWeightRouterCache) := st in
      match go_sort_by (fun (a__ b__ : go_selector_pair) => match (if ((go_selector_pair_first a__) =? (go_selector_pair_first b__))
          then if (andb (go_in_range endpoints (go_selector_pair_second a__)) (go_in_range endpoints (go_selector_pair_second b__))) then (Return (go_bytes_ltb (ep_string (go_nth endpoints (go_selector_pair_second a__) (Build_go_endpoint_Endpoint (@nil N) 0 0 0 0 0 0 0 0 (@nil N) (@nil N) (@nil N) (@nil N) (@nil N)))) (ep_string (go_nth endpoints (go_selector_pair_second b__) (Build_go_endpoint_Endpoint (@nil N) 0 0 0 0 0 0 0 0 (@nil N) (@nil N) (@nil N) (@nil N) (@nil N)))))) else Panic
          else Return ((go_selector_pair_first a__) <? (go_selector_pair_first b__)) : ctl unit bool) with Return r__ => Some r__ | _ => None end) weightToId with
      | Some weightToId =>
      let mulTemp : (list go_selector_pair) := (@nil go_selector_pair) in
      let first := true in
      if ((-9223372036854775808) <? 0) then (bindc (go_count_down (wrapS 64 ((go_len weightToId) - 1)) 0 (fun (begin : Z) => fun st : (list Z) * (list go_selector_pair) * bool => let '(staticWeightRouterCache, mulTemp, first) := st in
        if (go_in_range weightToId begin) then (let mIter := (go_nth weightToId begin (Build_go_selector_pair 0 0)) in
        bindc (if first
          then let first := false in
            let staticWeightRouterCache := staticWeightRouterCache ++ [(go_selector_pair_second mIter)] in
            let mulTemp := mulTemp ++ [{|
      go_selector_pair_first := (wrapS 64 ((wrapS 64 ((go_selector_pair_first mIter) - totalWeight)) + (go_map_get idToWeight (go_selector_pair_second mIter) 0)));
      go_selector_pair_second := (go_selector_pair_second mIter) |}] in
            Next (staticWeightRouterCache, mulTemp, first)
          else let mulTemp := mulTemp ++ [{|
      go_selector_pair_first := (wrapS 64 ((go_selector_pair_first mIter) + (go_map_get idToWeight (go_selector_pair_second mIter) 0)));
      go_selector_pair_second := (go_selector_pair_second mIter) |}] in
            Next (staticWeightRouterCache, mulTemp, first))
        (fun st : (list Z) * (list go_selector_pair) * bool => let '(staticWeightRouterCache, mulTemp, first) := st in
        Next (staticWeightRouterCache, mulTemp, first))) else Panic) (staticWeightRouterCache, mulTemp, first))
      (fun st : (list Z) * (list go_selector_pair) * bool => let '(staticWeightRouterCache, mulTemp, first) := st in
      let weightToId := mulTemp in
      Next (weightToId, staticWeightRouterCache))) else Panic
      | None => Panic
      end) (weightToId, staticWeightRouterCache))
    (fun st : (list go_selector_pair) * (list Z) => let '(weightToId, staticWeightRouterCache) := st in
    Return staticWeightRouterCache).

(* tars/util/endpoint/parse.go: func Parse, statements "isTcp := int32(0)" .. "e := Endpoint{" *)
Definition tr_Parse_build (proto : (list N)) (host : (list N)) (bind : (list N)) (port : Z) (timeout : Z) (grid : Z) (qos : Z) (weight : Z) (weightType : Z) (authType : Z) : ctl go_endpoint_Endpoint go_endpoint_Endpoint :=
  let isTcp := 0 in
    bindc (if (go_bytes_eqb proto (116%N :: (99%N :: (112%N :: (@nil N)))))
      then let isTcp := 1 in
        Next (proto, isTcp)
      else bindc (if (go_bytes_eqb proto (115%N :: (115%N :: (108%N :: (@nil N)))))
          then let proto := (116%N :: (99%N :: (112%N :: (@nil N)))) in
            let isTcp := 2 in
            Next (proto, isTcp)
          else Next (proto, isTcp))
        (fun st : (list N) * Z => let '(proto, isTcp) := st in
        Next (proto, isTcp)))
    (fun st : (list N) * Z => let '(proto, isTcp) := st in
    bindc (if (if (if (100 <? weight) then true else (weight =? (-1))) then (negb (weightType =? 0)) else false)
      then let weight := 100 in
        Next weight
      else Next weight)
    (fun weight : Z =>
    let e := {|
      go_endpoint_Endpoint_Host := host;
      go_endpoint_Endpoint_Port := (wrapS 32 port);
      go_endpoint_Endpoint_Timeout := (wrapS 32 timeout);
      go_endpoint_Endpoint_Istcp := isTcp;
      go_endpoint_Endpoint_Grid := (wrapS 32 grid);
      go_endpoint_Endpoint_Qos := (wrapS 32 qos);
      go_endpoint_Endpoint_Weight := (wrapS 32 weight);
      go_endpoint_Endpoint_WeightType := (wrapS 32 weightType);
      go_endpoint_Endpoint_AuthType := (wrapS 32 authType);
      go_endpoint_Endpoint_Proto := proto;
      go_endpoint_Endpoint_Bind := bind;
      go_endpoint_Endpoint_Container := (@nil N);
      go_endpoint_Endpoint_SetId := (@nil N);
      go_endpoint_Endpoint_Key := (@nil N) |} in
    Next e)).

(* tars/selector/consistenthash/consistenthash_new.go: func ConsistentHash.weight *)
Definition tr_ch_weight (w : Z) (c_enableWeight : bool) (c_replicates : Z) : ctl unit Z :=
  let weight := c_replicates in
    bindc (if c_enableWeight
      then let weight := w in
        Next weight
      else Next weight)
    (fun weight : Z =>
    bindc (if (0 <? weight)
      then if (negb (4 =? 0)) then (let weight := (wrapS 64 (Z.quot weight 4)) in
        bindc (if (weight =? 0)
          then let weight := 1 in
            Next weight
          else Next weight)
        (fun weight : Z =>
        Next weight)) else Panic
      else Next weight)
    (fun weight : Z =>
    Return weight)).

(* tars/endpointmanager.go: func endpointManager.enableWeight *)
Definition tr_mgr_enableWeight (e_weightType : Z) : ctl unit bool :=
  Return (e_weightType =? k_endpoint_EStaticWeight).
