(* GENERATED from the Go source of tars/tools/tars2go by `harness gen-c16-translated` on every run - do not edit.
   Translator: harness/xlate.go (unchanged); units: harness/c16xlate.go; target language: Xlate/GoSem.v *)
From Coq Require Import List NArith ZArith Bool.
From TarsV Require Import Xlate.GoSem.
Import ListNotations.
Open Scope Z_scope.

(* tars/tools/tars2go/lexer/lexer.go: func isNewLine *)
Definition tr_c16_isNewLine (b : Z) : ctl unit bool :=
  Return (if (b =? 13) then true else (b =? 10)).

(* tars/tools/tars2go/lexer/lexer.go: func isNumber *)
Definition tr_c16_isNumber (b : Z) : ctl unit bool :=
  Return (if (if (48 <=? b) then (b <=? 57) else false) then true else (b =? 45)).

(* tars/tools/tars2go/lexer/lexer.go: func isHexNumber *)
Definition tr_c16_isHexNumber (b : Z) : ctl unit bool :=
  Return (if (if (97 <=? b) then (b <=? 102) else false) then true else (if (65 <=? b) then (b <=? 70) else false)).

(* tars/tools/tars2go/lexer/lexer.go: func isLetter *)
Definition tr_c16_isLetter (b : Z) : ctl unit bool :=
  Return (if (if (if (97 <=? b) then (b <=? 122) else false) then true else (if (65 <=? b) then (b <=? 90) else false)) then true else (b =? 95)).

Definition k_token_DummyTypeBegin : Z := 28.
Definition k_token_DummyTypeEnd : Z := 40.
(* tars/tools/tars2go/token/token.go: func IsType *)
Definition tr_c16_IsType (typ : Z) : ctl unit bool :=
  Return (if (k_token_DummyTypeBegin <? typ) then (typ <? k_token_DummyTypeEnd) else false).

(* tars/tools/tars2go/token/token.go: func IsNumberType *)
Definition tr_c16_IsNumberType (typ : Z) : ctl unit bool :=
  let tag__1 := typ in
    bindc (if (orb (orb (orb (orb (orb (orb (tag__1 =? 29) (tag__1 =? 30)) (tag__1 =? 31)) (tag__1 =? 32)) (tag__1 =? 33)) (tag__1 =? 34)) (tag__1 =? 35)) then Return true
      else (Return false))
    (fun _ : unit =>
    Next tt).
