(* GENERATED from the source of the TarsGo tree by `harness gen-c19src` on every run - do not edit *)
From Coq Require Import List String ZArith.
From TarsV Require Import Conc.PoolSrc.
Import ListNotations.
Open Scope string_scope.

Definition src_gpool_Worker_Start : list outline := [
  Node "go func" [
    Node "decl var job Job" [];
    Node "for" [
      Node "send w.WorkerQueue <- w" [];
      Node "select" [
        Node "case recv w.JobChannel into job" [
          Node "call job()" []
        ];
        Node "case recv w.Stop" [
          Node "send w.Stop <- struct{}{}" [];
          Node "return" []
        ]
      ]
    ]
  ]
].
Definition src_gpool_newWorker : list outline := [
  Node "return &Worker" [
    Node "field WorkerQueue: pool" [];
    Node "field JobChannel: make(chan Job)" [];
    Node "field Stop: make(chan struct{})" []
  ]
].
Definition src_gpool_NewPool : list outline := [
  Node "assign jobQueue := make(chan Job, jobQueueLen)" [];
  Node "assign workerQueue := make(chan *Worker, numWorkers)" [];
  Node "assign pool := &Pool{ JobQueue: jobQueue, WorkerQueue: workerQueue, stop: make(chan struct{}), }" [];
  Node "call pool.Start()" [];
  Node "return pool" []
].
Definition src_gpool_Pool_Start : list outline := [
  Node "for i := 0; i < cap(p.WorkerQueue); i++" [
    Node "assign worker := newWorker(p.WorkerQueue)" [];
    Node "call worker.Start()" []
  ];
  Node "go p.dispatch()" []
].
Definition src_gpool_Pool_dispatch : list outline := [
  Node "for" [
    Node "select" [
      Node "case recv p.JobQueue into job" [
        Node "recv p.WorkerQueue into worker" [];
        Node "send worker.JobChannel <- job" []
      ];
      Node "case recv p.stop" [
        Node "for i := 0; i < cap(p.WorkerQueue); i++" [
          Node "recv p.WorkerQueue into worker" [];
          Node "send worker.Stop <- struct{}{}" [];
          Node "recv worker.Stop" []
        ];
        Node "send p.stop <- struct{}{}" [];
        Node "return" []
      ]
    ]
  ]
].
Definition src_gpool_Pool_Release : list outline := [
  Node "send p.stop <- struct{}{}" [];
  Node "recv p.stop" []
].
Definition src_gpool_functions : list string := ["NewPool"; "Pool.Release"; "Pool.Start"; "Pool.dispatch"; "Worker.Start"; "newWorker"].

Definition src_tcp_Listen : list outline := [
  Node "if cfg.MaxInvoke > 0" [
    Node "assign t.pool = gpool.NewPool(int(cfg.MaxInvoke), cfg.QueueCap)" []
  ]
].
Definition src_tcp_handleConn : list outline := [
  Node "call atomic.AddInt32(&connSt.numInvoke, 1)" [];
  Node "func handler" [
    Node "defer atomic.AddInt32(&connSt.numInvoke, -1)" []
  ];
  Node "if cfg.MaxInvoke > 0" [
    Node "send t.pool.JobQueue <- handler" []
  ];
  Node "else" [
    Node "go handler()" []
  ]
].
Definition src_tcp_Handle : list outline := [
  Node "decl var recvDone sync.WaitGroup" [];
  Node "for" [
    Node "if atomic.LoadInt32(&t.server.isClosed) == 1" [
      Node "break" []
    ];
    Node "call recvDone.Add(1)" [];
    Node "go func" [
      Node "defer recvDone.Done()" [];
      Node "call t.recv(cf)" []
    ]
  ];
  Node "if t.pool != nil" [
    Node "call recvDone.Wait()" [];
    Node "call t.pool.Release()" []
  ]
].
Definition src_tcp_recv : list outline := [
  Node "defer func" [
    Node "range tk.C" [
      Node "if atomic.LoadInt32(&connSt.numInvoke) == 0" [
        Node "break" []
      ]
    ]
  ];
  Node "for" [
    Node "if err != nil" [
      Node "if atomic.LoadInt32(&t.server.isClosed) == 1 && currBuffer == nil" [
        Node "return" []
      ];
      Node "if len(currBuffer) == 0 && connSt.numInvoke == 0 && (connSt.idleTime+int64(cfg.IdleTimeout)/int64(time.Second)) < time.Now().Unix()" [
        Node "return" []
      ]
    ];
    Node "for" [
      Node "if status == PackageFull" [
        Node "call t.handleConn(connSt, pkg)" []
      ]
    ]
  ]
].
Definition src_udp_Listen : list outline := [
  Node "if cfg.MaxInvoke > 0" [
    Node "assign u.pool = gpool.NewPool(int(cfg.MaxInvoke), cfg.QueueCap)" []
  ]
].
Definition src_udp_handleUDPAddr : list outline := [
  Node "call atomic.AddInt32(&u.server.numInvoke, 1)" [];
  Node "func handler" [
    Node "defer atomic.AddInt32(&u.server.numInvoke, -1)" []
  ];
  Node "if cfg.MaxInvoke > 0" [
    Node "send u.pool.JobQueue <- handler" []
  ];
  Node "else" [
    Node "go handler()" []
  ]
].
Definition src_udp_Handle : list outline := [
  Node "defer func" [
    Node "for ; atomic.LoadInt32(&u.server.numInvoke) > 0; " []
  ];
  Node "for" [
    Node "if atomic.LoadInt32(&u.server.isClosed) == 1" [
      Node "return nil" []
    ];
    Node "if err != nil" [
      Node "if atomic.LoadInt32(&u.server.isClosed) == 1" [
        Node "return nil" []
      ]
    ];
    Node "call u.handleUDPAddr(udpAddr, pkg)" []
  ]
].

Definition src_tcp_route_cond : cexpr := (CBin ">" (CVar "cfg.MaxInvoke") (CInt (0))).
Definition src_udp_route_cond : cexpr := (CBin ">" (CVar "cfg.MaxInvoke") (CInt (0))).
Definition src_tcp_pool_cond : cexpr := (CBin ">" (CVar "cfg.MaxInvoke") (CInt (0))).
Definition src_udp_pool_cond : cexpr := (CBin ">" (CVar "cfg.MaxInvoke") (CInt (0))).
Definition src_tcp_pool_args : list cexpr := [(CConv "int" (CVar "cfg.MaxInvoke")); (CVar "cfg.QueueCap")].
Definition src_udp_pool_args : list cexpr := [(CConv "int" (CVar "cfg.MaxInvoke")); (CVar "cfg.QueueCap")].
Definition src_gpool_NewPool_chans : list (string * cexpr) := [("jobQueue", (CVar "jobQueueLen")); ("workerQueue", (CVar "numWorkers")); ("stop", (CInt (0)))].
Definition src_gpool_newWorker_chans : list (string * cexpr) := [("JobChannel", (CInt (0))); ("Stop", (CInt (0)))].
Definition src_gpool_NewPool_params : list string := ["numWorkers"; "jobQueueLen"].
