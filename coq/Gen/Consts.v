(* GENERATED from /repo by `harness gen-consts` on every run - do not edit *)
From Coq Require Import NArith ZArith.
Open Scope N_scope.
Definition c_BYTE := 0.
Definition c_SHORT := 1.
Definition c_INT := 2.
Definition c_LONG := 3.
Definition c_FLOAT := 4.
Definition c_DOUBLE := 5.
Definition c_STRING1 := 6.
Definition c_STRING4 := 7.
Definition c_MAP := 8.
Definition c_LIST := 9.
Definition c_StructBegin := 10.
Definition c_StructEnd := 11.
Definition c_ZeroTag := 12.
Definition c_SimpleList := 13.
Definition c_maxSkipDepth := 512.
Definition c_TUPVERSION := (3)%Z.
Definition c_PackageLess := 0.
Definition c_PackageFull := 1.
Definition c_PackageError := 2.
Definition c_maxPackageLength := 10485760.
Definition c_maxInt32 := 2147483647.
Definition c_minStaticWeightLimit := 10.
Definition c_maxStaticWeightLimit := 100.
Definition c_ConHashVirtualNodes := 100.
Definition c_fainN := 5.
Definition c_failInterval := 5.
Definition c_checkTime := 60.
Definition c_overN := 2.
Definition c_failRatioNum := 1.
Definition c_failRatioDen := 2.
Definition c_tryTimeInterval := 30.
Definition c_conf_max_scan_token := 65536.
Definition c_conf_blanks : list N := (cons 32%N (cons 10%N (cons 9%N nil))).
Definition c_rogger_queue_cap := 10000.
Definition c_rogger_wait_flush_timeout_ms := 1000.
