(* GENERATED from /repo by `harness gen-consts` on every run - do not edit *)
From Coq Require Import NArith ZArith.
Open Scope N_scope.
Definition c_BYTE := 0.
Definition c_SHORT := 1.
Definition c_INT := 2.
Definition c_LONG := 3.
Definition c_FLOAT := 4.
Definition c_DOUBLE := 5.
Definition c_STRING1 := 6.
Definition c_STRING4 := 7.
Definition c_MAP := 8.
Definition c_LIST := 9.
Definition c_StructBegin := 10.
Definition c_StructEnd := 11.
Definition c_ZeroTag := 12.
Definition c_SimpleList := 13.
Definition c_maxSkipDepth := 512.
Definition c_c01_TARSVERSION := (1)%Z.
Definition c_c01_TARSNORMAL := (0)%Z.
Definition c_c01_TARSONEWAY := (1)%Z.
Definition c_c01_TARSSERVERSUCCESS := (0)%Z.
Definition c_c01_MaxPackageLength := 10485760.
