(* GENERATED from the source of the selectors' reBuildLocked methods by `harness gen-selrebuild` on every run - do not edit *)
From Coq Require Import List NArith.
Import ListNotations.
Record rb := { rb_cache : list nat; rb_pos : N; rb_wpos : N }.
(* tars/selector/modhash: func (m *ModHash) reBuildLocked() *)
Definition gen_mh_reBuild (enableWeight : bool) (n_eps : nat) (bswl : list nat) (draw : nat -> N -> N) (s : rb) : rb :=
  let s := {| rb_cache := []; rb_pos := rb_pos s; rb_wpos := rb_wpos s |} in
  let s := (if enableWeight then
    let s := {| rb_cache := bswl; rb_pos := rb_pos s; rb_wpos := rb_wpos s |} in
    s
    else s) in
  s.
(* tars/selector/random: func (r *Random) reBuildLocked() *)
Definition gen_rnd_reBuild (enableWeight : bool) (n_eps : nat) (bswl : list nat) (draw : nat -> N -> N) (s : rb) : rb :=
  let s := {| rb_cache := []; rb_pos := rb_pos s; rb_wpos := rb_wpos s |} in
  let s := (if enableWeight then
    let s := {| rb_cache := bswl; rb_pos := rb_pos s; rb_wpos := rb_wpos s |} in
    s
    else s) in
  s.
(* tars/selector/roundrobin: func (r *RoundRobin) reBuildLocked() *)
Definition gen_rr_reBuild (enableWeight : bool) (n_eps : nat) (bswl : list nat) (draw : nat -> N -> N) (s : rb) : rb :=
  let s := {| rb_cache := rb_cache s; rb_pos := 0%N; rb_wpos := rb_wpos s |} in
  let s := {| rb_cache := rb_cache s; rb_pos := rb_pos s; rb_wpos := 0%N |} in
  let s := (if N.ltb 0 (N.of_nat n_eps) then
    let s := {| rb_cache := rb_cache s; rb_pos := draw 0%nat (N.of_nat n_eps); rb_wpos := rb_wpos s |} in
    s
    else s) in
  let s := {| rb_cache := []; rb_pos := rb_pos s; rb_wpos := rb_wpos s |} in
  let s := (if enableWeight then
    let s := {| rb_cache := bswl; rb_pos := rb_pos s; rb_wpos := rb_wpos s |} in
    let s := (if N.ltb 0 (N.of_nat (length (rb_cache s))) then
      let s := {| rb_cache := rb_cache s; rb_pos := rb_pos s; rb_wpos := draw 1%nat (N.of_nat (length (rb_cache s))) |} in
      s
      else s) in
    s
    else s) in
  s.
(* consistenthash addLocked: virtualHost := fmt.Sprintf("%s_%d", ep.HashKey(), i) *)
Definition gen_vnode_format : list N := [37; 115; 95; 37; 100]%N.
Definition gen_vnode_args : list (list N) := [[101; 112; 46; 72; 97; 115; 104; 75; 101; 121; 40; 41]%N; [105]%N].
