(* GENERATED from the TarsGo tree by `harness gen-c09consts` on every run - do not edit *)
From Coq Require Import NArith ZArith.
Open Scope N_scope.
Definition c_rtimer_accuracy := 20.
Definition c_ClientDialTimeout := 3000.
Definition c_ClientWriteTimeout := 3000.
Definition c_ClientReadTimeout := 100.
Definition c_ClientQueueLen := 10000.
Definition c_AsyncInvokeTimeout := 3000.
Definition c_ObjQueueMax := 100000.
