(* GENERATED from tars/util/conf/conf.go by `harness gen-c17xlate` on every run - do not edit *)
From Coq Require Import List NArith ZArith Bool.
From TarsV Require Import Base.Hex Conf.Conf Conf.GoStr.
Import ListNotations.
Open Scope bool_scope.
Open Scope Z_scope.

Definition k_conf_Node : Z := 0.
Definition k_conf_Leaf : Z := 1.
Definition k_conf_whiteSpaceChars : gstr := ([32; 10; 9]%N : gstr).

(* InitFromBytes, case xml.CharData: the body of `for lineDecoder.Scan()`; g_text = lineDecoder.Text() *)
Definition tr_conf_line (g_text : gstr) : option (list conf_effect) :=
  let g_eff := ([] : list conf_effect) in
  let g_line := (gs_trim k_conf_whiteSpaceChars g_text) in
  (if ((if (Z.gtb (gs_len g_line) (0)) then ((gs_in_range g_line (0))) else true)) then (if (if (if (Z.gtb (gs_len g_line) (0)) then (N.eqb (gs_nth g_line (0) 0%N) 35%N) else false) then true else (gs_eqb g_line ([] : gstr)))
  then (Some g_eff)
  else (let g_eff := g_eff ++ [EffAddLine g_line] in
  let g_kv := (gs_splitn g_line ([61]%N : gstr) (2)) in
  (if ((gs_in_range g_kv (0))) then (let '(g_k, g_v) := ((gs_trim k_conf_whiteSpaceChars (gs_nth g_kv (0) [])), ([] : gstr)) in
  if (gs_eqb g_k ([] : gstr))
  then (Some g_eff)
  else (if (Z.eqb (gs_len g_kv) (2))
  then ((if ((gs_in_range g_kv (1))) then (let g_v := (gs_trim k_conf_whiteSpaceChars (gs_nth g_kv (1) [])) in
    let g_leaf := (k_conf_Leaf, g_k, ([] : gstr)) in
  let g_leaf := (fst (fst g_leaf), snd (fst g_leaf), g_v) in
  let g_eff := g_eff ++ [EffAddChild g_k g_leaf] in
  Some g_eff) else None))
  else (let g_leaf := (k_conf_Leaf, g_k, ([] : gstr)) in
  let g_leaf := (fst (fst g_leaf), snd (fst g_leaf), g_v) in
  let g_eff := g_eff ++ [EffAddChild g_k g_leaf] in
  Some g_eff))) else None))) else None).
(* ... and the statements around it are the pinned ones (scanner over the token, ScanLines, the scanner's error returned) *)
Definition tr_conf_line_frame : bool := true.

(* the cases xml.StartElement (re-enter the child of that name or make a node, push) and xml.EndElement (name check, pop), pinned: the model mirrors them by hand *)
Definition tr_conf_tag_cases_frame : bool := true.
(* InitFromBytes outside the three token cases: one element stack seeded with the root, Decoder.Token(), a token error other than io.EOF is returned, nil at the end *)
Definition tr_conf_decode_loop_frame : bool := true.

(* elem.analysisPath *)
Definition tr_analysisPath (g_path : gstr) : option (list gstr) :=
  let g_pathVec := (gs_split g_path ([47]%N : gstr)) in
  (if ((gs_in_range g_pathVec ((gs_len g_pathVec) - (1)))) then (let g_lastItem := (gs_nth g_pathVec ((gs_len g_pathVec) - (1)) []) in
  (if ((gs_slice_ok g_pathVec 0 ((gs_len g_pathVec) - (1)))) then (let g_pathVec := (gs_slice g_pathVec 0 ((gs_len g_pathVec) - (1))) in
  let g_lastPair := (gs_split g_lastItem ([60]%N : gstr)) in
  if (Z.eqb (gs_len g_lastPair) (2))
  then ((if ((gs_in_range g_lastPair (0))) then (let g_pathVec := (g_pathVec ++ [(gs_nth g_lastPair (0) [])]) in
    (if ((gs_in_range g_lastPair (1))) then (let g_pathVec := (g_pathVec ++ [(gs_trim ([62]%N : gstr) (gs_nth g_lastPair (1) []))]) in
    let g_ret := ([] : list gstr) in
  match fold_left (fun g_st g_item => match g_st with None => None | Some g_ret =>
      if (negb (gs_eqb g_item ([] : gstr)))
      then (let g_ret := (g_ret ++ [g_item]) in
        Some g_ret)
      else (Some g_ret)
    end) g_pathVec (Some g_ret) with
  | None => None
  | Some g_ret =>
    Some g_ret
  end) else None)) else None))
  else (let g_pathVec := (g_pathVec ++ [g_lastItem]) in
    let g_ret := ([] : list gstr) in
  match fold_left (fun g_st g_item => match g_st with None => None | Some g_ret =>
      if (negb (gs_eqb g_item ([] : gstr)))
      then (let g_ret := (g_ret ++ [g_item]) in
        Some g_ret)
      else (Some g_ret)
    end) g_pathVec (Some g_ret) with
  | None => None
  | Some g_ret =>
    Some g_ret
  end)) else None)) else None).

(* elem.isNode *)
Definition tr_isNode (g_e : gchild) : option bool :=
  Some (Z.eqb (gc_kind g_e) k_conf_Node).

(* elem.isLeaf *)
Definition tr_isLeaf (g_e : gchild) : option bool :=
  Some (Z.eqb (gc_kind g_e) k_conf_Leaf).

(* elem.setValue *)
Definition tr_setValue (g_e : gelem) (g_value : gstr) : option gelem :=
  let g_e := ge_set_value g_e g_value in
  Some g_e.

(* elem.addChild *)
Definition tr_addChild (g_e : gelem) (g_name : gstr) (g_child : gchild) : option gelem :=
  let g_e := ge_set_children g_e (gs_map_set (ge_children g_e) g_name g_child) in
  Some g_e.

(* elem.addLine *)
Definition tr_addLine (g_e : gelem) (g_line : gstr) : option gelem :=
  let g_e := ge_set_line g_e ((ge_line g_e) ++ [g_line]) in
  Some g_e.

(* elem.findChild *)
Definition tr_findChild (g_e : gelem) (g_name : gstr) : option (option gchild * bool) :=
  let g_ret := (None : option gchild) in let g_ok := false in let '(g_ret, g_ok) := gs_map_get2 (ge_children g_e) g_name in
  Some (g_ret, g_ok).

(* newElem *)
Definition tr_newElem (g_kind : Z) (g_name : gstr) : option gelem :=
  Some {| ge_kind := g_kind; ge_name := g_name; ge_value := ([] : gstr); ge_children := []; ge_line := [] |}.

(* elem.getElem *)
Definition tr_getElem {H : Type} (g_findChild : H -> gstr -> option H * bool) (g_e : option H) (g_pathVec : list gstr) : option (option H * bool) :=
  let g_targetNode := g_e in
  match fold_left (fun g_st g_item => match g_st with None => None | Some (inr g_r) => Some (inr g_r) | Some (inl g_targetNode) =>
      (if ((gs_is_some g_targetNode)) then (let '(g_t, g_ok) := (gs_find g_findChild g_targetNode g_item) in
      if (negb g_ok)
      then (Some (inr (None, true)))
      else (let g_targetNode := g_t in
      Some (inl g_targetNode))) else None)
    end) g_pathVec (Some (inl g_targetNode)) with
  | None => None
  | Some (inr g_r) => Some g_r
  | Some (inl g_targetNode) =>
    Some (g_targetNode, false)
  end.

(* elem.getDomain; (g_node0, g_err0) = e.getElem(pathVec) *)
Definition tr_getDomain (g_path : gstr) (g_node0 : gelem) (g_err0 : bool) : option (list gstr * bool) :=
  match tr_analysisPath g_path with None => None | Some g_pathVec =>
  let g_domain := ([] : list gstr) in
  let '(g_targetNode, g_err) := (g_node0, g_err0) in
  if (negb (Bool.eqb g_err false))
  then (Some (g_domain, g_err))
  else (match fold_left (fun g_st g_child => match g_st with None => None | Some g_domain =>
      (if ((gs_is_some (tr_isNode g_child))) then (if (gs_get false (tr_isNode g_child))
      then (let g_domain := (g_domain ++ [(gc_name g_child)]) in
        Some g_domain)
      else (Some g_domain)) else None)
    end) (map snd (ge_children g_targetNode)) (Some g_domain) with
  | None => None
  | Some g_domain =>
    Some (g_domain, false)
  end)
  end.

(* elem.getDomainKey; (g_node0, g_err0) = e.getElem(pathVec) *)
Definition tr_getDomainKey (g_path : gstr) (g_node0 : gelem) (g_err0 : bool) : option (list gstr * bool) :=
  match tr_analysisPath g_path with None => None | Some g_pathVec =>
  let g_domainKey := ([] : list gstr) in
  let '(g_targetNode, g_err) := (g_node0, g_err0) in
  if (negb (Bool.eqb g_err false))
  then (Some (g_domainKey, g_err))
  else (match fold_left (fun g_st g_child => match g_st with None => None | Some g_domainKey =>
      (if ((gs_is_some (tr_isLeaf g_child))) then (if (gs_get false (tr_isLeaf g_child))
      then (let g_domainKey := (g_domainKey ++ [(gc_name g_child)]) in
        Some g_domainKey)
      else (Some g_domainKey)) else None)
    end) (map snd (ge_children g_targetNode)) (Some g_domainKey) with
  | None => None
  | Some g_domainKey =>
    Some (g_domainKey, false)
  end)
  end.

(* elem.getDomainLine; (g_node0, g_err0) = e.getElem(pathVec) *)
Definition tr_getDomainLine (g_path : gstr) (g_node0 : gelem) (g_err0 : bool) : option (list gstr * bool) :=
  match tr_analysisPath g_path with None => None | Some g_pathVec =>
  let g_domainLine := ([] : list gstr) in
  let '(g_targetNode, g_err) := (g_node0, g_err0) in
  if (negb (Bool.eqb g_err false))
  then (Some (g_domainLine, g_err))
  else (let g_domainLine := (g_domainLine ++ (ge_line g_targetNode)) in
  Some (g_domainLine, false))
  end.

(* elem.getMap; (g_node0, g_err0) = e.getElem(pathVec) *)
Definition tr_getMap (g_path : gstr) (g_node0 : gelem) (g_err0 : bool) : option (list (gstr * gstr) * bool) :=
  match tr_analysisPath g_path with None => None | Some g_pathVec =>
  let g_kvMap := ([] : list (gstr * gstr)) in
  let '(g_targetNode, g_err) := (g_node0, g_err0) in
  if (negb (Bool.eqb g_err false))
  then (Some (g_kvMap, g_err))
  else (match fold_left (fun g_st g_child => match g_st with None => None | Some g_kvMap =>
      (if ((gs_is_some (tr_isLeaf g_child))) then (if (gs_get false (tr_isLeaf g_child))
      then (let g_kvMap := gs_map_set g_kvMap (gc_name g_child) (gc_value g_child) in
        Some g_kvMap)
      else (Some g_kvMap)) else None)
    end) (map snd (ge_children g_targetNode)) (Some g_kvMap) with
  | None => None
  | Some g_kvMap =>
    Some (g_kvMap, false)
  end)
  end.

(* elem.getValue; (g_node0, g_err0) = e.getElem(pathVec) *)
Definition tr_getValue (g_path : gstr) (g_node0 : gelem) (g_err0 : bool) : option (gstr * bool) :=
  match tr_analysisPath g_path with None => None | Some g_pathVec =>
  let '(g_targetNode, g_err) := (g_node0, g_err0) in
  if (negb (Bool.eqb g_err false))
  then (Some (([] : gstr), g_err))
  else (Some ((ge_value g_targetNode), false))
  end.

(* Conf.GetStringWithDef; (g_value0, g_err0) = c.root.getValue(path) *)
Definition tr_GetStringWithDef (g_value0 : gstr) (g_err0 : bool) (g_defVal : gstr) : option gstr :=
  let '(g_value, g_err) := (g_value0, g_err0) in
  if (negb (Bool.eqb g_err false))
  then (Some g_defVal)
  else (Some g_value).

(* Conf.GetIntWithDef; (g_value0, g_err0) = c.root.getValue(path) *)
Definition tr_GetIntWithDef (g_value0 : gstr) (g_err0 : bool) (g_defVal : Z) : option Z :=
  let '(g_value, g_err) := (g_value0, g_err0) in
  if (negb (Bool.eqb g_err false))
  then (Some g_defVal)
  else (let '(g_iValue, g_err) := (gs_atoi g_value) in
  if (negb (Bool.eqb g_err false))
  then (Some g_defVal)
  else (Some g_iValue)).

(* Conf.GetInt32WithDef; (g_value0, g_err0) = c.root.getValue(path) *)
Definition tr_GetInt32WithDef (g_value0 : gstr) (g_err0 : bool) (g_defVal : Z) : option Z :=
  let '(g_value, g_err) := (g_value0, g_err0) in
  if (negb (Bool.eqb g_err false))
  then (Some g_defVal)
  else (let '(g_iValue, g_err) := (gs_parse_int g_value (10) (32)) in
  if (negb (Bool.eqb g_err false))
  then (Some g_defVal)
  else (Some g_iValue)).

(* Conf.GetBoolWithDef; (g_value0, g_err0) = c.root.getValue(path) *)
Definition tr_GetBoolWithDef (g_value0 : gstr) (g_err0 : bool) (g_defVal : bool) : option bool :=
  let '(g_value, g_err) := (g_value0, g_err0) in
  if (negb (Bool.eqb g_err false))
  then (Some g_defVal)
  else (let '(g_bValue, g_err) := (gs_parse_bool g_value) in
  if (negb (Bool.eqb g_err false))
  then (Some g_defVal)
  else (Some g_bValue)).

