(* GENERATED from tars/util/conf/conf.go by `harness gen-c17xlate` on every run - do not edit *)
From Coq Require Import List NArith ZArith Bool.
From TarsV Require Import Base.Hex Conf.Conf Conf.GoStr.
Import ListNotations.
Open Scope bool_scope.
Open Scope Z_scope.

Definition k_conf_Node : Z := 0.
Definition k_conf_Leaf : Z := 1.
Definition k_conf_whiteSpaceChars : gstr := ([32; 10; 9]%N : gstr).

(* InitFromBytes, case xml.CharData: the body of `for lineDecoder.Scan()`; g_text = lineDecoder.Text() *)
Definition tr_conf_line (g_text : gstr) : option (list conf_effect) :=
  let g_eff := ([] : list conf_effect) in
  let g_line := (gs_trim k_conf_whiteSpaceChars g_text) in
  (if ((if (Z.gtb (gs_len g_line) (0)) then ((gs_in_range g_line (0))) else true)) then (if (if (if (Z.gtb (gs_len g_line) (0)) then (N.eqb (gs_nth g_line (0) 0%N) 35%N) else false) then true else (gs_eqb g_line ([] : gstr)))
  then (Some g_eff)
  else (let g_eff := g_eff ++ [EffAddLine g_line] in
  let g_kv := (gs_splitn g_line ([61]%N : gstr) (2)) in
  (if ((gs_in_range g_kv (0))) then (let '(g_k, g_v) := ((gs_trim k_conf_whiteSpaceChars (gs_nth g_kv (0) [])), ([] : gstr)) in
  if (gs_eqb g_k ([] : gstr))
  then (Some g_eff)
  else (if (Z.eqb (gs_len g_kv) (2))
  then ((if ((gs_in_range g_kv (1))) then (let g_v := (gs_trim k_conf_whiteSpaceChars (gs_nth g_kv (1) [])) in
    let g_leaf := (k_conf_Leaf, g_k, ([] : gstr)) in
  let g_leaf := (fst (fst g_leaf), snd (fst g_leaf), g_v) in
  let g_eff := g_eff ++ [EffAddChild g_k g_leaf] in
  Some g_eff) else None))
  else (let g_leaf := (k_conf_Leaf, g_k, ([] : gstr)) in
  let g_leaf := (fst (fst g_leaf), snd (fst g_leaf), g_v) in
  let g_eff := g_eff ++ [EffAddChild g_k g_leaf] in
  Some g_eff))) else None))) else None).
(* ... and the statements around it are the pinned ones (scanner over the token, ScanLines, the scanner's error returned) *)
Definition tr_conf_line_frame : bool := true.

(* the cases xml.StartElement (re-enter the child of that name or make a node, push) and xml.EndElement (name check, pop), pinned: the model mirrors them by hand *)
Definition tr_conf_tag_cases_frame : bool := true.
(* InitFromBytes outside the three token cases: one element stack seeded with the root, Decoder.Token(), a token error other than io.EOF is returned, nil at the end *)
Definition tr_conf_decode_loop_frame : bool := true.

(* elem.analysisPath *)
Definition tr_analysisPath (g_path : gstr) : option (list gstr) :=
  let g_pathVec := (gs_split g_path ([47]%N : gstr)) in
  (if ((gs_in_range g_pathVec ((gs_len g_pathVec) - (1)))) then (let g_lastItem := (gs_nth g_pathVec ((gs_len g_pathVec) - (1)) []) in
  (if ((gs_slice_ok g_pathVec 0 ((gs_len g_pathVec) - (1)))) then (let g_pathVec := (gs_slice g_pathVec 0 ((gs_len g_pathVec) - (1))) in
  let g_lastPair := (gs_split g_lastItem ([60]%N : gstr)) in
  if (Z.eqb (gs_len g_lastPair) (2))
  then ((if ((gs_in_range g_lastPair (0))) then (let g_pathVec := (g_pathVec ++ [(gs_nth g_lastPair (0) [])]) in
    (if ((gs_in_range g_lastPair (1))) then (let g_pathVec := (g_pathVec ++ [(gs_trim ([62]%N : gstr) (gs_nth g_lastPair (1) []))]) in
    let g_ret := ([] : list gstr) in
  match fold_left (fun g_st g_item => match g_st with None => None | Some g_ret =>
      if (negb (gs_eqb g_item ([] : gstr)))
      then (let g_ret := (g_ret ++ [g_item]) in
        Some g_ret)
      else (Some g_ret)
    end) g_pathVec (Some g_ret) with
  | None => None
  | Some g_ret =>
    Some g_ret
  end) else None)) else None))
  else (let g_pathVec := (g_pathVec ++ [g_lastItem]) in
    let g_ret := ([] : list gstr) in
  match fold_left (fun g_st g_item => match g_st with None => None | Some g_ret =>
      if (negb (gs_eqb g_item ([] : gstr)))
      then (let g_ret := (g_ret ++ [g_item]) in
        Some g_ret)
      else (Some g_ret)
    end) g_pathVec (Some g_ret) with
  | None => None
  | Some g_ret =>
    Some g_ret
  end)) else None)) else None).

(* Conf.GetStringWithDef; (g_value0, g_err0) = c.root.getValue(path) *)
Definition tr_GetStringWithDef (g_value0 : gstr) (g_err0 : bool) (g_defVal : gstr) : option gstr :=
  let '(g_value, g_err) := (g_value0, g_err0) in
  if (negb (Bool.eqb g_err false))
  then (Some g_defVal)
  else (Some g_value).

(* Conf.GetIntWithDef; (g_value0, g_err0) = c.root.getValue(path) *)
Definition tr_GetIntWithDef (g_value0 : gstr) (g_err0 : bool) (g_defVal : Z) : option Z :=
  let '(g_value, g_err) := (g_value0, g_err0) in
  if (negb (Bool.eqb g_err false))
  then (Some g_defVal)
  else (let '(g_iValue, g_err) := (gs_atoi g_value) in
  if (negb (Bool.eqb g_err false))
  then (Some g_defVal)
  else (Some g_iValue)).

(* Conf.GetInt32WithDef; (g_value0, g_err0) = c.root.getValue(path) *)
Definition tr_GetInt32WithDef (g_value0 : gstr) (g_err0 : bool) (g_defVal : Z) : option Z :=
  let '(g_value, g_err) := (g_value0, g_err0) in
  if (negb (Bool.eqb g_err false))
  then (Some g_defVal)
  else (let '(g_iValue, g_err) := (gs_parse_int g_value (10) (32)) in
  if (negb (Bool.eqb g_err false))
  then (Some g_defVal)
  else (Some g_iValue)).

(* Conf.GetBoolWithDef; (g_value0, g_err0) = c.root.getValue(path) *)
Definition tr_GetBoolWithDef (g_value0 : gstr) (g_err0 : bool) (g_defVal : bool) : option bool :=
  let '(g_value, g_err) := (g_value0, g_err0) in
  if (negb (Bool.eqb g_err false))
  then (Some g_defVal)
  else (let '(g_bValue, g_err) := (gs_parse_bool g_value) in
  if (negb (Bool.eqb g_err false))
  then (Some g_defVal)
  else (Some g_bValue)).

