(* The Gallina text generated from the current Go source of the smooth-weighted-round-robin rounds of
   selector.BuildStaticWeightList (Gen/Translated.v: tr_BSWL_rounds - per round: sort.Slice by (current value,
   String()), take the last element, re-weigh in reverse order) computes the rounds of the C13 model
   (Select/Selectors.v: swrr_rounds - pick the maximum, swrr_step), although the code sorts and the model does not:
   the code's list is, round after round, a permutation of the model's. sort.Slice is a primitive of the target
   language (GoSem.go_sort_by); what it needs is proved here: the comparator is a strict total order on the candidates
   because they have different indexes and the endpoints different String()s. *)
From Coq Require Import List NArith ZArith Bool Lia ZifyBool ZifyNat ZifyN Permutation Sorted.
From TarsV Require Import Base.Hex Gen.Consts Select.Selectors Select.WeightProofs Xlate.GoSem Xlate.GoSemFacts Gen.Translated Xlate.BSWLEquiv.
Import ListNotations.
Open Scope Z_scope.

(* ---------- lexicographic order on byte strings ---------- *)
Lemma go_bytes_ltb_model a : forall b, go_bytes_ltb a b = bytes_ltb a b.
Proof. induction a as [|x a IH]; destruct b as [|y b]; cbn; try reflexivity; rewrite IH; reflexivity. Qed.
Lemma bytes_ltb_irrefl a : bytes_ltb a a = false.
Proof. induction a as [|x a IH]; [reflexivity|]. cbn. rewrite N.ltb_irrefl. exact IH. Qed.
Lemma bytes_ltb_trich a : forall b, a = b \/ bytes_ltb a b = true \/ bytes_ltb b a = true.
Proof.
  induction a as [|x a IH]; destruct b as [|y b]; cbn; auto.
  destruct (N.ltb x y) eqn:E1; [auto|]. destruct (N.ltb y x) eqn:E2; [auto|].
  assert (x = y) by lia. subst y. destruct (IH b) as [->|[H|H]]; auto.
Qed.
Lemma bytes_ltb_trans a : forall b c, bytes_ltb a b = true -> bytes_ltb b c = true -> bytes_ltb a c = true.
Proof.
  induction a as [|x a IH]; destruct b as [|y b]; destruct c as [|z c]; cbn; try congruence.
  destruct (N.ltb x y) eqn:E1; destruct (N.ltb y z) eqn:E2; destruct (N.ltb y x) eqn:E3; destruct (N.ltb z y) eqn:E4;
    try congruence; intros H1 H2;
    try (replace (N.ltb x z) with true by lia; reflexivity).
  assert (x = y) by lia. assert (y = z) by lia. subst y z. rewrite N.ltb_irrefl. apply (IH b c); assumption.
Qed.
Lemma bytes_ltb_asym a b : bytes_ltb a b = true -> bytes_ltb b a = false.
Proof.
  intros H. destruct (bytes_ltb b a) eqn:E; [|reflexivity].
  pose proof (bytes_ltb_trans _ _ _ H E) as C. rewrite bytes_ltb_irrefl in C. discriminate.
Qed.

(* ---------- keys: (current value, String()) in lexicographic order ---------- *)
Definition key := (Z * list N)%type.
Definition klt (a b : key) : bool := if fst a <? fst b then true else if fst b <? fst a then false else bytes_ltb (snd a) (snd b).
Lemma klt_irrefl a : klt a a = false.
Proof. unfold klt. rewrite Z.ltb_irrefl. apply bytes_ltb_irrefl. Qed.
Lemma klt_trich a b : a = b \/ klt a b = true \/ klt b a = true.
Proof.
  destruct a as [va sa], b as [vb sb]. unfold klt. cbn [fst snd].
  destruct (va <? vb) eqn:E1; [auto|]. destruct (vb <? va) eqn:E2; [auto|].
  assert (va = vb) by lia. subst vb. destruct (bytes_ltb_trich sa sb) as [->|[H|H]]; auto.
Qed.
Lemma klt_trans a b c : klt a b = true -> klt b c = true -> klt a c = true.
Proof.
  destruct a as [va sa], b as [vb sb], c as [vc sc]. unfold klt. cbn [fst snd].
  destruct (va <? vb) eqn:E1; destruct (vb <? vc) eqn:E2; destruct (vb <? va) eqn:E3; destruct (vc <? vb) eqn:E4;
    try congruence; intros H1 H2; try (replace (va <? vc) with true by lia; reflexivity).
  assert (va = vb) by lia. assert (vb = vc) by lia. subst vb vc. rewrite Z.ltb_irrefl. apply (bytes_ltb_trans _ _ _ H1 H2).
Qed.
Lemma klt_asym a b : klt a b = true -> klt b a = false.
Proof.
  intros H. destruct (klt b a) eqn:E; [|reflexivity]. pose proof (klt_trans _ _ _ H E) as C. rewrite klt_irrefl in C. discriminate.
Qed.

Lemma last_In {A} (l : list A) d : l <> [] -> In (last l d) l.
Proof.
  induction l as [|y r IH]; intros H; [congruence|]. destruct r as [|z r']; [left; reflexivity|].
  right. change (last (y :: z :: r') d) with (last (z :: r') d). apply IH. discriminate.
Qed.

(* ---------- sorting by a key: insertion sort, and the maximum ---------- *)
Section bykey.
  Context {A : Type} (kf : A -> key).
  Definition lessk (a b : A) : bool := klt (kf a) (kf b).
  Definition isort (l : list A) : list A := fold_right (go_insert lessk) [] l.
  (* m is the greatest element of l *)
  Definition is_max (m : A) (l : list A) : Prop := In m l /\ forall c, In c l -> c = m \/ lessk c m = true.

  Lemma insert_perm x l : Permutation (go_insert lessk x l) (x :: l).
  Proof.
    induction l as [|y r IH]; cbn [go_insert]; [reflexivity|]. destruct (lessk x y); [reflexivity|].
    rewrite IH. apply perm_swap.
  Qed.
  Lemma isort_perm l : Permutation (isort l) l.
  Proof. induction l as [|x l IH]; cbn; [constructor|]. rewrite insert_perm. constructor. exact IH. Qed.

  (* keys pairwise different *)
  Definition keys_inj (l : list A) : Prop := forall a b, In a l -> In b l -> kf a = kf b -> a = b.

  Lemma is_max_unique l m m' : keys_inj l -> is_max m l -> is_max m' l -> m = m'.
  Proof.
    intros Inj [I1 M1] [I2 M2]. destruct (M1 m' I2) as [E|L1]; [symmetry; exact E|].
    destruct (M2 m I1) as [E|L2]; [exact E|]. unfold lessk in *. rewrite (klt_asym _ _ L1) in L2. discriminate.
  Qed.
  Lemma is_max_perm l l' m : Permutation l l' -> is_max m l -> is_max m l'.
  Proof.
    intros P [I M]. split; [eapply Permutation_in; eassumption|]. intros c Ic. apply M. eapply Permutation_in; [symmetry; exact P|exact Ic].
  Qed.

  (* insertion sort sorts: no later element is below an earlier one *)
  Definition nlt (a b : A) : Prop := lessk b a = false.
  Lemma insert_sorted x l : StronglySorted nlt l -> StronglySorted nlt (go_insert lessk x l).
  Proof.
    induction l as [|y r IH]; intros S; cbn [go_insert]; [repeat constructor|].
    apply StronglySorted_inv in S. destruct S as [Sr Fy]. destruct (lessk x y) eqn:Lxy.
    - constructor; [constructor; assumption|]. constructor; [unfold nlt, lessk in *; apply klt_asym; exact Lxy|].
      rewrite Forall_forall in *. intros z Iz. specialize (Fy z Iz). unfold nlt, lessk in *.
      destruct (klt (kf z) (kf x)) eqn:Lzx; [|reflexivity]. rewrite (klt_trans _ _ _ Lzx Lxy) in Fy. discriminate.
    - constructor; [apply IH; exact Sr|].
      rewrite Forall_forall in *. intros z Iz. apply (Permutation_in _ (insert_perm x r)) in Iz.
      destruct Iz as [<-|Iz]; [exact Lxy|apply Fy; exact Iz].
  Qed.
  Lemma isort_sorted l : StronglySorted nlt (isort l).
  Proof. induction l as [|x l IH]; cbn; [constructor|apply insert_sorted; exact IH]. Qed.

  Lemma sorted_last l d : StronglySorted nlt l -> forall c, In c l -> c = last l d \/ nlt c (last l d).
  Proof.
    induction l as [|y r IH]; intros S c Ic; [destruct Ic|]. apply StronglySorted_inv in S. destruct S as [Sr Fy].
    destruct r as [|z r']; [destruct Ic as [<-|[]]; left; reflexivity|].
    change (last (y :: z :: r') d) with (last (z :: r') d). destruct Ic as [<-|Ic]; [|apply IH; assumption].
    right. rewrite Forall_forall in Fy. apply Fy. apply last_In. discriminate.
  Qed.

  Lemma isort_max l d : keys_inj l -> l <> [] -> is_max (last (isort l) d) l.
  Proof.
    intros Inj Hne. assert (Hs : isort l <> []) by (intros E; apply Hne; apply Permutation_nil; rewrite <- E; apply isort_perm).
    split; [apply (Permutation_in _ (isort_perm l)); apply last_In; exact Hs|].
    intros c Ic. assert (Ic' : In c (isort l)) by (apply (Permutation_in _ (Permutation_sym (isort_perm l))); exact Ic).
    destruct (sorted_last (isort l) d (isort_sorted l) c Ic') as [E|N]; [left; exact E|].
    assert (Il : In (last (isort l) d) l) by (apply (Permutation_in _ (isort_perm l)); apply last_In; exact Hs).
    destruct (klt_trich (kf c) (kf (last (isort l) d))) as [E|[L|L]].
    - left. apply Inj; assumption.
    - right. exact L.
    - unfold nlt, lessk in N. rewrite L in N. discriminate.
  Qed.
End bykey.

(* ---------- the model's pick_max is the greatest candidate ---------- *)
Definition kf_m (l : list ep) (c : Z * nat) : key := (fst c, skey (nth (snd c) l dummy)).
Lemma better_klt l a b : better l a b = klt (kf_m l b) (kf_m l a).
Proof. reflexivity. Qed.

Lemma pick_max_is_max l cs : forall best, keys_inj (kf_m l) (best :: cs) -> is_max (kf_m l) (pick_max l best cs) (best :: cs).
Proof.
  induction cs as [|c r IH]; intros best Inj; cbn [pick_max].
  - split; [left; reflexivity|]. intros x [<-|[]]. left; reflexivity.
  - set (best' := if better l c best then c else best).
    assert (Inj' : keys_inj (kf_m l) (best' :: r)).
    { intros a b Ia Ib. apply Inj; [destruct Ia as [<-|Ia]|destruct Ib as [<-|Ib]];
        try (right; right; assumption); unfold best'; destruct (better l c best); (left; reflexivity) || (right; left; reflexivity). }
    destruct (IH best' Inj') as [Im Mm]. split.
    + destruct Im as [E|Im]; [|right; right; exact Im]. rewrite <- E. unfold best'. destruct (better l c best); [right; left|left]; reflexivity.
    + (* the one of best, c that lost is below best' *)
      assert (Lose : forall x, x = best \/ x = c -> x = best' \/ lessk (kf_m l) x best' = true).
      { intros x Hx. unfold best'. rewrite better_klt. unfold lessk.
        destruct (klt (kf_m l best) (kf_m l c)) eqn:K.
        - destruct Hx as [-> | ->]; [right; exact K|left; reflexivity].
        - destruct Hx as [-> | ->]; [left; reflexivity|].
          destruct (klt_trich (kf_m l c) (kf_m l best)) as [E|[L|L]]; [|right; exact L|congruence].
          left. apply Inj; [right; left; reflexivity|left; reflexivity|exact E]. }
      intros x [<-|[<-|Ix]].
      * destruct (Lose best ltac:(left; reflexivity)) as [E|L]; [rewrite E; apply Mm; left; reflexivity|].
        destruct (Mm best' ltac:(left; reflexivity)) as [E|L2]; [right; rewrite <- E; exact L|right; unfold lessk in *; eapply klt_trans; eassumption].
      * destruct (Lose c ltac:(right; reflexivity)) as [E|L]; [rewrite E; apply Mm; left; reflexivity|].
        destruct (Mm best' ltac:(left; reflexivity)) as [E|L2]; [right; rewrite <- E; exact L|right; unfold lessk in *; eapply klt_trans; eassumption].
      * apply Mm. right. exact Ix.
Qed.

(* ---------- the Go candidates ---------- *)
Notation zero_ep := (Build_go_endpoint_Endpoint (@nil N) 0 0 0 0 0 0 0 0 (@nil N) (@nil N) (@nil N) (@nil N) (@nil N)).
Definition gp (c : Z * nat) : go_selector_pair := {| go_selector_pair_first := fst c; go_selector_pair_second := Z.of_nat (snd c) |}.

Lemma insert_perm_gen {A} (g : A -> A -> bool) x : forall S, Permutation (go_insert g x S) (x :: S).
Proof.
  induction S as [|y r IH]; cbn [go_insert]; [reflexivity|]. destruct (g x y); [reflexivity|].
  apply (perm_trans (l' := y :: x :: r)); [constructor; exact IH|apply perm_swap].
Qed.

Section rounds.
  Variable geps : list go_endpoint_Endpoint.
  Variable ep_string : go_endpoint_Endpoint -> list N.
  (* the model's endpoints: the tie-break key is String() *)
  Definition m_s (g : go_endpoint_Endpoint) : ep :=
    {| host := go_endpoint_Endpoint_Host g; skey := ep_string g; wgt := go_endpoint_Endpoint_Weight g; wty := go_endpoint_Endpoint_WeightType g |}.
  Let l := map m_s geps.

  Definition kf_g (p : go_selector_pair) : key := (go_selector_pair_first p, ep_string (go_nth geps (go_selector_pair_second p) zero_ep)).

  Lemma kf_gp c : (snd c < length geps)%nat -> kf_g (gp c) = kf_m l c.
  Proof.
    intros H. unfold kf_g, kf_m, gp, l. cbn [go_selector_pair_first go_selector_pair_second fst snd]. f_equal.
    rewrite go_nth_std by lia. rewrite Nat2Z.id.
    rewrite (nth_indep _ dummy (m_s zero_ep)) by (rewrite map_length; exact H). rewrite map_nth. reflexivity.
  Qed.

  (* the translated comparator *)
  Definition tr_less (a__ b__ : go_selector_pair) : option bool :=
    match (if go_selector_pair_first a__ =? go_selector_pair_first b__
           then if andb (go_in_range geps (go_selector_pair_second a__)) (go_in_range geps (go_selector_pair_second b__))
                then Return (go_bytes_ltb (ep_string (go_nth geps (go_selector_pair_second a__) zero_ep))
                                          (ep_string (go_nth geps (go_selector_pair_second b__) zero_ep)))
                else Panic
           else Return (go_selector_pair_first a__ <? go_selector_pair_first b__) : ctl unit bool)
    with Return r__ => Some r__ | _ => None end.

  Definition in_rng (p : go_selector_pair) : Prop := 0 <= go_selector_pair_second p < go_len geps.
  Lemma tr_less_klt a b : in_rng a -> in_rng b -> tr_less a b = Some (lessk kf_g a b).
  Proof.
    intros Ha Hb. unfold tr_less, lessk, kf_g, klt, in_rng, go_in_range in *. cbn [fst snd].
    replace ((0 <=? go_selector_pair_second a) && (go_selector_pair_second a <? go_len geps)) with true by lia.
    replace ((0 <=? go_selector_pair_second b) && (go_selector_pair_second b <? go_len geps)) with true by lia.
    cbn [andb]. rewrite go_bytes_ltb_model.
    destruct (go_selector_pair_first a =? go_selector_pair_first b) eqn:E.
    - replace (go_selector_pair_first a <? go_selector_pair_first b) with false by lia.
      replace (go_selector_pair_first b <? go_selector_pair_first a) with false by lia. reflexivity.
    - destruct (go_selector_pair_first a <? go_selector_pair_first b) eqn:E2; [reflexivity|].
      replace (go_selector_pair_first b <? go_selector_pair_first a) with true by lia. reflexivity.
  Qed.

  Lemma insert_ext {A} (f g : A -> A -> bool) x : forall r, (forall b, In b r -> f x b = g x b) -> go_insert f x r = go_insert g x r.
  Proof.
    induction r as [|y r IH]; intros H; [reflexivity|]. cbn [go_insert]. rewrite (H y ltac:(left; reflexivity)).
    destruct (g x y); [reflexivity|]. f_equal. apply IH. intros b Ib. apply H. right. exact Ib.
  Qed.
  Lemma sort_ext {A} (f g : A -> A -> bool) : forall P, (forall a b, In a P -> In b P -> f a b = g a b) ->
    fold_right (go_insert f) [] P = fold_right (go_insert g) [] P /\ Permutation (fold_right (go_insert g) [] P) P.
  Proof.
    induction P as [|x P IH]; intros H; [split; [reflexivity|constructor]|]. cbn [fold_right].
    destruct IH as [E Pm]; [intros a b Ia Ib; apply H; right; assumption|]. rewrite E. split.
    - apply insert_ext. intros b Ib. apply H; [left; reflexivity|right; eapply Permutation_in; eassumption].
    - apply (perm_trans (insert_perm_gen g x _)). constructor. exact Pm.
  Qed.

  (* sort.Slice with the translated comparator sorts by the key *)
  Lemma tr_sort P : Forall in_rng P -> go_sort_by tr_less P = Some (isort kf_g P).
  Proof.
    intros HP. unfold go_sort_by. rewrite Forall_forall in HP.
    assert (T : go_less_total tr_less P = true).
    { unfold go_less_total. apply forallb_forall. intros a Ia. apply forallb_forall. intros b Ib.
      rewrite tr_less_klt by (apply HP; assumption). reflexivity. }
    rewrite T. f_equal. unfold isort.
    apply (sort_ext (fun a b => match tr_less a b with Some r => r | None => false end) (lessk kf_g) P).
    intros a b Ia Ib. rewrite tr_less_klt by (apply HP; assumption). reflexivity.
  Qed.
End rounds.

(* ---------- one round of the code: the reverse walk over the sorted candidates ---------- *)
Section inner.
  Variable total : Z.
  Variable idw : list (Z * Z).
  Notation pair := go_selector_pair.
  Notation pfst := go_selector_pair_first.
  Notation psnd := go_selector_pair_second.
  Definition gw (p : pair) : Z := go_map_get idw (psnd p) 0.
  Definition upd1 (p : pair) : pair :=
    {| go_selector_pair_first := wrapS 64 (wrapS 64 (pfst p - total) + gw p); go_selector_pair_second := psnd p |}.
  Definition upd2 (p : pair) : pair :=
    {| go_selector_pair_first := wrapS 64 (pfst p + gw p); go_selector_pair_second := psnd p |}.
  Definition istate := (list Z * list pair * bool)%type.
  Definition proc (st : istate) (p : pair) : istate :=
    let '(cache, mul, first) := st in
    if first then (cache ++ [psnd p], mul ++ [upd1 p], false) else (cache, mul ++ [upd2 p], first).

  (* the body of the reverse loop, as generated *)
  Definition ibody (S : list pair) (begin : Z) (st : istate) : ctl istate (list Z) :=
    let '(staticWeightRouterCache, mulTemp, first) := st in
    if go_in_range S begin then
      (let mIter := go_nth S begin (Build_go_selector_pair 0 0) in
       bindc (if first
              then let first := false in
                   let staticWeightRouterCache := staticWeightRouterCache ++ [psnd mIter] in
                   let mulTemp := mulTemp ++ [{| go_selector_pair_first := wrapS 64 (wrapS 64 (pfst mIter - total) + go_map_get idw (psnd mIter) 0);
                                                go_selector_pair_second := psnd mIter |}] in
                   Next (staticWeightRouterCache, mulTemp, first)
              else let mulTemp := mulTemp ++ [{| go_selector_pair_first := wrapS 64 (pfst mIter + go_map_get idw (psnd mIter) 0);
                                                 go_selector_pair_second := psnd mIter |}] in
                   Next (staticWeightRouterCache, mulTemp, first))
             (fun st : istate => let '(staticWeightRouterCache, mulTemp, first) := st in Next (staticWeightRouterCache, mulTemp, first)))
    else Panic.

  Lemma ibody_proc S k st : (k < length S)%nat ->
    ibody S (Z.of_nat k) st = Next (proc st (nth k S (Build_go_selector_pair 0 0))).
  Proof.
    intros Hk. destruct st as [[cache mul] first]. unfold ibody, proc.
    replace (go_in_range S (Z.of_nat k)) with true by (unfold go_in_range, go_len; lia).
    rewrite go_nth_std by lia. rewrite Nat2Z.id. destruct first; reflexivity.
  Qed.

  Lemma firstn_snoc {A} (S : list A) d : forall k, (k < length S)%nat -> firstn (Datatypes.S k) S = firstn k S ++ [nth k S d].
  Proof.
    induction S as [|x r IH]; intros k Hk; [cbn in Hk; lia|]. destruct k as [|k]; [reflexivity|].
    cbn [firstn nth app]. f_equal. apply IH. cbn in Hk. lia.
  Qed.

  Lemma inner_loop S : forall k st, (k <= length S)%nat ->
    go_count_down_from k (Z.of_nat k - 1) (ibody S) st = Next (fold_left proc (rev (firstn k S)) st).
  Proof.
    induction k as [|k IH]; intros st Hk; [reflexivity|]. cbn [go_count_down_from].
    replace (Z.of_nat (Datatypes.S k) - 1) with (Z.of_nat k) by lia. rewrite ibody_proc by lia. cbn [bindc].
    rewrite (firstn_snoc S (Build_go_selector_pair 0 0)) by lia. rewrite rev_app_distr. cbn [rev app fold_left].
    replace (Z.of_nat k - 1) with (Z.of_nat k - 1) by reflexivity. apply IH. lia.
  Qed.

  Lemma proc_rest xs : forall c m, fold_left proc xs (c, m, false) = (c, m ++ map upd2 xs, false).
  Proof.
    induction xs as [|x xs IH]; intros c m; cbn [fold_left map]; [rewrite app_nil_r; reflexivity|].
    cbn [proc]. rewrite IH, <- app_assoc. reflexivity.
  Qed.
  Lemma proc_all X cache : fold_left proc X (cache, [], true) =
    match X with [] => (cache, [], true) | x :: xs => (cache ++ [psnd x], upd1 x :: map upd2 xs, false) end.
  Proof. destruct X as [|x xs]; [reflexivity|]. cbn [fold_left proc]. rewrite proc_rest. reflexivity. Qed.
End inner.

(* ---------- the rounds ---------- *)
Section main.
  Variable geps : list go_endpoint_Endpoint.
  Variable ep_string : go_endpoint_Endpoint -> list N.
  Variable total : Z.
  Variable idw : list (Z * Z).
  Variable w : nat -> Z.
  Notation pair := go_selector_pair.
  Notation psnd := go_selector_pair_second.
  Let l := map (m_s ep_string) geps.
  Hypothesis Hw : forall i, go_map_get idw (Z.of_nat i) 0 = w i.
  (* endpoints that are candidates have different String()s *)
  Hypothesis Hskey : forall i j, (i < length geps)%nat -> (j < length geps)%nat ->
    skey (nth i l dummy) = skey (nth j l dummy) -> i = j.

  Definition i64 (z : Z) : Prop := -9223372036854775808 <= z <= 9223372036854775807.
  (* no value the rounds compute leaves int64 (the values of smooth weighted round-robin stay within total * max weight) *)
  Fixpoint fits (n : nat) (cur : list (Z * nat)) : Prop :=
    match n with
    | O => True
    | S k => match cur with
             | [] => True
             | c0 :: r => (forall c, In c cur -> i64 (fst c - total) /\ i64 (fst c - total + w (snd c)) /\ i64 (fst c + w (snd c))) /\
                          fits k (swrr_step total w (snd (pick_max l c0 r)) cur)
             end
    end.

  (* one round of the code, as generated *)
  Definition ground (i : Z) (st : list pair * list Z) : ctl (list pair * list Z) (list Z) :=
    let '(weightToId, staticWeightRouterCache) := st in
    match go_sort_by (tr_less geps ep_string) weightToId with
    | Some weightToId =>
        let mulTemp : list pair := @nil pair in
        let first := true in
        if (-9223372036854775808) <? 0
        then bindc (go_count_down (wrapS 64 (go_len weightToId - 1)) 0 (ibody total idw weightToId) (staticWeightRouterCache, mulTemp, first))
                   (fun st : list Z * list pair * bool => let '(staticWeightRouterCache, mulTemp, first) := st in
                      let weightToId := mulTemp in Next (weightToId, staticWeightRouterCache))
        else Panic
    | None => Panic
    end.

  Definition cand_ok (cur : list (Z * nat)) : Prop :=
    NoDup (map snd cur) /\ (forall c, In c cur -> (snd c < length geps)%nat) /\ Z.of_nat (length cur) < 4611686018427387904.

  Lemma cand_keys cur : cand_ok cur -> keys_inj (kf_m l) cur.
  Proof.
    intros (ND & Rng & _) a b Ia Ib E. unfold kf_m in E. inversion E as [[E1 E2]].
    apply Hskey in E2; [|apply Rng; assumption|apply Rng; assumption].
    destruct a as [va ia], b as [vb ib]. cbn [fst snd] in *. subst. reflexivity.
  Qed.

  Lemma gp_in_rng cur : cand_ok cur -> Forall (in_rng geps) (map gp cur).
  Proof.
    intros (_ & Rng & _). apply Forall_forall. intros p Ip. apply in_map_iff in Ip. destruct Ip as (c & <- & Ic).
    unfold in_rng, gp, go_len. cbn [go_selector_pair_second]. specialize (Rng c Ic). lia.
  Qed.

  (* the re-weighing on the Go side *)
  Definition gstep (j : nat) (p : pair) : pair := if psnd p =? Z.of_nat j then upd1 total idw p else upd2 idw p.

  Lemma gstep_gp j c : i64 (fst c - total) -> i64 (fst c - total + w (snd c)) -> i64 (fst c + w (snd c)) ->
    gstep j (gp c) = gp (if Nat.eqb (snd c) j then (fst c - total + w (snd c), snd c) else (fst c + w (snd c), snd c)).
  Proof.
    intros H1 H2 H3. unfold gstep, gp, upd1, upd2, gw, i64 in *. cbn [go_selector_pair_first go_selector_pair_second fst snd].
    rewrite Hw. destruct (Nat.eqb (snd c) j) eqn:E.
    - apply Nat.eqb_eq in E. replace (Z.of_nat (snd c) =? Z.of_nat j) with true by lia.
      rewrite (wrapS64_id (fst c - total)) by lia. rewrite wrapS64_id by lia. reflexivity.
    - apply Nat.eqb_neq in E. replace (Z.of_nat (snd c) =? Z.of_nat j) with false by lia.
      rewrite wrapS64_id by lia. reflexivity.
  Qed.

  Lemma step_map j cur :
    (forall c, In c cur -> i64 (fst c - total) /\ i64 (fst c - total + w (snd c)) /\ i64 (fst c + w (snd c))) ->
    map (gstep j) (map gp cur) = map gp (swrr_step total w j cur).
  Proof.
    intros Fit. unfold swrr_step. rewrite !map_map. apply map_ext_in. intros c Ic.
    destruct (Fit c Ic) as (F1 & F2 & F3). apply gstep_gp; assumption.
  Qed.

  Lemma one_round i P cur c0 r cache : cur = c0 :: r ->
    Permutation P (map gp cur) -> cand_ok cur ->
    (forall c, In c cur -> i64 (fst c - total) /\ i64 (fst c - total + w (snd c)) /\ i64 (fst c + w (snd c))) ->
    let j := snd (pick_max l c0 r) in
    exists P', ground i (P, cache) = Next (P', cache ++ [Z.of_nat j]) /\ Permutation P' (map gp (swrr_step total w j cur)).
  Proof.
    intros Hcur Pm Ok Fit j. pose proof Ok as (ND & Rng & Len).
    assert (HP : Forall (in_rng geps) P).
    { apply Forall_forall. intros p Ip. pose proof (gp_in_rng cur Ok) as G. rewrite Forall_forall in G. apply G.
      eapply Permutation_in; eassumption. }
    unfold ground. rewrite (tr_sort geps ep_string P HP). cbv zeta.
    change ((-9223372036854775808) <? 0) with true. cbv iota.
    set (S := isort (kf_g geps ep_string) P).
    assert (PS : Permutation S P) by apply isort_perm.
    assert (LS : length S = length cur) by (rewrite (Permutation_length PS), (Permutation_length Pm), map_length; reflexivity).
    unfold go_count_down. rewrite wrapS64_id by (unfold go_len; rewrite LS; lia).
    replace (Z.to_nat (go_len S - 1 - 0 + 1)) with (length S) by (unfold go_len; lia).
    replace (go_len S - 1) with (Z.of_nat (length S) - 1) by reflexivity.
    rewrite inner_loop by lia. rewrite firstn_all. cbn [bindc]. rewrite proc_all.
    (* the greatest candidate on both sides *)
    assert (KI : keys_inj (kf_g geps ep_string) (map gp cur)).
    { intros a b Ia Ib E. apply in_map_iff in Ia. apply in_map_iff in Ib. destruct Ia as (ca & <- & Ia). destruct Ib as (cb & <- & Ib).
      rewrite !kf_gp in E by (apply Rng; assumption). f_equal. apply (cand_keys cur Ok); assumption. }
    assert (KP : keys_inj (kf_g geps ep_string) P).
    { intros a b Ia Ib. apply KI; eapply Permutation_in; eassumption. }
    assert (Pne : P <> []) by (intros ->; apply Permutation_nil in Pm; rewrite Hcur in Pm; discriminate).
    pose proof (isort_max (kf_g geps ep_string) P (Build_go_selector_pair 0 0) KP Pne) as MaxG. fold S in MaxG.
    pose proof (cand_keys cur Ok) as CK. rewrite Hcur in CK.
    pose proof (pick_max_is_max l r c0 CK) as MaxM. rewrite <- Hcur in MaxM.
    assert (MaxM' : is_max (kf_g geps ep_string) (gp (pick_max l c0 r)) (map gp cur)).
    { destruct MaxM as [Im Mm]. split; [apply in_map; exact Im|]. intros p Ip. apply in_map_iff in Ip. destruct Ip as (c & <- & Ic).
      destruct (Mm c Ic) as [->|L]; [left; reflexivity|right]. unfold lessk in *. rewrite !kf_gp by (apply Rng; assumption). exact L. }
    assert (Ex : last S (Build_go_selector_pair 0 0) = gp (pick_max l c0 r)).
    { apply (is_max_unique (kf_g geps ep_string) (map gp cur)); [exact KI| |exact MaxM']. eapply is_max_perm; eassumption. }
    (* the reversed sorted list: the greatest first *)
    assert (Sne : S <> []) by (intros E; rewrite E, Hcur in LS; discriminate).
    destruct (exists_last Sne) as (S0 & x & ES). assert (Elast : last S (Build_go_selector_pair 0 0) = x) by (rewrite ES; apply last_last).
    rewrite ES, rev_app_distr. cbn [rev app]. cbn [go_selector_pair_second].
    assert (Xj : psnd x = Z.of_nat j) by (rewrite <- Elast, Ex; reflexivity).
    rewrite Xj. eexists; split; [reflexivity|].
    (* upd1 x :: map upd2 (rev S0) = map (gstep j) (x :: rev S0), a permutation of the model's step *)
    assert (NDp : NoDup (map psnd (x :: rev S0))).
    { apply (Permutation_NoDup (l := map psnd (map gp cur))).
      - apply Permutation_map. apply Permutation_sym. eapply perm_trans; [|exact Pm]. eapply perm_trans; [|exact PS].
        rewrite ES. eapply perm_trans; [apply Permutation_cons_append|]. apply Permutation_app_tail. apply Permutation_sym. apply Permutation_rev.
      - rewrite map_map. cbn [gp go_selector_pair_second]. rewrite <- (map_map snd Z.of_nat). apply FinFun.Injective_map_NoDup; [intros a b; lia|exact ND]. }
    assert (EG : upd1 total idw x :: map (upd2 idw) (rev S0) = map (gstep j) (x :: rev S0)).
    { cbn [map]. f_equal; [unfold gstep; rewrite Xj, Z.eqb_refl; reflexivity|].
      apply map_ext_in. intros p Ip. unfold gstep. inversion NDp as [|? ? Nx _]; subst.
      destruct (psnd p =? Z.of_nat j) eqn:E; [|reflexivity]. exfalso. apply Nx. rewrite Xj. apply in_map_iff. exists p. split; [lia|exact Ip]. }
    rewrite EG.
    apply (perm_trans (l' := map (gstep j) (map gp cur))).
    - apply Permutation_map. eapply perm_trans; [|exact Pm]. eapply perm_trans; [|exact PS].
      rewrite ES. eapply perm_trans; [apply Permutation_cons_append|]. apply Permutation_app_tail. apply Permutation_sym. apply Permutation_rev.
    - rewrite (step_map j cur Fit). reflexivity.
  Qed.

  Lemma cand_ok_step j cur : cand_ok cur -> cand_ok (swrr_step total w j cur).
  Proof.
    intros (ND & Rng & Len). repeat split.
    - rewrite WeightProofs.swrr_step_snd. exact ND.
    - intros c Ic. assert (In (snd c) (map snd (swrr_step total w j cur))) by (apply in_map; exact Ic).
      rewrite WeightProofs.swrr_step_snd in H. apply in_map_iff in H. destruct H as (c' & E & Ic'). rewrite <- E. apply Rng. exact Ic'.
    - unfold swrr_step. rewrite map_length. exact Len.
  Qed.

  Lemma rounds_loop n : forall i P cur cache, Permutation P (map gp cur) -> cand_ok cur -> fits n cur ->
    exists P', go_count_from n i ground (P, cache) = Next (P', cache ++ map Z.of_nat (swrr_rounds n l total w cur)).
  Proof.
    induction n as [|n IH]; intros i P cur cache Pm Ok Fit.
    - exists P. cbn. rewrite app_nil_r. reflexivity.
    - cbn [go_count_from swrr_rounds]. destruct cur as [|c0 r] eqn:EC.
      + (* no candidate: every round leaves everything as it is *)
        apply Permutation_sym, Permutation_nil in Pm. subst P.
        assert (G : ground i ([], cache) = Next ([], cache)) by reflexivity.
        rewrite G. cbn [bindc]. destruct (IH (i + 1) [] [] cache (Permutation_refl _) Ok) as (P' & E); [destruct n; exact I|].
        exists P'. rewrite E. destruct n; reflexivity.
      + rewrite <- EC in *. cbn [fits] in Fit. rewrite EC in Fit. destruct Fit as [Fit1 Fit2]. rewrite <- EC in Fit1, Fit2.
        destruct (one_round i P cur c0 r cache EC Pm Ok Fit1) as (P1 & E1 & Pm1). rewrite E1. cbn [bindc].
        destruct (IH (i + 1) P1 _ (cache ++ [Z.of_nat (snd (pick_max l c0 r))]) Pm1 (cand_ok_step _ _ Ok) Fit2) as (P' & E').
        exists P'. rewrite E'. rewrite EC. cbn [map]. rewrite <- app_assoc. reflexivity.
  Qed.

  (* the rounds of BuildStaticWeightList: what is appended to the cycle is the model's swrr_rounds *)
  Theorem tr_BSWL_rounds_equiv : forall cur cache, 0 <= total -> cand_ok cur -> fits (Z.to_nat total) cur ->
    tr_BSWL_rounds geps total (map gp cur) idw cache ep_string =
    Return (cache ++ map Z.of_nat (swrr_rounds (Z.to_nat total) l total w cur)).
  Proof.
    intros cur cache Ht Ok Fit. unfold tr_BSWL_rounds.
    match goal with |- context [go_count 0 total ?f _] => change f with ground end.
    unfold go_count. rewrite Z.sub_0_r.
    destruct (rounds_loop (Z.to_nat total) 0 (map gp cur) cur cache (Permutation_refl _) Ok Fit) as (P' & E).
    rewrite E. reflexivity.
  Qed.
End main.

(* the candidates the scaling loop hands over (tr_BSWL_scale_equiv: weightToId = map pair_of pos, idToWeight = map entry_of
   pos) are the model's [map (fun p => (snd p, fst p)) pos] *)
Lemma pair_of_gp (pos : list (nat * Z)) : map pair_of pos = map gp (map (fun p => (snd p, fst p)) pos).
Proof. rewrite map_map. reflexivity. Qed.

(* with the values the scaling loop hands over: idToWeight is the model's weight lookup [wof pos] (BSWLEquiv.map_get_wof) *)
Corollary tr_BSWL_rounds_model : forall geps ep_string total (pos : list (nat * Z)) cache,
  let l := map (m_s ep_string) geps in
  let cur := map (fun p : nat * Z => (snd p, fst p)) pos in
  (forall i j, (i < length geps)%nat -> (j < length geps)%nat -> skey (nth i l dummy) = skey (nth j l dummy) -> i = j) ->
  0 <= total -> cand_ok geps cur -> fits geps ep_string total (wof pos) (Z.to_nat total) cur ->
  tr_BSWL_rounds geps total (map pair_of pos) (map entry_of pos) cache ep_string =
  Return (cache ++ map Z.of_nat (swrr_rounds (Z.to_nat total) l total (wof pos) cur)).
Proof.
  intros geps ep_string total pos cache l cur Hs Ht Ok Fit. rewrite pair_of_gp.
  apply (tr_BSWL_rounds_equiv geps ep_string total (map entry_of pos) (wof pos)); try assumption.
  intros i. apply map_get_wof.
Qed.

(* an instance satisfying the hypotheses: weights 2 and 1 (scaled), String() = the host byte *)
Definition ex_g (h : N) : go_endpoint_Endpoint :=
  {| go_endpoint_Endpoint_Host := [h]; go_endpoint_Endpoint_Port := 0; go_endpoint_Endpoint_Timeout := 0; go_endpoint_Endpoint_Istcp := 1;
     go_endpoint_Endpoint_Grid := 0; go_endpoint_Endpoint_Qos := 0; go_endpoint_Endpoint_Weight := 0; go_endpoint_Endpoint_WeightType := 1;
     go_endpoint_Endpoint_AuthType := 0; go_endpoint_Endpoint_Proto := []; go_endpoint_Endpoint_Bind := []; go_endpoint_Endpoint_Container := [];
     go_endpoint_Endpoint_SetId := []; go_endpoint_Endpoint_Key := [] |}.
Example tr_BSWL_rounds_ex :
  tr_BSWL_rounds [ex_g 97; ex_g 98] 3 (map pair_of [(0%nat, 2); (1%nat, 1)]) (map entry_of [(0%nat, 2); (1%nat, 1)]) [] go_endpoint_Endpoint_Host
  = Return [0; 1; 0].
Proof. vm_compute. reflexivity. Qed.
Example tr_BSWL_rounds_ex_hyp :
  cand_ok [ex_g 97; ex_g 98] [(2, 0%nat); (1, 1%nat)] /\
  fits [ex_g 97; ex_g 98] go_endpoint_Endpoint_Host 3 (wof [(0%nat, 2); (1%nat, 1)]) 3 [(2, 0%nat); (1, 1%nat)].
Proof.
  split.
  - split; [|split].
    + cbn. apply NoDup_cons; [cbn; intuition congruence|apply NoDup_cons; [cbn; tauto|apply NoDup_nil]].
    + intros c [<-|[<-|[]]]; cbn; lia.
    + cbn. lia.
  - cbn. unfold i64. repeat split; intros;
      repeat match goal with H : _ \/ _ |- _ => destruct H | H : False |- _ => destruct H | H : (_, _) = _ |- _ => subst end; cbn; lia.
Qed.
(* ---------- [fits] holds in the all-positive case: the invariant of smooth weighted round-robin bounds the values ---------- *)
Lemma zsum_ge_len (lz : list Z) a : (forall x, In x lz -> a <= x) -> a * Z.of_nat (length lz) <= zsum lz.
Proof.
  induction lz as [|x r IH]; intros H; [cbn; lia|]. rewrite zsum_cons. cbn [length]. rewrite Nat2Z.inj_succ.
  specialize (IH ltac:(intros y Hy; apply H; right; exact Hy)). specialize (H x ltac:(left; reflexivity)). lia.
Qed.

Lemma zsum_pos_nonneg (w : nat -> Z) r : (forall i, In i r -> 0 < w i) -> 0 <= zsum (map w r).
Proof.
  induction r as [|y r IH]; intros H; [cbn; lia|]. cbn [map]. rewrite zsum_cons.
  assert (0 < w y) by (apply H; left; reflexivity). specialize (IH ltac:(intros i Hi; apply H; right; exact Hi)). lia.
Qed.
Lemma zsum_member_le (w : nat -> Z) ks i : (forall j, In j ks -> 0 < w j) -> In i ks -> w i <= zsum (map w ks).
Proof.
  induction ks as [|k0 r IH]; intros H Hi; [destruct Hi|]. cbn [map]. rewrite zsum_cons. destruct Hi as [->|Hi].
  - pose proof (zsum_pos_nonneg w r ltac:(intros j Hj; apply H; right; exact Hj)). lia.
  - assert (0 < w k0) by (apply H; left; reflexivity). specialize (IH ltac:(intros j Hj; apply H; right; exact Hj) Hi). lia.
Qed.

Lemma zsum_app a b : zsum (a ++ b) = zsum a + zsum b.
Proof. induction a as [|x a IH]; [reflexivity|]. cbn [app]. rewrite !zsum_cons, IH. lia. Qed.

Section fitsInv.
  Variable geps : list go_endpoint_Endpoint.
  Variable ep_string : go_endpoint_Endpoint -> list N.
  Variable ks : list nat.
  Variable w : nat -> Z.
  Hypothesis ks_nodup : NoDup ks.
  Hypothesis ks_ne : ks <> [].
  Hypothesis w_pos : forall i, In i ks -> 0 < w i.
  Let l := map (m_s ep_string) geps.
  Let T := zsum (map w ks).
  Hypothesis small : (Z.of_nat (length ks) + 2) * T < 4611686018427387904.

  Lemma Inv_bounds k cnt cur c : Inv ks w k cnt cur -> In c cur ->
    - T < fst c < (Z.of_nat (length ks) + 1) * T /\ 0 < w (snd c) <= T.
  Proof.
    intros (A & B & C & D) Ic. pose proof (T_pos ks w ks_ne w_pos) as TP. fold T in TP.
    assert (Wc : 0 < w (snd c)) by (apply w_pos; rewrite <- A; apply in_map; exact Ic).
    assert (Lo : forall x, In x cur -> - T < fst x).
    { intros x Ix. specialize (D x Ix). assert (0 < w (snd x)) by (apply w_pos; rewrite <- A; apply in_map; exact Ix). fold T in D. lia. }
    assert (WT : w (snd c) <= T) by (unfold T; apply zsum_member_le; [exact w_pos|rewrite <- A; apply in_map; exact Ic]).
    split; [split; [apply Lo; exact Ic|]|split; assumption].
    (* the others are above -T each and everything sums to T *)
    apply in_split in Ic. destruct Ic as (l1 & l2 & ->). unfold sumf in C. rewrite map_app in C. cbn [map] in C.
    assert (S12 : zsum (map fst l1 ++ fst c :: map fst l2) = zsum (map fst l1) + fst c + zsum (map fst l2)).
    { rewrite zsum_app, zsum_cons. lia. }
    rewrite S12 in C. fold T in C.
    assert (L1 : - T * Z.of_nat (length (map fst l1)) <= zsum (map fst l1)).
    { apply zsum_ge_len. intros x Hx. apply in_map_iff in Hx. destruct Hx as (y & <- & Hy).
      assert (- T < fst y) by (apply Lo; apply in_or_app; left; exact Hy). lia. }
    assert (L2 : - T * Z.of_nat (length (map fst l2)) <= zsum (map fst l2)).
    { apply zsum_ge_len. intros x Hx. apply in_map_iff in Hx. destruct Hx as (y & <- & Hy).
      assert (- T < fst y) by (apply Lo; apply in_or_app; right; right; exact Hy). lia. }
    assert (Len : length ks = (length l1 + S (length l2))%nat) by (rewrite <- A, map_length, app_length; reflexivity).
    rewrite !map_length in *. nia.
  Qed.

  Lemma fits_of_Inv n : forall cur k cnt, Inv ks w k cnt cur -> fits geps ep_string T w n cur.
  Proof.
    induction n as [|n IH]; intros cur k cnt HI; [exact I|]. cbn [fits].
    destruct cur as [|c0 r]; [exact I|]. split.
    - intros c Ic. destruct (Inv_bounds k cnt (c0 :: r) c HI Ic) as [[B1 B2] [B3 B4]].
      pose proof (T_pos ks w ks_ne w_pos) as TP. fold T in TP. unfold i64. nia.
    - eapply IH. apply (Inv_step l ks w ks_nodup ks_ne w_pos k cnt c0 r HI).
  Qed.
End fitsInv.

(* hence, when every static weight is positive (totalWeight is then the sum of the scaled weights), the rounds theorem
   needs no overflow hypothesis beyond "(candidates + 2) * total < 2^62" *)
Theorem tr_BSWL_rounds_positive : forall geps ep_string (pos : list (nat * Z)) cache,
  let l := map (m_s ep_string) geps in
  let ks := map fst pos in
  let T := zsum (map (wof pos) ks) in
  let cur := map (fun p : nat * Z => (snd p, fst p)) pos in
  (forall i j, (i < length geps)%nat -> (j < length geps)%nat -> skey (nth i l dummy) = skey (nth j l dummy) -> i = j) ->
  NoDup ks -> ks <> [] -> (forall i, In i ks -> 0 < wof pos i) -> (forall i, In i ks -> (i < length geps)%nat) ->
  (Z.of_nat (length ks) + 2) * T < 4611686018427387904 ->
  Inv ks (wof pos) 0 (fun _ => 0) cur ->
  tr_BSWL_rounds geps T (map pair_of pos) (map entry_of pos) cache ep_string =
  Return (cache ++ map Z.of_nat (swrr_rounds (Z.to_nat T) l T (wof pos) cur)).
Proof.
  intros geps ep_string pos cache l ks T cur Hs ND Hne Wp Rng Small HI.
  pose proof (T_pos ks (wof pos) Hne Wp) as TP. fold T in TP.
  apply tr_BSWL_rounds_model; try assumption; try lia.
  - assert (E : map snd (map (fun p : nat * Z => (snd p, fst p)) pos) = ks) by (unfold ks; rewrite map_map; reflexivity).
    unfold cand_ok. split; [|split].
    + rewrite E. exact ND.
    + intros c Ic. apply Rng. rewrite <- E. apply in_map. exact Ic.
    + rewrite map_length. unfold ks in Small. rewrite map_length in Small. nia.
  - apply (fits_of_Inv geps ep_string ks (wof pos) ND Hne Wp Small (Z.to_nat T) cur 0 (fun _ => 0) HI).
Qed.
