(* The float writers and readers of codec.go (Gen/Translated.v: tr_WriteFloat32/64, tr_ReadFloat32/64; float values are
   their IEEE bit patterns, math.Float32bits / Float64bits / ...frombits are the identity on them, float64(f32) is the
   target language's go_f32_to_f64) against the C02 model: w_f32, w_f64, r_f32, r_f64 with the FLOAT -> double
   widening [widen32]. *)
From Coq Require Import List NArith ZArith Bool Lia ZifyBool ZifyNat ZifyN.
From TarsV Require Import Gen.Consts Codec.Wire Codec.Skip Codec.Prim Xlate.GoSem Xlate.GoSemFacts Gen.Translated
  Xlate.CodecEquiv Xlate.ReaderEquiv.
Import ListNotations.
Open Scope Z_scope.
Notation mk := Build_go_reader.

(* the widening of the target language is the model's *)
Lemma f32_to_f64_widen32 (v : N) : go_f32_to_f64 (Z.of_N v) = Z.of_N (widen32 v).
Proof. unfold go_f32_to_f64, widen32. rewrite N2Z.id. reflexivity. Qed.

Theorem tr_WriteFloat32_equiv : forall bits tag out, 0 <= bits < 4294967296 -> 0 <= tag < 256 ->
  tr_WriteFloat32 bits tag out = Return (out ++ w_f32 (Z.to_N bits) (Z.to_N tag), false).
Proof.
  intros bits tag out Hb Ht. unfold tr_WriteFloat32, w_f32, k_codec_FLOAT.
  rewrite tr_WriteHead_equiv by lia. cbn [go_call bindc Bool.eqb negb].
  rewrite <- app_assoc. change (go_emit_u32 bits) with (go_put_be 4 bits). rewrite put_be_be by lia. reflexivity.
Qed.
Theorem tr_WriteFloat64_equiv : forall bits tag out, 0 <= bits < 18446744073709551616 -> 0 <= tag < 256 ->
  tr_WriteFloat64 bits tag out = Return (out ++ w_f64 (Z.to_N bits) (Z.to_N tag), false).
Proof.
  intros bits tag out Hb Ht. unfold tr_WriteFloat64, w_f64, k_codec_DOUBLE.
  rewrite tr_WriteHead_equiv by lia. cbn [go_call bindc Bool.eqb negb].
  rewrite <- app_assoc. change (go_emit_u64 bits) with (go_put_be 8 bits). rewrite put_be_be by lia. reflexivity.
Qed.

Local Ltac codes := cbn [N.eqb Pos.eqb tBYTE tSHORT tINT tLONG tFLOAT tDOUBLE tSTR1 tSTR4 tMAP tLIST tSB tSE tZERO tSIMPLE
  c_BYTE c_SHORT c_INT c_LONG c_FLOAT c_DOUBLE c_STRING1 c_STRING4 c_MAP c_LIST c_StructBegin c_StructEnd c_ZeroTag c_SimpleList
  orb andb negb] in *.
Local Ltac zcodes := cbn [Z.of_N Z.eqb Pos.eqb Bool.eqb negb] in *.

Local Ltac be_float n ref q rest Er :=
  let RB := fresh "RB" in
  pose proof (rd_be_equiv n ref q 0 ltac:(lia) ltac:(lia)) as RB; rewrite Er in RB;
  change go_rd_u32 with (go_rd_be 4); change go_rd_u64 with (go_rd_be 8);
  destruct (bread n rest) as [[v r']|];
  [ let E2 := fresh "E2" in let L2 := fresh "L2" in
    destruct RB as (-> & E2 & L2); cbn [bindc Bool.eqb negb read_sim map_r]; rewrite ?f32_to_f64_widen32;
    exists (q + Z.of_nat n); repeat split; try assumption; lia
  | let p' := fresh "p'" in let v := fresh "v" in
    destruct RB as (p' & v & -> & _); cbn [bindc Bool.eqb negb read_sim map_r]; eexists; eexists; reflexivity ].

Local Ltac float_reader f F tag req ref p data HF Hok H body :=
  let SK := fresh "SK" in
  pose proof (tr_SkipToNoCheck_equiv f F tag req ref p HF Hok H) as SK; unfold with_seek_p;
  destruct (seek_p f tag req (go_drop ref p)) as [ty rest|rest| |]; cbn [seek_sim] in SK; try congruence;
  [ destruct SK as (q & -> & Er & Hq & Hty); cbn [go_call bindc Bool.eqb negb]; unfold body;
    destruct (ty16 ty Hty) as [T|[T|[T|[T|[T|[T|[T|[T|[T|[T|[T|[T|[T|[T|[T|T]]]]]]]]]]]]]]]; subst ty; codes; zcodes; cbn [read_sim map_r];
    first [ solve [cbn [bindc Bool.eqb negb]; first [exists q; repeat split; try assumption; lia | eexists; eexists; reflexivity]]
          | solve [be_float 4%nat ref q rest Er] | solve [be_float 8%nat ref q rest Er] ]
  | destruct SK as (q & ty & -> & Er & Hq); cbn [go_call bindc Bool.eqb negb read_sim map_r]; exists q; repeat split; try assumption; lia
  | destruct SK as (q & ty & -> & Hq); cbn [go_call bindc Bool.eqb negb read_sim map_r]; eexists; eexists; reflexivity ].

Theorem tr_ReadFloat32_equiv : forall f F (tag : N) req ref p data, (f + 3 <= F)%nat -> ok (mk ref p 0) ->
  seek_p f tag req (go_drop ref p) <> SeekFuel ->
  read_sim (tr_ReadFloat32 F data (Z.of_N tag) req (mk ref p 0)) ref data
           (map_r Z.of_N (with_seek_p f tag req (go_drop ref p) read_f32_body)).
Proof.
  intros f F tag req ref p data HF Hok H. pose proof Hok as (Hp & Hl & Hb). cbn [rd_pos rd_ref] in *.
  unfold tr_ReadFloat32. float_reader f F tag req ref p data HF Hok H read_f32_body.
Qed.
Theorem tr_ReadFloat64_equiv : forall f F (tag : N) req ref p data, (f + 3 <= F)%nat -> ok (mk ref p 0) ->
  seek_p f tag req (go_drop ref p) <> SeekFuel ->
  read_sim (tr_ReadFloat64 F data (Z.of_N tag) req (mk ref p 0)) ref data
           (map_r Z.of_N (with_seek_p f tag req (go_drop ref p) read_f64_body)).
Proof.
  intros f F tag req ref p data HF Hok H. pose proof Hok as (Hp & Hl & Hb). cbn [rd_pos rd_ref] in *.
  unfold tr_ReadFloat64. float_reader f F tag req ref p data HF Hok H read_f64_body.
Qed.

(* with the models as they stand and their own fuel *)
Theorem tr_ReadFloat_total : forall F (tag : N) req ref p data, ok (mk ref p 0) ->
  let bs := go_drop ref p in (fuel_for bs + 3 <= F)%nat ->
  read_sim (tr_ReadFloat32 F data (Z.of_N tag) req (mk ref p 0)) ref data (map_r Z.of_N (r_f32 (fuel_for bs) tag req bs)) /\
  read_sim (tr_ReadFloat64 F data (Z.of_N tag) req (mk ref p 0)) ref data (map_r Z.of_N (r_f64 (fuel_for bs) tag req bs)).
Proof.
  intros F tag req ref p data Hok bs HF.
  pose proof (seek_p_fuel (fuel_for bs) tag req bs ltac:(unfold fuel_for; lia)) as NF.
  unfold r_f32, r_f64. rewrite !with_seek_p_clean by exact NF.
  split; [apply tr_ReadFloat32_equiv|apply tr_ReadFloat64_equiv]; assumption.
Qed.

Example tr_ReadFloat64_ex :   (* 1.0f at tag 0 read as a double: 0x3FF0000000000000 *)
  tr_ReadFloat64 10 7 0 true (mk [4; 63; 128; 0; 0]%N 0 0) = Return (mk [4; 63; 128; 0; 0]%N 5 0, 4607182418800017408, false).
Proof. vm_compute. reflexivity. Qed.
