(* The Gallina text generated from the current Go source of consistenthash.FindInt32 (Gen/Translated.v: tr_ch_FindInt32:
   sort.Search over sortedKeys, wrap-around to index 0, the hashRing lookup) computes the C14 model's ring lookup
   (Select/Selectors.v: ring_lookup - the owner of the least point >= the code, else of the least point), for every ring
   and every Go representation of it: sortedKeys strictly increasing and holding exactly the ring's points, hashRing
   mapping each point to its owner. sort.Search is a primitive of the target language (the binary search of package
   sort, GoSem.go_search); what it needs is stated and proved here: the predicate `sortedKeys[x] >= key` is monotone
   because the keys are sorted. *)
From Coq Require Import List NArith ZArith Bool Lia ZifyBool ZifyNat ZifyN.
From TarsV Require Import Base.Hex Gen.Consts Select.Selectors Xlate.GoSem Xlate.GoSemFacts Gen.Translated Xlate.BSWLEquiv Xlate.SelectEquiv.
Import ListNotations.
Open Scope Z_scope.

(* ---------- the model's [least] ---------- *)
Definition lstep (b : option (N * ep)) (p : N * ep) : option (N * ep) :=
  match b with None => Some p | Some q => if N.ltb (fst p) (fst q) then Some p else Some q end.
Lemma least_fold l : forall b, fold_left lstep l b = match b with
    | None => least l
    | Some q => match least l with None => Some q | Some p => if N.ltb (fst p) (fst q) then Some p else Some q end end.
Proof.
  unfold least. fold lstep. induction l as [|a l IH]; intros b; [destruct b; reflexivity|].
  cbn [fold_left]. rewrite (IH (lstep b a)), (IH (lstep None a)). cbn [lstep].
  destruct b as [q|]; [|reflexivity]. cbn [lstep].
  destruct (fst a <? fst q)%N eqn:C.
  - destruct (fold_left lstep l None) as [p|] eqn:F; [|rewrite C; reflexivity].
    destruct (fst p <? fst a)%N eqn:C2; [replace (fst p <? fst q)%N with true by lia; reflexivity|rewrite C; reflexivity].
  - destruct (fold_left lstep l None) as [p|] eqn:F; [|rewrite C; reflexivity].
    destruct (fst p <? fst a)%N eqn:C2; destruct (fst p <? fst q)%N eqn:C3; try reflexivity; try rewrite C; try reflexivity; lia.
Qed.

(* [least l] is a member with a minimal point; None only for the empty ring *)
Lemma least_spec l : match least l with
                     | None => l = []
                     | Some p => In p l /\ forall q, In q l -> (fst p <= fst q)%N
                     end.
Proof.
  induction l as [|a l IH]; [reflexivity|].
  assert (E : least (a :: l) = fold_left lstep l (Some a)) by reflexivity. rewrite E, least_fold.
  destruct (least l) as [p|].
  - destruct IH as [Ip Mp]. destruct (fst p <? fst a)%N eqn:C.
    + split; [right; exact Ip|]. intros q [<-|Iq]; [lia|apply Mp; exact Iq].
    + split; [left; reflexivity|]. intros q [<-|Iq]; [lia|]. specialize (Mp q Iq). lia.
  - subst l. split; [left; reflexivity|]. intros q [<-|[]]. lia.
Qed.

(* ---------- the Go representation of a ring ---------- *)
Notation zero_ep := (Build_go_endpoint_Endpoint (@nil N) 0 0 0 0 0 0 0 0 (@nil N) (@nil N) (@nil N) (@nil N) (@nil N)).
Definition key_at (keys : list Z) (i : Z) : Z := go_nth keys i 0.
Record ring_rep (keys : list Z) (hr : list (Z * go_endpoint_Endpoint)) (r : list (N * ep)) : Prop := {
  rep_sorted : forall i j, 0 <= i -> i < j -> j < go_len keys -> key_at keys i < key_at keys j;
  rep_keys : forall k : Z, (exists i, 0 <= i < go_len keys /\ key_at keys i = k) <-> (0 <= k /\ In (Z.to_N k) (map fst r));
  rep_nodup : NoDup (map fst r);
  rep_owner : forall k e, In (k, e) r -> m_of (go_map_get hr (Z.of_N k) zero_ep) = e
}.

Lemma nodup_owner (r : list (N * ep)) p q : NoDup (map fst r) -> In p r -> In q r -> fst p = fst q -> p = q.
Proof.
  induction r as [|a r IH]; intros ND Ip Iq E; [destruct Ip|]. inversion ND as [|? ? Na ND']; subst.
  destruct Ip as [<-|Ip]; destruct Iq as [<-|Iq]; try reflexivity.
  - exfalso. apply Na. rewrite E. apply in_map. exact Iq.
  - exfalso. apply Na. rewrite <- E. apply in_map. exact Ip.
  - apply IH; assumption.
Qed.

Theorem tr_ch_FindInt32_equiv : forall keys hr r (key : Z), ring_rep keys hr r -> 0 <= key ->
  match ring_lookup r (Z.to_N key) with
  | Some e => exists g, tr_ch_FindInt32 key hr keys = Return (g, true) /\ m_of g = e
  | None => tr_ch_FindInt32 key hr keys = Return (zero_ep, false)
  end.
Proof.
  intros keys hr r key [Srt Keys ND Own] Hkey. unfold tr_ch_FindInt32, ring_lookup.
  set (n := go_len keys). assert (Hn : 0 <= n) by (unfold n, go_len; lia).
  destruct (n =? 0) eqn:En.
  - (* no keys: the ring is empty *)
    assert (r = []).
    { destruct r as [|[k e] r']; [reflexivity|]. exfalso.
      destruct (proj2 (Keys (Z.of_N k))) as (i & Hi & _); [split; [lia|rewrite N2Z.id; left; reflexivity]|lia]. }
    subst r. reflexivity.
  - set (f := fun x : Z => if go_in_range keys x then Some (key <=? go_nth keys x 0) else None).
    set (p := fun x : Z => key <=? key_at keys x).
    assert (Pre : search_pre n f p).
    { split.
      - intros x Hx. unfold f, p, key_at, go_in_range. fold n. replace ((0 <=? x) && (x <? n)) with true by lia. reflexivity.
      - intros x y Hxy Hy Px. unfold p in *. destruct (Z.eq_dec x y) as [->|Ne]; [exact Px|].
        pose proof (Srt x y ltac:(lia) ltac:(lia) Hy). lia. }
    destruct (go_search_least n f p Hn Pre) as (Ok & Rng & Lo & Hi). fold f. rewrite Ok.
    set (idx := go_search n f) in *.
    (* the index the code ends with, and its key *)
    set (idx' := if n <=? idx then 0 else idx).
    assert (Hidx' : 0 <= idx' < n) by (unfold idx'; destruct (n <=? idx) eqn:C; lia).
    replace (bindc (if n <=? idx then Next 0 else Next idx)
               (fun index : Z => if go_in_range keys index
                  then Return (go_map_get hr (go_nth keys index 0) zero_ep, true) else Panic))
      with (Return (go_map_get hr (key_at keys idx') zero_ep, true) : ctl unit (go_endpoint_Endpoint * bool)).
    2:{ unfold idx'. destruct (n <=? idx) eqn:C; cbn [bindc]; unfold go_in_range; fold n;
        [replace ((0 <=? 0) && (0 <? n)) with true by lia|replace ((0 <=? idx) && (idx <? n)) with true by lia]; reflexivity. }
    (* the model's choice has the same point *)
    assert (Kin : forall i, 0 <= i < n -> 0 <= key_at keys i /\ In (Z.to_N (key_at keys i)) (map fst r)).
    { intros i Hi'. apply Keys. exists i. split; [exact Hi'|reflexivity]. }
    assert (Goal1 : forall pm, In pm r -> fst pm = Z.to_N (key_at keys idx') ->
              exists g, (Return (go_map_get hr (key_at keys idx') zero_ep, true) : ctl unit (go_endpoint_Endpoint * bool)) = Return (g, true) /\ m_of g = snd pm).
    { intros [k e] Ip Ek. cbn [fst snd] in *. eexists; split; [reflexivity|].
      destruct (Kin idx' Hidx') as [K0 _]. replace (key_at keys idx') with (Z.of_N k) by lia. apply Own. exact Ip. }
    pose proof (least_spec (filter (fun q => (Z.to_N key <=? fst q)%N) r)) as LF.
    destruct (least (filter (fun q => (Z.to_N key <=? fst q)%N) r)) as [pm|].
    + destruct LF as [Ipm Mpm]. apply filter_In in Ipm. destruct Ipm as [Ipm Gpm].
      apply Goal1; [exact Ipm|].
      (* pm's point is a key at some index x >= idx; the key at idx is in the filter, too *)
      destruct (proj2 (Keys (Z.of_N (fst pm)))) as (x & Hx & Ex); [split; [lia|rewrite N2Z.id; apply in_map; exact Ipm]|].
      assert (Hxi : idx <= x).
      { destruct (Z.le_gt_cases idx x); [assumption|]. specialize (Lo x ltac:(lia)). unfold p in Lo. lia. }
      assert (Hlt : idx < n) by lia.
      unfold idx'. replace (n <=? idx) with false by lia.
      specialize (Hi Hlt). unfold p in Hi.
      destruct (Kin idx ltac:(lia)) as [K0 Kr]. apply in_map_iff in Kr. destruct Kr as (q & Eq & Iq).
      assert (Iqf : In q (filter (fun q => (Z.to_N key <=? fst q)%N) r)) by (apply filter_In; split; [exact Iq|lia]).
      specialize (Mpm q Iqf).
      destruct (Z.eq_dec idx x) as [->|Ne]; [lia|]. pose proof (Srt idx x ltac:(lia) ltac:(lia) ltac:(lia)). lia.
    + (* nothing at or above the code: every key is below it, the search returns n, the code wraps to index 0 *)
      assert (Hall : idx = n).
      { destruct (Z.eq_dec idx n); [assumption|]. exfalso. specialize (Hi ltac:(lia)). unfold p in Hi.
        destruct (Kin idx ltac:(lia)) as [K0 Kr]. apply in_map_iff in Kr. destruct Kr as (q & Eq & Iq).
        assert (Iqf : In q (filter (fun q => (Z.to_N key <=? fst q)%N) r)) by (apply filter_In; split; [exact Iq|lia]).
        rewrite LF in Iqf. destruct Iqf. }
      unfold idx'. replace (n <=? idx) with true by lia.
      pose proof (least_spec r) as LR. destruct (least r) as [pm|].
      * destruct LR as [Ipm Mpm].
        assert (E0 : fst pm = Z.to_N (key_at keys 0)).
        { destruct (Kin 0 ltac:(lia)) as [K0 Kr]. apply in_map_iff in Kr. destruct Kr as (q & Eq & Iq).
          specialize (Mpm q Iq).
          destruct (proj2 (Keys (Z.of_N (fst pm)))) as (x & Hx & Ex); [split; [lia|rewrite N2Z.id; apply in_map; exact Ipm]|].
          destruct (Z.eq_dec 0 x) as [<-|Ne]; [lia|]. pose proof (Srt 0 x ltac:(lia) ltac:(lia) ltac:(lia)). lia. }
        replace idx' with 0 in Goal1 by (unfold idx'; replace (n <=? idx) with true by lia; reflexivity).
        apply Goal1; assumption.
      * exfalso. subst r. destruct (Kin 0 ltac:(lia)) as [_ []].
Qed.
