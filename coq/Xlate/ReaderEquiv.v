(* The Gallina text generated from the current Go source of codec.Reader (Gen/Translated.v: tr_readHead, tr_unreadHead,
   tr_Skip, the skipping group, tr_SkipToNoCheck, the integer / string readers) computes the hand-written C02/C05/C06
   models of Codec/Wire.v, Codec/Skip.v and Codec/Prim.v. The translated code runs on a reader state
   (underlying bytes, position, depth: GoSem.go_reader); the models run on the remaining suffix [go_rd_rest rd]. *)
From Coq Require Import List NArith ZArith Bool Lia ZifyBool ZifyNat ZifyN.
From TarsV Require Import Gen.Consts Codec.Wire Codec.Skip Codec.Prim Xlate.GoSem Xlate.GoSemFacts Gen.Translated.
Import ListNotations.
Open Scope Z_scope.

(* ---------- reader states ---------- *)
Notation mk := Build_go_reader.
Definition LEN_MAX : Z := 1099511627776.           (* 2^40: the length of the underlying slice (any real one is smaller) *)
(* positions: never negative; beyond the end by at most one seek of a 32-bit count *)
Definition ok (rd : go_reader) : Prop :=
  0 <= rd_pos rd <= go_len (rd_ref rd) + 4294967296 /\ go_len (rd_ref rd) <= LEN_MAX /\ bytes_ok (rd_ref rd).
Definition strict (rd : go_reader) : Prop := ok rd /\ rd_pos rd <= go_len (rd_ref rd).
(* rd' is rd moved to a position where [bs] is left *)
Definition moved (rd rd' : go_reader) (bs : list N) : Prop :=
  rd_ref rd' = rd_ref rd /\ rd_depth rd' = rd_depth rd /\ go_rd_rest rd' = bs.

Lemma go_drop_nil {A} (l : list A) p : go_len l <= p -> go_drop l p = [].
Proof.
  revert p. induction l as [|a l IH]; intros p H; [reflexivity|]. unfold go_len in *. cbn [length go_drop] in *.
  replace (p <=? 0) with false by lia. apply IH. lia.
Qed.
Lemma go_drop_0 {A} (l : list A) p : p <= 0 -> go_drop l p = l.
Proof. intros H. destruct l; cbn [go_drop]; [reflexivity|]. replace (p <=? 0) with true by lia. reflexivity. Qed.
Lemma go_drop_len {A} (l : list A) : forall p, 0 <= p <= go_len l -> go_len (go_drop l p) = go_len l - p.
Proof.
  induction l as [|a l IH]; intros p H; unfold go_len in *; cbn [length go_drop] in *; [lia|].
  destruct (p <=? 0) eqn:E; [cbn [length]; lia|]. rewrite IH by lia. lia.
Qed.
Lemma go_drop_add {A} (l : list A) : forall p n, 0 <= p -> 0 <= n -> go_drop l (p + n) = go_drop (go_drop l p) n.
Proof.
  induction l as [|a l IH]; intros p n Hp Hn; [reflexivity|]. cbn [go_drop].
  destruct (p <=? 0) eqn:E.
  - replace p with 0 by lia. reflexivity.
  - replace (p + n <=? 0) with false by lia. replace (p + n - 1) with (p - 1 + n) by lia. apply IH; lia.
Qed.
Lemma go_drop_cons {A} (l : list A) p b r : 0 <= p -> go_drop l p = b :: r -> go_drop l (p + 1) = r /\ p < go_len l.
Proof.
  intros Hp E. split.
  - rewrite go_drop_add, E by lia. cbn. apply go_drop_0. lia.
  - destruct (Z.lt_ge_cases p (go_len l)) as [?|G]; [assumption|]. rewrite go_drop_nil in E by lia. discriminate.
Qed.
Lemma go_drop_is_nil {A} (l : list A) p : 0 <= p -> go_drop l p = [] -> go_len l <= p.
Proof.
  intros Hp E. destruct (Z.le_gt_cases (go_len l) p) as [?|G]; [assumption|].
  pose proof (go_drop_len l p ltac:(lia)) as L. rewrite E in L. unfold go_len in L at 1. cbn in L. lia.
Qed.

(* the model's [drop] (seek forward, past the end allowed) *)
Lemma drop_go (n : N) (bs : list N) : drop n bs = go_drop bs (Z.of_N n).
Proof.
  unfold drop. destruct (N.of_nat (length bs) <=? n)%N eqn:E.
  - symmetry. apply go_drop_nil. unfold go_len. lia.
  - rewrite go_drop_skipn by lia. f_equal. lia.
Qed.

Lemma bytes_ok_drop l p : bytes_ok l -> bytes_ok (go_drop l p).
Proof.
  unfold bytes_ok. revert p. induction l as [|a l IH]; intros p H; [constructor|]. cbn [go_drop].
  destruct (p <=? 0); [exact H|]. apply IH. inversion H; assumption.
Qed.

(* ---------- the library calls, on the remaining suffix ---------- *)
Lemma readbyte_nil ref p d : go_drop ref p = [] -> go_rd_readbyte (mk ref p d) = (mk ref p d, 0, true).
Proof. intros E. unfold go_rd_readbyte, go_rd_rest. cbn [rd_ref rd_pos]. rewrite E. reflexivity. Qed.
Lemma readbyte_cons ref p d b r : go_drop ref p = b :: r ->
  go_rd_readbyte (mk ref p d) = (mk ref (p + 1) d, Z.of_N b, false).
Proof. intros E. unfold go_rd_readbyte, go_rd_rest. cbn [rd_ref rd_pos]. rewrite E. reflexivity. Qed.

(* ---------- readHead ---------- *)
Lemma head_bits b : (b < 256)%N -> Z.land (Z.of_N b) 15 = Z.of_N (b mod 16) /\ Z.shiftr (Z.land (Z.of_N b) 240) 4 = Z.of_N (b / 16).
Proof.
  intros H.
  assert (C : forallb (fun z => (Z.land z 15 =? z mod 16) && (Z.shiftr (Z.land z 240) 4 =? z / 16)) (map Z.of_nat (seq 0 256)) = true)
    by (vm_compute; reflexivity).
  rewrite forallb_forall in C. specialize (C (Z.of_N b)).
  assert (I : In (Z.of_N b) (map Z.of_nat (seq 0 256))).
  { replace (Z.of_N b) with (Z.of_nat (N.to_nat b)) by lia. apply in_map. apply in_seq. lia. }
  specialize (C I). apply andb_true_iff in C. destruct C as [C1 C2]. apply Z.eqb_eq in C1, C2.
  rewrite N2Z.inj_mod, N2Z.inj_div. change (Z.of_N 16) with 16. split; assumption.
Qed.

(* On success: type, tag, and the reader just behind the head (one or two bytes on). On failure (no byte, or the
   second head byte missing): an error, nothing left to read. *)
Theorem tr_readHead_equiv : forall ref p d, ok (mk ref p d) ->
  match read_head2 (go_drop ref p) with
  | Some (ty, tg, r, two) =>
      tr_readHead (mk ref p d) = Return (mk ref (p + (if two then 2 else 1)) d, Z.of_N ty, Z.of_N tg, false) /\
      go_drop ref (p + (if two then 2 else 1)) = r /\ p + (if two then 2 else 1) <= go_len ref /\ (ty < 16)%N /\ (tg < 256)%N
  | None => exists p' ty tg, tr_readHead (mk ref p d) = Return (mk ref p' d, ty, tg, true) /\
                             go_drop ref p' = [] /\ p <= p' /\ (p' = p \/ p' <= go_len ref)
  end.
Proof.
  intros ref p d (Hp & Hl & Hb). cbn [rd_pos rd_ref] in *. unfold tr_readHead, read_head2.
  destruct (go_drop ref p) as [|b r] eqn:E.
  - rewrite (readbyte_nil _ _ _ E). cbn [Bool.eqb negb bindc]. exists p, 0, 0. repeat split; try assumption; lia.
  - rewrite (readbyte_cons _ _ _ _ _ E). cbn [Bool.eqb negb bindc].
    assert (Hb' : (b < 256)%N).
    { pose proof (bytes_ok_drop ref p Hb) as F. rewrite E in F. inversion F; assumption. }
    destruct (head_bits b Hb') as [B1 B2]. rewrite B1, B2.
    destruct (go_drop_cons ref p b r ltac:(lia) E) as [E1 L1].
    destruct (b / 16 =? 15)%N eqn:T.
    + replace (Z.of_N (b / 16) =? 15) with true by lia.
      destruct r as [|t r'].
      * rewrite (readbyte_nil _ _ _ E1). cbn [Bool.eqb negb bindc].
        exists (p + 1), (Z.of_N (b mod 16)), (Z.of_N (b / 16)). repeat split; try assumption; lia.
      * rewrite (readbyte_cons _ _ _ _ _ E1). cbn [Bool.eqb negb bindc].
        destruct (go_drop_cons ref (p + 1) t r' ltac:(lia) E1) as [E2 L2].
        assert (Ht : (t < 256)%N).
        { pose proof (bytes_ok_drop ref (p + 1) Hb) as F. rewrite E1 in F. inversion F; assumption. }
        replace (p + 1 + 1) with (p + 2) in * by lia.
        repeat split; try assumption; try lia; try (apply N.mod_lt; lia).
    + replace (Z.of_N (b / 16) =? 15) with false by lia. cbn [bindc].
      assert (b / 16 < 16)%N by (apply N.div_lt_upper_bound; lia).
      repeat split; try assumption; try lia; try (apply N.mod_lt; lia).
Qed.

(* ---------- unreadHead, Skip ---------- *)
Lemma tr_unreadHead_pos tg ref q d : (if 15 <=? tg then 2 else 1) <= q ->
  tr_unreadHead tg (mk ref q d) = Return (mk ref (q - (if 15 <=? tg then 2 else 1)) d).
Proof.
  intros H. unfold tr_unreadHead, go_rd_unreadbyte, go_rd_set_pos. cbn [rd_pos rd_ref rd_depth].
  destruct (15 <=? tg); cbn [bindc rd_pos rd_ref rd_depth].
  - replace (q <=? 0) with false by lia. cbn [rd_pos rd_ref rd_depth]. replace (q - 1 <=? 0) with false by lia.
    cbn [rd_pos rd_ref rd_depth bindc]. do 2 f_equal. lia.
  - replace (q <=? 0) with false by lia. reflexivity.
Qed.

(* stepping back over the head just read gives the model's [unread] *)
Theorem tr_unreadHead_equiv : forall ref p d ty tg r two, ok (mk ref p d) ->
  read_head2 (go_drop ref p) = Some (ty, tg, r, two) ->
  exists p', tr_unreadHead (Z.of_N tg) (mk ref (p + (if two then 2 else 1)) d) = Return (mk ref p' d) /\
             go_drop ref p' = unread (go_drop ref p) tg two /\ p <= p' <= p + 1.
Proof.
  intros ref p d ty tg r two (Hp & Hl & Hb) H. cbn [rd_pos rd_ref] in *. unfold read_head2 in H.
  destruct (go_drop ref p) as [|b bs] eqn:E; [discriminate|].
  destruct (go_drop_cons ref p b bs ltac:(lia) E) as [E1 _].
  assert (Hb' : (b < 256)%N).
  { pose proof (bytes_ok_drop ref p Hb) as F. rewrite E in F. inversion F; assumption. }
  assert (b / 16 < 16)%N by (apply N.div_lt_upper_bound; lia).
  destruct (b / 16 =? 15)%N eqn:T.
  - destruct bs as [|t bs']; [discriminate|]. inversion H; subst ty tg r two. clear H.
    rewrite tr_unreadHead_pos by (destruct (15 <=? Z.of_N t); lia).
    unfold unread. cbn [andb].
    destruct (t <? 15)%N eqn:T2.
    + replace (15 <=? Z.of_N t) with false by lia. exists (p + 1). cbn [tl]. split; [do 2 f_equal; lia|]. split; [exact E1|lia].
    + replace (15 <=? Z.of_N t) with true by lia. exists p. split; [do 2 f_equal; lia|]. split; [exact E|lia].
  - inversion H; subst ty tg r two. clear H.
    rewrite tr_unreadHead_pos by (destruct (15 <=? Z.of_N (b / 16)) eqn:Q; lia).
    replace (15 <=? Z.of_N (b / 16)) with false by lia. unfold unread. cbn [andb].
    exists p. split; [do 2 f_equal; lia|]. split; [exact E|lia].
Qed.

Lemma tr_Skip_pos n ref p d : 0 <= p <= LEN_MAX + 4294967296 -> n <= 4294967296 ->
  tr_Skip n (mk ref p d) = Return (mk ref (if 0 <? n then p + n else p) d).
Proof.
  intros Hp Hn. unfold tr_Skip, LEN_MAX in *. destruct (n <=? 0) eqn:E; cbn [bindc].
  - replace (0 <? n) with false by lia. reflexivity.
  - replace (0 <? n) with true by lia. unfold go_rd_seekcur, go_rd_set_pos. cbn [rd_pos rd_ref rd_depth].
    rewrite wrapS64_id by lia. replace (p + n <? 0) with false by lia. reflexivity.
Qed.

(* ---------- bReadU16/32/64 = the model's [bread] ---------- *)
Lemma go_be_val l : forall n a x, length l = n -> go_be n (Z.of_N a) (l ++ x) = Z.of_N (be_val a l).
Proof.
  induction l as [|b l IH]; intros n a x H; subst n; [reflexivity|]. cbn [length go_be app be_val].
  replace (Z.of_N a * 256 + Z.of_N b) with (Z.of_N (a * 256 + b)) by lia. apply IH. reflexivity.
Qed.
Lemma go_take_all {A} (l : list A) n : go_len l <= n -> go_take l n = l.
Proof.
  revert n. induction l as [|a l IH]; intros n H; [reflexivity|]. unfold go_len in *. cbn [length go_take] in *.
  replace (n <=? 0) with false by lia. f_equal. apply IH. lia.
Qed.

Lemma rd_be_equiv (n : nat) ref p d : 0 <= p -> (1 <= n)%nat ->
  match bread n (go_drop ref p) with
  | Some (v, r) => go_rd_be n (mk ref p d) = (mk ref (p + Z.of_nat n) d, Z.of_N v, false) /\
                   go_drop ref (p + Z.of_nat n) = r /\ p + Z.of_nat n <= go_len ref
  | None => exists p' v, go_rd_be n (mk ref p d) = (mk ref p' d, v, true) /\ go_drop ref p' = [] /\ p <= p' /\ (p' = p \/ p' <= go_len ref)
  end.
Proof.
  intros Hp Hn. unfold bread, go_rd_be, go_rd_readfull, go_rd_rest, go_rd_set_pos. cbn [rd_pos rd_ref rd_depth].
  set (rest := go_drop ref p).
  assert (Lr : go_len (repeat 0%N n) = Z.of_nat n) by (unfold go_len; rewrite repeat_length; reflexivity).
  rewrite Lr.
  destruct (n <=? length rest)%nat eqn:E.
  - assert (G : go_take rest (Z.of_nat n) = firstn n rest) by (rewrite go_take_firstn; f_equal; lia).
    rewrite G. assert (Lg : go_len (firstn n rest) = Z.of_nat n) by (unfold go_len; rewrite firstn_length; lia).
    rewrite Lg. rewrite Z.eqb_refl. cbn [negb].
    rewrite (go_be_val (firstn n rest) n 0%N) by (rewrite firstn_length; lia).
    split; [reflexivity|]. split.
    + rewrite go_drop_add by lia. fold rest. rewrite go_drop_skipn by lia. f_equal. lia.
    + destruct (Z.le_gt_cases (p + Z.of_nat n) (go_len ref)) as [?|G2]; [assumption|].
      assert (go_len rest <= go_len ref - p \/ go_len ref <= p).
      { destruct (Z.le_gt_cases (go_len ref) p); [right; assumption|left]. unfold rest. rewrite go_drop_len by lia. lia. }
      assert (go_len ref <= p -> rest = []) by (intros; apply go_drop_nil; assumption).
      unfold go_len in *. destruct H as [H|H]; [lia|]. rewrite (H0 H) in E. cbn in E. lia.
  - rewrite go_take_all by (unfold go_len; lia).
    exists (p + go_len rest), (go_be n 0 (rest ++ go_drop (repeat 0%N n) (go_len rest))).
    replace (go_len rest =? Z.of_nat n) with false by (unfold go_len; lia). cbn [negb].
    split; [reflexivity|]. split.
    { rewrite go_drop_add by (unfold go_len; lia). fold rest. apply go_drop_nil. lia. }
    assert (K : go_len rest = 0 \/ (p <= go_len ref /\ go_len rest = go_len ref - p)).
    { destruct (Z.le_gt_cases (go_len ref) p) as [G|G].
      - left. unfold rest. rewrite go_drop_nil by assumption. reflexivity.
      - right. split; [lia|]. unfold rest. apply go_drop_len. lia. }
    unfold go_len in *. lia.
Qed.

(* ---------- the skipping functions ----------
   The model of Codec/Skip.v ignores the outcome of the skip of a list / map element (as the Go code ignores the
   error) - including "out of fuel". [skip_field_p] is the same model except that running out of fuel inside an
   element is propagated; whenever it does not run out of fuel it agrees with the model ([skip_p_clean]). *)
Fixpoint skip_field_p (fuel : nat) (d : N) (ty : N) (bs : list N) : st * list N :=
  match fuel with
  | O => (SFuel, bs)
  | S f =>
    (if ty =? tBYTE then (SOk, drop 1 bs) else if ty =? tSHORT then (SOk, drop 2 bs)
    else if ty =? tINT then (SOk, drop 4 bs) else if ty =? tLONG then (SOk, drop 8 bs)
    else if ty =? tFLOAT then (SOk, drop 4 bs) else if ty =? tDOUBLE then (SOk, drop 8 bs)
    else if ty =? tSTR1 then match bs with [] => (SErr, []) | l :: r => (SOk, drop l r) end
    else if ty =? tSTR4 then match bread 4 bs with None => (SErr, []) | Some (l, r) => (SOk, drop l r) end
    else if ty =? tMAP then
      if maxd <=? d then (SErr, bs) else
      match read_count bs with CErr r => (SErr, r)
      | COk n r => skip_n_p f (d + 1) (wrap32 (n * 2)) r end
    else if ty =? tLIST then
      if maxd <=? d then (SErr, bs) else
      match read_count bs with CErr r => (SErr, r)
      | COk n r => skip_n_p f (d + 1) n r end
    else if ty =? tSIMPLE then
      match read_head bs with
      | None => (SErr, [])
      | Some (t, _, r) => if negb (t =? tBYTE) then (SErr, r) else
          match read_count r with CErr r' => (SErr, r')
          | COk n r' => (SOk, if (0 <? n)%Z then drop (Z.to_N n) r' else r') end
      end
    else if ty =? tSB then (if maxd <=? d then (SErr, bs) else skip_to_end_p f (d + 1) bs)
    else if (ty =? tSE) || (ty =? tZERO) then (SOk, bs)
    else (SErr, bs))%N
  end
with skip_n_p (fuel : nat) (d : N) (n : Z) (bs : list N) : st * list N :=
  match fuel with
  | O => (SFuel, bs)
  | S f => if (n <=? 0)%Z then (SOk, bs) else
      match read_head bs with
      | None => (SErr, [])
      | Some (ty, _, r) => match skip_field_p f d ty r with
                           | (SFuel, x) => (SFuel, x)
                           | (_, r') => skip_n_p f d (n - 1)%Z r'
                           end
      end
  end
with skip_to_end_p (fuel : nat) (d : N) (bs : list N) : st * list N :=
  match fuel with
  | O => (SFuel, bs)
  | S f => match read_head bs with
           | None => (SErr, [])
           | Some (ty, _, r) =>
               match skip_field_p f d ty r with
               | (SOk, r') => if (ty =? tSE)%N then (SOk, r') else skip_to_end_p f d r'
               | e => e
               end
           end
  end.

Lemma skip_p_clean : forall f,
  (forall d ty bs s r, skip_field_p f d ty bs = (s, r) -> s <> SFuel -> skip_field f d ty bs = (s, r)) /\
  (forall d n bs s r, skip_n_p f d n bs = (s, r) -> s <> SFuel -> skip_n f d n bs = (s, r)) /\
  (forall d bs s r, skip_to_end_p f d bs = (s, r) -> s <> SFuel -> skip_to_end f d bs = (s, r)).
Proof.
  induction f as [|f (IHf & IHn & IHe)].
  - repeat split; intros; cbn in *; inversion H; subst; congruence.
  - repeat split.
    + intros d ty bs s r H Hs. cbn [skip_field_p skip_field] in *.
      repeat match goal with |- context [if ?c then _ else _] => destruct c end; try exact H.
      * destruct (read_count bs); [|exact H]. apply IHn; assumption.
      * destruct (read_count bs); [|exact H]. apply IHn; assumption.
      * apply IHe; assumption.
    + intros d n bs s r H Hs. cbn [skip_n_p skip_n] in *.
      destruct (n <=? 0)%Z; [exact H|]. destruct (read_head bs) as [[[ty tg] r0]|]; [|exact H].
      destruct (skip_field_p f d ty r0) as [s0 r1] eqn:E.
      assert (s0 <> SFuel) by (intros ->; inversion H; subst; congruence).
      rewrite (IHf _ _ _ _ _ E H0). destruct s0; try congruence; apply IHn; assumption.
    + intros d bs s r H Hs. cbn [skip_to_end_p skip_to_end] in *.
      destruct (read_head bs) as [[[ty tg] r0]|]; [|exact H].
      destruct (skip_field_p f d ty r0) as [s0 r1] eqn:E.
      assert (s0 <> SFuel) by (intros ->; inversion H; subst; congruence).
      rewrite (IHf _ _ _ _ _ E H0). destruct s0; try congruence.
      destruct (ty =? tSE)%N; [exact H|]. apply IHe; assumption.
Qed.

(* ---------- sign extension, value ranges ---------- *)
Lemma wrapS_sext w (v : N) : 0 < w -> Z.of_N v < 2 ^ w -> wrapS w (Z.of_N v) = sext w v.
Proof.
  intros Hw Hv. unfold wrapS, sext. cbv zeta.
  assert (E : 2 ^ w = 2 * 2 ^ (w - 1)) by (rewrite <- Z.pow_succ_r by lia; f_equal; lia).
  assert (P : 0 < 2 ^ (w - 1)) by (apply Z.pow_pos_nonneg; lia).
  set (h := 2 ^ (w - 1)) in *. set (z := Z.of_N v) in *. assert (0 <= z) by (unfold z; lia).
  destruct (z <? h) eqn:C.
  - rewrite Z.mod_small by lia. lia.
  - replace (z + h) with (z - h + 1 * 2 ^ w) by lia. rewrite Z_mod_plus_full. rewrite Z.mod_small by lia. lia.
Qed.

Lemma be_val_lt l : forall a, bytes_ok l -> (be_val a l < (a + 1) * 256 ^ N.of_nat (length l))%N.
Proof.
  induction l as [|b l IH]; intros a H; cbn [be_val length].
  - cbn. lia.
  - inversion H as [|? ? Hb Hl]; subst. specialize (IH (a * 256 + b)%N Hl).
    rewrite Nat2N.inj_succ, N.pow_succ_r'. nia.
Qed.
Lemma bytes_ok_firstn n l : bytes_ok l -> bytes_ok (firstn n l).
Proof. unfold bytes_ok. revert l. induction n; intros l H; cbn; [constructor|]. destruct l; [constructor|]. inversion H; subst. constructor; auto. Qed.
Lemma bread_lt n bs v r : bytes_ok bs -> bread n bs = Some (v, r) -> Z.of_N v < 2 ^ (8 * Z.of_nat n).
Proof.
  intros Hb H. unfold bread in H. destruct (n <=? length bs)%nat eqn:E; [|discriminate]. inversion H; subst. clear H.
  pose proof (be_val_lt (firstn n bs) 0%N (bytes_ok_firstn n bs Hb)) as L.
  rewrite firstn_length, Nat.min_l in L by lia.
  replace (2 ^ (8 * Z.of_nat n)) with (Z.of_N (256 ^ N.of_nat n)); [lia|].
  rewrite N2Z.inj_pow. change (Z.of_N 256) with (2 ^ 8). rewrite <- Z.pow_mul_r by lia. f_equal. lia.
Qed.

Local Ltac codes := cbn [N.eqb Pos.eqb tBYTE tSHORT tINT tLONG tFLOAT tDOUBLE tSTR1 tSTR4 tMAP tLIST tSB tSE tZERO tSIMPLE
  c_BYTE c_SHORT c_INT c_LONG c_FLOAT c_DOUBLE c_STRING1 c_STRING4 c_MAP c_LIST c_StructBegin c_StructEnd c_ZeroTag c_SimpleList
  orb andb negb] in *.
Local Ltac zcodes := cbn [Z.of_N Z.eqb Pos.eqb k_codec_StructEnd k_codec_BYTE k_codec_ZeroTag k_codec_SHORT k_codec_INT k_codec_LONG
  Bool.eqb negb] in *.
Lemma ty16 (ty : N) : (ty < 16)%N ->
  ty = 0%N \/ ty = 1%N \/ ty = 2%N \/ ty = 3%N \/ ty = 4%N \/ ty = 5%N \/ ty = 6%N \/ ty = 7%N \/ ty = 8%N \/ ty = 9%N \/
  ty = 10%N \/ ty = 11%N \/ ty = 12%N \/ ty = 13%N \/ ty = 14%N \/ ty = 15%N.
Proof. lia. Qed.

(* one round of SkipToNoCheck's loop *)
Lemma tr_SkipToNoCheck_step : forall F (tag : N) (req : bool) ref p d, ok (mk ref p d) ->
  match read_head2 (go_drop ref p) with
  | None => exists p' ty, tr_SkipToNoCheck (S F) (Z.of_N tag) req (mk ref p d) = Return (mk ref p' d, false, ty, req) /\
                          go_drop ref p' = [] /\ p <= p' /\ (p' = p \/ p' <= go_len ref)
  | Some (ty, tg, r, two) =>
      let q := p + (if two then 2 else 1) in
      go_drop ref q = r /\ q <= go_len ref /\ (ty < 16)%N /\ (tg < 256)%N /\
      if ((ty =? tSE) || (tag <? tg))%N return Prop then
        if req return Prop then tr_SkipToNoCheck (S F) (Z.of_N tag) req (mk ref p d) = Return (mk ref q d, false, Z.of_N ty, true)
        else exists p', tr_SkipToNoCheck (S F) (Z.of_N tag) req (mk ref p d) = Return (mk ref p' d, false, Z.of_N ty, false) /\
                        go_drop ref p' = unread (go_drop ref p) tg two /\ p <= p' <= p + 1
      else if (tg =? tag)%N return Prop then tr_SkipToNoCheck (S F) (Z.of_N tag) req (mk ref p d) = Return (mk ref q d, true, Z.of_N ty, false)
      else tr_SkipToNoCheck (S F) (Z.of_N tag) req (mk ref p d) =
           go_call (tr_skipField F (Z.of_N ty) (mk ref q d))
             (fun r__ => let '(rd, err) := r__ in
                if err then Return (rd, false, Z.of_N ty, err) else tr_SkipToNoCheck F (Z.of_N tag) req rd)
  end.
Proof.
  intros F tag req ref p d Hok. pose proof Hok as (Hp & Hl & Hb). cbn [rd_pos rd_ref] in *.
  cbn [tr_SkipToNoCheck].
  pose proof (tr_readHead_equiv ref p d Hok) as RH.
  pose proof (tr_unreadHead_equiv ref p d) as UH.
  destruct (read_head2 (go_drop ref p)) as [[[[ty tg] r] two]|].
  - destruct RH as (-> & Er & Lr & Hty & Htg). cbn [go_call Bool.eqb negb bindc]. cbv zeta.
    specialize (UH ty tg r two Hok eq_refl). destruct UH as (p' & U1 & U2 & U3).
    repeat split; try assumption.
    unfold tSE, c_StructEnd, k_codec_StructEnd.
    destruct ((ty =? 11) || (tag <? tg))%N eqn:C1.
    + decide_conds.
      destruct req; cbn [bindc go_iter]; [reflexivity|].
      rewrite U1. cbn [go_call go_iter]. exists p'. repeat split; try assumption; lia.
    + decide_conds.
      cbn [bindc]. destruct (tg =? tag)%N eqn:C2.
      * decide_conds. cbn [bindc go_iter]. reflexivity.
      * decide_conds. cbn [bindc].
        destruct (tr_skipField F (Z.of_N ty) (mk ref (p + (if two then 2 else 1)) d)) as [u|[rd3 e]|]; cbn [go_call go_iter]; try reflexivity.
        destruct e; cbn [Bool.eqb negb bindc go_iter]; reflexivity.
  - destruct RH as (p' & ty & tg & -> & E & L1 & L2). cbn [go_call Bool.eqb negb bindc].
    exists p', ty. destruct req; cbn [bindc go_iter]; repeat split; assumption.
Qed.

(* ReadInt32(&n, 0, true), the way the skipping functions read a count: never has anything to skip *)
Lemma tr_ReadInt32_count : forall F ref p d data, ok (mk ref p d) ->
  match read_count (go_drop ref p) with
  | COk z r => exists p', tr_ReadInt32 (S (S F)) data 0 true (mk ref p d) = Return (mk ref p' d, z, false) /\
                          go_drop ref p' = r /\ p <= p' <= go_len ref /\ -2147483648 <= z <= 2147483647
  | CErr r => exists p' z, tr_ReadInt32 (S (S F)) data 0 true (mk ref p d) = Return (mk ref p' d, z, true) /\
                           go_drop ref p' = r /\ p <= p' /\ (p' = p \/ p' <= go_len ref)
  end.
Proof.
  intros F ref p d data Hok. pose proof Hok as (Hp & Hl & Hb). cbn [rd_pos rd_ref] in *.
  cbn [tr_ReadInt32].
  pose proof (tr_SkipToNoCheck_step F 0%N true ref p d Hok) as ST. change (Z.of_N 0) with 0 in ST.
  unfold read_count, read_head.
  destruct (read_head2 (go_drop ref p)) as [[[[ty tg] r] two]|].
  - cbv zeta in ST. destruct ST as (Er & Lr & Hty & Htg & ST).
    set (q := p + (if two then 2 else 1)) in *. assert (Hq : p <= q) by (unfold q; destruct two; lia).
    replace (negb (tg =? 0) || (ty =? tSE))%N with ((ty =? tSE) || (0 <? tg))%N
      by (destruct (ty =? tSE)%N, (tg =? 0)%N eqn:A, (0 <? tg)%N eqn:B; cbn; lia).
    destruct ((ty =? tSE) || (0 <? tg))%N eqn:C.
    + rewrite ST. cbn [go_call Bool.eqb negb bindc]. exists q, data. repeat split; try assumption; lia.
    + replace (tg =? 0)%N with true in ST by (destruct (ty =? tSE)%N; cbn in C; lia).
      rewrite ST. cbn [go_call Bool.eqb negb bindc]. clear ST.
      assert (Hokq : ok (mk ref q d)) by (repeat split; cbn [rd_pos rd_ref]; try assumption; lia).
      destruct (ty16 ty Hty) as [T|[T|[T|[T|[T|[T|[T|[T|[T|[T|[T|[T|[T|[T|[T|T]]]]]]]]]]]]]]]; subst ty; codes; zcodes;
        try discriminate C; cbn [bindc].
      all: try (exists q, data; repeat split; try assumption; lia).
      all: try (cbn [Bool.eqb negb bindc]; exists q; repeat split; try assumption; lia).
      * (* BYTE *) unfold go_rd_u8. destruct r as [|b r'].
        -- rewrite (readbyte_nil _ _ _ Er). cbn [bindc Bool.eqb negb]. exists q, (wrapS 8 0). repeat split; try assumption; lia.
        -- rewrite (readbyte_cons _ _ _ _ _ Er). cbn [bindc Bool.eqb negb].
           destruct (go_drop_cons ref q b r' ltac:(lia) Er) as [E1 L1].
           assert (Hb' : (b < 256)%N).
           { pose proof (bytes_ok_drop ref q Hb) as Fb. rewrite Er in Fb. inversion Fb; assumption. }
           pose proof (wrapS_range 8 (Z.of_N b) ltac:(lia)) as WR. change (2 ^ (8 - 1)) with 128 in WR.
           rewrite wrapS_sext in * by lia. exists (q + 1). repeat split; try assumption; lia.
      * (* SHORT *) pose proof (rd_be_equiv 2 ref q d ltac:(lia) ltac:(lia)) as RB. rewrite Er in RB.
        pose proof (bread_lt 2 r) as BL. change go_rd_u16 with (go_rd_be 2).
        destruct (bread 2 r) as [[v r']|].
        -- destruct RB as (-> & E2 & L2). cbn [bindc Bool.eqb negb].
           pose proof (wrapS_range 16 (Z.of_N v) ltac:(lia)) as WR. change (2 ^ (16 - 1)) with 32768 in WR.
           assert (Hv : Z.of_N v < 2 ^ 16) by (apply (BL v r'); [rewrite <- Er; apply bytes_ok_drop; assumption|reflexivity]).
           rewrite wrapS_sext in * by first [lia | exact Hv].
           exists (q + Z.of_nat 2). repeat split; try assumption; lia.
        -- destruct RB as (p' & v & -> & E2 & L2 & L3). cbn [bindc Bool.eqb negb]. exists p', (wrapS 16 v). repeat split; try assumption; lia.
      * (* INT *) pose proof (rd_be_equiv 4 ref q d ltac:(lia) ltac:(lia)) as RB. rewrite Er in RB.
        pose proof (bread_lt 4 r) as BL. change go_rd_u32 with (go_rd_be 4).
        destruct (bread 4 r) as [[v r']|].
        -- destruct RB as (-> & E2 & L2). cbn [bindc Bool.eqb negb].
           pose proof (wrapS_range 32 (Z.of_N v) ltac:(lia)) as WR. change (2 ^ (32 - 1)) with 2147483648 in WR.
           assert (Hv : Z.of_N v < 2 ^ 32) by (apply (BL v r'); [rewrite <- Er; apply bytes_ok_drop; assumption|reflexivity]).
           rewrite wrapS_sext in * by first [lia | exact Hv].
           exists (q + Z.of_nat 4). repeat split; try assumption; lia.
        -- destruct RB as (p' & v & -> & E2 & L2 & L3). cbn [bindc Bool.eqb negb]. exists p', (wrapS 32 v). repeat split; try assumption; lia.
  - destruct ST as (p' & ty & -> & E & L1 & L2). cbn [go_call Bool.eqb negb bindc]. exists p', data. repeat split; assumption.
Qed.

(* ---------- the skipping group against the (propagating) model ---------- *)
Definition err_of (s : st) : bool := match s with SOk => false | _ => true end.
(* the call c ends at a position where r is left, with the model's verdict *)
Definition sim (c : ctl unit (go_reader * bool)) (ref : list N) (dd : Z) (s : st) (r : list N) : Prop :=
  exists p', c = Return (mk ref p' dd, err_of s) /\ go_drop ref p' = r /\ 0 <= p' <= go_len ref + 4294967296.

(* the body of the element loops of skipFieldMap / skipFieldList *)
Definition lbody (F : nat) : Z -> go_reader -> ctl go_reader (go_reader * bool) :=
  fun (_ : Z) (rd1 : go_reader) =>
    go_call (tr_readHead rd1) (fun r__ => let '(rd2, tyCur, _, err_1) := r__ in
      bindc (if negb (Bool.eqb err_1 false) then Return (rd2, err_1) else Next rd2)
        (fun rd3 : go_reader => go_call (tr_skipField F tyCur rd3) (fun r__ => let '(rd4, _) := r__ in Next rd4))).

(* the generated loop body is [lbody], whatever the shape of its error test *)
Ltac lbody_eq := intros ? rd__; unfold lbody; destruct (tr_readHead rd__) as [?|[[[? ?] ?] e__]|]; cbn [go_call]; try reflexivity;
  destruct e__; cbn [Bool.eqb negb bindc]; reflexivity.

Lemma tr_skipNested_sim sk ref p d (s : st) r : (d < maxd)%N ->
  sim (sk (mk ref p (Z.of_N (d + 1)))) ref (Z.of_N (d + 1)) s r ->
  sim (tr_skipNested sk (mk ref p (Z.of_N d))) ref (Z.of_N d) s r.
Proof.
  intros Hd (p' & E & Er & Hp'). unfold tr_skipNested, k_codec_maxSkipDepth. cbn [rd_depth].
  assert (M : maxd = 512%N) by reflexivity. rewrite M in Hd.
  replace (512 <=? Z.of_N d) with false by lia. cbn [bindc]. unfold go_rd_set_depth. cbn [rd_ref rd_pos rd_depth].
  rewrite wrapS64_id by lia. replace (Z.of_N d + 1) with (Z.of_N (d + 1)) by lia. rewrite E. cbn [go_call rd_ref rd_pos rd_depth].
  rewrite wrapS64_id by lia. exists p'. repeat split; try assumption; try lia. do 3 f_equal. lia.
Qed.
Lemma tr_skipNested_deep sk ref p d : (maxd <= d)%N -> Z.of_N d <= 4611686018427387904 ->
  tr_skipNested sk (mk ref p (Z.of_N d)) = Return (mk ref p (Z.of_N d), true).
Proof.
  intros Hd Hb. unfold tr_skipNested, k_codec_maxSkipDepth. cbn [rd_depth].
  assert (M : maxd = 512%N) by reflexivity. rewrite M in Hd. replace (512 <=? Z.of_N d) with true by lia. reflexivity.
Qed.


(* the same for whatever shape the error test after the call has: reduce the goal to the callee's simulation *)
Ltac sim_wrap := match goal with
  | |- sim (bindc (go_call ?c _) _) ?ref ?dd ?s ?r =>
      let H := fresh "H" in let p' := fresh "p'" in let Er := fresh "Er" in let Hp' := fresh "Hp'" in
      assert (H : sim c ref dd s r);
      [| destruct H as (p' & -> & Er & Hp'); cbn [go_call]; exists p';
         destruct s; cbn [err_of Bool.eqb negb bindc]; (split; [reflexivity|split; assumption])]
  end.

Lemma wrapS32_wrap32 z : wrapS 32 z = Skip.wrap32 z.
Proof.
  unfold wrapS, Skip.wrap32. change (2 ^ (32 - 1)) with 2147483648. change (2 ^ 32) with 4294967296. change (2 ^ 31) with 2147483648.
  cbv zeta. rewrite <- (Zplus_mod_idemp_l z). pose proof (Z.mod_pos_bound z 4294967296 ltac:(lia)) as B.
  set (m := z mod 4294967296) in *. destruct (m <? 2147483648) eqn:C.
  - rewrite Z.mod_small by lia. lia.
  - replace (m + 2147483648) with (m - 2147483648 + 1 * 4294967296) by lia. rewrite Z_mod_plus_full, Z.mod_small by lia. lia.
Qed.

Lemma skip_sim : forall f,
  (forall F ref p d ty s r, (f + 3 <= F)%nat -> strict (mk ref p (Z.of_N d)) -> (ty < 16)%N -> (d <= maxd)%N ->
     skip_field_p f d ty (go_drop ref p) = (s, r) -> s <> SFuel ->
     sim (tr_skipField F (Z.of_N ty) (mk ref p (Z.of_N d))) ref (Z.of_N d) s r) /\
  (forall F ref p d n i s r, (f + 2 <= F)%nat -> ok (mk ref p (Z.of_N d)) -> (d <= maxd)%N ->
     skip_n_p f d n (go_drop ref p) = (s, r) -> s <> SFuel ->
     exists p', go_count_from (Z.to_nat n) i (lbody F) (mk ref p (Z.of_N d)) =
                (match s with SOk => Next (mk ref p' (Z.of_N d)) | _ => Return (mk ref p' (Z.of_N d), true) end) /\
                go_drop ref p' = r /\ 0 <= p' <= go_len ref + 4294967296) /\
  (forall F ref p d s r, (f + 3 <= F)%nat -> ok (mk ref p (Z.of_N d)) -> (d <= maxd)%N ->
     skip_to_end_p f d (go_drop ref p) = (s, r) -> s <> SFuel ->
     sim (tr_SkipToStructEnd F (mk ref p (Z.of_N d))) ref (Z.of_N d) s r).
Proof.
  induction f as [|f (IHf & IHn & IHe)].
  { repeat split; intros; cbn in *; match goal with H : (SFuel, _) = (_, _) |- _ => inversion H; subst; congruence end. }
  repeat split.
  - (* skipField *)
    intros F ref p d ty s r HF Hst Hty Hd H Hs. destruct Hst as [Hok Hstr]. pose proof Hok as (Hp & Hl & Hb).
    cbn [rd_pos rd_ref] in *. unfold LEN_MAX in *.
    destruct F as [|F]; [lia|]. cbn [tr_skipField]. cbn [skip_field_p] in H.
    assert (Hpp : 0 <= p <= LEN_MAX + 4294967296) by (unfold LEN_MAX; lia).
    destruct (ty16 ty Hty) as [T|[T|[T|[T|[T|[T|[T|[T|[T|[T|[T|[T|[T|[T|[T|T]]]]]]]]]]]]]]]; subst ty; codes; zcodes.
    all: try (inversion H; subst s r; clear H).
    (* fixed-width fields: Skip k *)
    all: try (rewrite tr_Skip_pos by (try assumption; lia); cbn [go_call bindc Z.ltb Z.compare];
              eexists; split; [reflexivity|]; split; [rewrite drop_go, go_drop_add by lia; reflexivity|lia]).
    + (* STRING1 *)
      destruct (go_drop ref p) as [|l r0] eqn:E; inversion H; subst s r; clear H.
      * rewrite (readbyte_nil _ _ _ E). cbn [bindc Bool.eqb negb]. exists p. repeat split; try assumption; lia.
      * rewrite (readbyte_cons _ _ _ _ _ E). cbn [bindc Bool.eqb negb].
        destruct (go_drop_cons ref p l r0 ltac:(lia) E) as [E1 L1].
        assert (Hl' : (l < 256)%N).
        { pose proof (bytes_ok_drop ref p Hb) as Fb. rewrite E in Fb. inversion Fb; assumption. }
        rewrite tr_Skip_pos by (unfold LEN_MAX; lia). cbn [go_call bindc].
        eexists; split; [reflexivity|]. cbn [err_of]. rewrite drop_go.
        destruct (0 <? Z.of_N l) eqn:C; split; try lia.
        -- rewrite go_drop_add, E1 by lia. reflexivity.
        -- rewrite E1. symmetry. apply go_drop_0. lia.
    + (* STRING4 *)
      pose proof (rd_be_equiv 4 ref p (Z.of_N d) ltac:(lia) ltac:(lia)) as RB. change go_rd_u32 with (go_rd_be 4).
      pose proof (bread_lt 4 (go_drop ref p)) as BL.
      destruct (bread 4 (go_drop ref p)) as [[v r0]|]; inversion H; subst s r; clear H.
      * destruct RB as (-> & E2 & L2). cbn [bindc Bool.eqb negb].
        assert (Hv : Z.of_N v < 2 ^ 32) by (apply (BL v r0); [apply bytes_ok_drop; assumption|reflexivity]).
        change (2 ^ 32) with 4294967296 in Hv.
        rewrite tr_Skip_pos by (unfold LEN_MAX; lia). cbn [go_call bindc].
        eexists; split; [reflexivity|]. cbn [err_of]. rewrite drop_go.
        destruct (0 <? Z.of_N v) eqn:C; split; try lia.
        -- rewrite go_drop_add, E2 by lia. reflexivity.
        -- rewrite E2. symmetry. apply go_drop_0. lia.
      * destruct RB as (p' & v & -> & E2 & L2 & L3). cbn [bindc Bool.eqb negb]. exists p'. repeat split; try assumption; lia.
    + (* MAP *)
      assert (M : maxd = 512%N) by reflexivity.
      destruct (maxd <=? d)%N eqn:Dp.
      * inversion H; subst s r; clear H. rewrite tr_skipNested_deep by lia. cbn [go_call bindc Bool.eqb negb].
        exists p. repeat split; try assumption; lia.
      * sim_wrap. apply tr_skipNested_sim; [lia|].
        destruct F as [|F2]; [lia|]. destruct F2 as [|[|F3]]; [lia|lia|]. cbn [tr_skipFieldMap].
        assert (Hok' : ok (mk ref p (Z.of_N (d + 1)))) by exact Hok.
        pose proof (tr_ReadInt32_count F3 ref p (Z.of_N (d + 1)) 0 Hok') as RC.
        destruct (read_count (go_drop ref p)) as [n r0|r0].
        -- destruct RC as (p' & -> & E2 & L2 & Rn). cbn [go_call bindc Bool.eqb negb].
           unfold go_count. rewrite Z.sub_0_r. rewrite wrapS32_wrap32.
           match goal with |- context [go_count_from _ _ ?b _] => rewrite (go_count_from_ext b (lbody (S (S F3)))) by lbody_eq end.
           destruct (IHn (S (S F3)) ref p' (d + 1)%N (Skip.wrap32 (n * 2)) 0 s r ltac:(lia)) as (p'' & EL & Er'' & Hp''); try assumption.
           { repeat split; cbn [rd_pos rd_ref]; try assumption; lia. }
           { lia. }
           { rewrite E2. exact H. }
           rewrite EL. destruct s; try congruence; cbn [bindc err_of]; exists p''; (split; [reflexivity|split; assumption]).
        -- inversion H; subst s r; clear H. destruct RC as (p' & z & -> & E2 & L2 & L3). cbn [go_call bindc Bool.eqb negb].
           exists p'. repeat split; try assumption; lia.
    + (* LIST *)
      assert (M : maxd = 512%N) by reflexivity.
      destruct (maxd <=? d)%N eqn:Dp.
      * inversion H; subst s r; clear H. rewrite tr_skipNested_deep by lia. cbn [go_call bindc Bool.eqb negb].
        exists p. repeat split; try assumption; lia.
      * sim_wrap. apply tr_skipNested_sim; [lia|].
        destruct F as [|F2]; [lia|]. destruct F2 as [|[|F3]]; [lia|lia|]. cbn [tr_skipFieldList].
        assert (Hok' : ok (mk ref p (Z.of_N (d + 1)))) by exact Hok.
        pose proof (tr_ReadInt32_count F3 ref p (Z.of_N (d + 1)) 0 Hok') as RC.
        destruct (read_count (go_drop ref p)) as [n r0|r0].
        -- destruct RC as (p' & -> & E2 & L2 & Rn). cbn [go_call bindc Bool.eqb negb].
           unfold go_count. rewrite Z.sub_0_r.
           match goal with |- context [go_count_from _ _ ?b _] => rewrite (go_count_from_ext b (lbody (S (S F3)))) by lbody_eq end.
           destruct (IHn (S (S F3)) ref p' (d + 1)%N n 0 s r ltac:(lia)) as (p'' & EL & Er'' & Hp''); try assumption.
           { repeat split; cbn [rd_pos rd_ref]; try assumption; lia. }
           { lia. }
           { rewrite E2. exact H. }
           rewrite EL. destruct s; try congruence; cbn [bindc err_of]; exists p''; (split; [reflexivity|split; assumption]).
        -- inversion H; subst s r; clear H. destruct RC as (p' & z & -> & E2 & L2 & L3). cbn [go_call bindc Bool.eqb negb].
           exists p'. repeat split; try assumption; lia.
    + (* StructBegin *)
      assert (M : maxd = 512%N) by reflexivity.
      destruct (maxd <=? d)%N eqn:Dp.
      * inversion H; subst s r; clear H. rewrite tr_skipNested_deep by lia. cbn [go_call bindc Bool.eqb negb].
        exists p. repeat split; try assumption; lia.
      * sim_wrap. apply tr_skipNested_sim; [lia|].
        apply IHe; try assumption; try lia.
    + (* StructEnd *) cbn [bindc]. exists p. repeat split; try assumption; lia.
    + (* ZeroTag *) cbn [bindc]. exists p. repeat split; try assumption; lia.
    + (* SimpleList *)
      sim_wrap. destruct F as [|[|[|F3]]]; try lia. cbn [tr_skipFieldSimpleList].
      pose proof (tr_readHead_equiv ref p (Z.of_N d) Hok) as RH. unfold read_head in H.
      destruct (read_head2 (go_drop ref p)) as [[[[t tg] r0] two]|].
      * destruct RH as (-> & Er & Lr & Ht & Htg). cbn [go_call].
        set (q := p + (if two then 2 else 1)) in *. assert (Hq : p <= q) by (unfold q; destruct two; lia).
        unfold k_codec_BYTE, tBYTE, c_BYTE in *.
        destruct (t =? 0)%N eqn:Tb; cbn [negb] in H.
        -- replace (Z.of_N t =? 0) with true by lia. cbn [negb bindc Bool.eqb].
           assert (Hokq : ok (mk ref q (Z.of_N d))) by (repeat split; cbn [rd_pos rd_ref]; try assumption; lia).
           pose proof (tr_ReadInt32_count F3 ref q (Z.of_N d) 0 Hokq) as RC. rewrite Er in RC.
           destruct (read_count r0) as [n r1|r1]; inversion H; subst s r; clear H.
           ++ destruct RC as (p' & -> & E2 & L2 & Rn). cbn [go_call bindc Bool.eqb negb].
              rewrite tr_Skip_pos by (unfold LEN_MAX; lia). cbn [go_call].
              eexists; split; [reflexivity|]. cbn [err_of].
              destruct (0 <? n) eqn:C; split; try lia.
              ** rewrite drop_go, go_drop_add, E2 by lia. f_equal. lia.
              ** exact E2.
           ++ destruct RC as (p' & z & -> & E2 & L2 & L3). cbn [go_call bindc Bool.eqb negb].
              exists p'. repeat split; try assumption; lia.
        -- inversion H; subst s r; clear H. replace (Z.of_N t =? 0) with false by lia. cbn [negb bindc].
           exists q. repeat split; try assumption; lia.
      * inversion H; subst s r; clear H. destruct RH as (p' & t & tg & -> & E & L1 & L2). cbn [go_call].
        exists p'. split; [|split; [assumption|lia]].
        destruct (t =? k_codec_BYTE); cbn [bindc Bool.eqb negb]; reflexivity.
    + (* 14: invalid *) cbn [bindc]. exists p. repeat split; try assumption; lia.
    + (* 15: invalid *) cbn [bindc]. exists p. repeat split; try assumption; lia.
  - (* the element loop *)
    intros F ref p d n i s r HF Hok Hd H Hs. pose proof Hok as (Hp & Hl & Hb). cbn [rd_pos rd_ref] in *.
    cbn [skip_n_p] in H. destruct (n <=? 0) eqn:Cn.
    + inversion H; subst s r; clear H. replace (Z.to_nat n) with O by lia. cbn [go_count_from].
      exists p. repeat split; try assumption; lia.
    + replace (Z.to_nat n) with (S (Z.to_nat (n - 1))) by lia. cbn [go_count_from]. unfold lbody at 1.
      pose proof (tr_readHead_equiv ref p (Z.of_N d) Hok) as RH. unfold read_head in H.
      destruct (read_head2 (go_drop ref p)) as [[[[ty tg] r0] two]|].
      * destruct RH as (-> & Er & Lr & Hty & Htg). cbn [go_call bindc Bool.eqb negb].
        set (q := p + (if two then 2 else 1)) in *. assert (Hq : p <= q) by (unfold q; destruct two; lia).
        destruct (skip_field_p f d ty r0) as [s0 r1] eqn:E0.
        assert (Hs0 : s0 <> SFuel) by (intros ->; inversion H; subst; congruence).
        destruct (IHf F ref q d ty s0 r1 ltac:(lia)) as (p1 & E1 & Er1 & Hp1); try assumption.
        { split; [repeat split; cbn [rd_pos rd_ref]; try assumption; lia|cbn [rd_pos rd_ref]; lia]. }
        { rewrite Er. exact E0. }
        rewrite E1. cbn [go_call bindc].
        assert (H' : skip_n_p f d (n - 1) r1 = (s, r)) by (destruct s0; try congruence; exact H).
        apply (IHn F ref p1 d (n - 1) (i + 1) s r); try assumption; try lia.
        { repeat split; cbn [rd_pos rd_ref]; try assumption; lia. }
        { rewrite Er1. exact H'. }
      * inversion H; subst s r; clear H. destruct RH as (p' & ty & tg & -> & E & L1 & L2). cbn [go_call bindc Bool.eqb negb].
        exists p'. repeat split; try assumption; lia.
  - (* SkipToStructEnd *)
    intros F ref p d s r HF Hok Hd H Hs. pose proof Hok as (Hp & Hl & Hb). cbn [rd_pos rd_ref] in *.
    destruct F as [|F]; [lia|]. cbn [tr_SkipToStructEnd]. cbn [skip_to_end_p] in H.
    pose proof (tr_readHead_equiv ref p (Z.of_N d) Hok) as RH. unfold read_head in H.
    destruct (read_head2 (go_drop ref p)) as [[[[ty tg] r0] two]|].
    + destruct RH as (-> & Er & Lr & Hty & Htg). cbn [go_call bindc Bool.eqb negb].
      set (q := p + (if two then 2 else 1)) in *. assert (Hq : p <= q) by (unfold q; destruct two; lia).
      destruct (skip_field_p f d ty r0) as [s0 r1] eqn:E0.
      assert (Hs0 : s0 <> SFuel) by (intros ->; inversion H; subst; congruence).
      destruct (IHf F ref q d ty s0 r1 ltac:(lia)) as (p1 & E1 & Er1 & Hp1); try assumption.
      { split; [repeat split; cbn [rd_pos rd_ref]; try assumption; lia|cbn [rd_pos rd_ref]; lia]. }
      { rewrite Er. exact E0. }
      rewrite E1. cbn [go_call]. destruct s0; try congruence; cbn [err_of Bool.eqb negb bindc].
      * unfold k_codec_StructEnd, tSE, c_StructEnd in *. destruct (ty =? 11)%N eqn:Ce.
        -- inversion H; subst s r; clear H. replace (Z.of_N ty =? 11) with true by lia. cbn [bindc go_iter].
           exists p1. repeat split; try assumption; lia.
        -- replace (Z.of_N ty =? 11) with false by lia. cbn [bindc go_iter].
           apply IHe; try assumption; try lia.
           { repeat split; cbn [rd_pos rd_ref]; try assumption; lia. }
           { rewrite Er1. exact H. }
      * inversion H; subst s r; clear H. cbn [go_iter]. exists p1. repeat split; try assumption; lia.
    + inversion H; subst s r; clear H. destruct RH as (p' & ty & tg & -> & E & L1 & L2). cbn [go_call bindc Bool.eqb negb go_iter].
      exists p'. repeat split; try assumption; lia.
Qed.

(* ---------- SkipToNoCheck ---------- *)
(* the model's field search over the propagating skip; it agrees with the model whenever it does not run out of fuel *)
Fixpoint seek_p (fuel : nat) (tag : N) (require : bool) (bs : list N) : seek :=
  match fuel with
  | O => SeekFuel
  | S f =>
    match read_head2 bs with
    | None => if require then SeekErr else NotFound []
    | Some (ty, tg, r, two) =>
        if ((ty =? tSE) || (tag <? tg))%N then (if require then SeekErr else NotFound (unread bs tg two))
        else if (tg =? tag)%N then Found ty r
        else match skip_field_p f 0 ty r with
             | (SOk, r') => seek_p f tag require r'
             | (SFuel, _) => SeekFuel
             | _ => SeekErr
             end
    end
  end.

Lemma seek_p_clean : forall f tag req bs, seek_p f tag req bs <> SeekFuel -> skip_to_no_check f tag req bs = seek_p f tag req bs.
Proof.
  induction f as [|f IH]; intros tag req bs H; [reflexivity|]. cbn [seek_p skip_to_no_check] in *.
  destruct (read_head2 bs) as [[[[ty tg] r] two]|]; [|reflexivity].
  destruct ((ty =? tSE) || (tag <? tg))%N; [reflexivity|]. destruct (tg =? tag)%N; [reflexivity|].
  destruct (skip_field_p f 0 ty r) as [s0 r1] eqn:E.
  assert (s0 <> SFuel) by (intros ->; congruence).
  rewrite (proj1 (skip_p_clean f) _ _ _ _ _ E H0). destruct s0; try congruence. apply IH. exact H.
Qed.

(* what tr_SkipToNoCheck returns for an outcome of the search: (have, type, error) and what is left *)
Definition seek_sim (c : ctl unit (go_reader * bool * Z * bool)) (ref : list N) (x : seek) : Prop :=
  match x with
  | Found ty rest => exists p', c = Return (mk ref p' 0, true, Z.of_N ty, false) /\ go_drop ref p' = rest /\ 0 <= p' <= go_len ref /\ (ty < 16)%N
  | NotFound rest => exists p' ty, c = Return (mk ref p' 0, false, ty, false) /\ go_drop ref p' = rest /\ 0 <= p' <= go_len ref + 4294967296
  | SeekErr => exists p' ty, c = Return (mk ref p' 0, false, ty, true) /\ 0 <= p' <= go_len ref + 4294967296
  | SeekFuel => True
  end.

Theorem tr_SkipToNoCheck_equiv : forall f F (tag : N) req ref p, (f + 3 <= F)%nat -> ok (mk ref p 0) ->
  seek_p f tag req (go_drop ref p) <> SeekFuel ->
  seek_sim (tr_SkipToNoCheck F (Z.of_N tag) req (mk ref p 0)) ref (seek_p f tag req (go_drop ref p)).
Proof.
  induction f as [|f IH]; intros F tag req ref p HF Hok H; [cbn in H; congruence|].
  pose proof Hok as (Hp & Hl & Hb). cbn [rd_pos rd_ref] in *.
  destruct F as [|F]; [lia|]. pose proof (tr_SkipToNoCheck_step F tag req ref p 0 Hok) as ST.
  cbn [seek_p] in *.
  destruct (read_head2 (go_drop ref p)) as [[[[ty tg] r] two]|].
  - cbv zeta in ST. destruct ST as (Er & Lr & Hty & Htg & ST).
    set (q := p + (if two then 2 else 1)) in *. assert (Hq : p <= q) by (unfold q; destruct two; lia).
    destruct ((ty =? tSE) || (tag <? tg))%N.
    + destruct req.
      * rewrite ST. cbn [seek_sim]. exists q, (Z.of_N ty). split; [reflexivity|lia].
      * destruct ST as (p' & -> & U & L). cbn [seek_sim]. exists p', (Z.of_N ty). repeat split; try assumption; lia.
    + destruct (tg =? tag)%N.
      * rewrite ST. cbn [seek_sim]. exists q. repeat split; try assumption; lia.
      * rewrite ST. clear ST.
        destruct (skip_field_p f 0 ty r) as [s0 r1] eqn:E0.
        assert (Hs0 : s0 <> SFuel) by (intros ->; congruence).
        destruct (proj1 (skip_sim f) F ref q 0%N ty s0 r1 ltac:(lia)) as (p1 & E1 & Er1 & Hp1); try assumption.
        { split; [repeat split; cbn [rd_pos rd_ref]; try assumption; lia|cbn [rd_pos rd_ref]; lia]. }
        { assert (maxd = 512%N) by reflexivity. lia. }
        { rewrite Er. exact E0. }
        change (Z.of_N 0) with 0 in E1. rewrite E1. cbn [go_call].
        destruct s0; try congruence; cbn [err_of].
        -- specialize (IH F tag req ref p1 ltac:(lia)). rewrite Er1 in IH. apply IH; [|exact H].
           repeat split; cbn [rd_pos rd_ref]; try assumption; lia.
        -- cbn [seek_sim]. exists p1, (Z.of_N ty). split; [reflexivity|lia].
  - destruct ST as (p' & ty & -> & E & L1 & L2). destruct req; cbn [seek_sim].
    + exists p', ty. split; [reflexivity|lia].
    + exists p', ty. repeat split; try assumption; lia.
Qed.

(* ---------- the integer readers ---------- *)
Definition with_seek_p {A} (fuel : nat) (tag : N) (req : bool) (bs : list N)
           (body : N -> list N -> option (A * list N)) : rres A :=
  match seek_p fuel tag req bs with
  | Found ty r => match body ty r with Some (a, r') => ROk a r' | None => RErr end
  | NotFound r => RAbsent r
  | SeekErr => RErr
  | SeekFuel => RFuel
  end.
Lemma with_seek_p_clean {A} f tag req bs (body : N -> list N -> option (A * list N)) :
  seek_p f tag req bs <> SeekFuel -> with_seek f tag req bs body = with_seek_p f tag req bs body.
Proof. intros H. unfold with_seek, with_seek_p. rewrite seek_p_clean by exact H. reflexivity. Qed.

(* what a reader of a value of type V returns for an outcome of the model: the value read (the target keeps its old
   value [data] when the field is absent), the error flag, and what is left *)
Definition read_sim {V} (c : ctl unit (go_reader * V * bool)) (ref : list N) (data : V) (x : rres V) : Prop :=
  match x with
  | ROk v rest => exists p', c = Return (mk ref p' 0, v, false) /\ go_drop ref p' = rest /\ 0 <= p' <= go_len ref
  | RAbsent rest => exists p', c = Return (mk ref p' 0, data, false) /\ go_drop ref p' = rest /\ 0 <= p' <= go_len ref + 4294967296
  | RErr => exists p' v, c = Return (mk ref p' 0, v, true)
  | RFuel => True
  end.

(* a big-endian read followed by the sign extension of its width *)
Lemma be_case (n : nat) (w : Z) ref q d : 0 <= q -> (1 <= n)%nat -> w = 8 * Z.of_nat n -> bytes_ok ref ->
  match bread n (go_drop ref q) with
  | Some (v, r') => go_rd_be n (mk ref q d) = (mk ref (q + Z.of_nat n) d, Z.of_N v, false) /\
                    wrapS w (Z.of_N v) = sext w v /\ go_drop ref (q + Z.of_nat n) = r' /\ q + Z.of_nat n <= go_len ref
  | None => exists p' v, go_rd_be n (mk ref q d) = (mk ref p' d, v, true)
  end.
Proof.
  intros Hq Hn Hw Hb. pose proof (rd_be_equiv n ref q d Hq Hn) as RB. pose proof (bread_lt n (go_drop ref q)) as BL.
  destruct (bread n (go_drop ref q)) as [[v r']|].
  - destruct RB as (E & E2 & L2). repeat split; try assumption.
    apply wrapS_sext; [lia|]. subst w. apply (BL v r'); [apply bytes_ok_drop; assumption|reflexivity].
  - destruct RB as (p' & v & E & _). exists p', v. exact E.
Qed.

(* the cases of the type switch of ReadIntNN, after the field was found at position q with [rest] left *)
Local Ltac byte_case ref q rest Er Hb :=
  unfold go_rd_u8; destruct rest as [|b r'];
  [ rewrite (readbyte_nil _ _ _ Er); cbn [bindc Bool.eqb negb read_sim]; eexists; eexists; reflexivity
  | rewrite (readbyte_cons _ _ _ _ _ Er); cbn [bindc Bool.eqb negb read_sim];
    let E1 := fresh "E1" in let L1 := fresh "L1" in
    destruct (go_drop_cons ref q b r' ltac:(lia) Er) as [E1 L1];
    assert (b < 256)%N by (pose proof (bytes_ok_drop ref q Hb) as Fb; rewrite Er in Fb; inversion Fb; assumption);
    rewrite wrapS_sext by lia; exists (q + 1); repeat split; try assumption; lia ].
Local Ltac be_case_tac n w ref q rest Er Hb :=
  let BC := fresh "BC" in
  pose proof (be_case n w ref q 0 ltac:(lia) ltac:(lia) eq_refl Hb) as BC; rewrite Er in BC;
  change go_rd_u16 with (go_rd_be 2); change go_rd_u32 with (go_rd_be 4); change go_rd_u64 with (go_rd_be 8);
  destruct (bread n rest) as [[v r']|];
  [ let W := fresh "W" in let E2 := fresh "E2" in let L2 := fresh "L2" in
    destruct BC as (-> & W & E2 & L2); cbn [bindc Bool.eqb negb read_sim]; rewrite W;
    exists (q + Z.of_nat n); repeat split; try assumption; lia
  | let p' := fresh "p'" in let v := fresh "v" in
    destruct BC as (p' & v & ->); cbn [bindc Bool.eqb negb read_sim]; eexists; eexists; reflexivity ].
Local Ltac int_switch ref q rest Er Hb Hty :=
  unfold read_int_body;
  match goal with |- context [Z.of_N ?ty] =>
    destruct (ty16 ty Hty) as [T|[T|[T|[T|[T|[T|[T|[T|[T|[T|[T|[T|[T|[T|[T|T]]]]]]]]]]]]]]]; subst ty end;
  codes; zcodes; cbn [Z.leb Z.compare andb read_sim];
  first [ solve [cbn [bindc Bool.eqb negb]; first [exists q; repeat split; try assumption; lia | eexists; eexists; reflexivity]]
        | solve [byte_case ref q rest Er Hb]
        | solve [be_case_tac 2%nat 16 ref q rest Er Hb]
        | solve [be_case_tac 4%nat 32 ref q rest Er Hb]
        | solve [be_case_tac 8%nat 64 ref q rest Er Hb] ].
Local Ltac int_reader f F tag req ref p data HF Hok H :=
  let SK := fresh "SK" in
  pose proof (tr_SkipToNoCheck_equiv f F tag req ref p HF Hok H) as SK; unfold with_seek_p;
  destruct (seek_p f tag req (go_drop ref p)) as [ty rest|rest| |]; cbn [seek_sim] in SK; try congruence;
  [ let q := fresh "q" in let Er := fresh "Er" in let Hq := fresh "Hq" in let Hty := fresh "Hty" in
    destruct SK as (q & -> & Er & Hq & Hty); cbn [go_call bindc Bool.eqb negb];
    match goal with Hb : bytes_ok ref |- _ => int_switch ref q rest Er Hb Hty end
  | let q := fresh "q" in let ty := fresh "ty" in let Er := fresh "Er" in let Hq := fresh "Hq" in
    destruct SK as (q & ty & -> & Er & Hq); cbn [go_call bindc Bool.eqb negb read_sim]; exists q; repeat split; try assumption; lia
  | let q := fresh "q" in let ty := fresh "ty" in let Hq := fresh "Hq" in
    destruct SK as (q & ty & -> & Hq); cbn [go_call bindc Bool.eqb negb read_sim]; eexists; eexists; reflexivity ].

Theorem tr_ReadInt8_equiv : forall f F (tag : N) req ref p data, (f + 3 <= F)%nat -> ok (mk ref p 0) ->
  seek_p f tag req (go_drop ref p) <> SeekFuel ->
  read_sim (tr_ReadInt8 F data (Z.of_N tag) req (mk ref p 0)) ref data (with_seek_p f tag req (go_drop ref p) (read_int_body 8)).
Proof.
  intros f F tag req ref p data HF Hok H. pose proof Hok as (Hp & Hl & Hb). cbn [rd_pos rd_ref] in *.
  unfold tr_ReadInt8. int_reader f F tag req ref p data HF Hok H.
Qed.
Theorem tr_ReadInt16_equiv : forall f F (tag : N) req ref p data, (f + 3 <= F)%nat -> ok (mk ref p 0) ->
  seek_p f tag req (go_drop ref p) <> SeekFuel ->
  read_sim (tr_ReadInt16 F data (Z.of_N tag) req (mk ref p 0)) ref data (with_seek_p f tag req (go_drop ref p) (read_int_body 16)).
Proof.
  intros f F tag req ref p data HF Hok H. pose proof Hok as (Hp & Hl & Hb). cbn [rd_pos rd_ref] in *.
  unfold tr_ReadInt16. int_reader f F tag req ref p data HF Hok H.
Qed.
Theorem tr_ReadInt32_equiv : forall f F (tag : N) req ref p data, (f + 3 <= F)%nat -> ok (mk ref p 0) ->
  seek_p f tag req (go_drop ref p) <> SeekFuel ->
  read_sim (tr_ReadInt32 (S F) data (Z.of_N tag) req (mk ref p 0)) ref data (with_seek_p f tag req (go_drop ref p) (read_int_body 32)).
Proof.
  intros f F tag req ref p data HF Hok H. pose proof Hok as (Hp & Hl & Hb). cbn [rd_pos rd_ref] in *.
  cbn [tr_ReadInt32]. int_reader f F tag req ref p data HF Hok H.
Qed.
Theorem tr_ReadInt64_equiv : forall f F (tag : N) req ref p data, (f + 3 <= F)%nat -> ok (mk ref p 0) ->
  seek_p f tag req (go_drop ref p) <> SeekFuel ->
  read_sim (tr_ReadInt64 F data (Z.of_N tag) req (mk ref p 0)) ref data (with_seek_p f tag req (go_drop ref p) (read_int_body 64)).
Proof.
  intros f F tag req ref p data HF Hok H. pose proof Hok as (Hp & Hl & Hb). cbn [rd_pos rd_ref] in *.
  unfold tr_ReadInt64. int_reader f F tag req ref p data HF Hok H.
Qed.

(* ---------- the readers that delegate: unsigned types and bool ---------- *)
Lemma read_sim_map {V W} (c : ctl unit (go_reader * V * bool)) (k : V -> W) ref data data' (x : rres V)
      (c' : ctl unit (go_reader * W * bool)) :
  k data = data' -> read_sim c ref data x ->
  (forall rd v e, c = Return (rd, v, e) -> c' = Return (rd, k v, e)) ->
  read_sim c' ref data' (map_r k x).
Proof.
  intros <- S Hc. destruct x as [v rest|rest| |]; cbn [read_sim map_r] in *.
  - destruct S as (p' & E & R). exists p'. split; [apply (Hc _ _ _ E)|exact R].
  - destruct S as (p' & E & R). exists p'. split; [apply (Hc _ _ _ E)|exact R].
  - destruct S as (p' & v & E). exists p', (k v). apply (Hc _ _ _ E).
  - exact I.
Qed.

Theorem tr_ReadUint8_equiv : forall f F (tag : N) req ref p data, (f + 3 <= F)%nat -> ok (mk ref p 0) ->
  seek_p f tag req (go_drop ref p) <> SeekFuel -> 0 <= data < 256 ->
  read_sim (tr_ReadUint8 F data (Z.of_N tag) req (mk ref p 0)) ref data
           (map_r (fun z => z mod 256) (with_seek_p f tag req (go_drop ref p) (read_int_body 16))).
Proof.
  intros f F tag req ref p data HF Hok H Hd.
  eapply (read_sim_map _ (fun z => z mod 256) ref data data); [apply Z.mod_small; lia| |].
  - apply (tr_ReadInt16_equiv f F tag req ref p data HF Hok H).
  - intros rd v e E. unfold tr_ReadUint8. rewrite E. reflexivity.
Qed.
Theorem tr_ReadUint16_equiv : forall f F (tag : N) req ref p data, (f + 3 <= F)%nat -> ok (mk ref p 0) ->
  seek_p f tag req (go_drop ref p) <> SeekFuel -> 0 <= data < 65536 ->
  read_sim (tr_ReadUint16 (S F) data (Z.of_N tag) req (mk ref p 0)) ref data
           (map_r (fun z => z mod 65536) (with_seek_p f tag req (go_drop ref p) (read_int_body 32))).
Proof.
  intros f F tag req ref p data HF Hok H Hd.
  eapply (read_sim_map _ (fun z => z mod 65536) ref data data); [apply Z.mod_small; lia| |].
  - apply (tr_ReadInt32_equiv f F tag req ref p data HF Hok H).
  - intros rd v e E. unfold tr_ReadUint16. rewrite E. reflexivity.
Qed.
Theorem tr_ReadUint32_equiv : forall f F (tag : N) req ref p data, (f + 3 <= F)%nat -> ok (mk ref p 0) ->
  seek_p f tag req (go_drop ref p) <> SeekFuel -> 0 <= data < 4294967296 ->
  read_sim (tr_ReadUint32 F data (Z.of_N tag) req (mk ref p 0)) ref data
           (map_r (fun z => z mod 4294967296) (with_seek_p f tag req (go_drop ref p) (read_int_body 64))).
Proof.
  intros f F tag req ref p data HF Hok H Hd.
  eapply (read_sim_map _ (fun z => z mod 4294967296) ref data data); [apply Z.mod_small; lia| |].
  - apply (tr_ReadInt64_equiv f F tag req ref p data HF Hok H).
  - intros rd v e E. unfold tr_ReadUint32. rewrite E. reflexivity.
Qed.

Theorem tr_ReadBool_equiv : forall f F (tag : N) req ref p (data : bool), (f + 3 <= F)%nat -> ok (mk ref p 0) ->
  seek_p f tag req (go_drop ref p) <> SeekFuel ->
  read_sim (tr_ReadBool F data (Z.of_N tag) req (mk ref p 0)) ref data
           (map_r (fun z => negb (z =? 0)) (with_seek_p f tag req (go_drop ref p) (read_int_body 8))).
Proof.
  intros f F tag req ref p data HF Hok H.
  pose proof (tr_ReadInt8_equiv f F tag req ref p (if data then 1 else 0) HF Hok H) as R.
  unfold tr_ReadBool.
  assert (E0 : (if data then Next (mk ref p 0, 1) else Next (mk ref p 0, 0)) = (Next (mk ref p 0, if data then 1 else 0) : ctl (go_reader * Z) (go_reader * bool * bool)))
    by (destruct data; reflexivity).
  rewrite E0. cbn [bindc].
  destruct (with_seek_p f tag req (go_drop ref p) (read_int_body 8)) as [v rest|rest| |]; cbn [read_sim map_r] in *.
  - destruct R as (p' & -> & Rr). cbn [go_call bindc Bool.eqb negb]. exists p'. split; [|exact Rr].
    destruct (v =? 0); reflexivity.
  - destruct R as (p' & -> & Rr). cbn [go_call bindc Bool.eqb negb]. exists p'. split; [|exact Rr].
    destruct data; reflexivity.
  - destruct R as (p' & v & ->). cbn [go_call bindc Bool.eqb negb]. eexists; eexists; reflexivity.
  - exact I.
Qed.

(* ---------- Next, ReadString ---------- *)
Lemma rd_len_strict ref p d : 0 <= p <= go_len ref -> go_rd_len (mk ref p d) = go_len ref - p.
Proof. intros H. unfold go_rd_len, go_rd_rest. cbn [rd_ref rd_pos]. apply go_drop_len. exact H. Qed.

Lemma tr_Next_equiv n ref p d : 0 <= p <= go_len ref -> go_len ref <= LEN_MAX -> 0 <= n <= go_len ref - p ->
  tr_Next n (mk ref p d) = Return (mk ref (p + n) d, firstn (Z.to_nat n) (go_drop ref p)).
Proof.
  intros Hp Hl Hn. unfold LEN_MAX in *. unfold tr_Next. destruct (n <=? 0) eqn:C; cbn [bindc].
  - replace n with 0 by lia. rewrite Z.add_0_r. reflexivity.
  - cbn [rd_ref]. rewrite rd_len_strict by lia.
    unfold go_rd_seekcur, go_rd_set_pos. cbn [rd_pos rd_ref rd_depth].
    rewrite (wrapS64_id (p + n)) by lia. replace (p + n <? 0) with false by lia. cbn [rd_ref].
    rewrite rd_len_strict by lia. rewrite !wrapS64_id by lia.
    replace (go_len ref - (go_len ref - p)) with p by lia. replace (go_len ref - (go_len ref - (p + n))) with (p + n) by lia.
    replace (go_slice_ok ref p (p + n)) with true by (unfold go_slice_ok; lia).
    unfold go_slice. rewrite go_take_firstn. do 3 f_equal. lia.
Qed.

Theorem tr_ReadString_equiv : forall f F (tag : N) req ref p data, (f + 3 <= F)%nat -> ok (mk ref p 0) ->
  seek_p f tag req (go_drop ref p) <> SeekFuel ->
  read_sim (tr_ReadString F data (Z.of_N tag) req (mk ref p 0)) ref data (with_seek_p f tag req (go_drop ref p) read_string_body).
Proof.
  intros f F tag req ref p data HF Hok H. pose proof Hok as (Hp & Hl & Hb). cbn [rd_pos rd_ref] in *.
  pose proof (tr_SkipToNoCheck_equiv f F tag req ref p HF Hok H) as SK. unfold tr_ReadString, with_seek_p.
  destruct (seek_p f tag req (go_drop ref p)) as [ty rest|rest| |]; cbn [seek_sim] in SK; try congruence.
  - destruct SK as (q & -> & Er & Hq & Hty). cbn [go_call bindc Bool.eqb negb]. unfold read_string_body, take_str.
    unfold k_codec_STRING4, k_codec_STRING1, tSTR4, tSTR1, c_STRING4, c_STRING1.
    destruct (ty =? 7)%N eqn:T4.
    + replace (Z.of_N ty =? 7) with true by lia.
      pose proof (rd_be_equiv 4 ref q 0 ltac:(lia) ltac:(lia)) as RB. rewrite Er in RB.
      pose proof (bread_lt 4 rest) as BL. change go_rd_u32 with (go_rd_be 4).
      destruct (bread 4 rest) as [[l r']|].
      * destruct RB as (-> & E2 & L2). cbn [bindc Bool.eqb negb].
        assert (Hv : Z.of_N l < 2 ^ 32) by (apply (BL l r'); [rewrite <- Er; apply bytes_ok_drop; assumption|reflexivity]).
        change (2 ^ 32) with 4294967296 in Hv.
        rewrite rd_len_strict by lia.
        assert (Lr : Z.of_nat (length r') = go_len ref - (q + Z.of_nat 4)) by (rewrite <- E2; apply (go_drop_len ref); lia).
        destruct (N.of_nat (length r') <? l)%N eqn:C.
        -- replace (go_len ref - (q + Z.of_nat 4) <? Z.of_N l) with true by lia. cbn [bindc read_sim]. eexists; eexists; reflexivity.
        -- replace (go_len ref - (q + Z.of_nat 4) <? Z.of_N l) with false by lia. cbn [bindc].
           rewrite tr_Next_equiv by lia. cbn [go_call bindc read_sim]. rewrite E2.
           exists (q + Z.of_nat 4 + Z.of_N l). split; [do 3 f_equal; f_equal; lia|]. split; [|lia].
           rewrite go_drop_add, E2 by lia. rewrite go_drop_skipn by lia. f_equal. lia.
      * destruct RB as (p' & v & -> & _). cbn [bindc Bool.eqb negb read_sim]. eexists; eexists; reflexivity.
    + replace (Z.of_N ty =? 7) with false by lia. destruct (ty =? 6)%N eqn:T1.
      * replace (Z.of_N ty =? 6) with true by lia. unfold go_rd_u8. destruct rest as [|l r'].
        -- rewrite (readbyte_nil _ _ _ Er). cbn [bindc Bool.eqb negb read_sim]. eexists; eexists; reflexivity.
        -- rewrite (readbyte_cons _ _ _ _ _ Er). cbn [bindc Bool.eqb negb].
           destruct (go_drop_cons ref q l r' ltac:(lia) Er) as [E1 L1].
           rewrite rd_len_strict by lia.
           assert (Lr : Z.of_nat (length r') = go_len ref - (q + 1)) by (rewrite <- E1; apply (go_drop_len ref); lia).
           destruct (N.of_nat (length r') <? l)%N eqn:C.
           ++ replace (go_len ref - (q + 1) <? Z.of_N l) with true by lia. cbn [bindc read_sim]. eexists; eexists; reflexivity.
           ++ replace (go_len ref - (q + 1) <? Z.of_N l) with false by lia. cbn [bindc].
              rewrite tr_Next_equiv by lia. cbn [go_call bindc read_sim]. rewrite E1.
              exists (q + 1 + Z.of_N l). split; [do 3 f_equal; f_equal; lia|]. split; [|lia].
              rewrite go_drop_add, E1 by lia. rewrite go_drop_skipn by lia. f_equal. lia.
      * replace (Z.of_N ty =? 6) with false by lia. cbn [bindc read_sim]. eexists; eexists; reflexivity.
  - destruct SK as (q & ty & -> & Er & Hq). cbn [go_call bindc Bool.eqb negb read_sim]. exists q. repeat split; try assumption; lia.
  - destruct SK as (q & ty & -> & Hq). cbn [go_call bindc Bool.eqb negb read_sim]. eexists; eexists; reflexivity.
Qed.

(* ---------- the fuel of the models always suffices: [fuel_for bs] ----------
   every step of the skipping functions that spends fuel also consumes a byte, or enters a nesting whose head it
   consumed *)
Lemma drop_len n (bs : list N) : (length (drop n bs) <= length bs)%nat.
Proof. unfold drop. destruct (N.of_nat (length bs) <=? n)%N; cbn; [lia|]. rewrite skipn_length. lia. Qed.
Lemma read_head2_len bs ty tg r two : read_head2 bs = Some (ty, tg, r, two) -> (S (length r) <= length bs)%nat.
Proof.
  unfold read_head2. destruct bs as [|b bs]; [discriminate|]. destruct (b / 16 =? 15)%N.
  - destruct bs as [|t bs']; [discriminate|]. intros H; inversion H; subst. cbn. lia.
  - intros H; inversion H; subst. cbn. lia.
Qed.
Lemma read_head_len bs ty tg r : read_head bs = Some (ty, tg, r) -> (S (length r) <= length bs)%nat.
Proof.
  unfold read_head. destruct (read_head2 bs) as [[[[a b] c] d]|] eqn:E; [|discriminate].
  intros H; inversion H; subst. eapply read_head2_len; eassumption.
Qed.
Lemma bread_len n bs v r : bread n bs = Some (v, r) -> (length r <= length bs)%nat.
Proof. unfold bread. destruct (n <=? length bs)%nat; [|discriminate]. intros H; inversion H; subst. rewrite skipn_length. lia. Qed.
Lemma read_count_len bs : match read_count bs with COk _ r => (S (length r) <= length bs)%nat | CErr r => (length r <= length bs)%nat end.
Proof.
  unfold read_count. destruct (read_head bs) as [[[ty tg] r]|] eqn:E; [|cbn; lia].
  pose proof (read_head_len _ _ _ _ E) as L.
  destruct (negb (tg =? 0) || (ty =? tSE))%N; [lia|]. destruct (ty =? tZERO)%N; [lia|].
  destruct (ty =? tBYTE)%N; [destruct r; cbn in *; lia|].
  destruct (ty =? tSHORT)%N; [destruct (bread 2 r) as [[v r']|] eqn:B; [apply bread_len in B|cbn]; lia|].
  destruct (ty =? tINT)%N; [destruct (bread 4 r) as [[v r']|] eqn:B; [apply bread_len in B|cbn]; lia|]. lia.
Qed.

Lemma skip_p_len : forall f,
  (forall d ty bs s r, skip_field_p f d ty bs = (s, r) -> (length r <= length bs)%nat) /\
  (forall d n bs s r, skip_n_p f d n bs = (s, r) -> (length r <= length bs)%nat) /\
  (forall d bs s r, skip_to_end_p f d bs = (s, r) -> (length r <= length bs)%nat).
Proof.
  induction f as [|f (IHf & IHn & IHe)].
  - repeat split; intros; cbn in *; inversion H; subst; lia.
  - repeat split.
    + intros d ty bs s r H. cbn [skip_field_p] in H.
      repeat match type of H with (if ?c then _ else _) = _ => destruct c end;
        try (inversion H; subst; first [apply drop_len | cbn; lia]).
      * destruct bs as [|l r0]; inversion H; subst; cbn; [lia|]. pose proof (drop_len l r0). lia.
      * destruct (bread 4 bs) as [[l r0]|] eqn:B; inversion H; subst; cbn; [|lia].
        apply bread_len in B. pose proof (drop_len l r0). lia.
      * pose proof (read_count_len bs) as RC. destruct (read_count bs) as [n r0|r0]; [|inversion H; subst; lia].
        apply IHn in H. lia.
      * pose proof (read_count_len bs) as RC. destruct (read_count bs) as [n r0|r0]; [|inversion H; subst; lia].
        apply IHn in H. lia.
      * destruct (read_head bs) as [[[t tg] r0]|] eqn:E; [|inversion H; subst; cbn; lia].
        apply read_head_len in E. destruct (negb (t =? tBYTE)%N); [inversion H; subst; lia|].
        pose proof (read_count_len r0) as RC. destruct (read_count r0) as [n r1|r1]; inversion H; subst; [|lia].
        destruct (0 <? n)%Z; [pose proof (drop_len (Z.to_N n) r1)|]; lia.
      * apply IHe in H. exact H.
    + intros d n bs s r H. cbn [skip_n_p] in H. destruct (n <=? 0)%Z; [inversion H; subst; lia|].
      destruct (read_head bs) as [[[ty tg] r0]|] eqn:E; [|inversion H; subst; cbn; lia].
      apply read_head_len in E. destruct (skip_field_p f d ty r0) as [s0 r1] eqn:E0. apply IHf in E0.
      destruct s0; try (apply IHn in H; lia). inversion H; subst; lia.
    + intros d bs s r H. cbn [skip_to_end_p] in H.
      destruct (read_head bs) as [[[ty tg] r0]|] eqn:E; [|inversion H; subst; cbn; lia].
      apply read_head_len in E. destruct (skip_field_p f d ty r0) as [s0 r1] eqn:E0. apply IHf in E0.
      destruct s0; try (inversion H; subst; lia).
      destruct (ty =? tSE)%N; [inversion H; subst; lia|]. apply IHe in H. lia.
Qed.

Lemma skip_p_fuel : forall f,
  (forall d ty bs, (2 * length bs + 3 <= f)%nat -> fst (skip_field_p f d ty bs) <> SFuel) /\
  (forall d n bs, (2 * length bs + 2 <= f)%nat -> fst (skip_n_p f d n bs) <> SFuel) /\
  (forall d bs, (2 * length bs + 2 <= f)%nat -> fst (skip_to_end_p f d bs) <> SFuel).
Proof.
  induction f as [|f (IHf & IHn & IHe)].
  - repeat split; intros; lia.
  - repeat split.
    + intros d ty bs Hf. cbn [skip_field_p].
      repeat match goal with |- context [if ?c then _ else _] => destruct c end; cbn [fst]; try congruence.
      * destruct bs; cbn; congruence.
      * destruct (bread 4 bs) as [[l r0]|]; cbn; congruence.
      * pose proof (read_count_len bs) as RC. destruct (read_count bs) as [n r0|r0]; [|cbn; congruence]. apply IHn. lia.
      * pose proof (read_count_len bs) as RC. destruct (read_count bs) as [n r0|r0]; [|cbn; congruence]. apply IHn. lia.
      * destruct (read_head bs) as [[[t tg] r0]|]; [|cbn; congruence]. destruct (negb (t =? tBYTE)%N); [cbn; congruence|].
        destruct (read_count r0); cbn; congruence.
      * apply IHe. lia.
    + intros d n bs Hf. cbn [skip_n_p]. destruct (n <=? 0)%Z; [cbn; congruence|].
      destruct (read_head bs) as [[[ty tg] r0]|] eqn:E; [|cbn; congruence].
      apply read_head_len in E. pose proof (IHf d ty r0 ltac:(lia)) as F0.
      destruct (skip_field_p f d ty r0) as [s0 r1] eqn:E0. cbn [fst] in F0.
      pose proof (proj1 (skip_p_len f) _ _ _ _ _ E0) as L1.
      destruct s0; try congruence; apply IHn; lia.
    + intros d bs Hf. cbn [skip_to_end_p].
      destruct (read_head bs) as [[[ty tg] r0]|] eqn:E; [|cbn; congruence].
      apply read_head_len in E. pose proof (IHf d ty r0 ltac:(lia)) as F0.
      destruct (skip_field_p f d ty r0) as [s0 r1] eqn:E0. cbn [fst] in F0.
      pose proof (proj1 (skip_p_len f) _ _ _ _ _ E0) as L1.
      destruct s0; try congruence; [|cbn; congruence].
      destruct (ty =? tSE)%N; [cbn; congruence|]. apply IHe. lia.
Qed.

Lemma seek_p_fuel : forall f tag req bs, (2 * length bs + 4 <= f)%nat -> seek_p f tag req bs <> SeekFuel.
Proof.
  induction f as [|f IH]; intros tag req bs Hf; [lia|]. cbn [seek_p].
  destruct (read_head2 bs) as [[[[ty tg] r] two]|] eqn:E; [|destruct req; congruence].
  apply read_head2_len in E.
  destruct ((ty =? tSE) || (tag <? tg))%N; [destruct req; congruence|]. destruct (tg =? tag)%N; [congruence|].
  pose proof (proj1 (skip_p_fuel f) 0%N ty r ltac:(lia)) as F0.
  destruct (skip_field_p f 0 ty r) as [s0 r1] eqn:E0. cbn [fst] in F0.
  pose proof (proj1 (skip_p_len f) _ _ _ _ _ E0) as L1.
  destruct s0; try congruence. apply IH. lia.
Qed.

(* hence, with the model's own fuel [fuel_for] and three units more for the code: the translated readers compute the
   models of Codec/Skip.v and Codec/Prim.v as they stand, for every input *)
Theorem tr_SkipToNoCheck_total : forall F (tag : N) req ref p, ok (mk ref p 0) ->
  (fuel_for (go_drop ref p) + 3 <= F)%nat ->
  seek_sim (tr_SkipToNoCheck F (Z.of_N tag) req (mk ref p 0)) ref (skip_to_no_check (fuel_for (go_drop ref p)) tag req (go_drop ref p)).
Proof.
  intros F tag req ref p Hok HF. pose proof (seek_p_fuel (fuel_for (go_drop ref p)) tag req (go_drop ref p) ltac:(unfold fuel_for; lia)) as NF.
  rewrite seek_p_clean by exact NF. apply tr_SkipToNoCheck_equiv; assumption.
Qed.

Theorem tr_ReadInt_total : forall F (tag : N) req ref p data, ok (mk ref p 0) ->
  let bs := go_drop ref p in (fuel_for bs + 3 <= F)%nat ->
  read_sim (tr_ReadInt8 F data (Z.of_N tag) req (mk ref p 0)) ref data (r_int8 (fuel_for bs) tag req bs) /\
  read_sim (tr_ReadInt16 F data (Z.of_N tag) req (mk ref p 0)) ref data (r_int16 (fuel_for bs) tag req bs) /\
  read_sim (tr_ReadInt32 (S F) data (Z.of_N tag) req (mk ref p 0)) ref data (r_int32 (fuel_for bs) tag req bs) /\
  read_sim (tr_ReadInt64 F data (Z.of_N tag) req (mk ref p 0)) ref data (r_int64 (fuel_for bs) tag req bs).
Proof.
  intros F tag req ref p data Hok bs HF.
  pose proof (seek_p_fuel (fuel_for bs) tag req bs ltac:(unfold fuel_for; lia)) as NF.
  unfold r_int8, r_int16, r_int32, r_int64, r_int. rewrite !with_seek_p_clean by exact NF.
  repeat split; [apply tr_ReadInt8_equiv|apply tr_ReadInt16_equiv|apply tr_ReadInt32_equiv|apply tr_ReadInt64_equiv]; assumption.
Qed.

Theorem tr_ReadString_total : forall F (tag : N) req ref p data, ok (mk ref p 0) ->
  let bs := go_drop ref p in (fuel_for bs + 3 <= F)%nat ->
  read_sim (tr_ReadString F data (Z.of_N tag) req (mk ref p 0)) ref data (r_string (fuel_for bs) tag req bs).
Proof.
  intros F tag req ref p data Hok bs HF.
  pose proof (seek_p_fuel (fuel_for bs) tag req bs ltac:(unfold fuel_for; lia)) as NF.
  unfold r_string. rewrite with_seek_p_clean by exact NF. apply tr_ReadString_equiv; assumption.
Qed.

(* instance: a struct-typed field at tag 1 is skipped, the int16 at tag 2 is read *)
Example tr_ReadInt16_ex :
  tr_ReadInt16 20 0 2 true (mk [26; 12; 11; 33; 255; 254; 7]%N 0 0) = Return (mk [26; 12; 11; 33; 255; 254; 7]%N 6 0, -2, false).
Proof. vm_compute. reflexivity. Qed.

(* ---------- SkipTo: the field search plus the wire type check ---------- *)
Definition skip_to_p (fuel : nat) (ty tag : N) (require : bool) (bs : list N) : seek :=
  match seek_p fuel tag require bs with
  | Found t r => if (t =? ty)%N then Found t r else SeekErr
  | x => x
  end.
Theorem tr_SkipTo_equiv : forall f F (ty tag : N) req ref p, (f + 3 <= F)%nat -> ok (mk ref p 0) -> (ty < 256)%N ->
  seek_p f tag req (go_drop ref p) <> SeekFuel ->
  match skip_to_p f ty tag req (go_drop ref p) with
  | Found _ rest => exists p', tr_SkipTo F (Z.of_N ty) (Z.of_N tag) req (mk ref p 0) = Return (mk ref p' 0, true, false) /\ go_drop ref p' = rest
  | NotFound rest => exists p', tr_SkipTo F (Z.of_N ty) (Z.of_N tag) req (mk ref p 0) = Return (mk ref p' 0, false, false) /\ go_drop ref p' = rest
  | SeekErr => exists p', tr_SkipTo F (Z.of_N ty) (Z.of_N tag) req (mk ref p 0) = Return (mk ref p' 0, false, true)
  | SeekFuel => True
  end.
Proof.
  intros f F ty tag req ref p HF Hok Hty H.
  pose proof (tr_SkipToNoCheck_equiv f F tag req ref p HF Hok H) as SK. unfold tr_SkipTo, skip_to_p.
  destruct (seek_p f tag req (go_drop ref p)) as [t rest|rest| |]; cbn [seek_sim] in SK; try congruence.
  - destruct SK as (q & -> & Er & Hq & Ht). cbn [go_call bindc Bool.eqb negb].
    destruct (t =? ty)%N eqn:E.
    + decide_conds. cbn [negb bindc]. exists q. split; [reflexivity|exact Er].
    + decide_conds. cbn [negb bindc]. exists q. reflexivity.
  - destruct SK as (q & t & -> & Er & Hq). cbn [go_call bindc Bool.eqb negb]. exists q.
    split; [destruct (Z.of_N ty =? t); cbn [negb bindc]; reflexivity|exact Er].
  - destruct SK as (q & t & -> & Hq). cbn [go_call bindc Bool.eqb negb]. exists q. reflexivity.
Qed.
Lemma skip_to_p_clean f ty tag req bs : seek_p f tag req bs <> SeekFuel -> skip_to f ty tag req bs = skip_to_p f ty tag req bs.
Proof. intros H. unfold skip_to, skip_to_p. rewrite seek_p_clean by exact H. reflexivity. Qed.
