(* Target language of the source-to-model translator (harness/xlate*.go, design/XLATE.md).
   Hand-written and trusted: the meaning given here to the few Go constructs of the supported subset.
   Definitions only.

   Representation: every Go integer is a Z inside the range of its type; bool is bool; []byte and string
   are [list N] with every element < 256 (the hypothesis [bytes_ok] of the equivalence theorems); []T for
   an integer type T is [list Z]; an [error] is a bool ("is not nil"); a struct is a generated Record.

   Control: a block of statements denotes a [ctl S R]: it falls through with the values S of the variables
   it assigned, returns R from the function, or panics (index / slice bounds, division by zero, negative
   shift count). The run-time checks of a statement appear as [if checks then statement else Panic]. *)
From Coq Require Import List NArith ZArith Bool.
Import ListNotations.
Open Scope Z_scope.

Inductive ctl (S R : Type) : Type := Next (s : S) | Return (r : R) | Panic.
Arguments Next {S R} s. Arguments Return {S R} r. Arguments Panic {S R}.

Definition bindc {S S' R} (c : ctl S R) (k : S -> ctl S' R) : ctl S' R :=
  match c with Next s => k s | Return r => Return r | Panic => Panic end.
(* call of a translated function from a translated function: the callee's result (or panic) *)
Definition go_call {S S' R R'} (c : ctl S R) (k : R -> ctl S' R') : ctl S' R' :=
  match c with Return r => k r | _ => Panic end.

(* fixed-width integers: the value a Go operation of a w-bit type yields for the mathematical result z *)
Definition wrapU (w z : Z) : Z := z mod 2 ^ w.
Definition wrapS (w z : Z) : Z := (z + 2 ^ (w - 1)) mod 2 ^ w - 2 ^ (w - 1).

Definition go_len {A} (l : list A) : Z := Z.of_nat (length l).
(* indexing and slicing recurse over the list (never over the number), so that they evaluate cheaply whatever the index *)
Fixpoint go_nth {A} (l : list A) (i : Z) (d : A) : A :=
  match l with [] => d | a :: r => if i <=? 0 then a else go_nth r (i - 1) d end.
Definition go_in_range {A} (l : list A) (i : Z) : bool := (0 <=? i) && (i <? go_len l).
Fixpoint go_drop {A} (l : list A) (n : Z) : list A :=
  match l with [] => [] | _ :: r => if n <=? 0 then l else go_drop r (n - 1) end.
Fixpoint go_take {A} (l : list A) (n : Z) : list A :=
  match l with [] => [] | a :: r => if n <=? 0 then [] else a :: go_take r (n - 1) end.
(* l[lo:hi]; the capacity of a slice is not modelled: hi beyond len(l) counts as a panic *)
Definition go_slice {A} (l : list A) (lo hi : Z) : list A := go_take (go_drop l lo) (hi - lo).
Definition go_slice_ok {A} (l : list A) (lo hi : Z) : bool := (0 <=? lo) && (lo <=? hi) && (hi <=? go_len l).

Fixpoint go_bytes_eqb (a b : list N) : bool :=
  match a, b with
  | [], [] => true
  | x :: a', y :: b' => N.eqb x y && go_bytes_eqb a' b'
  | _, _ => false
  end.

(* s < t on strings: byte-wise lexicographic *)
Fixpoint go_bytes_ltb (a b : list N) : bool :=
  match a, b with
  | _, [] => false
  | [], _ :: _ => true
  | x :: a', y :: b' => if N.ltb x y then true else if N.ltb y x then false else go_bytes_ltb a' b'
  end.

(* encoding/binary.BigEndian.UintNN(b): reads the first NN/8 bytes (checked by the guard go_len b >= NN/8) *)
Fixpoint go_be (n : nat) (acc : Z) (l : list N) : Z :=
  match n, l with
  | S n', b :: r => go_be n' (acc * 256 + Z.of_N b) r
  | _, _ => acc
  end.
Definition go_be_u16 (l : list N) : Z := go_be 2 0 l.
Definition go_be_u32 (l : list N) : Z := go_be 4 0 l.
Definition go_be_u64 (l : list N) : Z := go_be 8 0 l.

(* the bytes appended to a bytes.Buffer by WriteByte(v) and by Write of the big-endian form of v *)
Fixpoint go_put_be (n : nat) (v : Z) : list N :=
  match n with
  | O => []
  | S n' => Z.to_N ((v / 256 ^ Z.of_nat n') mod 256) :: go_put_be n' v
  end.
Definition go_emit_u8 (v : Z) : list N := go_put_be 1 v.
Definition go_emit_u16 (v : Z) : list N := go_put_be 2 v.
Definition go_emit_u32 (v : Z) : list N := go_put_be 4 v.
Definition go_emit_u64 (v : Z) : list N := go_put_be 8 v.
Definition go_emit_bytes (s : list N) : list N := s.       (* WriteString(s) / Write(s) *)

(* for k, v := range l { body }: left fold with early exit *)
Fixpoint go_range_from {A S R} (i : Z) (l : list A) (f : Z -> A -> S -> ctl S R) (s : S) : ctl S R :=
  match l with
  | [] => Next s
  | a :: r => bindc (f i a s) (go_range_from (i + 1) r f)
  end.
Definition go_range {A S R} (l : list A) (f : Z -> A -> S -> ctl S R) (s : S) : ctl S R := go_range_from 0 l f s.

(* for i := a; i < n; i++ { body } where the body assigns neither i nor anything n depends on: the body runs for
   i = a, a+1, .., n-1 (not at all when n <= a); i stays below n, so i++ never wraps *)
Fixpoint go_count_from {S R} (k : nat) (i : Z) (f : Z -> S -> ctl S R) (s : S) : ctl S R :=
  match k with
  | O => Next s
  | Datatypes.S k' => bindc (f i s) (go_count_from k' (i + 1) f)
  end.
Definition go_count {S R} (a n : Z) (f : Z -> S -> ctl S R) (s : S) : ctl S R := go_count_from (Z.to_nat (n - a)) a f s.

(* for i := a; i >= n; i-- { body } where the body assigns neither i nor anything n depends on: i = a, a-1, .., n *)
Fixpoint go_count_down_from {S R} (k : nat) (i : Z) (f : Z -> S -> ctl S R) (s : S) : ctl S R :=
  match k with
  | O => Next s
  | Datatypes.S k' => bindc (f i s) (go_count_down_from k' (i - 1) f)
  end.
Definition go_count_down {S R} (a n : Z) (f : Z -> S -> ctl S R) (s : S) : ctl S R := go_count_down_from (Z.to_nat (a - n + 1)) a f s.

(* sort.Slice(v, less): the list sorted by less (insertion sort, stable). It is what sort.Slice - which is not stable and
   compares pairs of its own choosing - produces when less is a strict total order on the elements of v, the only case
   in which Go determines the result. [less a b = None]: a run-time check of the comparator fails on that pair; the
   translation panics if that can happen for any ordered pair of elements (Go might not compare that pair). *)
Fixpoint go_insert {A} (less : A -> A -> bool) (x : A) (l : list A) : list A :=
  match l with
  | [] => [x]
  | y :: r => if less x y then x :: l else y :: go_insert less x r
  end.
Definition go_less_total {A} (less : A -> A -> option bool) (l : list A) : bool :=
  forallb (fun a => forallb (fun b => match less a b with Some _ => true | None => false end) l) l.
Definition go_sort_by {A} (less : A -> A -> option bool) (l : list A) : option (list A) :=
  if go_less_total less l
  then Some (fold_right (go_insert (fun a b => match less a b with Some r => r | None => false end)) [] l)
  else None.

(* map[K]V with an integer key type: association list, at most one entry per key, in order of first insertion
   (Go's iteration order is unspecified: ranging over a map is outside the subset) *)
Fixpoint go_map_get {V} (m : list (Z * V)) (k : Z) (d : V) : V :=
  match m with [] => d | (k', v) :: r => if k' =? k then v else go_map_get r k d end.
Fixpoint go_map_set {V} (m : list (Z * V)) (k : Z) (v : V) : list (Z * V) :=
  match m with [] => [(k, v)] | (k', v') :: r => if k' =? k then (k, v) :: r else (k', v') :: go_map_set r k v end.

(* make([]T, n): n zero values *)
Definition go_make {A} (n : Z) (d : A) : list A := repeat d (Z.to_nat n).

(* ---------- state mode: codec.Reader = { ref []byte; buf *bytes.Reader over ref; depth int } ----------
   bytes.Reader is its underlying slice and its read position (the position may lie beyond the end after a Seek).
   Stated semantics of the library calls the translated code makes (each returns the new state first):
   ReadByte: at or beyond the end -> (0, EOF), else the byte, position + 1;  UnreadByte: position <= 0 -> error, else
   position - 1 (whatever the previous operation was);  Len: bytes between position and end (0 beyond the end);
   Seek(off, io.SeekCurrent): negative target -> error, else the position is set (beyond the end allowed);
   Read(p): at or beyond the end -> (0, EOF) even for an empty p, else copies min(len p, Len) bytes, no error;
   io.ReadFull(r, p): fills p or consumes what is left and fails (no error for an empty p);
   bReadU8/16/32/64: ReadByte resp. io.ReadFull into a zeroed 2/4/8-byte array, decoded big-endian (also on failure). *)
Record go_reader := { rd_ref : list N; rd_pos : Z; rd_depth : Z }.
Definition go_rd_set_pos (rd : go_reader) (p : Z) := {| rd_ref := rd_ref rd; rd_pos := p; rd_depth := rd_depth rd |}.
Definition go_rd_set_depth (rd : go_reader) (d : Z) := {| rd_ref := rd_ref rd; rd_pos := rd_pos rd; rd_depth := d |}.
Definition go_rd_rest (rd : go_reader) : list N := go_drop (rd_ref rd) (rd_pos rd).     (* what is left to read *)
Definition go_rd_len (rd : go_reader) : Z := go_len (go_rd_rest rd).
Definition go_rd_readbyte (rd : go_reader) : go_reader * Z * bool :=
  match go_rd_rest rd with
  | [] => (rd, 0, true)
  | b :: _ => (go_rd_set_pos rd (rd_pos rd + 1), Z.of_N b, false)
  end.
Definition go_rd_unreadbyte (rd : go_reader) : go_reader * bool :=
  if rd_pos rd <=? 0 then (rd, true) else (go_rd_set_pos rd (rd_pos rd - 1), false).
Definition go_rd_seekcur (off : Z) (rd : go_reader) : go_reader * Z * bool :=
  let abs := wrapS 64 (rd_pos rd + off) in
  if abs <? 0 then (rd, 0, true) else (go_rd_set_pos rd abs, abs, false).
Definition go_rd_read (p : list N) (rd : go_reader) : go_reader * list N * Z * bool :=
  match go_rd_rest rd with
  | [] => (rd, p, 0, true)
  | rest => let got := go_take rest (go_len p) in
            (go_rd_set_pos rd (rd_pos rd + go_len got), got ++ go_drop p (go_len got), go_len got, false)
  end.
Definition go_rd_readfull (p : list N) (rd : go_reader) : go_reader * list N * Z * bool :=
  let got := go_take (go_rd_rest rd) (go_len p) in
  (go_rd_set_pos rd (rd_pos rd + go_len got), got ++ go_drop p (go_len got), go_len got, negb (go_len got =? go_len p)).
Definition go_rd_be (n : nat) (rd : go_reader) : go_reader * Z * bool :=
  let '(rd', buf, _, err) := go_rd_readfull (repeat 0%N n) rd in (rd', go_be n 0 buf, err).
Definition go_rd_u8 (rd : go_reader) : go_reader * Z * bool := go_rd_readbyte rd.
Definition go_rd_u16 := go_rd_be 2.
Definition go_rd_u32 := go_rd_be 4.
Definition go_rd_u64 := go_rd_be 8.

(* float32 / float64 values are their IEEE 754 bit patterns; the only operation on them is the exact widening
   float64(f) of a float32: sign, exponent re-bias, subnormals normalised, NaNs quieted (what the hardware conversion
   does). The self-test compares it with the Go conversion on boundary patterns. *)
Definition go_f32_to_f64 (bz : Z) : Z :=
  let b := Z.to_N bz in
  let s := (b / 2147483648)%N in let e := ((b / 8388608) mod 256)%N in let m := (b mod 8388608)%N in
  let s64 := (s * 9223372036854775808)%N in
  Z.of_N
  (if (e =? 255)%N then (if (m =? 0)%N then s64 + 2047 * 4503599627370496
                    else s64 + 2047 * 4503599627370496 + 2251799813685248 + (m mod 4194304) * 536870912)
  else if (e =? 0)%N then
    (if (m =? 0)%N then s64
     else let k := N.log2 m in
          s64 + (k + 874) * 4503599627370496 + (m - 2 ^ k) * 2 ^ (52 - k))
  else s64 + (e + 896) * 4503599627370496 + m * 536870912)%N.

(* sort.Search(n, f): the binary search of package sort, literally:
     i, j := 0, n; for i < j { h := int(uint(i+j) >> 1); if !f(h) { i = h + 1 } else { j = h } }; return i
   f is called on indexes in [0, n) only; [f h = None] stands for a run-time check failing inside f (the search panics).
   For a monotone f it returns the least index where f holds, n if there is none (GoSemFacts.go_search_least). *)
Fixpoint go_bsearch (fuel : nat) (i j : Z) (f : Z -> option bool) : option Z :=
  match fuel with
  | O => None
  | Datatypes.S k =>
      if i <? j then
        let h := (i + j) / 2 in
        match f h with
        | None => None
        | Some false => go_bsearch k (h + 1) j f
        | Some true => go_bsearch k i h f
        end
      else Some i
  end.
Definition go_search_opt (n : Z) (f : Z -> option bool) : option Z := go_bsearch (Datatypes.S (Z.to_nat n)) 0 n f.
Definition go_search (n : Z) (f : Z -> option bool) : Z := match go_search_opt n f with Some i => i | None => 0 end.
Definition go_search_ok (n : Z) (f : Z -> option bool) : bool := match go_search_opt n f with Some _ => true | None => false end.

(* sync/atomic on an int32 variable (the state is its value): CompareAndSwapInt32(&x, old, new), AddInt32(&x, d) *)
Definition go_atomic_cas32 (old new : Z) (x : Z) : Z * bool := if x =? old then (new, true) else (x, false).
Definition go_atomic_add32 (d : Z) (x : Z) : Z * Z := let v := wrapS 32 (x + d) in (v, v).

(* `for { body }` anywhere in a unit with fuel: at most fuel rounds; a round falls through (Next: next round), breaks
   (Return (inl (inl state))), continues (Return (inl (inr state)): next round) or returns from the function
   (Return (inr results)); out of fuel is Panic *)
Fixpoint go_loop {S R} (fuel : nat) (body : S -> ctl S ((S + S) + R)) (s : S) : ctl S R :=
  match fuel with
  | O => Panic
  | Datatypes.S k => match body s with
                     | Next s' => go_loop k body s'
                     | Return (inl (inl b)) => Next b
                     | Return (inl (inr c)) => go_loop k body c
                     | Return (inr r) => Return r
                     | Panic => Panic
                     end
  end.

(* copy(dst, src): the first min(len dst, len src) elements of dst are replaced *)
Definition go_copy {A} (dst src : list A) : list A :=
  firstn (length dst) src ++ skipn (length src) dst.
(* handing a package over (handleConn / protocol.Recv): the package is appended to what was delivered *)
Definition go_deliver (p : list N) : list (list N) := [p].

(* `for { body }` of a unit with fuel: the body falls through (next iteration: the unit again, with the fuel left),
   breaks (Return (inl state)) or returns (Return (inr results)) *)
Definition go_iter {S B S' R} (c : ctl S (B + R)) (kbreak : B -> ctl S' R) (knext : S -> ctl S' R) : ctl S' R :=
  match c with
  | Next s => knext s
  | Return (inl b) => kbreak b
  | Return (inr r) => Return r
  | Panic => Panic
  end.

(* the representation invariant of []byte / string values *)
Definition bytes_ok (l : list N) : Prop := Forall (fun b => (b < 256)%N) l.

(* error values (units with ErrVals): nil, errors.New(text), a pointer to the package's error struct *)
Inductive go_error (E : Type) : Type := GoErrNil | GoErrNew (text : list N) | GoErrVal (e : E).
Arguments GoErrNil {E}.
Arguments GoErrNew {E} text.
Arguments GoErrVal {E} e.

(* maps with string keys (units with StrMaps): the list of insertions in order; m[k] = v appends *)
Definition go_smap_put {V} (m : list (list N * V)) (k : list N) (v : V) : list (list N * V) := m ++ [(k, v)].

(* context.WithTimeout(ctx, d) as an emission of a unit whose output is the list of timers armed *)
Definition go_arm (d : Z) : list Z := [d].

(* tagged emissions of a unit whose output is a list of actions (tag, value) *)
Definition go_tag (t v : Z) : list (Z * Z) := [(t, v)].
