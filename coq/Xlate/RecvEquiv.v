(* The receive loops. The Gallina text generated from the current Go source of what tcpHandler.recv (server) and
   connection.recv (client) do with one chunk read from the connection (Gen/Translated.v: tr_srv_recv_chunk,
   tr_cli_recv_chunk - append the chunk to currBuffer, then repeatedly ParsePackage / copy out pkgLen bytes / advance /
   hand the package over, until "less" (keep the rest), "error" (return: the connection is given up), or nothing is left
   (currBuffer = nil)) computes the C07 model Frame/Framing.v: [drain'] on the chunk, and iterated over the chunks that
   conn.Read returns, [recv_loop]. conn.Read is the input (the chunk), handleConn / protocol.Recv the output (the list of
   packages handed over, in order); ParsePackage is protocol.TarsRequest (Xlate/TarsRequestEquiv.v). *)
From Coq Require Import List NArith ZArith Bool Lia ZifyBool ZifyNat ZifyN.
From TarsV Require Import Base.Hex Frame.Framing Frame.FramingProofs Xlate.GoSem Xlate.GoSemFacts Gen.Translated Xlate.TarsRequestEquiv.
Import ListNotations.
Open Scope Z_scope.

(* ParsePackage as the code sees it: the two results of TarsRequest for the model's verdict *)
Definition parse_of (max : N) (buf : list N) : Z * Z := enc_pstat (tars_request max buf).
(* what a chunk step returns for the model's outcome: delivered packages appended; the rest kept, or the connection given up *)
Definition chunk_res (out : list (list N)) (m : list (list N) * option (list N))
  : ctl (list (list N) * list N) (list (list N) * unit) :=
  match m with
  | (ps, Some rest) => Next (out ++ ps, rest)
  | (ps, None) => Return (out ++ ps, tt)
  end.
Definition chunk_sim (c : ctl (list (list N) * list N) (list (list N) * unit)) (out : list (list N))
           (m : list (list N) * option (list N)) : Prop := c = chunk_res out m.

(* the transport package and the protocol package number the verdicts alike (the code compares one with the other) *)
Lemma verdict_codes : k_transport_PackageLess = k_protocol_PackageLess /\ k_transport_PackageFull = k_protocol_PackageFull.
Proof. split; reflexivity. Qed.

Lemma go_slice_firstn {A} (l : list A) k : (k <= length l)%nat -> go_slice l 0 (Z.of_nat k) = firstn k l.
Proof. intros H. rewrite go_slice_std by lia. rewrite Z.sub_0_r, Nat2Z.id. reflexivity. Qed.
Lemma go_slice_skipn {A} (l : list A) k : (k <= length l)%nat -> go_slice l (Z.of_nat k) (go_len l) = skipn k l.
Proof.
  intros H. rewrite go_slice_std by lia. rewrite Nat2Z.id. unfold go_len.
  replace (Z.to_nat (Z.of_nat (length l) - Z.of_nat k)) with (length (skipn k l)) by (rewrite skipn_length; lia).
  apply firstn_all.
Qed.
Lemma go_copy_fresh (src : list N) : go_copy (go_make (go_len src) 0%N) src = src.
Proof.
  unfold go_copy, go_make, go_len. rewrite Nat2Z.id, repeat_length, firstn_all.
  rewrite skipn_all2 by (rewrite repeat_length; lia). apply app_nil_r.
Qed.

(* ---------- the server loop (tcpHandler.recv) ---------- *)
Theorem tr_srv_recv_chunk_equiv : forall (max : N) (buffer cur : list N) (n : Z) (out : list (list N)) (fuel : nat),
  0 <= n <= go_len buffer -> (length cur + Z.to_nat n + 2 <= fuel)%nat ->
  chunk_sim (tr_srv_recv_chunk fuel buffer cur n (parse_of max) out) out (drain' max (cur ++ firstn (Z.to_nat n) buffer)).
Proof.
  intros max buffer cur n out fuel Hn Hfuel. unfold tr_srv_recv_chunk.
  replace (go_slice_ok buffer 0 n) with true by (unfold go_slice_ok; lia).
  rewrite go_slice_std by lia. rewrite Z.sub_0_r. cbn [skipn Z.to_nat].
  match goal with |- context [go_loop _ ?b _] => set (body := b) end.
  assert (L : forall f fuel buf out, (length buf < f)%nat -> (f <= fuel)%nat ->
              go_loop fuel body (out, buf) = chunk_res out (drain f max buf)).
  { clear. induction f as [|f IH]; intros fuel buf out Hf Hfu; [lia|].
    destruct fuel as [|fuel]; [lia|]. cbn [drain go_loop]. unfold body at 1. unfold parse_of.
    destruct verdict_codes as [-> ->].
    destruct (tars_request max buf) as [|k|] eqn:E; cbn [enc_pstat fst snd];
      unfold k_protocol_PackageLess, k_protocol_PackageFull, k_protocol_PackageError; cbn [Z.eqb Pos.eqb bindc].
    - cbn [chunk_res]. rewrite app_nil_r. reflexivity.
    - (* a full package of k bytes *)
      apply tars_request_full in E. destruct E as ([K4 Kl] & _).
      replace (Z.of_nat k =? 1) with (Z.of_nat k =? 1) by reflexivity.
      replace (0 <=? Z.of_nat k) with true by lia.
      replace (go_slice_ok buf 0 (Z.of_nat k)) with true by (unfold go_slice_ok, go_len; lia).
      replace (go_slice_ok buf (Z.of_nat k) (go_len buf)) with true by (unfold go_slice_ok, go_len; lia).
      rewrite go_slice_firstn, go_slice_skipn by lia.
      replace (go_make (Z.of_nat k) 0%N) with (go_make (go_len (firstn k buf)) 0%N) by (unfold go_len; rewrite firstn_length, Nat.min_l by lia; reflexivity).
      rewrite go_copy_fresh. unfold go_deliver. cbn [bindc].
      specialize (IH fuel (skipn k buf) (out ++ [firstn k buf]) ltac:(rewrite skipn_length; lia) ltac:(lia)).
      destruct (0 <? go_len (skipn k buf)) eqn:C; cbn [bindc].
      + rewrite IH. destruct (drain f max (skipn k buf)) as [ps [rest|]]; cbn [chunk_res]; rewrite <- app_assoc; reflexivity.
      + (* nothing left: the code stops with an empty buffer; so does the model at its next round *)
        assert (En : skipn k buf = []) by (destruct (skipn k buf); [reflexivity|unfold go_len in C; cbn [length] in C; lia]).
        rewrite En in *. destruct f as [|f']; [cbn [length] in *; lia|]. cbn [drain tars_request hdr chunk_res]. try rewrite <- app_assoc; reflexivity.
    - cbn [chunk_res]. rewrite app_nil_r. reflexivity. }
  set (buf := cur ++ firstn (Z.to_nat n) buffer).
  assert (Lb : (length buf <= length cur + Z.to_nat n)%nat) by (unfold buf; rewrite app_length, firstn_length; lia).
  specialize (L (S (length buf)) fuel buf out ltac:(lia) ltac:(lia)). unfold drain', chunk_sim. rewrite L.
  destruct (drain (S (length buf)) max buf) as [ps [rest|]]; reflexivity.
Qed.

(* ---------- the client loop (connection.recv) ---------- *)
Theorem tr_cli_recv_chunk_equiv : forall (max : N) (buffer cur : list N) (n : Z) (out : list (list N)) (fuel : nat),
  0 <= n <= go_len buffer -> (length cur + Z.to_nat n + 2 <= fuel)%nat ->
  chunk_sim (tr_cli_recv_chunk fuel buffer cur n (parse_of max) out) out (drain' max (cur ++ firstn (Z.to_nat n) buffer)).
Proof.
  intros max buffer cur n out fuel Hn Hfuel. unfold tr_cli_recv_chunk.
  replace (go_slice_ok buffer 0 n) with true by (unfold go_slice_ok; lia).
  rewrite go_slice_std by lia. rewrite Z.sub_0_r. cbn [skipn Z.to_nat].
  match goal with |- context [go_loop _ ?b _] => set (body := b) end.
  assert (L : forall f fuel buf out, (length buf < f)%nat -> (f <= fuel)%nat ->
              go_loop fuel body (out, buf) = chunk_res out (drain f max buf)).
  { clear. induction f as [|f IH]; intros fuel buf out Hf Hfu; [lia|].
    destruct fuel as [|fuel]; [lia|]. cbn [drain go_loop]. unfold body at 1. unfold parse_of.
    destruct verdict_codes as [-> ->].
    destruct (tars_request max buf) as [|k|] eqn:E; cbn [enc_pstat fst snd];
      unfold k_protocol_PackageLess, k_protocol_PackageFull, k_protocol_PackageError; cbn [Z.eqb Pos.eqb bindc].
    - cbn [chunk_res]. rewrite app_nil_r. reflexivity.
    - (* a full package of k bytes *)
      apply tars_request_full in E. destruct E as ([K4 Kl] & _).
      replace (Z.of_nat k =? 1) with (Z.of_nat k =? 1) by reflexivity.
      replace (0 <=? Z.of_nat k) with true by lia.
      replace (go_slice_ok buf 0 (Z.of_nat k)) with true by (unfold go_slice_ok, go_len; lia).
      replace (go_slice_ok buf (Z.of_nat k) (go_len buf)) with true by (unfold go_slice_ok, go_len; lia).
      rewrite go_slice_firstn, go_slice_skipn by lia.
      replace (go_make (Z.of_nat k) 0%N) with (go_make (go_len (firstn k buf)) 0%N) by (unfold go_len; rewrite firstn_length, Nat.min_l by lia; reflexivity).
      rewrite go_copy_fresh. unfold go_deliver. cbn [bindc].
      specialize (IH fuel (skipn k buf) (out ++ [firstn k buf]) ltac:(rewrite skipn_length; lia) ltac:(lia)).
      destruct (0 <? go_len (skipn k buf)) eqn:C; cbn [bindc].
      + rewrite IH. destruct (drain f max (skipn k buf)) as [ps [rest|]]; cbn [chunk_res]; rewrite <- app_assoc; reflexivity.
      + (* nothing left: the code stops with an empty buffer; so does the model at its next round *)
        assert (En : skipn k buf = []) by (destruct (skipn k buf); [reflexivity|unfold go_len in C; cbn [length] in C; lia]).
        rewrite En in *. destruct f as [|f']; [cbn [length] in *; lia|]. cbn [drain tars_request hdr chunk_res]. try rewrite <- app_assoc; reflexivity.
    - cbn [chunk_res]. rewrite app_nil_r. reflexivity. }
  set (buf := cur ++ firstn (Z.to_nat n) buffer).
  assert (Lb : (length buf <= length cur + Z.to_nat n)%nat) by (unfold buf; rewrite app_length, firstn_length; lia).
  specialize (L (S (length buf)) fuel buf out ltac:(lia) ltac:(lia)). unfold drain', chunk_sim. rewrite L.
  destruct (drain (S (length buf)) max buf) as [ps [rest|]]; reflexivity.
Qed.

(* ---------- the loops over what conn.Read returns ----------
   A successful Read is (buffer, n): the chunk is buffer[:n]. The outer loop of recv, for the reads that succeed, is the
   iteration of the translated chunk step; it stops at the first protocol error (the step returned). *)
Definition read_ok (r : list N * Z) : Prop := 0 <= snd r <= go_len (fst r).
Definition chunk_of (r : list N * Z) : list N := firstn (Z.to_nat (snd r)) (fst r).
Definition step_t := nat -> list N -> list N -> Z -> (list N -> Z * Z) -> list (list N) -> ctl (list (list N) * list N) (list (list N) * unit).
Fixpoint run_reads (step : step_t) (max : N) (cur : list N) (reads : list (list N * Z)) (out : list (list N))
  : list (list N) * option (list N) :=
  match reads with
  | [] => (out, Some cur)
  | r :: rs => match step (length cur + Z.to_nat (snd r) + 2)%nat (fst r) cur (snd r) (parse_of max) out with
               | Next (out', cur') => run_reads step max cur' rs out'
               | Return (out', _) => (out', None)
               | Panic => (out, None)
               end
  end.

Lemma run_reads_model (step : step_t) max :
  (forall buffer cur n out fuel, 0 <= n <= go_len buffer -> (length cur + Z.to_nat n + 2 <= fuel)%nat ->
     chunk_sim (step fuel buffer cur n (parse_of max) out) out (drain' max (cur ++ firstn (Z.to_nat n) buffer))) ->
  forall reads cur out, Forall read_ok reads ->
  run_reads step max cur reads out = (out ++ fst (recv_loop max cur (map chunk_of reads)), snd (recv_loop max cur (map chunk_of reads))).
Proof.
  intros Hstep. induction reads as [|[buffer n] rs IH]; intros cur out Hok; cbn [run_reads map recv_loop fst snd].
  - rewrite app_nil_r. reflexivity.
  - inversion Hok as [|? ? Hr Hrs]; subst. unfold read_ok in Hr. cbn [fst snd] in Hr.
    pose proof (Hstep buffer cur n out (length cur + Z.to_nat n + 2)%nat Hr ltac:(lia)) as S. unfold chunk_sim in S. rewrite S.
    change (chunk_of (buffer, n)) with (firstn (Z.to_nat n) buffer).
    destruct (drain' max (cur ++ firstn (Z.to_nat n) buffer)) as [ps [cur'|]]; cbn [chunk_res fst snd]; [|reflexivity].
    rewrite (IH cur' (out ++ ps) Hrs). destruct (recv_loop max cur' (map chunk_of rs)) as [ps' r]. cbn [fst snd]. rewrite app_assoc. reflexivity.
Qed.

(* the server loop and the client loop deliver exactly what the model's recv_loop delivers over the same chunks, in the
   same order, keep the same remainder, and give the connection up exactly when the model closes it *)
Theorem srv_recv_is_recv_loop : forall max reads cur out, Forall read_ok reads ->
  run_reads tr_srv_recv_chunk max cur reads out =
  (out ++ fst (recv_loop max cur (map chunk_of reads)), snd (recv_loop max cur (map chunk_of reads))).
Proof. intros max. apply run_reads_model. intros. apply tr_srv_recv_chunk_equiv; assumption. Qed.
Theorem cli_recv_is_recv_loop : forall max reads cur out, Forall read_ok reads ->
  run_reads tr_cli_recv_chunk max cur reads out =
  (out ++ fst (recv_loop max cur (map chunk_of reads)), snd (recv_loop max cur (map chunk_of reads))).
Proof. intros max. apply run_reads_model. intros. apply tr_cli_recv_chunk_equiv; assumption. Qed.

(* instance: two packages split over three reads (the second read ends inside a header), maximum 10 MiB *)
Example srv_recv_ex :
  run_reads tr_srv_recv_chunk 10485760 [] [([0; 0; 0; 5; 7; 0; 0; 9; 9]%N, 6); ([0; 0]%N, 2); ([6; 8; 8; 1]%N, 3)] []
  = ([[0; 0; 0; 5; 7]; [0; 0; 0; 6; 8; 8]]%N, Some []).
Proof. vm_compute. reflexivity. Qed.
