(* The Gallina text generated from the current Go source of AdapterProxy.checkActive (Gen/Translated.v,
   tr_checkActive: the receiver's health fields are parameters, status and lastBlockTime are returned after the two
   results) computes the hand-written C15 model Select.Failover.check_active: same verdicts (firstTime, needCheck),
   same new status and block time, for every health record, every clock value and every outcome of ReConnect.
   Oracles of the translation (design/XLATE.md): the clock time.Now().Unix(), the outcome of tarsClient.ReConnect(),
   and the float32 comparison of the failure ratio, which the model states over integers (Failover.ratio_hit);
   that the float32 expression computes ratio_hit is established by the C15 correspondence only. *)
From Coq Require Import List NArith ZArith Bool Lia ZifyBool.
From TarsV Require Import Gen.Consts Select.Failover Xlate.GoSem Xlate.GoSemFacts Gen.Translated.
Import ListNotations.
Open Scope Z_scope.

(* the thresholds of the translated text (constants of package tars as the type checker computes them) are the
   model's (regenerated from the compiled package through the verif accessors) *)
Lemma thresholds : k_tars_fainN = kFainN /\ k_tars_failInterval = kFailInterval /\ k_tars_checkTime = kCheckTime /\
                   k_tars_overN = kOverN /\ k_tars_tryTimeInterval = kTry.
Proof. repeat split; reflexivity. Qed.

(* times are Unix seconds: far inside int64, so that differences do not wrap *)
Definition time_ok (t : Z) : Prop := -4000000000000000000 <= t <= 4000000000000000000.   (* |t| <= 4e18 < 2^62 *)

Theorem tr_checkActive_equiv : forall (reach : bool) (nw : Z) (a : adapter),
  time_ok nw -> time_ok (tS a) -> time_ok (tB a) -> time_ok (tC a) ->
  tr_checkActive (fc a) (lfc a) (ast a) (tS a) (tB a) (tC a) false (ratio_hit a) (negb reach) nw =
  let '(a', first, need) := check_active reach nw a in Return (first, need, ast a', tB a').
Proof.
  intros reach nw a Hn HS HB HC. unfold time_ok in *.
  unfold tr_checkActive, check_active.
  destruct thresholds as (-> & -> & -> & -> & ->).
  (* the thresholds as numerals (whatever their current values are), for lia *)
  let v := eval vm_compute in kFainN in change kFainN with v.
  let v := eval vm_compute in kFailInterval in change kFailInterval with v.
  let v := eval vm_compute in kCheckTime in change kCheckTime with v.
  let v := eval vm_compute in kOverN in change kOverN with v.
  let v := eval vm_compute in kTry in change kTry with v.
  destruct a as [e st f lf sn ts tb tc gf]. cbn [ast fc lfc sc tS tB tC] in *.
  set (rh := ratio_hit (mkA e st f lf sn ts tb tc gf)).
  replace (ratio_hit (mkA e true f lf sn ts tb tc gf)) with rh by (destruct st; reflexivity).
  (* every condition of the model and of the translated code: they agree or the case is contradictory *)
  destruct st; destruct reach;
    repeat (rewrite ?wrapS64_id by lia; fold_bool; split_ifs; cbn [bindc]); try reflexivity;
    exfalso; rewrite ?wrapS64_id in * by lia; lia.
Qed.

(* checkActive touches status and lastBlockTime only (the model's record keeps every other field) *)
Lemma check_active_frame reach nw a :
  let '(a', _, _) := check_active reach nw a in
  aep a' = aep a /\ fc a' = fc a /\ lfc a' = lfc a /\ sc a' = sc a /\ tS a' = tS a /\ tC a' = tC a /\ gfail a' = gfail a.
Proof.
  unfold check_active.
  repeat match goal with |- context [if ?c then _ else _] => destruct c end; cbn; repeat split; reflexivity.
Qed.

(* a closed adapter is never reported (the model has no closed adapters: Failover.v keeps them out of the lists) *)
Lemma tr_checkActive_closed fc lfc st tS tB tC r e nw :
  tr_checkActive fc lfc st tS tB tC true r e nw = Return (false, false, st, tB).
Proof. reflexivity. Qed.

(* instance: five failures in a row, last success six seconds ago: taken out of rotation, block time = now *)
Example tr_checkActive_ex :
  tr_checkActive 5 5 true 1700000000 0 1700000000 false false false 1700000006 = Return (true, false, false, 1700000006).
Proof. vm_compute. reflexivity. Qed.
Example tr_checkActive_ex_hyp : time_ok 1700000006 /\ time_ok 1700000000 /\ time_ok 0.
Proof. unfold time_ok. lia. Qed.
