(* The Gallina text generated from the current Go source of the first part of selector.BuildStaticWeightList - the
   static-weight check, minimum / maximum weight, the "no positive weight" guard and the scaling range with its
   clamp (Gen/Translated.v, tr_BSWL_range) - computes the corresponding part of the hand-written C13 model
   Select.Selectors.bswl_gen, for every endpoint list whose weights are int32 values. *)
From Coq Require Import List NArith ZArith Bool Lia ZifyBool.
From TarsV Require Import Base.Hex Gen.Consts Select.Selectors Xlate.GoSem Xlate.GoSemFacts Gen.Translated.
Import ListNotations.
Open Scope Z_scope.

(* the model's view of a Go endpoint value *)
Definition m_of (e : go_endpoint_Endpoint) : ep :=
  {| host := go_endpoint_Endpoint_Host e; skey := go_endpoint_Endpoint_Key e;
     wgt := go_endpoint_Endpoint_Weight e; wty := go_endpoint_Endpoint_WeightType e |}.

(* the first part of Selectors.bswl_gen true, as a block: returns nil, panics, or hands on
   (maxRange, totalWeight, minWeight, maxWeight) *)
Definition model_range (l : list ep) : ctl (Z * Z * Z * Z) (list Z) :=
  if existsb (fun e => negb (wty e =? 1)) l then Return []
  else
    let ws := map wgt l in
    let maxw := fold_left Z.max ws min_int32 in
    let minw := fold_left Z.min ws max_int32 in
    if maxw <=? 0 then Return []
    else match (if 0 <? minw then match go_div maxw minw with Ok q => Ok (clamp_range q, 0) | Selectors.Panic s => Selectors.Panic s end
                else Ok (1, 1)) with
         | Selectors.Panic _ => GoSem.Panic
         | Ok (range, total0) => Next (range, total0, minw, maxw)
         end.

(* model_range is literally the beginning of the model: bswl_gen continues from its outcome *)
Lemma model_range_is_prefix l :
  build_static_weight_list l =
  match model_range l with
  | Return _ => BOk [] 0
  | GoSem.Panic => BPanic DivByZero
  | Next (range, total0, _, maxw) =>
      let cap := Z.of_nat (length l) in
      if cap <? 0 then BPanic MakeSliceCap
      else match scale_all range maxw (indexed 0 l) with
           | Selectors.Panic s => BPanic s
           | Ok scaled =>
               let zeros := map fst (filter (fun p => snd p <=? 0) scaled) in
               let pos := filter (fun p => 0 <? snd p) scaled in
               let total := total0 + fold_left Z.add (map snd pos) 0 in
               let cache := zeros ++ swrr_rounds (Z.to_nat total) l total (wof pos) (map (fun p => (snd p, fst p)) pos) in
               BOk cache (cap + Z.of_nat (length cache))
           end
  end.
Proof.
  unfold build_static_weight_list, bswl_gen, model_range.
  destruct (existsb (fun e => negb (wty e =? 1)) l); [reflexivity|]. cbn [andb].
  destruct (fold_left Z.max (map wgt l) min_int32 <=? 0); [reflexivity|].
  destruct (0 <? fold_left Z.min (map wgt l) max_int32).
  - unfold go_div. destruct (fold_left Z.min (map wgt l) max_int32 =? 0); reflexivity.
  - reflexivity.
Qed.

Definition int32 (z : Z) : Prop := -2147483648 <= z <= 2147483647.

Lemma fold_max_range ws : forall a, int32 a -> Forall int32 ws -> int32 (fold_left Z.max ws a).
Proof. unfold int32. induction ws as [|w ws IH]; intros a Ha Hw; [exact Ha|]. inversion Hw; subst. cbn. apply IH; [lia|assumption]. Qed.
Lemma fold_min_range ws : forall a, int32 a -> Forall int32 ws -> int32 (fold_left Z.min ws a).
Proof. unfold int32. induction ws as [|w ws IH]; intros a Ha Hw; [exact Ha|]. inversion Hw; subst. cbn. apply IH; [lia|assumption]. Qed.

Theorem tr_BSWL_range_equiv : forall l : list go_endpoint_Endpoint,
  Forall (fun e => int32 (go_endpoint_Endpoint_Weight e)) l ->
  tr_BSWL_range l = model_range (map m_of l).
Proof.
  intros l Hl. unfold tr_BSWL_range, model_range. fold_bool.
  unfold k_math_MaxInt32, k_math_MinInt32, k_endpoint_EStaticWeight, k_selector_minStaticWeightLimit, k_selector_maxStaticWeightLimit.
  match goal with |- context [go_range _ ?f _] => set (body := f) end.
  (* the loop: early return on the first endpoint that is not static-weighted, else running minimum / maximum *)
  assert (L : forall l i mn mx, go_range_from i l body (mn, mx) =
            if existsb (fun e => negb (wty e =? 1)) (map m_of l) then Return []
            else Next (fold_left Z.min (map wgt (map m_of l)) mn, fold_left Z.max (map wgt (map m_of l)) mx)).
  { clear. induction l as [|e l IH]; intros i mn mx; [reflexivity|].
    cbn [go_range_from map existsb fold_left]. unfold body at 1. cbn [m_of wty wgt].
    destruct (go_endpoint_Endpoint_WeightType e =? 1); cbn [negb orb]; [|reflexivity].
    set (w := go_endpoint_Endpoint_Weight e).
    destruct (mx <? w) eqn:E1; destruct (w <? mn) eqn:E2; cbn [bindc]; rewrite IH;
      destruct (existsb (fun e0 => negb (wty e0 =? 1)) (map m_of l)); try reflexivity; do 2 f_equal; f_equal; lia. }
  unfold go_range. rewrite L. clear L body.
  destruct (existsb (fun e => negb (wty e =? 1)) (map m_of l)); [reflexivity|]. cbn [bindc].
  set (ws := map wgt (map m_of l)).
  assert (Hw : Forall int32 ws).
  { unfold ws. rewrite map_map. apply Forall_map. exact Hl. }
  pose proof (fold_max_range ws min_int32 ltac:(unfold int32, min_int32; lia) Hw) as Hmax.
  pose proof (fold_min_range ws max_int32 ltac:(unfold int32, max_int32; lia) Hw) as Hmin.
  fold max_int32. fold min_int32.
  set (maxw := fold_left Z.max ws min_int32) in *. set (minw := fold_left Z.min ws max_int32) in *.
  destruct (maxw <=? 0) eqn:Eg; [reflexivity|].
  destruct (0 <? minw) eqn:Ep; [|reflexivity].
  unfold go_div. replace (minw =? 0) with false by lia. cbn [negb bindc].
  unfold int32 in *.
  assert (Q : -2147483648 <= Z.quot maxw minw <= 2147483647).
  { assert (0 <= Z.quot maxw minw <= maxw); [|lia]. split; [apply Z.quot_pos; lia|].
    apply Z.quot_le_upper_bound; nia. }
  rewrite wrapS_id by lia.
  unfold clamp_range. change min_static with 10. change max_static with 100.
  destruct (Z.quot maxw minw <? 10); cbn [bindc]; [reflexivity|].
  destruct (100 <? Z.quot maxw minw); reflexivity.
Qed.

(* the range hypothesis holds of every value of the Go field type (int32); a non-trivial instance *)
Definition ex_ep (w t : Z) : go_endpoint_Endpoint :=
  {| go_endpoint_Endpoint_Host := []; go_endpoint_Endpoint_Port := 0; go_endpoint_Endpoint_Timeout := 0; go_endpoint_Endpoint_Istcp := 1;
     go_endpoint_Endpoint_Grid := 0; go_endpoint_Endpoint_Qos := 0; go_endpoint_Endpoint_Weight := w; go_endpoint_Endpoint_WeightType := t;
     go_endpoint_Endpoint_AuthType := 0; go_endpoint_Endpoint_Proto := []; go_endpoint_Endpoint_Bind := []; go_endpoint_Endpoint_Container := [];
     go_endpoint_Endpoint_SetId := []; go_endpoint_Endpoint_Key := [] |}.
Example tr_BSWL_range_ex : tr_BSWL_range [ex_ep 3 1; ex_ep 700 1; ex_ep 5 1] = Next (100, 0, 3, 700).
Proof. vm_compute. reflexivity. Qed.
Example tr_BSWL_range_ex_hyp : Forall (fun e => int32 (go_endpoint_Endpoint_Weight e)) [ex_ep 3 1; ex_ep 700 1; ex_ep 5 1].
Proof. repeat constructor; cbn; lia. Qed.

(* ---------- the scaling loop (tr_BSWL_scale) ---------- *)
(* the Go values the loop builds from the model's scaled list [(index, scaled weight)] *)
Definition pair_of (p : nat * Z) : go_selector_pair :=
  {| go_selector_pair_first := snd p; go_selector_pair_second := Z.of_nat (fst p) |}.
Definition entry_of (p : nat * Z) : Z * Z := (Z.of_nat (fst p), snd p).

(* the second part of Selectors.bswl_gen: scale_all and what the model derives from it - the indexes with a
   non-positive scaled weight (they start the cycle), the positive ones (weightToId / idToWeight) and their sum *)
Definition model_scale (l : list ep) (range total0 maxw : Z)
  : ctl (Z * list go_selector_pair * list (Z * Z) * list Z) (list Z) :=
  match scale_all range maxw (indexed 0 l) with
  | Selectors.Panic _ => GoSem.Panic
  | Ok scaled =>
      let zeros := map fst (filter (fun p => snd p <=? 0) scaled) in
      let pos := filter (fun p => 0 <? snd p) scaled in
      Next (total0 + fold_left Z.add (map snd pos) 0, map pair_of pos, map entry_of pos, map Z.of_nat zeros)
  end.

Lemma fold_add_shift l : forall a, fold_left Z.add l a = a + fold_left Z.add l 0.
Proof. induction l as [|x l IH]; intros a; cbn; [lia|]. rewrite IH, (IH x). lia. Qed.

Lemma map_set_fresh (m : list (Z * Z)) k v : Forall (fun p => fst p < k) m -> go_map_set m k v = m ++ [(k, v)].
Proof.
  induction m as [|[k' v'] m IH]; intros H; [reflexivity|]. inversion H as [|? ? Hk Hm]; subst. cbn [fst] in Hk.
  cbn [go_map_set app]. replace (k' =? k) with false by lia. rewrite IH by exact Hm. reflexivity.
Qed.

(* reading the map built by the loop is the model's lookup [wof] *)
Lemma map_get_wof (pos : list (nat * Z)) (i : nat) : go_map_get (map entry_of pos) (Z.of_nat i) 0 = wof pos i.
Proof.
  unfold wof. induction pos as [|[j q] pos IH]; [reflexivity|]. cbn [map entry_of fst snd go_map_get find].
  destruct (Nat.eqb j i) eqn:E.
  - apply Nat.eqb_eq in E. subst. rewrite Z.eqb_refl. reflexivity.
  - apply Nat.eqb_neq in E. replace (Z.of_nat j =? Z.of_nat i) with false by lia. exact IH.
Qed.

Theorem tr_BSWL_scale_equiv : forall (l : list go_endpoint_Endpoint) (range total0 maxw : Z),
  Forall (fun e => int32 (go_endpoint_Endpoint_Weight e) /\ go_endpoint_Endpoint_Weight e <= maxw) l ->
  0 < maxw <= 2147483647 -> 0 <= range <= 100 -> 0 <= total0 <= 1 -> Z.of_nat (length l) <= 2147483647 ->
  tr_BSWL_scale l range total0 maxw = model_scale (map m_of l) range total0 maxw.
Proof.
  intros l range total0 maxw Hl Hm Hr Ht Hlen. unfold tr_BSWL_scale, model_scale.
  replace (0 <=? go_len l) with true by (unfold go_len; lia). cbn [andb Z.leb Z.compare].
  change (go_make 0 0) with (@nil Z).
  match goal with |- context [go_range _ ?f _] => set (body := f) end.
  assert (L : forall l i tw wid idw cache,
            Forall (fun e => int32 (go_endpoint_Endpoint_Weight e) /\ go_endpoint_Endpoint_Weight e <= maxw) l ->
            Z.of_nat i + Z.of_nat (length l) <= 2147483647 -> 0 <= tw <= 1 + 100 * Z.of_nat i ->
            Forall (fun p => fst p < Z.of_nat i) idw ->
            go_range_from (Z.of_nat i) l body (tw, wid, idw, cache) =
            match scale_all range maxw (indexed i (map m_of l)) with
            | Selectors.Panic _ => GoSem.Panic
            | Ok scaled =>
                let zeros := map fst (filter (fun p => snd p <=? 0) scaled) in
                let pos := filter (fun p => 0 <? snd p) scaled in
                Next (tw + fold_left Z.add (map snd pos) 0, wid ++ map pair_of pos, idw ++ map entry_of pos, cache ++ map Z.of_nat zeros)
            end).
  { clear l Hl Hlen. induction l as [|e l IH]; intros i tw wid idw cache Hl Hlen Htw Hk.
    - cbn. rewrite !app_nil_r, Z.add_0_r. reflexivity.
    - inversion Hl as [|? ? [He Hle] Hl']; subst. unfold int32 in He.
      cbn [go_range_from map indexed scale_all]. unfold body at 1. cbn [m_of wgt].
      set (w := go_endpoint_Endpoint_Weight e) in *.
      unfold go_div. replace (maxw =? 0) with false by lia. cbn [negb].
      assert (Hq : -214748364800 <= Z.quot (w * range) maxw <= 100).
      { split.
        - assert (- (214748364800) <= w * range) by nia.
          destruct (Z.le_gt_cases 0 (w * range)) as [P|P]; [pose proof (Z.quot_pos (w * range) maxw P ltac:(lia)); lia|].
          pose proof (Z.quot_opp_l (w * range) maxw ltac:(lia)) as O.
          assert (Z.quot (- (w * range)) maxw <= - (w * range)) by (apply Z.quot_le_upper_bound; nia).
          lia.
        - apply Z.quot_le_upper_bound; nia. }
      rewrite (wrapS64_id (w * range)) by nia. rewrite (wrapS64_id (Z.quot (w * range) maxw)) by lia.
      set (q := Z.quot (w * range) maxw) in *.
      replace (Z.of_nat i + 1) with (Z.of_nat (S i)) by lia.
      cbn [Datatypes.length] in Hlen. rewrite Nat2Z.inj_succ in Hlen.
      destruct (0 <? q) eqn:E; cbn [bindc].
      + rewrite (wrapS64_id (tw + q)) by lia. rewrite map_set_fresh by exact Hk.
        rewrite IH; [|exact Hl'|lia|lia|].
        * destruct (scale_all range maxw (indexed (S i) (map m_of l))) as [scaled|]; [|reflexivity].
          cbn [filter snd fst]. rewrite E. replace (q <=? 0) with false by lia.
          cbn [map snd fst fold_left Z.add]. rewrite (fold_add_shift _ (0 + q)).
          rewrite <- !app_assoc. cbn [app].
          match goal with |- Next (?a, _, _, _) = Next (?b, _, _, _) => replace b with a by lia end. reflexivity.
        * apply Forall_app. split; [eapply Forall_impl; [|exact Hk]; cbn; intros; lia|].
          constructor; [cbn; lia|constructor].
      + rewrite IH; [|exact Hl'|lia|lia|].
        * destruct (scale_all range maxw (indexed (S i) (map m_of l))) as [scaled|]; [|reflexivity].
          cbn [filter snd fst]. rewrite E. replace (q <=? 0) with true by lia.
          cbn [map snd fst]. rewrite <- !app_assoc. reflexivity.
        * eapply Forall_impl; [|exact Hk]; cbn; intros; lia. }
  unfold go_range. change 0 with (Z.of_nat 0) at 1. rewrite L; [|exact Hl|lia|lia|constructor].
  destruct (scale_all range maxw (indexed 0 (map m_of l))); reflexivity.
Qed.

(* under these hypotheses the model's loop never panics (the divisor is positive) *)
Example tr_BSWL_scale_ex :
  tr_BSWL_scale [ex_ep 3 1; ex_ep 700 1; ex_ep (-5) 1] 100 0 700
  = Next (100, [pair_of (1%nat, 100)], [(1, 100)], [0; 2]).
Proof. vm_compute. reflexivity. Qed.
Example tr_BSWL_scale_ex_hyp :
  Forall (fun e => int32 (go_endpoint_Endpoint_Weight e) /\ go_endpoint_Endpoint_Weight e <= 700) [ex_ep 3 1; ex_ep 700 1; ex_ep (-5) 1] /\
  0 < 700 <= 2147483647 /\ 0 <= 100 <= 100 /\ 0 <= 0 <= 1 /\ Z.of_nat (length [ex_ep 3 1; ex_ep 700 1; ex_ep (-5) 1]) <= 2147483647.
Proof. unfold int32. repeat split; repeat constructor; cbn; lia. Qed.
