(* AdapterProxy.Recv from the CURRENT Go source of tars/adapter.go (Gen/Translated.v: tr_adapter_Recv - the statements after
   the decoding of the packet: id 0 -> onPush; one-way type -> dropped; lookup of the pending table BY THE PACKET'S ID; when an
   entry is found the packet is offered to that channel in a select against rtimer.After(c.conf.ReadTimeout)) does what the
   lookup step of the C08 model Conc/Pending.v does ([LLookup]: RPush / RDropped / RSending), and the timer that bounds the
   hand-over is armed with exactly conf.ReadTimeout (C09).
   Output of the translation: the list of actions (1, 0) = push callback, (2, 0) = offer to the channel found, (3, d) = timer of
   duration d. Inputs (oracles): packet.IRequestId, packet.CPacketType, whether c.resp.Load(packet.IRequestId) finds an entry
   (the argument of Load is pinned by the oracle's text), c.conf.ReadTimeout, and which clause of the select fires.
   Hand-modelled: ResponseUnpack and its error return, the recover() in the deferred function, the channel found being the
   one the caller registered (the table itself is the model's), what the select's outcome means for the caller (LHandoff / LGiveUp). *)
From Coq Require Import List ZArith NArith Bool Lia.
From TarsV Require Import Conc.Pending Xlate.GoSem Xlate.GoSemFacts Gen.Translated.
Import ListNotations.
Open Scope Z_scope.

(* what the model's lookup step decides for a packet and a table *)
Definition lookup_pc (p : packet) (t : list (Z * nat)) : rpc :=
  if p_id p =? 0 then RPush
  else if p_oneway p then RDropped
  else match lookup (p_id p) t with Some ch => RSending ch | None => RDropped end.

Lemma lookup_pc_is_step : forall s r rc, nth_error (recvs s) r = Some rc -> r_pc rc = RStart ->
  step s (LLookup r) = Some {| table := table s; calls := calls s; recvs := upd r (set_rpc rc (lookup_pc (r_pkt rc) (table s))) (recvs s) |}.
Proof. intros s r rc H1 H2. cbn [step]. rewrite H1, H2. reflexivity. Qed.

Definition acts_of (pc : rpc) (read_timeout : Z) : list (Z * Z) :=
  match pc with
  | RPush => [(1, 0)]
  | RSending _ => [(2, 0); (3, read_timeout)]
  | _ => []
  end.
Definition out_of {R} (c : ctl (list (Z * Z)) (list (Z * Z) * R)) : option (list (Z * Z)) :=
  match c with Next o => Some o | Return (o, _) => Some o | Panic => None end.

Theorem tr_adapter_Recv_equiv : forall (p : packet) (t : list (Z * nat)) ptype read_timeout sel out,
  (ptype =? k_basef_TARSONEWAY) = p_oneway p ->
  out_of (tr_adapter_Recv read_timeout (match lookup (p_id p) t with Some _ => true | None => false end) ptype (p_id p) sel out)
  = Some (out ++ acts_of (lookup_pc p t) read_timeout).
Proof.
  intros p t ptype rt sel out Hp. unfold tr_adapter_Recv, lookup_pc, go_tag. rewrite Hp.
  destruct (p_id p =? 0); cbn [bindc out_of acts_of]; [reflexivity|].
  destruct (p_oneway p); cbn [bindc out_of acts_of]; [rewrite app_nil_r; reflexivity|].
  destruct (lookup (p_id p) t); cbn [bindc out_of acts_of].
  - destruct (sel =? 0); cbn [bindc out_of]; reflexivity.
  - rewrite app_nil_r. reflexivity.
Qed.

(* consequences read off [acts_of]: the packet is offered to a channel only when the table has an entry under the packet's own
   id, once, always together with a timer of exactly ReadTimeout; a packet with id 0 reaches the push callback and nothing else *)
Corollary adapter_Recv_timer : forall p t ptype rt sel d, (ptype =? k_basef_TARSONEWAY) = p_oneway p ->
  forall o, out_of (tr_adapter_Recv rt (match lookup (p_id p) t with Some _ => true | None => false end) ptype (p_id p) sel []) = Some o ->
  In (3, d) o -> d = rt /\ exists ch, lookup (p_id p) t = Some ch /\ p_id p <> 0.
Proof.
  intros p t ptype rt sel d Hp o H. rewrite tr_adapter_Recv_equiv in H by exact Hp. inversion H; subst o; clear H. cbn [app].
  unfold lookup_pc. destruct (p_id p =? 0) eqn:E0; [|destruct (p_oneway p); [|destruct (lookup (p_id p) t) as [ch|]]]; cbn [acts_of In].
  - intros [A|[]]. inversion A.
  - intros [].
  - intros [A|[A|[]]]; inversion A. split; [reflexivity|]. exists ch. split; [reflexivity|lia].
  - intros [].
Qed.

Example tr_adapter_Recv_ex : out_of (tr_adapter_Recv 3000 true 0 77 0 []) = Some [(2, 0); (3, 3000)].
Proof. vm_compute. reflexivity. Qed.
