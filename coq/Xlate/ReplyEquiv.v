(* What the caller of ServantProxy.doInvoke gets for the reply that arrived, from the CURRENT Go source
   (Gen/Translated.v):
     tr_doInvoke_reply    tars/servant.go, the statement  if msg.Status != basef.TARSSERVERSUCCESS || msg.Resp.IRet != 0 { .. }
                          inside  case msg.Resp = <-readCh:  /  if msg.Resp != nil  (nothing follows it in that block):
                          empty SResultDesc -> a framework-made text, IRet other than 0 and 1 -> a tars.Error pointer with that code,
                          otherwise errors.New(text); msg.Status, msg.Resp.IRet, msg.Resp.SResultDesc are read paths
                          (parameters), fmt.Sprintf is a function parameter
     tr_GetErrorCode      tars/errors.go GetErrorCode (what the caller reads as the code of the error)
     tr_Error_Error       tars/errors.go, the Error method of tars.Error (what the caller reads as its text)
   is compared with the error clause of the C01 model: Rpc/EndToEnd.v [map_reply].

   Hand-modelled around it: that doInvoke reaches this statement with the reply of its own request id (send, the select on
   ctx.Done() / readCh) and that msg.Status is still TARSSERVERSUCCESS there (it is set on the timeout branch only). *)
From Coq Require Import List NArith ZArith Bool Lia.
From TarsV Require Import Rpc.EndToEnd Xlate.GoSem Xlate.GoSemFacts Gen.Translated.
Import ListNotations.
Open Scope Z_scope.

(* the format string of the framework-made text *)
Definition code_fmt : list N := [98;97;115;101;102;32;101;114;114;111;114;32;99;111;100;101;32;37;100]%N.

(* what the caller observes of a Go error value: GetErrorCode(err) and err.Error(), both through the translated source *)
Definition go_err_code (e : go_error go_tars_Error) : ctl unit Z :=
  match e with
  | GoErrNil => tr_GetErrorCode false 0 false
  | GoErrNew _ => tr_GetErrorCode true 0 false                          (* not a tars.Error: the assertion fails *)
  | GoErrVal v => tr_GetErrorCode true (go_tars_Error_Code v) true
  end.
Definition go_err_text (e : go_error go_tars_Error) : list N :=
  match e with
  | GoErrNil => []
  | GoErrNew t => t
  | GoErrVal v => match tr_Error_Error (go_tars_Error_Message v) with Return t => t | _ => [] end
  end.

(* falls through (the call goes on to decode the reply) exactly when the model hands the reply on; otherwise the error
   returned has the model's code, and the model's text - where the model says "framework-made" (empty SResultDesc) the
   source's text is Sprintf("basef error code %d", IRet) *)
Theorem tr_doInvoke_reply_equiv : forall (p : rsppkt) (sprintf : list N -> Z -> list N),
  match tr_doInvoke_reply (p_ret p) (p_desc p) k_basef_TARSSERVERSUCCESS sprintf with
  | Next _ => map_reply p = VResp p
  | Return e => exists code msg sys, map_reply p = VErr code msg sys /\
      go_err_code e = Return code /\
      (if sys then p_desc p = []%list /\ go_err_text e = sprintf code_fmt (p_ret p) else go_err_text e = msg)
  | Panic => False
  end.
Proof.
  intros p sprintf. unfold tr_doInvoke_reply, map_reply, code_fmt.
  change (k_basef_TARSSERVERSUCCESS =? k_basef_TARSSERVERSUCCESS) with true. cbn [negb].
  destruct (p_ret p =? 0) eqn:E0; cbn [negb].
  { reflexivity. }
  destruct (p_desc p) as [| d ds] eqn:ED; cbn [go_bytes_eqb bindc];
    destruct (p_ret p =? 1) eqn:E1; cbn [negb].
  - exists 1, sys_msg, true. repeat split.
  - exists (p_ret p), sys_msg, true. repeat split.
  - exists 1, (d :: ds), false. repeat split.
  - exists (p_ret p), (d :: ds), false. repeat split.
Qed.

(* which kind of error value it is: a tars.Error pointer exactly for return codes other than 0 and 1 *)
Theorem tr_doInvoke_reply_kind : forall (p : rsppkt) sprintf e,
  tr_doInvoke_reply (p_ret p) (p_desc p) k_basef_TARSSERVERSUCCESS sprintf = Return e ->
  p_ret p <> 0 /\ match e with
                  | GoErrVal v => p_ret p <> 1 /\ go_tars_Error_Code v = p_ret p
                  | GoErrNew _ => p_ret p = 1
                  | GoErrNil => False
                  end.
Proof.
  intros p sprintf e. unfold tr_doInvoke_reply.
  change (k_basef_TARSSERVERSUCCESS =? k_basef_TARSSERVERSUCCESS) with true. cbn [negb].
  destruct (p_ret p =? 0) eqn:E0; cbn [negb]; [discriminate |].
  apply Z.eqb_neq in E0.
  destruct (go_bytes_eqb (p_desc p) []); cbn [bindc]; destruct (p_ret p =? 1) eqn:E1; cbn [negb];
    intros H; inversion H; subst e; (split; [exact E0 |]);
    first [ apply Z.eqb_eq in E1; exact E1 | apply Z.eqb_neq in E1; split; [exact E1 | reflexivity] ].
Qed.
