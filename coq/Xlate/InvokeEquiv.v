(* What the server puts into the response packet, from the CURRENT Go source of tars/tarsprotocol.go
   (Gen/Translated.v):
     tr_Invoke_rsp_init        rspPackage := requestf.ResponsePacket{}                       (Protocol.Invoke)
     tr_Invoke_identity        rspPackage.IVersion = ..; rspPackage.IRequestId = ..           (Protocol.Invoke)
     tr_Invoke_queue_timeout   the two assignments of the  case <-ctx.Done():  clause        (Protocol.Invoke)
     tr_Invoke_error           the assignments under  if err != nil  (IRet = 1, text of the error, code of a tars.Error)
     tr_Invoke_ptype           rspPackage.CPacketType = reqPackage.CPacketType                (Protocol.Invoke)
     tr_InvokeTimeout_rsp_init / tr_InvokeTimeout_fill     Protocol.InvokeTimeout from the one-way test to the last assignment
     tr_Error_Error            the Error method of tars.Error
   is compared with the C10 model Rpc/Invoke.v: base_reply / with_ret as used by [invoke], [handle_timeout_reply] and
   [timeout_replies].

   What is translated is every assignment to the response packet outside the generated dispatcher, and the one-way test of
   InvokeTimeout. What stays hand-modelled: which branch Protocol.Invoke takes (the select on ctx.Done(), the tars_ping test,
   the filter chain and Dispatch, err != nil) - [go_invoke_rsp] below composes the translated pieces in the order of the
   source along a path that is given from outside; the members Status / Context (maps with string keys) are carried along untouched; rsp2Byte is covered by the codec layer. *)
From Coq Require Import List NArith ZArith Bool Lia.
From TarsV Require Import Gen.Consts Base.Hex Rpc.Invoke Xlate.GoSem Xlate.GoSemFacts Gen.Translated.
Import ListNotations.
Open Scope Z_scope.

(* the request as the Go struct *)
Definition req_rec (r : request) : go_requestf_RequestPacket :=
  {| go_requestf_RequestPacket_IVersion := q_ver r;
     go_requestf_RequestPacket_CPacketType := q_ptype r;
     go_requestf_RequestPacket_IMessageType := q_mtype r;
     go_requestf_RequestPacket_IRequestId := q_id r;
     go_requestf_RequestPacket_SServantName := q_servant r;
     go_requestf_RequestPacket_SFuncName := q_func r;
     go_requestf_RequestPacket_SBuffer := [];
     go_requestf_RequestPacket_ITimeout := q_timeout r;
     go_requestf_RequestPacket_Context := []; go_requestf_RequestPacket_Status := [] |}.   (* the maps are not looked at by the translated statements *)

(* the Go response struct and the model's reply agree on every scalar member and on the result text; on the paths below
   the dispatcher has not run and both bodies are empty *)
Definition rsp_is (g : go_requestf_ResponsePacket) (p : reply) : Prop :=
  go_requestf_ResponsePacket_IVersion g = p_ver p /\
  go_requestf_ResponsePacket_CPacketType g = p_ptype p /\
  go_requestf_ResponsePacket_IRequestId g = p_id p /\
  go_requestf_ResponsePacket_IMessageType g = p_mtype p /\
  go_requestf_ResponsePacket_IRet g = p_ret p /\
  go_requestf_ResponsePacket_SResultDesc g = p_desc p /\
  go_requestf_ResponsePacket_SBuffer g = [] /\ p_buf p = []%list.

(* the path through Protocol.Invoke (chosen by code that is not translated) *)
Inductive ipath :=
| PQueueTimeout                                              (* case <-ctx.Done() *)
| PNoError                                                   (* tars_ping, or the chain returned nil: nothing more is set here *)
| PError (is_tars : bool) (text : list N) (code : Z).        (* err != nil: is err a tars.Error?, err.Error(), tarsErr.Code *)

(* the translated assignments in the order of the source *)
Definition go_invoke_rsp (q : go_requestf_RequestPacket) (pa : ipath) : ctl go_requestf_ResponsePacket (list N) :=
  bindc tr_Invoke_rsp_init (fun rsp =>
  bindc (tr_Invoke_identity q rsp) (fun rsp =>
  bindc (match pa with
         | PQueueTimeout => tr_Invoke_queue_timeout rsp
         | PNoError => Next rsp
         | PError t x c => tr_Invoke_error rsp t x c
         end) (fun rsp =>
  tr_Invoke_ptype q rsp))).

(* what the error value is to the source: a tars.Error{Code, Message} or another error with its text; the text of a
   tars.Error is what its translated Error method returns *)
Definition err_path (e : herr) (other_code : Z) : ipath :=
  match e with
  | TarsErr c m => PError true (match tr_Error_Error m with Return t => t | _ => [] end) c
  | PlainErr m => PError false m other_code
  | DispErr => PError false [] other_code
  end.

Lemma timeout_text_lit : timeout_text =
  [115;101;114;118;101;114;32;105;110;118;111;107;101;32;116;105;109;101;111;117;116]%N.
Proof. vm_compute. reflexivity. Qed.

(* ---- the server's own timeout answer for a request that waited too long in the queue ---- *)
Theorem invoke_queue_timeout_equiv : forall r,
  exists g, go_invoke_rsp (req_rec r) PQueueTimeout = Next g /\
            rsp_is g (with_ret (base_reply r) c_TARSSERVERQUEUETIMEOUT timeout_text).
Proof.
  intros r. eexists. split. { reflexivity. }
  unfold rsp_is. rewrite timeout_text_lit. cbn. repeat split; reflexivity.
Qed.

(* ---- no error (tars_ping; a call that returned nil before the dispatcher's own fields are looked at) ---- *)
Theorem invoke_base_equiv : forall r,
  exists g, go_invoke_rsp (req_rec r) PNoError = Next g /\ rsp_is g (base_reply r).
Proof. intros r. eexists. split. { reflexivity. } unfold rsp_is. cbn. repeat split; reflexivity. Qed.

(* ---- the call failed: return code 1 and the error's text, the code of a tars.Error in its place ---- *)
Theorem invoke_error_equiv : forall r e other_code,
  exists g, go_invoke_rsp (req_rec r) (err_path e other_code) = Next g /\
            rsp_is g (with_ret (base_reply r) (err_code e) (err_msg e)).
Proof.
  intros r e oc. destruct e as [c m | m | ]; eexists; (split; [reflexivity |]); unfold rsp_is; cbn; repeat split; reflexivity.
Qed.

(* ---- Protocol.InvokeTimeout: nothing for a one-way request, otherwise the echo with return code 1 ---- *)
Definition go_invoke_timeout (q : go_requestf_RequestPacket) : ctl go_requestf_ResponsePacket (list N) :=
  bindc tr_InvokeTimeout_rsp_init (fun rsp => tr_InvokeTimeout_fill rsp q).

Theorem invoke_timeout_equiv : forall r,
  match go_invoke_timeout (req_rec r) with
  | Return bytes => bytes = [] /\ timeout_replies r = []%list              (* return nil: nothing is written *)
  | Next g => exists p, timeout_replies r = [p] /\ p = handle_timeout_reply r /\ rsp_is g p
  | Panic => False
  end.
Proof.
  intros r. unfold go_invoke_timeout, tr_InvokeTimeout_rsp_init, tr_InvokeTimeout_fill, timeout_replies, oneway,
    handle_timeout_reply. cbn [bindc].
  change k_basef_TARSONEWAY with c_TARSONEWAY. cbn [req_rec go_requestf_RequestPacket_CPacketType].
  destruct (q_ptype r =? c_TARSONEWAY).
  - split; reflexivity.
  - eexists. split; [reflexivity |]. split; [reflexivity |].
    unfold rsp_is. rewrite timeout_text_lit. cbn. repeat split; reflexivity.
Qed.

(* the identity members of every answer built here are the request's *)
Theorem invoke_identity_of_source : forall r pa g, go_invoke_rsp (req_rec r) pa = Next g ->
  go_requestf_ResponsePacket_IRequestId g = q_id r /\
  go_requestf_ResponsePacket_IVersion g = q_ver r /\
  go_requestf_ResponsePacket_CPacketType g = q_ptype r.
Proof.
  intros r pa g H. destruct pa as [ | | t x c].
  - inversion H. cbn. repeat split; reflexivity.
  - inversion H. cbn. repeat split; reflexivity.
  - destruct t; inversion H; cbn; repeat split; reflexivity.
Qed.
