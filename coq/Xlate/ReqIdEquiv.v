(* The Gallina text generated from the current Go source of ServantProxy.genRequestID (Gen/Translated.v:
   tr_genRequestID_cas - the CompareAndSwap step, tr_genRequestID_loop - the Add loop; the counter msgID is the state,
   sync/atomic's CompareAndSwapInt32 / AddInt32 are primitives of the target language) performs the atomic steps of
   the C08 model Rpc/ReqId.v: [cas], then [add] until a non-zero value comes back; one sequential call is [gen1].
   The interleaving of the steps of several threads is the model's (ReqId.step); the translation fixes what each
   step does and when a call ends. *)
From Coq Require Import List ZArith Bool Lia ZifyBool.
From TarsV Require Import Rpc.ReqId Xlate.GoSem Xlate.GoSemFacts Gen.Translated.
Import ListNotations.
Open Scope Z_scope.

Lemma wrapS32_model z : wrapS 32 z = ReqId.wrap32 z.
Proof. reflexivity. Qed.

(* the compare-and-swap step: the model's [cas] with the source's maxInt32 and replacement value 1 *)
Theorem tr_genRequestID_cas_equiv : forall maxi c, tr_genRequestID_cas maxi c = Next (ReqId.cas maxi c).
Proof. intros maxi c. unfold tr_genRequestID_cas, go_atomic_cas32, ReqId.cas. destruct (c =? maxi); reflexivity. Qed.

(* one round of the loop: the model's [add]; the call returns its value unless it is 0 *)
Theorem tr_genRequestID_loop_step : forall F c,
  tr_genRequestID_loop (S F) c =
  let v := ReqId.add c in if v =? 0 then tr_genRequestID_loop F v else Return (v, v).
Proof.
  intros F c. cbn [tr_genRequestID_loop]. unfold go_atomic_add32, ReqId.add. rewrite wrapS32_model. cbv zeta.
  destruct (ReqId.wrap32 (c + 1) =? 0); reflexivity.
Qed.

(* a whole sequential call: two rounds always suffice, and the result is the model's [gen1] *)
Theorem tr_genRequestID_equiv : forall maxi c F, (2 <= F)%nat ->
  bindc (tr_genRequestID_cas maxi c) (tr_genRequestID_loop F) =
  Return (snd (ReqId.gen1 maxi c), fst (ReqId.gen1 maxi c)).
Proof.
  intros maxi c F HF. rewrite tr_genRequestID_cas_equiv. cbn [bindc]. unfold ReqId.gen1. cbv zeta.
  destruct F as [|[|F]]; try lia. rewrite tr_genRequestID_loop_step. cbv zeta.
  destruct (ReqId.add (ReqId.cas maxi c) =? 0) eqn:E; [|reflexivity].
  rewrite tr_genRequestID_loop_step. cbv zeta. apply Z.eqb_eq in E. rewrite E.
  replace (ReqId.add 0 =? 0) with false by reflexivity. reflexivity.
Qed.

Example tr_genRequestID_ex : bindc (tr_genRequestID_cas 2147483647 (-1)) (tr_genRequestID_loop 2) = Return (1, 1).
Proof. vm_compute. reflexivity. Qed.
