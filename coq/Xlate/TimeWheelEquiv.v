(* The Gallina text generated from the current Go source of rtimer.TimeWheel.After up to the slot index (Gen/Translated.v:
   tr_tw_After_pos: the bound check against maxT with its panic, pos := timeout / t, one less unless 0,
   (currPos + pos) % len(timeWheel)) computes the C09 model Conc/TimeWheel.v: [after] / [after_pos]. The channel taken from
   that slot, the ticker and the locking are the model's. *)
From Coq Require Import List NArith ZArith Arith Bool Lia ZifyBool ZifyNat ZifyN.
From TarsV Require Import Conc.TimeWheel Xlate.GoSem Xlate.GoSemFacts Gen.Translated.
Import ListNotations.
Open Scope Z_scope.

Theorem tr_tw_After_pos_equiv : forall (t timeout : N) (w : wheel),
  (0 < t)%N -> (0 < w_size w)%nat -> Z.of_N t * Z.of_nat (w_size w) < 4611686018427387904 ->
  Z.of_N timeout < 4611686018427387904 -> (w_cur w < w_size w)%nat ->
  tr_tw_After_pos (Z.of_N timeout) (Z.of_N t) (Z.of_N (t * N.of_nat (w_size w))) (Z.of_nat (w_cur w)) (Z.of_nat (w_size w)) =
  match after t timeout w with
  | None => Panic
  | Some (p, _) => Next (Z.of_nat p)
  end.
Proof.
  intros t timeout w Ht Hs Hb Hto Hc. unfold tr_tw_After_pos, after, after_pos.
  (* case split on the meaning of the conditions; every condition of the translated code and of the model is then
     decided by arithmetic, whatever its shape *)
  destruct (t * N.of_nat (w_size w) <=? timeout)%N eqn:E; decide_conds; [reflexivity|]. cbn [negb].
  rewrite Z.quot_div_nonneg by lia. rewrite <- N2Z.inj_div.
  set (q := (timeout / t)%N).
  assert (Hq : (q <= timeout)%N) by (unfold q; apply N.div_le_upper_bound; nia).
  rewrite wrapS64_id by lia.
  assert (Hsz : Z.of_nat (w_size w) <= Z.of_N t * Z.of_nat (w_size w)) by nia.
  assert (C : q = 0%N \/ (0 < q)%N) by lia.
  destruct C as [C|C]; decide_conds; cbn [bindc negb]; try rewrite (wrapS64_id (Z.of_N q - 1)) by lia.
  - replace (Z.of_N q) with (Z.of_nat (Init.Nat.pred (N.to_nat q))) by lia.
    rewrite wrapS64_id by lia. rewrite Z.rem_mod_nonneg by lia.
    rewrite <- Nat2Z.inj_add, <- Nat2Z.inj_mod. reflexivity.
  - replace (Z.of_N q - 1) with (Z.of_nat (Init.Nat.pred (N.to_nat q))) by lia.
    rewrite wrapS64_id by lia. rewrite Z.rem_mod_nonneg by lia.
    rewrite <- Nat2Z.inj_add, <- Nat2Z.inj_mod. reflexivity.
Qed.

(* rtimer.After(T): tick T/accuracy, accuracy+1 slots, timeout T - an instance (T = 1 s in ms, fresh wheel) *)
Example tr_tw_After_pos_ex : tr_tw_After_pos 1000 50 1050 0 21 = Next 19.
Proof. vm_compute. reflexivity. Qed.
