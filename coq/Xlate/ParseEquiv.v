(* The Gallina text generated from the current Go source of the end of endpoint.Parse - from the flag variables to
   the Endpoint value: protocol / Istcp selection, weight normalisation, the int32 conversions (Gen/Translated.v,
   tr_Parse_build) - computes the hand-written C18 model Endpoint.Parse.build, for every protocol string and every
   value of the flag variables. Not covered by the translation: strings.Fields, the flag package (modelled by hand,
   tied by correspondence) and the cache key e.String() assigned after the translated statements.
   Also: Endpoint2tars and Tars2endpoint (up to its cache key) against the model's endpoint2tars / tars2endpoint. *)
From Coq Require Import List NArith ZArith Bool Lia ZifyBool.
From TarsV Require Import Base.Hex Endpoint.Parse Xlate.GoSem Xlate.GoSemFacts Gen.Translated.
Import ListNotations.
Open Scope Z_scope.

(* the Go struct value for a model endpoint, at the point where the translated statements end: Key not yet set *)
Definition go_of_ep (e : ep) : go_endpoint_Endpoint :=
  {| go_endpoint_Endpoint_Host := host e; go_endpoint_Endpoint_Port := port e; go_endpoint_Endpoint_Timeout := timeout e;
     go_endpoint_Endpoint_Istcp := istcp e; go_endpoint_Endpoint_Grid := grid e; go_endpoint_Endpoint_Qos := qos e;
     go_endpoint_Endpoint_Weight := weight e; go_endpoint_Endpoint_WeightType := wtype e; go_endpoint_Endpoint_AuthType := auth e;
     go_endpoint_Endpoint_Proto := proto e; go_endpoint_Endpoint_Bind := bind e; go_endpoint_Endpoint_Container := [];
     go_endpoint_Endpoint_SetId := setid e; go_endpoint_Endpoint_Key := [] |}.

Lemma go_bytes_eqb_model a : forall b, go_bytes_eqb a b = bytes_eqb a b.
Proof. induction a as [|x a IH]; destruct b as [|y b]; cbn; try reflexivity. rewrite IH. reflexivity. Qed.

Lemma wrapS32 z : wrapS 32 z = wrap32 z.
Proof. reflexivity. Qed.

Theorem tr_Parse_build_equiv : forall (pr0 : list N) (st : fstate),
  tr_Parse_build pr0 (f_h st) (f_b st) (f_p st) (f_t st) (f_g st) (f_q st) (f_w st) (f_v st) (f_e st)
  = Next (go_of_ep (build pr0 st)).
Proof.
  intros pr0 st. unfold tr_Parse_build, build.
  rewrite !go_bytes_eqb_model. fold s_tcp. fold s_ssl. rewrite (Z.gtb_ltb (f_w st) 100).
  (* the model's cases ... *)
  destruct (bytes_eqb pr0 s_tcp) eqn:Et; [apply bytes_eqb_eq in Et; subst pr0|];
    [|destruct (bytes_eqb pr0 s_ssl) eqn:Es];
    destruct (negb (f_v st =? 0) && ((f_w st =? -1) || (100 <? f_w st)))%bool eqn:Ew;
    (* ... and whatever conditions the translated code tests: they agree or the case is contradictory *)
    fold_bool; split_ifs; cbn [bindc]; try reflexivity; exfalso; lia.
Qed.

(* every field the model's endpoint has, except the key, is the one the translated code computes *)
Corollary tr_Parse_build_fields : forall pr0 st e,
  tr_Parse_build pr0 (f_h st) (f_b st) (f_p st) (f_t st) (f_g st) (f_q st) (f_w st) (f_v st) (f_e st) = Next e ->
  let m := build pr0 st in
  go_endpoint_Endpoint_Proto e = proto m /\ go_endpoint_Endpoint_Istcp e = istcp m /\
  go_endpoint_Endpoint_Weight e = weight m /\ go_endpoint_Endpoint_WeightType e = wtype m /\
  go_endpoint_Endpoint_Port e = port m /\ go_endpoint_Endpoint_Timeout e = timeout m /\
  go_endpoint_Endpoint_AuthType e = auth m.
Proof.
  intros pr0 st e E. rewrite tr_Parse_build_equiv in E. inversion E; subst e. cbn. repeat split; reflexivity.
Qed.

(* ---------- the registry conversions: Endpoint2tars, and Tars2endpoint up to its cache key ---------- *)
Definition ep_of_go (g : go_endpoint_Endpoint) : ep :=
  {| host := go_endpoint_Endpoint_Host g; port := go_endpoint_Endpoint_Port g; timeout := go_endpoint_Endpoint_Timeout g;
     istcp := go_endpoint_Endpoint_Istcp g; grid := go_endpoint_Endpoint_Grid g; qos := go_endpoint_Endpoint_Qos g;
     weight := go_endpoint_Endpoint_Weight g; wtype := go_endpoint_Endpoint_WeightType g; auth := go_endpoint_Endpoint_AuthType g;
     proto := go_endpoint_Endpoint_Proto g; bind := go_endpoint_Endpoint_Bind g; setid := go_endpoint_Endpoint_SetId g;
     key := go_endpoint_Endpoint_Key g |}.
Definition epf_of_go (f : go_endpointf_EndpointF) : epf :=
  {| fhost := go_endpointf_EndpointF_Host f; fport := go_endpointf_EndpointF_Port f; ftimeout := go_endpointf_EndpointF_Timeout f;
     fistcp := go_endpointf_EndpointF_Istcp f; fgrid := go_endpointf_EndpointF_Grid f; fqos := go_endpointf_EndpointF_Qos f;
     fweight := go_endpointf_EndpointF_Weight f; fwtype := go_endpointf_EndpointF_WeightType f; fauth := go_endpointf_EndpointF_AuthType f;
     fsetid := go_endpointf_EndpointF_SetId f |}.
(* the Go registry structure for a model one: the fields the model does not have are zero (the code leaves them so) *)
Definition go_of_epf (f : epf) : go_endpointf_EndpointF :=
  {| go_endpointf_EndpointF_Host := fhost f; go_endpointf_EndpointF_Port := fport f; go_endpointf_EndpointF_Timeout := ftimeout f;
     go_endpointf_EndpointF_Istcp := fistcp f; go_endpointf_EndpointF_Grid := fgrid f; go_endpointf_EndpointF_Groupworkid := 0;
     go_endpointf_EndpointF_Grouprealid := 0; go_endpointf_EndpointF_SetId := fsetid f; go_endpointf_EndpointF_Qos := fqos f;
     go_endpointf_EndpointF_BakFlag := 0; go_endpointf_EndpointF_Weight := fweight f; go_endpointf_EndpointF_WeightType := fwtype f;
     go_endpointf_EndpointF_AuthType := fauth f |}.

Theorem tr_Endpoint2tars_equiv : forall g : go_endpoint_Endpoint,
  tr_Endpoint2tars g = Return (go_of_epf (endpoint2tars (ep_of_go g))).
Proof. intros g. reflexivity. Qed.

Theorem tr_Tars2endpoint_build_equiv : forall f : go_endpointf_EndpointF,
  tr_Tars2endpoint_build f = Next (go_of_ep (tars2endpoint (epf_of_go f))).
Proof.
  intros f. unfold tr_Tars2endpoint_build, tars2endpoint. unfold k_endpoint_UDP. cbn [epf_of_go fistcp].
  split_ifs; cbn [bindc]; try reflexivity; exfalso; lia.
Qed.

(* instance: "ssl", weight type 1 with the weight left at -1 and a port beyond int32 *)
Example tr_Parse_build_ex :
  match tr_Parse_build [115; 115; 108]%N [] [] 4294967297 3000 0 0 (-1) 1 0 with
  | Next e => go_endpoint_Endpoint_Proto e = [116; 99; 112]%N /\ go_endpoint_Endpoint_Istcp e = 2 /\
              go_endpoint_Endpoint_Weight e = 100 /\ go_endpoint_Endpoint_Port e = 1
  | _ => False
  end.
Proof. vm_compute. repeat split; reflexivity. Qed.
