(* The receive loops per read EVENT, from the CURRENT Go source (Gen/Translated.v):
     tr_srv_recv_event   tcpHandler.recv, the statement  if err != nil { .. }  after conn.Read (the shutdown test with
                         `currBuffer == nil`, the idle test, isNoDataError -> continue, everything else -> return)
     tr_cli_recv_event   connection.recv, the same statement (isNoDataError -> continue, net.OpError / EOF / other -> close, return)
     tr_srv_recv_chunk / tr_cli_recv_chunk   what follows when the read brought data (Xlate/RecvEquiv.v)
   iterated over a list of events equal the event model Frame/RecvEvents.v: same packages in the same order, same buffered
   bytes, loop left exactly when the model leaves it, never a panic.
   Inputs per event (the environment): what conn.Read returned (buffer, n, err and the three tests on err), the value of
   server.isClosed read after the failed read, connSt.numInvoke, connSt.idleTime, cfg.IdleTimeout and the clock.
   Hand-modelled: the `for { }` statement itself (run_srv_events / run_cli_events below apply the translated statements
   in the order of the loop body), the deadline statements before conn.Read (they decide which event comes next, the
   event list is arbitrary), the deferred close, and that `currBuffer` is nil exactly when it is empty (unit option NilIsEmpty:
   it starts nil, grows by append of n > 0 bytes, and is set to nil when the cutting loop empties it). *)
From Coq Require Import List NArith ZArith Bool Lia.
From TarsV Require Import Base.Hex Frame.Framing Frame.RecvEvents Xlate.GoSem Xlate.GoSemFacts Gen.Translated Xlate.RecvEquiv.
Import ListNotations.
Open Scope Z_scope.

(* one read as the Go code sees it *)
Record gev := { g_read : list N * Z;                         (* buffer and n, meaningful when g_err = false *)
                g_err : bool; g_nodata : bool; g_eof : bool; g_operr : bool;   (* err != nil, isNoDataError(err), err == io.EOF, err is a *net.OpError *)
                g_closed : Z;                                (* atomic.LoadInt32(&t.server.isClosed) after the failed read *)
                g_num_invoke : Z; g_idle_time : Z; g_idle_timeout : Z; g_now : Z }.
Definition gev_ok (e : gev) : Prop := g_err e = false -> read_ok (g_read e).

Definition rev_of (e : gev) : rev :=
  if g_err e then (if g_nodata e then ETimeout else if g_eof e then EEof else EFail) else EData (chunk_of (g_read e)).
(* idle: no call in progress and idleTime + IdleTimeout/second < now, in Go's int64 arithmetic *)
Definition idle_of (e : gev) : bool :=
  (g_num_invoke e =? 0) && (wrapS 64 (g_idle_time e + wrapS 64 (Z.quot (g_idle_timeout e) 1000000000)) <? g_now e).
Definition sev_of (e : gev) : sev := {| s_ev := rev_of e; s_closing := g_closed e =? 1; s_idle := idle_of e |}.

Inductive rstat := Reading (cur : list N) | Left | Crashed.
Definition stat_of (o : option (list N)) : rstat := match o with Some c => Reading c | None => Left end.

Lemma len0_empty (l : list N) : (go_len l =? 0) = is_empty l.
Proof. destruct l; reflexivity. Qed.

(* ---------- the statement after a failed read ---------- *)
Theorem tr_srv_recv_event_equiv : forall cur e, g_err e = true ->
  tr_srv_recv_event cur true (g_closed e) (g_eof e) (g_nodata e) (g_now e) (g_idle_timeout e) (g_idle_time e) (g_num_invoke e) =
  if srv_leaves cur (sev_of e) then Return (inr tt) else Return (inl (inr cur)).
Proof.
  intros cur e He. unfold tr_srv_recv_event, srv_leaves, sev_of, rev_of, idle_of. cbn [s_ev s_closing s_idle Bool.eqb]. rewrite He.
  rewrite !len0_empty. change (negb (1000000000 =? 0)) with true.
  destruct (g_closed e =? 1), (is_empty cur), (g_num_invoke e =? 0),
    (wrapS 64 (g_idle_time e + wrapS 64 (Z.quot (g_idle_timeout e) 1000000000)) <? g_now e), (g_nodata e), (g_eof e); reflexivity.
Qed.
Theorem tr_srv_recv_event_data : forall cur closed eof nodata now it itime ni,
  tr_srv_recv_event cur false closed eof nodata now it itime ni = Next cur.
Proof. reflexivity. Qed.

Theorem tr_cli_recv_event_equiv : forall cur eof operr nodata,
  tr_cli_recv_event cur true eof operr nodata = if nodata then Return (inl (inr cur)) else Return (inr tt).
Proof. intros cur eof operr nodata. unfold tr_cli_recv_event. cbn [Bool.eqb]. destruct nodata, operr, eof; reflexivity. Qed.
Theorem tr_cli_recv_event_data : forall cur eof operr nodata, tr_cli_recv_event cur false eof operr nodata = Next cur.
Proof. reflexivity. Qed.

(* a read timeout hands on exactly the bytes that were buffered (or, on the server, leaves the loop) *)
Corollary srv_timeout_keeps_buffer : forall cur e, g_err e = true -> g_nodata e = true ->
  tr_srv_recv_event cur true (g_closed e) (g_eof e) (g_nodata e) (g_now e) (g_idle_timeout e) (g_idle_time e) (g_num_invoke e) = Return (inl (inr cur)) \/
  (tr_srv_recv_event cur true (g_closed e) (g_eof e) (g_nodata e) (g_now e) (g_idle_timeout e) (g_idle_time e) (g_num_invoke e) = Return (inr tt) /\ cur = []).
Proof.
  intros cur e He Hn. rewrite tr_srv_recv_event_equiv by exact He.
  destruct (srv_leaves cur (sev_of e)) eqn:L; [right|left; reflexivity]. split; [reflexivity|].
  apply (srv_timeout_leaves_only_empty cur (sev_of e)); [|exact L]. unfold sev_of, rev_of. cbn [s_ev]. rewrite He, Hn. reflexivity.
Qed.
Corollary cli_timeout_keeps_buffer : forall cur eof operr, tr_cli_recv_event cur true eof operr true = Return (inl (inr cur)).
Proof. intros. apply tr_cli_recv_event_equiv. Qed.

(* ---------- the loops over a list of events ---------- *)
Definition ev_t := list N -> ctl (list N) ((list N + list N) + unit).
Fixpoint run_events (evstep : gev -> ev_t) (chunk : step_t) (max : N) (cur : list N) (evs : list gev) (out : list (list N))
  : list (list N) * rstat :=
  match evs with
  | [] => (out, Reading cur)
  | e :: es =>
      match evstep e cur with
      | Next cur1 =>                                           (* err == nil: append and cut *)
          match chunk (length cur1 + Z.to_nat (snd (g_read e)) + 2)%nat (fst (g_read e)) cur1 (snd (g_read e)) (parse_of max) out with
          | Next (out', cur') => run_events evstep chunk max cur' es out'
          | Return (out', _) => (out', Left)
          | Panic => (out, Crashed)
          end
      | Return (inl (inr cur1)) => run_events evstep chunk max cur1 es out      (* continue *)
      | Return (inl (inl _)) => (out, Crashed)                                  (* break: the statement has none *)
      | Return (inr _) => (out, Left)                                           (* return *)
      | Panic => (out, Crashed)
      end
  end.

Definition srv_evstep (e : gev) : ev_t := fun cur =>
  tr_srv_recv_event cur (g_err e) (g_closed e) (g_eof e) (g_nodata e) (g_now e) (g_idle_timeout e) (g_idle_time e) (g_num_invoke e).
Definition cli_evstep (e : gev) : ev_t := fun cur => tr_cli_recv_event cur (g_err e) (g_eof e) (g_operr e) (g_nodata e).

Theorem srv_events_is_model : forall max evs cur out, Forall gev_ok evs ->
  run_events srv_evstep tr_srv_recv_chunk max cur evs out =
  (out ++ fst (srv_events max cur (map sev_of evs)), stat_of (snd (srv_events max cur (map sev_of evs)))).
Proof.
  intros max. induction evs as [|e es IH]; intros cur out Hok; cbn [run_events map srv_events fst snd stat_of].
  - rewrite app_nil_r. reflexivity.
  - inversion Hok as [|? ? He Hes]; subst. unfold srv_evstep at 1.
    destruct (g_err e) eqn:Ee.
    + rewrite tr_srv_recv_event_equiv by exact Ee.
      assert (Hk : match s_ev (sev_of e) with EData _ => False | _ => True end).
      { unfold sev_of, rev_of. cbn [s_ev]. rewrite Ee. destruct (g_nodata e), (g_eof e); exact I. }
      destruct (s_ev (sev_of e)) eqn:Ek; try contradiction;
        (destruct (srv_leaves cur (sev_of e)); [cbn [fst snd stat_of]; rewrite app_nil_r; reflexivity|apply IH; exact Hes]).
    + rewrite tr_srv_recv_event_data. specialize (He Ee). unfold read_ok in He. destruct (g_read e) as [buffer n] eqn:Er. cbn [fst snd] in *.
      pose proof (tr_srv_recv_chunk_equiv max buffer cur n out (length cur + Z.to_nat n + 2)%nat He ltac:(lia)) as S.
      unfold chunk_sim in S. rewrite S.
      assert (Ek : s_ev (sev_of e) = EData (firstn (Z.to_nat n) buffer)).
      { unfold sev_of, rev_of. cbn [s_ev]. rewrite Ee, Er. reflexivity. }
      rewrite Ek. destruct (drain' max (cur ++ firstn (Z.to_nat n) buffer)) as [ps [cur'|]]; cbn [chunk_res fst snd stat_of]; [|reflexivity].
      rewrite (IH cur' (out ++ ps) Hes). destruct (srv_events max cur' (map sev_of es)) as [ps' r]. cbn [fst snd]. rewrite app_assoc. reflexivity.
Qed.

Theorem cli_events_is_model : forall max evs cur out, Forall gev_ok evs ->
  run_events cli_evstep tr_cli_recv_chunk max cur evs out =
  (out ++ fst (cli_events max cur (map rev_of evs)), stat_of (snd (cli_events max cur (map rev_of evs)))).
Proof.
  intros max. induction evs as [|e es IH]; intros cur out Hok; cbn [run_events map cli_events fst snd stat_of].
  - rewrite app_nil_r. reflexivity.
  - inversion Hok as [|? ? He Hes]; subst. unfold cli_evstep at 1.
    assert (Ek : rev_of e = if g_err e then (if g_nodata e then ETimeout else if g_eof e then EEof else EFail)
                            else EData (chunk_of (g_read e))) by reflexivity.
    destruct (g_err e) eqn:Ee.
    + rewrite tr_cli_recv_event_equiv. rewrite Ek. destruct (g_nodata e); [apply IH; exact Hes|].
      destruct (g_eof e); cbn [fst snd stat_of]; rewrite app_nil_r; reflexivity.
    + rewrite tr_cli_recv_event_data. rewrite Ek. specialize (He Ee). unfold read_ok in He. destruct (g_read e) as [buffer n] eqn:Er. cbn [fst snd] in *.
      pose proof (tr_cli_recv_chunk_equiv max buffer cur n out (length cur + Z.to_nat n + 2)%nat He ltac:(lia)) as S.
      unfold chunk_sim in S. rewrite S. change (chunk_of (buffer, n)) with (firstn (Z.to_nat n) buffer).
      destruct (drain' max (cur ++ firstn (Z.to_nat n) buffer)) as [ps [cur'|]]; cbn [chunk_res fst snd stat_of]; [|reflexivity].
      rewrite (IH cur' (out ++ ps) Hes). destruct (cli_events max cur' (map rev_of es)) as [ps' r]. cbn [fst snd]. rewrite app_assoc. reflexivity.
Qed.

(* instance: a package split by a timeout between its two halves, then shutdown with an empty buffer (server) *)
Definition ev_data (b : list N) (n : Z) : gev :=
  {| g_read := (b, n); g_err := false; g_nodata := false; g_eof := false; g_operr := false; g_closed := 0;
     g_num_invoke := 0; g_idle_time := 100; g_idle_timeout := 600000000000; g_now := 100 |}.
Definition ev_timeout (closed : Z) : gev :=
  {| g_read := ([], 0); g_err := true; g_nodata := true; g_eof := false; g_operr := false; g_closed := closed;
     g_num_invoke := 0; g_idle_time := 100; g_idle_timeout := 600000000000; g_now := 100 |}.
Example srv_events_ex :
  run_events srv_evstep tr_srv_recv_chunk 10485760 [] [ev_data [0; 0; 0; 6; 7]%N 5; ev_timeout 1; ev_data [8; 9; 9]%N 1; ev_timeout 1] []
  = ([[0; 0; 0; 6; 7; 8]%N], Left).
Proof. vm_compute. reflexivity. Qed.
