(* tup.UniAttribute.Decode from the CURRENT Go source of tars/protocol/tup/tup.go (Gen/Translated.v: tr_tup_Decode - the
   whole function: the reader parameter is the state, u.data a map with string keys kept as the list of its insertions,
   the callees are the translated codec.Reader methods of Xlate/ReaderEquiv.v and ReaderSliceEquiv.v) computes the C05T
   model Codec/Tup.v [tup_decode] on EVERY input: same status, the same entries inserted in the same order (also those
   before an error), the reader left where the model leaves it. *)
From Coq Require Import List NArith ZArith Bool Lia ZifyBool ZifyNat ZifyN.
From TarsV Require Import Gen.Consts Codec.Wire Codec.Skip Codec.Prim Codec.GenCodec Codec.Tup Codec.TupProofs
  Xlate.GoSem Xlate.GoSemFacts Gen.Translated Xlate.ReaderEquiv Xlate.ReaderSliceEquiv.
Import ListNotations.
Open Scope Z_scope.

Lemma ok_at ref p q : ok (mk ref p 0) -> 0 <= q <= go_len ref + 4294967296 -> ok (mk ref q 0).
Proof. intros (Hp & Hl & Hb) Hq. unfold ok in *. cbn [rd_pos rd_ref] in *. repeat split; try assumption; lia. Qed.

Lemma drop_shorter (ref : list N) p : 0 <= p -> (length (go_drop ref p) <= length ref)%nat.
Proof.
  intros Hp. destruct (Z_le_gt_dec p (go_len ref)).
  - pose proof (go_drop_len ref p ltac:(lia)) as L. unfold go_len in L. lia.
  - rewrite go_drop_nil by lia. cbn. lia.
Qed.
Lemma fuel_le ref p F : 0 <= p -> (fuel_for ref + 3 <= F)%nat -> (fuel_for (go_drop ref p) + 3 <= F)%nat.
Proof. intros Hp HF. pose proof (drop_shorter ref p Hp). unfold fuel_for in *. lia. Qed.

(* SkipTo with the position bound kept *)
Lemma tr_SkipTo_sim : forall F (ty tag : N) req ref p, ok (mk ref p 0) -> (ty < 256)%N ->
  (fuel_for (go_drop ref p) + 3 <= F)%nat ->
  match skip_to (fuel_for (go_drop ref p)) ty tag req (go_drop ref p) with
  | Found _ rest => exists p', tr_SkipTo F (Z.of_N ty) (Z.of_N tag) req (mk ref p 0) = Return (mk ref p' 0, true, false) /\
                               go_drop ref p' = rest /\ 0 <= p' <= go_len ref
  | NotFound rest => exists p', tr_SkipTo F (Z.of_N ty) (Z.of_N tag) req (mk ref p 0) = Return (mk ref p' 0, false, false) /\
                                go_drop ref p' = rest /\ 0 <= p' <= go_len ref + 4294967296
  | SeekErr => exists p', tr_SkipTo F (Z.of_N ty) (Z.of_N tag) req (mk ref p 0) = Return (mk ref p' 0, false, true)
  | SeekFuel => True
  end.
Proof.
  intros F ty tag req ref p Hok Hty HF.
  pose proof (tr_SkipToNoCheck_total F tag req ref p Hok HF) as SK. unfold tr_SkipTo, skip_to.
  destruct (skip_to_no_check (fuel_for (go_drop ref p)) tag req (go_drop ref p)) as [t rest|rest| |]; cbn [seek_sim] in SK; try exact I.
  - destruct SK as (q & -> & Er & Hq & Ht). cbn [go_call bindc Bool.eqb negb].
    destruct (t =? ty)%N eqn:E.
    + decide_conds. cbn [negb bindc]. exists q. repeat split; [exact Er|lia|lia].
    + decide_conds. cbn [negb bindc]. exists q. reflexivity.
  - destruct SK as (q & t & -> & Er & Hq). cbn [go_call bindc Bool.eqb negb]. exists q.
    split; [destruct (Z.of_N ty =? t); cbn [negb bindc]; reflexivity|]. repeat split; [exact Er|lia|lia].
  - destruct SK as (q & t & -> & Hq). cbn [go_call bindc Bool.eqb negb]. exists q. reflexivity.
Qed.

Lemma read_slice_bytes n r : read_slice n r = read_bytes n r.
Proof. unfold read_slice, read_bytes. destruct (n <? 0); [reflexivity|]. destruct (Z.of_nat (length r) <? n); reflexivity. Qed.

Lemma decode_codes : k_codec_MAP = Z.of_N tMAP /\ k_codec_SimpleList = Z.of_N tSIMPLE /\ k_codec_BYTE = Z.of_N tBYTE.
Proof. repeat split; reflexivity. Qed.

(* ---------- the loop ---------- *)
Definition lst : Type := (go_reader * list (list N * list N) * bool * Z * bool)%type.   (* rd, u.data, have, ty, err *)
Definition lres : Type := (go_reader * bool * list (list N * list N))%type.               (* rd, err, u.data *)

(* one iteration against the model's dec_entry (all lookups required) *)
Definition entry_spec (ref : list N) (body : Z -> lst -> ctl lst lres) : Prop :=
  forall i p u h t e, ok (mk ref p 0) -> 0 <= p <= go_len ref ->
    match dec_entry true true (go_drop ref p) with
    | EIns k v r => exists p' h' t', body i (mk ref p 0, u, h, t, e) = Next (mk ref p' 0, u ++ [(k, v)], h', t', false) /\
                                     go_drop ref p' = r /\ 0 <= p' <= go_len ref
    | ESkip _ _ => False
    | EErr _ => exists rd', body i (mk ref p 0, u, h, t, e) = Return (rd', true, u)
    | EFuel => False
    end.

Lemma loop_sim ref body : entry_spec ref body -> forall f n p i u h t,
  ok (mk ref p 0) -> 0 <= p <= go_len ref -> (length (go_drop ref p) < f)%nat ->
  let o := dec_loop true true f n (go_drop ref p) in
  match t_stat o with
  | TSOk => exists p' h' t', go_count_from (Z.to_nat n) i body (mk ref p 0, u, h, t, false) = Next (mk ref p' 0, u ++ t_ins o, h', t', false) /\
                             go_drop ref p' = t_rest o /\ 0 <= p' <= go_len ref
  | TSErr => exists rd', go_count_from (Z.to_nat n) i body (mk ref p 0, u, h, t, false) = Return (rd', true, u ++ t_ins o)
  | TSFuel => False
  end.
Proof.
  intros SP. induction f as [|f IH]; intros n p i u h t Hok Hp Hf; [lia|]. cbn [dec_loop].
  destruct (n <=? 0) eqn:En.
  { replace (Z.to_nat n) with O by lia. cbn [go_count_from t_stat t_ins t_rest]. exists p, h, t. rewrite app_nil_r. repeat split; lia. }
  replace (Z.to_nat n) with (S (Z.to_nat (n - 1))) by lia. cbn [go_count_from].
  pose proof (SP i p u h t false Hok Hp) as E. pose proof (dec_entry_good true true (go_drop ref p)) as G.
  destruct (dec_entry true true (go_drop ref p)) as [k v r|k r|a|]; try contradiction.
  - destruct E as (p' & h' & t' & -> & Er & Hp'). cbn [bindc]. subst r.
    specialize (IH (n - 1) p' (i + 1) (u ++ [(k, v)]) h' t' (ok_at ref p p' Hok ltac:(lia)) Hp' ltac:(lia)). cbv zeta in IH.
    cbn [t_stat t_ins t_rest]. destruct (t_stat (dec_loop true true f (n - 1) (go_drop ref p'))).
    + destruct IH as (q & h2 & t2 & -> & Eq & Hq). exists q, h2, t2. rewrite <- app_assoc. repeat split; [exact Eq|lia|lia].
    + destruct IH as (rd' & ->). exists rd'. rewrite <- app_assoc. reflexivity.
    + exact IH.
  - destruct E as (rd' & ->). cbn [bindc t_stat t_ins]. exists rd'. rewrite app_nil_r. reflexivity.
Qed.

(* ---------- the whole function ---------- *)
Theorem tr_tup_Decode_equiv : forall F ref p u, ok (mk ref p 0) -> 0 <= p <= go_len ref -> (fuel_for ref + 5 <= F)%nat ->
  let o := tup_decode (go_drop ref p) in
  match t_stat o with
  | TSOk => exists p', tr_tup_Decode F (mk ref p 0) u = Return (mk ref p' 0, false, u ++ t_ins o) /\
                       go_drop ref p' = t_rest o /\ 0 <= p' <= go_len ref
  | TSErr => exists rd', tr_tup_Decode F (mk ref p 0) u = Return (rd', true, u ++ t_ins o)
  | TSFuel => False
  end.
Proof.
  intros F ref p u Hok Hp HF. destruct decode_codes as (cM & cS & cB).
  destruct F as [|[|F]]; [unfold fuel_for in HF; lia | unfold fuel_for in HF; lia |].
  unfold tr_tup_Decode.
  match goal with |- context [go_count 0 _ ?b _] => set (body := b) end.
  assert (SP : entry_spec ref body).
  { intros i q w h t e Hokq Hq. subst body. cbv beta. unfold dec_entry.
    pose proof (tr_ReadString_total (S (S F)) 0%N true ref q [] Hokq (fuel_le ref q (S (S F)) ltac:(lia) ltac:(lia))) as RS. cbv zeta in RS.
    change (Z.of_N 0) with 0 in RS.
    pose proof (r_string_good true (go_drop ref q)) as RG.
    destruct (r_string (fuel_for (go_drop ref q)) 0 true (go_drop ref q)) as [k r|r| |]; cbn [read_sim] in RS; try contradiction.
    2: { destruct RG as [_ RG]; discriminate. }
    2: { destruct RS as (q1 & v1 & ->). cbn [go_call bindc Bool.eqb negb]. eexists. reflexivity. }
    destruct RS as (q1 & -> & Er & Hq1). cbn [go_call bindc Bool.eqb negb]. subst r.
    assert (Hok1 : ok (mk ref q1 0)) by (apply (ok_at ref q); [exact Hokq|lia]).
    unfold dec_value.
    pose proof (tr_SkipToNoCheck_total (S (S F)) 1%N true ref q1 Hok1 (fuel_le ref q1 (S (S F)) ltac:(lia) ltac:(lia))) as SK.
    change (Z.of_N 1) with 1 in SK.
    pose proof (seek_fuel (fuel_for (go_drop ref q1)) 1 true (go_drop ref q1) (fuel_for_ok _)) as SG.
    destruct (skip_to_no_check (fuel_for (go_drop ref q1)) 1 true (go_drop ref q1)) as [ty r1|r1| |]; cbn [seek_sim seek_good] in SK, SG; try contradiction.
    2: { destruct SG as [_ SG]; discriminate. }
    2: { destruct SK as (q2 & t2 & -> & _). cbn [go_call bindc Bool.eqb negb]. eexists. reflexivity. }
    destruct SK as (q2 & -> & Er1 & Hq2 & Hty). cbn [go_call bindc Bool.eqb negb]. subst r1.
    assert (Hok2 : ok (mk ref q2 0)) by (apply (ok_at ref q); [exact Hokq|lia]).
    rewrite cS. destruct (ty =? tSIMPLE)%N eqn:Ety.
    2: { replace (Z.of_N ty =? Z.of_N tSIMPLE) with false by lia. cbn [bindc Bool.eqb negb]. eexists. reflexivity. }
    replace (Z.of_N ty =? Z.of_N tSIMPLE) with true by lia.
    pose proof (tr_SkipTo_sim (S (S F)) tBYTE 0 true ref q2 Hok2 ltac:(reflexivity) (fuel_le ref q2 (S (S F)) ltac:(lia) ltac:(lia))) as SB.
    change (Z.of_N 0) with 0 in SB. rewrite <- cB in SB.
    pose proof (skip_to_fuel (fuel_for (go_drop ref q2)) tBYTE 0 true (go_drop ref q2) (fuel_for_ok _)) as SG2.
    destruct (skip_to (fuel_for (go_drop ref q2)) tBYTE 0 true (go_drop ref q2)) as [ty3 r3|r3| |]; cbn [seek_good] in SG2; try contradiction.
    2: { destruct SG2 as [_ SG2]; discriminate. }
    2: { destruct SB as (q3 & ->). cbn [go_call bindc Bool.eqb negb]. eexists. reflexivity. }
    destruct SB as (q3 & -> & Er3 & Hq3). cbn [go_call bindc Bool.eqb negb]. subst r3.
    assert (Hok3 : ok (mk ref q3 0)) by (apply (ok_at ref q); [exact Hokq|lia]).
    pose proof (tr_ReadInt32_count F ref q3 0 0 Hok3) as RC.
    destruct (read_count (go_drop ref q3)) as [z r4|r4].
    2: { destruct RC as (q4 & z4 & -> & _). cbn [go_call bindc Bool.eqb negb]. eexists. reflexivity. }
    destruct RC as (q4 & -> & Er4 & Hq4 & Hz). cbn [go_call bindc Bool.eqb negb]. subst r4.
    pose proof (tr_ReadBytes_equiv ref q4 0 [] z true ltac:(lia)) as RB. rewrite read_slice_bytes in RB.
    destruct (read_bytes z (go_drop ref q4)) as [[v r5]|] eqn:Eb.
    2: { rewrite RB. cbn [go_call bindc Bool.eqb negb]. eexists. reflexivity. }
    destruct RB as (-> & Er5). cbn [go_call bindc Bool.eqb negb]. unfold go_smap_put.
    apply read_bytes_split in Eb. destruct Eb as (Es & Hlen).
    exists (q4 + z), true, (Z.of_N ty). repeat split; [exact Er5|lia|].
    pose proof (go_drop_len ref q4 ltac:(lia)) as L. rewrite Es in L. unfold go_len in L. rewrite app_length in L. unfold go_len. lia. }
  pose proof (tr_SkipTo_sim (S (S F)) tMAP 0 true ref p Hok ltac:(reflexivity) (fuel_le ref p (S (S F)) ltac:(lia) ltac:(lia))) as SM.
  change (Z.of_N 0) with 0 in SM. rewrite <- cM in SM.
  unfold tup_decode, tup_decode_gen. cbv zeta.
  destruct (skip_to (fuel_for (go_drop ref p)) tMAP 0 true (go_drop ref p)) as [ty1 r1|r1| |] eqn:E1.
  4: { pose proof (skip_to_fuel (fuel_for (go_drop ref p)) tMAP 0 true (go_drop ref p) (fuel_for_ok _)) as SGm. rewrite E1 in SGm. exact SGm. }
  3: { destruct SM as (q1 & ->). cbn [go_call bindc Bool.eqb negb t_err t_stat t_ins]. exists (mk ref q1 0). rewrite app_nil_r. reflexivity. }
  all: [> destruct SM as (q1 & -> & Er1 & Hq1) | destruct SM as (q1 & -> & Er1 & Hq1)]; cbn [go_call bindc Bool.eqb negb]; subst r1;
    assert (Hok1 : ok (mk ref q1 0)) by (apply (ok_at ref p); [exact Hok|lia]);
    pose proof (tr_ReadInt32_count F ref q1 0 0 Hok1) as RC;
    (destruct (read_count (go_drop ref q1)) as [n r2|r2];
     [ destruct RC as (q2 & -> & Er2 & Hq2 & Hn); cbn [go_call bindc Bool.eqb negb]; subst r2
     | destruct RC as (q2 & z2 & -> & _); cbn [go_call bindc Bool.eqb negb t_err t_stat t_ins]; eexists; rewrite app_nil_r; reflexivity ]).
  all: unfold go_count; rewrite Z.sub_0_r;
    pose proof (loop_sim ref body SP (S (length (go_drop ref q2))) n q2 0 u false 0 (ok_at ref p q2 Hok ltac:(lia)) ltac:(lia) ltac:(lia)) as LP;
    cbv zeta in LP; unfold lst, lres in LP; revert LP;
    destruct (t_stat (dec_loop true true (S (length (go_drop ref q2))) n (go_drop ref q2))); intros LP;
    [ destruct LP as (q3 & h3 & t3 & -> & Er3 & Hq3); cbn [bindc]; exists q3; repeat split; [exact Er3|lia|lia]
    | destruct LP as (rd' & ->); cbn [bindc]; exists rd'; reflexivity
    | exact LP ].
Qed.

(* a reader over the whole input (codec.NewReader(bs)): every byte string a Go slice can hold *)
Theorem tr_tup_Decode_fresh : forall F bs u, bytes_ok bs -> go_len bs <= LEN_MAX -> (fuel_for bs + 5 <= F)%nat ->
  let o := tup_decode bs in
  match t_stat o with
  | TSOk => exists p', tr_tup_Decode F (mk bs 0 0) u = Return (mk bs p' 0, false, u ++ t_ins o) /\
                       go_drop bs p' = t_rest o /\ 0 <= p' <= go_len bs
  | TSErr => exists rd', tr_tup_Decode F (mk bs 0 0) u = Return (rd', true, u ++ t_ins o)
  | TSFuel => False
  end.
Proof.
  intros F bs u Hb Hl HF.
  assert (Hok : ok (mk bs 0 0)). { unfold ok. cbn [rd_pos rd_ref]. unfold go_len in *. repeat split; try assumption; lia. }
  pose proof (tr_tup_Decode_equiv F bs 0 u Hok ltac:(unfold go_len; lia) HF) as H. rewrite go_drop_0 in H by lia. exact H.
Qed.

(* instances, evaluated: two entries are decoded in order; a truncated input is an error that keeps the first entry *)
Example tr_tup_Decode_ex :
  tr_tup_Decode 80 (mk (tup_encode [([107]%N, [1; 2]%N); ([108; 109]%N, []%N)]) 0 0) [] =
  Return (mk (tup_encode [([107]%N, [1; 2]%N); ([108; 109]%N, []%N)]) 19 0, false, [([107]%N, [1; 2]%N); ([108; 109]%N, []%N)]).
Proof. vm_compute. reflexivity. Qed.
Example tr_tup_Decode_ex_truncated :
  match tr_tup_Decode 80 (mk (firstn 15 (tup_encode [([107]%N, [1; 2]%N); ([108; 109]%N, []%N)])) 0 0) [] with
  | Return (_, err, ins) => err = true /\ ins = [([107]%N, [1; 2]%N)]
  | _ => False
  end.
Proof. vm_compute. split; reflexivity. Qed.
