(* The Gallina text generated from the current Go source of codec.Buffer.WriteHead / WriteInt8 / WriteInt16 /
   WriteInt32 / WriteInt64 / WriteBool / WriteUint8 / WriteUint16 / WriteUint32 / WriteString (Gen/Translated.v)
   appends exactly the bytes of the hand-written C02 model (Codec.Wire.head, Codec.Prim.w_int8 .. w_int64, w_bool,
   w_uint8 .. w_uint32, w_string) to the buffer, returns a nil error and never panics - for every value of the
   Go parameter types. *)
From Coq Require Import List NArith ZArith Bool Lia ZifyBool ZifyNat ZifyN.
From TarsV Require Import Gen.Consts Codec.Wire Codec.Prim Xlate.GoSem Xlate.GoSemFacts Gen.Translated.
Import ListNotations.
Open Scope Z_scope.

(* ---------- bit-level facts by exhaustive evaluation over the byte ranges ---------- *)
Definition zrange (n : nat) : list Z := map Z.of_nat (seq 0 n).
Lemma zrange_in n z : 0 <= z < Z.of_nat n -> In z (zrange n).
Proof.
  intros H. unfold zrange. replace z with (Z.of_nat (Z.to_nat z)) by lia.
  apply in_map. apply in_seq. lia.
Qed.

Lemma head_low ty tag : 0 <= ty < 16 -> 0 <= tag < 15 ->
  Z.lor (wrapU 8 (Z.shiftl tag 4)) ty = tag * 16 + ty.
Proof.
  intros Hy Ht.
  assert (C : forallb (fun t => forallb (fun y => Z.lor (wrapU 8 (Z.shiftl t 4)) y =? t * 16 + y) (zrange 16)) (zrange 15) = true)
    by (vm_compute; reflexivity).
  rewrite forallb_forall in C. specialize (C tag (zrange_in 15 tag ltac:(lia))).
  rewrite forallb_forall in C. specialize (C ty (zrange_in 16 ty ltac:(lia))). lia.
Qed.

Lemma head_high ty : 0 <= ty < 16 -> Z.lor 240 ty = 240 + ty.
Proof.
  intros Hy.
  assert (C : forallb (fun y => Z.lor 240 y =? 240 + y) (zrange 16) = true) by (vm_compute; reflexivity).
  rewrite forallb_forall in C. specialize (C ty (zrange_in 16 ty ltac:(lia))). lia.
Qed.

Lemma emit_u8 v : 0 <= v < 256 -> go_emit_u8 v = [Z.to_N v].
Proof.
  intros H. unfold go_emit_u8. cbn [go_put_be]. rewrite Z.pow_0_r, Z.div_1_r, Z.mod_small by lia. reflexivity.
Qed.

(* big-endian emission of a non-negative value is the model's [be] *)
Lemma put_be_be n : forall v, 0 <= v -> go_put_be n v = be n (Z.to_N v).
Proof.
  induction n as [|n IH]; intros v Hv; [reflexivity|].
  rewrite go_put_be_snoc. cbn [be]. rewrite IH by (apply Z.div_pos; lia).
  rewrite Z2N.inj_div, Z2N.inj_mod by lia. reflexivity.
Qed.

Lemma emit_wrapu (n : nat) bits v : bits = 8 * Z.of_nat n ->
  go_put_be n (wrapU bits v) = be n (wrapu bits v).
Proof.
  intros ->. rewrite put_be_be by (apply wrapU_range; lia). reflexivity.
Qed.

(* ---------- WriteHead ---------- *)
Theorem tr_WriteHead_equiv : forall ty tag out, 0 <= ty < 16 -> 0 <= tag < 256 ->
  tr_WriteHead ty tag out = Return (out ++ head (Z.to_N ty) (Z.to_N tag), false).
Proof.
  intros ty tag out Hy Ht. unfold tr_WriteHead, head.
  destruct (tag <? 15) eqn:E.
  - replace (Z.to_N tag <? 15)%N with true by lia.
    rewrite head_low by lia. rewrite emit_u8 by lia. cbn [bindc].
    repeat f_equal. lia.
  - replace (Z.to_N tag <? 15)%N with false by lia.
    rewrite head_high by lia. rewrite !emit_u8 by lia. cbn [bindc Bool.eqb negb].
    rewrite <- app_assoc. cbn [app]. repeat f_equal; lia.
Qed.

Local Ltac consts := unfold k_codec_ZeroTag, k_codec_BYTE, k_codec_SHORT, k_codec_INT, k_codec_LONG,
  k_math_MinInt8, k_math_MaxInt8, k_math_MinInt16, k_math_MaxInt16, k_math_MinInt32, k_math_MaxInt32 in *.

(* the type codes the writers pass to WriteHead are those of the model (both regenerated from the tree) *)
Lemma codes : Z.to_N k_codec_ZeroTag = tZERO /\ Z.to_N k_codec_BYTE = tBYTE /\ Z.to_N k_codec_SHORT = tSHORT /\
              Z.to_N k_codec_INT = tINT /\ Z.to_N k_codec_LONG = tLONG.
Proof. repeat split; reflexivity. Qed.

(* ---------- the width cascade ---------- *)
Theorem tr_WriteInt8_equiv : forall data tag out, -128 <= data <= 127 -> 0 <= tag < 256 ->
  tr_WriteInt8 data tag out = Return (out ++ w_int8 data (Z.to_N tag), false).
Proof.
  intros data tag out Hd Ht. unfold tr_WriteInt8, w_int8.
  assert (C : data = 0 \/ data <> 0) by lia. destruct C as [C|C]; decide_conds.
  - rewrite tr_WriteHead_equiv by (consts; lia). cbn [go_call bindc Bool.eqb negb]. reflexivity.
  - rewrite tr_WriteHead_equiv by (consts; lia). cbn [go_call bindc Bool.eqb negb].
    rewrite <- app_assoc. do 3 f_equal.
    rewrite emit_u8 by (apply (wrapU_range 8); lia). reflexivity.
Qed.

Theorem tr_WriteInt16_equiv : forall data tag out, -32768 <= data <= 32767 -> 0 <= tag < 256 ->
  tr_WriteInt16 data tag out = Return (out ++ w_int16 data (Z.to_N tag), false).
Proof.
  intros data tag out Hd Ht. unfold tr_WriteInt16, w_int16. consts. fold_bool.
  assert (C : -128 <= data <= 127 \/ (data < -128 \/ 127 < data)) by lia. destruct C as [C|C]; decide_conds.
  - rewrite wrapS_id by lia. rewrite tr_WriteInt8_equiv by lia. cbn [go_call bindc Bool.eqb negb]. reflexivity.
  - cbn [bindc]. rewrite tr_WriteHead_equiv by lia. cbn [go_call bindc Bool.eqb negb].
    rewrite <- app_assoc. do 3 f_equal.
    change (go_emit_u16 (wrapU 16 data)) with (go_put_be 2 (wrapU 16 data)).
    rewrite (emit_wrapu 2 16) by reflexivity. reflexivity.
Qed.

Theorem tr_WriteInt32_equiv : forall data tag out, -2147483648 <= data <= 2147483647 -> 0 <= tag < 256 ->
  tr_WriteInt32 data tag out = Return (out ++ w_int32 data (Z.to_N tag), false).
Proof.
  intros data tag out Hd Ht. unfold tr_WriteInt32, w_int32. consts. fold_bool.
  assert (C : -32768 <= data <= 32767 \/ (data < -32768 \/ 32767 < data)) by lia. destruct C as [C|C]; decide_conds.
  - rewrite wrapS_id by lia. rewrite tr_WriteInt16_equiv by lia. cbn [go_call bindc Bool.eqb negb]. reflexivity.
  - cbn [bindc]. rewrite tr_WriteHead_equiv by lia. cbn [go_call bindc Bool.eqb negb].
    rewrite <- app_assoc. do 3 f_equal.
    change (go_emit_u32 (wrapU 32 data)) with (go_put_be 4 (wrapU 32 data)).
    rewrite (emit_wrapu 4 32) by reflexivity. reflexivity.
Qed.

Theorem tr_WriteInt64_equiv : forall data tag out,
  -9223372036854775808 <= data <= 9223372036854775807 -> 0 <= tag < 256 ->
  tr_WriteInt64 data tag out = Return (out ++ w_int64 data (Z.to_N tag), false).
Proof.
  intros data tag out Hd Ht. unfold tr_WriteInt64, w_int64. consts. fold_bool.
  assert (C : -2147483648 <= data <= 2147483647 \/ (data < -2147483648 \/ 2147483647 < data)) by lia. destruct C as [C|C]; decide_conds.
  - rewrite wrapS_id by lia. rewrite tr_WriteInt32_equiv by lia. cbn [go_call bindc Bool.eqb negb]. reflexivity.
  - cbn [bindc]. rewrite tr_WriteHead_equiv by lia. cbn [go_call bindc Bool.eqb negb].
    rewrite <- app_assoc. do 3 f_equal.
    change (go_emit_u64 (wrapU 64 data)) with (go_put_be 8 (wrapU 64 data)).
    rewrite (emit_wrapu 8 64) by reflexivity. reflexivity.
Qed.

(* ---------- the writers that delegate: bool and the unsigned types ---------- *)
Theorem tr_WriteBool_equiv : forall (data : bool) tag out, 0 <= tag < 256 ->
  tr_WriteBool data tag out = Return (out ++ w_bool data (Z.to_N tag), false).
Proof.
  intros data tag out Ht. unfold tr_WriteBool, w_bool.
  destruct data; cbn [bindc]; rewrite tr_WriteInt8_equiv by lia; reflexivity.
Qed.

Theorem tr_WriteUint8_equiv : forall data tag out, 0 <= data < 256 -> 0 <= tag < 256 ->
  tr_WriteUint8 data tag out = Return (out ++ w_uint8 data (Z.to_N tag), false).
Proof. intros data tag out Hd Ht. unfold tr_WriteUint8, w_uint8. rewrite tr_WriteInt16_equiv by lia. reflexivity. Qed.

Theorem tr_WriteUint16_equiv : forall data tag out, 0 <= data < 65536 -> 0 <= tag < 256 ->
  tr_WriteUint16 data tag out = Return (out ++ w_uint16 data (Z.to_N tag), false).
Proof. intros data tag out Hd Ht. unfold tr_WriteUint16, w_uint16. rewrite tr_WriteInt32_equiv by lia. reflexivity. Qed.

Theorem tr_WriteUint32_equiv : forall data tag out, 0 <= data < 4294967296 -> 0 <= tag < 256 ->
  tr_WriteUint32 data tag out = Return (out ++ w_uint32 data (Z.to_N tag), false).
Proof. intros data tag out Hd Ht. unfold tr_WriteUint32, w_uint32. rewrite tr_WriteInt64_equiv by lia. reflexivity. Qed.

(* ---------- WriteString: one-byte or four-byte length, then the bytes; any length (the four-byte length wraps
   in the code as in the model) ---------- *)
Theorem tr_WriteString_equiv : forall (s : list N) tag out, 0 <= tag < 256 ->
  tr_WriteString s tag out = Return (out ++ w_string s (Z.to_N tag), false).
Proof.
  intros s tag out Ht. unfold tr_WriteString, w_string, go_emit_bytes.
  unfold k_codec_STRING4, k_codec_STRING1, go_len.
  destruct (255 <? Z.of_nat (length s)) eqn:E.
  - replace (255 <? N.of_nat (length s))%N with true by lia.
    rewrite tr_WriteHead_equiv by lia. cbn [go_call bindc Bool.eqb negb].
    change (go_emit_u32 (wrapU 32 (Z.of_nat (length s)))) with (go_put_be 4 (wrapU 32 (Z.of_nat (length s)))).
    rewrite (emit_wrapu 4 32) by reflexivity.
    replace (wrapu 32 (Z.of_nat (length s))) with (N.of_nat (length s) mod 4294967296)%N
      by (unfold wrapu; change (2 ^ 32) with 4294967296; lia).
    rewrite <- !app_assoc. reflexivity.
  - replace (255 <? N.of_nat (length s))%N with false by lia.
    rewrite tr_WriteHead_equiv by lia. cbn [go_call bindc Bool.eqb negb].
    rewrite wrapU_id by (change (2 ^ 8) with 256; lia). rewrite emit_u8 by lia.
    replace (Z.to_N (Z.of_nat (length s))) with (N.of_nat (length s)) by lia.
    rewrite <- !app_assoc. reflexivity.
Qed.

(* instances satisfying the range hypotheses: a two-byte head, and a value at the int16/int32 boundary *)
Example tr_WriteHead_ex : tr_WriteHead 1 200 [7%N] = Return ([7; 241; 200]%N, false).
Proof. vm_compute. reflexivity. Qed.
Example tr_WriteInt64_ex : tr_WriteInt64 32768 3 [] = Return ([50; 0; 0; 128; 0]%N, false).
Proof. vm_compute. reflexivity. Qed.
Example tr_WriteString_ex : tr_WriteString [104; 105]%N 16 [] = Return ([246; 16; 2; 104; 105]%N, false).
Proof. vm_compute. reflexivity. Qed.
Example tr_WriteInt64_ex_hyp : -9223372036854775808 <= 32768 <= 9223372036854775807 /\ 0 <= 3 < 256.
Proof. lia. Qed.
