(* Facts about the target language of the translator (Xlate/GoSem.v) used by the equivalence proofs. *)
From Coq Require Import List NArith ZArith Bool Lia ZifyBool ZifyNat ZifyN.
From TarsV Require Import Xlate.GoSem.
(* every proof about translated code also depends on the translator's self-test: the translations of the sample
   functions (harness/xlatesample) evaluate to what the compiled Go functions returned, on every run *)
From TarsV Require Gen.TranslatedSelfTest.
Import ListNotations.
Open Scope Z_scope.

Lemma wrapU_id w z : 0 <= z < 2 ^ w -> wrapU w z = z.
Proof. intros H. unfold wrapU. apply Z.mod_small. exact H. Qed.

Lemma wrapS_id w z : 0 < w -> - 2 ^ (w - 1) <= z < 2 ^ (w - 1) -> wrapS w z = z.
Proof.
  intros Hw H. unfold wrapS.
  assert (E : 2 ^ w = 2 * 2 ^ (w - 1)) by (rewrite <- Z.pow_succ_r by lia; f_equal; lia).
  rewrite Z.mod_small by lia. lia.
Qed.

Lemma wrapS_range w z : 0 < w -> - 2 ^ (w - 1) <= wrapS w z < 2 ^ (w - 1).
Proof.
  intros Hw. unfold wrapS.
  assert (E : 2 ^ w = 2 * 2 ^ (w - 1)) by (rewrite <- Z.pow_succ_r by lia; f_equal; lia).
  assert (P : 0 < 2 ^ (w - 1)) by (apply Z.pow_pos_nonneg; lia).
  pose proof (Z.mod_pos_bound (z + 2 ^ (w - 1)) (2 ^ w) ltac:(lia)). lia.
Qed.

Lemma wrapU_range w z : 0 <= w -> 0 <= wrapU w z < 2 ^ w.
Proof. intros Hw. unfold wrapU. apply Z.mod_pos_bound. apply Z.pow_pos_nonneg; lia. Qed.

(* big-endian emission, least significant byte last *)
Lemma go_put_be_snoc n : forall v, go_put_be (S n) v = go_put_be n (v / 256) ++ [Z.to_N (v mod 256)].
Proof.
  induction n as [|n IH]; intros v.
  - cbn [go_put_be app]. rewrite Z.pow_0_r, Z.div_1_r. reflexivity.
  - change (go_put_be (S (S n)) v) with (Z.to_N ((v / 256 ^ Z.of_nat (S n)) mod 256) :: go_put_be (S n) v).
    rewrite IH.
    change (go_put_be (S n) (v / 256)) with (Z.to_N ((v / 256 / 256 ^ Z.of_nat n) mod 256) :: go_put_be n (v / 256)).
    cbn [app]. f_equal. f_equal. f_equal.
    rewrite Z.div_div by lia. f_equal. rewrite Nat2Z.inj_succ, Z.pow_succ_r by lia. reflexivity.
Qed.

Lemma go_len_app {A} (a b : list A) : go_len (a ++ b) = go_len a + go_len b.
Proof. unfold go_len. rewrite app_length. lia. Qed.

(* the same with the bounds as numerals (lia does not evaluate powers) *)
Lemma wrapS8_id z : -128 <= z <= 127 -> wrapS 8 z = z.
Proof. intros H. apply wrapS_id; [lia|]. change (2 ^ (8 - 1)) with 128. lia. Qed.
Lemma wrapS16_id z : -32768 <= z <= 32767 -> wrapS 16 z = z.
Proof. intros H. apply wrapS_id; [lia|]. change (2 ^ (16 - 1)) with 32768. lia. Qed.
Lemma wrapS32_id z : -2147483648 <= z <= 2147483647 -> wrapS 32 z = z.
Proof. intros H. apply wrapS_id; [lia|]. change (2 ^ (32 - 1)) with 2147483648. lia. Qed.
Lemma wrapS64_id z : -9223372036854775808 <= z <= 9223372036854775807 -> wrapS 64 z = z.
Proof. intros H. apply wrapS_id; [lia|]. change (2 ^ (64 - 1)) with 9223372036854775808. lia. Qed.

(* indexing and slicing are the standard list functions *)
Lemma go_drop_skipn {A} (l : list A) : forall n, 0 <= n -> go_drop l n = skipn (Z.to_nat n) l.
Proof.
  induction l as [|a l IH]; intros n Hn; cbn [go_drop]; [destruct (Z.to_nat n); reflexivity|].
  destruct (n <=? 0) eqn:E.
  - replace n with 0 by lia. reflexivity.
  - rewrite IH by lia. replace (Z.to_nat n) with (S (Z.to_nat (n - 1))) by lia. reflexivity.
Qed.
Lemma go_take_firstn {A} (l : list A) : forall n, go_take l n = firstn (Z.to_nat n) l.
Proof.
  induction l as [|a l IH]; intros n; cbn [go_take]; [destruct (Z.to_nat n); reflexivity|].
  destruct (n <=? 0) eqn:E.
  - replace (Z.to_nat n) with O by lia. reflexivity.
  - rewrite IH. replace (Z.to_nat n) with (S (Z.to_nat (n - 1))) by lia. reflexivity.
Qed.
Lemma go_slice_std {A} (l : list A) lo hi : 0 <= lo ->
  go_slice l lo hi = firstn (Z.to_nat (hi - lo)) (skipn (Z.to_nat lo) l).
Proof. intros H. unfold go_slice. rewrite go_take_firstn, go_drop_skipn by lia. reflexivity. Qed.
Lemma go_nth_std {A} (l : list A) d : forall i, 0 <= i -> go_nth l i d = nth (Z.to_nat i) l d.
Proof.
  induction l as [|a l IH]; intros i Hi; cbn [go_nth]; [destruct (Z.to_nat i); reflexivity|].
  destruct (i <=? 0) eqn:E.
  - replace i with 0 by lia. reflexivity.
  - rewrite IH by lia. replace (Z.to_nat i) with (S (Z.to_nat (i - 1))) by lia. reflexivity.
Qed.

(* the translator writes a && b, a || b as [if a then b else false], [if a then true else b] (so that evaluation skips
   the right operand as Go does); for proofs these are andb / orb *)
Ltac fold_bool := repeat match goal with
  | |- context [if ?a then ?b else false] => change (if a then b else false) with (andb a b)
  | |- context [if ?a then true else ?b] => change (if a then true else b) with (orb a b)
  end.

(* case analysis on every condition in the goal; used to prove equivalences by the meaning of the conditions (lia)
   rather than by their shape, so that a rewrite of the Go code which keeps its meaning keeps the proof *)
Ltac split_ifs := repeat match goal with
  | |- context [if ?c then _ else _] => let E := fresh "E" in destruct c eqn:E
  end.

(* decide every condition in the goal that linear arithmetic decides from the hypotheses - whatever its shape, the order
   of its conjuncts or the direction of its comparisons; used after a case split on the MEANING of a condition
   (assert (C : P \/ ~ P) by lia; destruct C; decide_conds), so that the proof does not mention the generated term *)
Ltac decide_conds := fold_bool; repeat match goal with
  | |- context [if ?c then _ else _] => first [ replace c with true by lia | replace c with false by lia ]
  end.
(* case split on the condition of some `if` of the goal, found by shape *)
Ltac case_if := match goal with
  | |- context [if ?c then _ else _] => let E := fresh "E" in destruct c eqn:E
  end.

(* a counted loop depends on its body only through the body's values (used to replace the generated body term by a
   description of what it does, proved pointwise - not by matching its text) *)
Lemma go_count_from_ext {S R} (f g : Z -> S -> ctl S R) : (forall i s, f i s = g i s) ->
  forall k i s, go_count_from k i f s = go_count_from k i g s.
Proof.
  intros E. induction k as [|k IH]; intros i s; [reflexivity|]. cbn [go_count_from]. rewrite E.
  destruct (g i s); cbn [bindc]; [apply IH|reflexivity|reflexivity].
Qed.

(* ---------- sort.Search ---------- *)
(* for a predicate that is defined on [0, n) and monotone there (once true, true from there on), the binary search
   returns the least index where it holds, n if there is none *)
Definition search_pre (n : Z) (f : Z -> option bool) (p : Z -> bool) : Prop :=
  (forall x, 0 <= x < n -> f x = Some (p x)) /\ (forall x y, 0 <= x <= y -> y < n -> p x = true -> p y = true).

Lemma go_bsearch_least fuel : forall i j n f p, search_pre n f p -> 0 <= i <= j -> j <= n ->
  (Z.to_nat (j - i) < fuel)%nat ->
  (forall x, 0 <= x < i -> p x = false) -> (j < n -> p j = true) ->
  exists r, go_bsearch fuel i j f = Some r /\ i <= r <= j /\ (forall x, 0 <= x < r -> p x = false) /\ (r < n -> p r = true).
Proof.
  induction fuel as [|k IH]; intros i j n f p Pre Hij Hjn Hf Lo Hi; [lia|]. cbn [go_bsearch].
  destruct (i <? j) eqn:C.
  - set (h := (i + j) / 2). assert (Hh : i <= h < j) by (unfold h; split; [apply Z.div_le_lower_bound|apply Z.div_lt_upper_bound]; lia).
    destruct Pre as [Tot Mono]. rewrite (Tot h) by lia. destruct (p h) eqn:Ph.
    + destruct (IH i h n f p (conj Tot Mono)) as (r & E & R1 & R2 & R3); try lia; try assumption; try (intros; exact Ph).
      exists r. rewrite E. repeat split; try lia; assumption.
    + assert (Lo' : forall x, 0 <= x < h + 1 -> p x = false).
      { intros x Hx. destruct (p x) eqn:Px; [|reflexivity].
        destruct (Z.le_gt_cases i x).
        - rewrite (Mono x h) in Ph by (try lia; assumption). discriminate.
        - rewrite Lo in Px by lia. discriminate. }
      destruct (IH (h + 1) j n f p (conj Tot Mono)) as (r & E & R1 & R2 & R3); try lia; try assumption.
      exists r. rewrite E. repeat split; try lia; assumption.
  - exists i. repeat split; try lia; try assumption. intros Hn. replace i with j by lia. apply Hi. lia.
Qed.

Lemma go_search_least n f p : 0 <= n -> search_pre n f p ->
  go_search_ok n f = true /\
  0 <= go_search n f <= n /\ (forall x, 0 <= x < go_search n f -> p x = false) /\ (go_search n f < n -> p (go_search n f) = true).
Proof.
  intros Hn Pre. unfold go_search_ok, go_search, go_search_opt.
  destruct (go_bsearch_least (S (Z.to_nat n)) 0 n n f p Pre ltac:(lia) ltac:(lia) ltac:(lia)) as (r & -> & R1 & R2 & R3); try lia.
  repeat split; try lia; assumption.
Qed.
