(* Facts about the target language of the translator (Xlate/GoSem.v) used by the equivalence proofs. *)
From Coq Require Import List NArith ZArith Bool Lia ZifyBool ZifyNat ZifyN.
From TarsV Require Import Xlate.GoSem.
Import ListNotations.
Open Scope Z_scope.

Lemma wrapU_id w z : 0 <= z < 2 ^ w -> wrapU w z = z.
Proof. intros H. unfold wrapU. apply Z.mod_small. exact H. Qed.

Lemma wrapS_id w z : 0 < w -> - 2 ^ (w - 1) <= z < 2 ^ (w - 1) -> wrapS w z = z.
Proof.
  intros Hw H. unfold wrapS.
  assert (E : 2 ^ w = 2 * 2 ^ (w - 1)) by (rewrite <- Z.pow_succ_r by lia; f_equal; lia).
  rewrite Z.mod_small by lia. lia.
Qed.

Lemma wrapS_range w z : 0 < w -> - 2 ^ (w - 1) <= wrapS w z < 2 ^ (w - 1).
Proof.
  intros Hw. unfold wrapS.
  assert (E : 2 ^ w = 2 * 2 ^ (w - 1)) by (rewrite <- Z.pow_succ_r by lia; f_equal; lia).
  assert (P : 0 < 2 ^ (w - 1)) by (apply Z.pow_pos_nonneg; lia).
  pose proof (Z.mod_pos_bound (z + 2 ^ (w - 1)) (2 ^ w) ltac:(lia)). lia.
Qed.

Lemma wrapU_range w z : 0 <= w -> 0 <= wrapU w z < 2 ^ w.
Proof. intros Hw. unfold wrapU. apply Z.mod_pos_bound. apply Z.pow_pos_nonneg; lia. Qed.

(* big-endian emission, least significant byte last *)
Lemma go_put_be_snoc n : forall v, go_put_be (S n) v = go_put_be n (v / 256) ++ [Z.to_N (v mod 256)].
Proof.
  induction n as [|n IH]; intros v.
  - cbn [go_put_be app]. rewrite Z.pow_0_r, Z.div_1_r. reflexivity.
  - change (go_put_be (S (S n)) v) with (Z.to_N ((v / 256 ^ Z.of_nat (S n)) mod 256) :: go_put_be (S n) v).
    rewrite IH.
    change (go_put_be (S n) (v / 256)) with (Z.to_N ((v / 256 / 256 ^ Z.of_nat n) mod 256) :: go_put_be n (v / 256)).
    cbn [app]. f_equal. f_equal. f_equal.
    rewrite Z.div_div by lia. f_equal. rewrite Nat2Z.inj_succ, Z.pow_succ_r by lia. reflexivity.
Qed.

Lemma go_len_app {A} (a b : list A) : go_len (a ++ b) = go_len a + go_len b.
Proof. unfold go_len. rewrite app_length. lia. Qed.

(* the same with the bounds as numerals (lia does not evaluate powers) *)
Lemma wrapS8_id z : -128 <= z <= 127 -> wrapS 8 z = z.
Proof. intros H. apply wrapS_id; [lia|]. change (2 ^ (8 - 1)) with 128. lia. Qed.
Lemma wrapS16_id z : -32768 <= z <= 32767 -> wrapS 16 z = z.
Proof. intros H. apply wrapS_id; [lia|]. change (2 ^ (16 - 1)) with 32768. lia. Qed.
Lemma wrapS32_id z : -2147483648 <= z <= 2147483647 -> wrapS 32 z = z.
Proof. intros H. apply wrapS_id; [lia|]. change (2 ^ (32 - 1)) with 2147483648. lia. Qed.
Lemma wrapS64_id z : -9223372036854775808 <= z <= 9223372036854775807 -> wrapS 64 z = z.
Proof. intros H. apply wrapS_id; [lia|]. change (2 ^ (64 - 1)) with 9223372036854775808. lia. Qed.
