(* All equivalence proofs between the translated Go functions (Gen/Translated.v) and the hand-written models.
   Each Props/Cxx.v requires only its own file; this one is the whole layer (make Xlate/Tie.vo). *)
From TarsV Require Xlate.TarsRequestEquiv Xlate.CodecEquiv Xlate.ParseEquiv Xlate.BSWLEquiv Xlate.CheckActiveEquiv
  Xlate.ReaderEquiv Xlate.ReaderSliceEquiv Xlate.ReqIdEquiv Xlate.SelectEquiv Xlate.ConHashEquiv Xlate.FloatEquiv Xlate.TimeWheelEquiv Xlate.SWRREquiv Xlate.RecvEquiv
  Xlate.InvokeEquiv Xlate.ReplyEquiv Xlate.TupEquiv Xlate.TupDecodeEquiv Xlate.RecvEventsEquiv Xlate.TarsInvokeEquiv Xlate.AdapterRecvEquiv.

Print Assumptions TarsRequestEquiv.tr_TarsRequest_equiv.
Print Assumptions CodecEquiv.tr_WriteHead_equiv.
Print Assumptions CodecEquiv.tr_WriteInt64_equiv.
Print Assumptions CodecEquiv.tr_WriteUint32_equiv.
Print Assumptions CodecEquiv.tr_WriteString_equiv.
Print Assumptions ParseEquiv.tr_Parse_build_equiv.
Print Assumptions ParseEquiv.tr_Endpoint2tars_equiv.
Print Assumptions ParseEquiv.tr_Tars2endpoint_build_equiv.
Print Assumptions BSWLEquiv.tr_BSWL_range_equiv.
Print Assumptions BSWLEquiv.tr_BSWL_scale_equiv.
Print Assumptions CheckActiveEquiv.tr_checkActive_equiv.
Print Assumptions ReaderEquiv.tr_readHead_equiv.
Print Assumptions ReaderEquiv.tr_unreadHead_equiv.
Print Assumptions ReaderEquiv.skip_sim.
Print Assumptions ReaderEquiv.skip_p_clean.
Print Assumptions ReaderEquiv.tr_SkipToNoCheck_equiv.
Print Assumptions ReaderEquiv.seek_p_clean.
Print Assumptions ReaderEquiv.tr_ReadInt64_equiv.
Print Assumptions ReaderEquiv.tr_ReadUint32_equiv.
Print Assumptions ReaderEquiv.tr_ReadBool_equiv.
Print Assumptions ReaderEquiv.tr_ReadString_equiv.
Print Assumptions ReaderSliceEquiv.tr_ReadSliceUint8_equiv.
Print Assumptions ReaderSliceEquiv.tr_ReadBytes_equiv.
Print Assumptions ReaderEquiv.seek_p_fuel.
Print Assumptions ReaderEquiv.tr_SkipToNoCheck_total.
Print Assumptions ReaderEquiv.tr_ReadInt_total.
Print Assumptions ReaderEquiv.tr_ReadString_total.
Print Assumptions ReqIdEquiv.tr_genRequestID_equiv.
Print Assumptions ReqIdEquiv.tr_genRequestID_loop_step.
Print Assumptions ReaderEquiv.tr_SkipTo_equiv.
Print Assumptions SelectEquiv.tr_rr_Select_equiv.
Print Assumptions SelectEquiv.tr_mh_Select_equiv.
Print Assumptions SelectEquiv.tr_rnd_Select_equiv.
Print Assumptions ConHashEquiv.tr_ch_FindInt32_equiv.
Print Assumptions GoSemFacts.go_search_least.
Print Assumptions FloatEquiv.tr_WriteFloat64_equiv.
Print Assumptions FloatEquiv.tr_ReadFloat_total.
Print Assumptions TimeWheelEquiv.tr_tw_After_pos_equiv.
Print Assumptions SWRREquiv.tr_BSWL_rounds_equiv.
Print Assumptions SWRREquiv.tr_BSWL_rounds_model.
Print Assumptions SWRREquiv.tr_BSWL_rounds_positive.
Print Assumptions RecvEquiv.srv_recv_is_recv_loop.
Print Assumptions RecvEquiv.cli_recv_is_recv_loop.
Print Assumptions InvokeEquiv.invoke_queue_timeout_equiv.
Print Assumptions InvokeEquiv.invoke_base_equiv.
Print Assumptions InvokeEquiv.invoke_error_equiv.
Print Assumptions InvokeEquiv.invoke_timeout_equiv.
Print Assumptions InvokeEquiv.invoke_identity_of_source.
Print Assumptions ReplyEquiv.tr_doInvoke_reply_equiv.
Print Assumptions ReplyEquiv.tr_doInvoke_reply_kind.
Print Assumptions TupEquiv.tr_tup_Encode_head_equiv.
Print Assumptions TupEquiv.tr_tup_Encode_entry_equiv.
Print Assumptions TupEquiv.go_tup_encode_equiv.
Print Assumptions TupDecodeEquiv.tr_tup_Decode_equiv.
Print Assumptions TupDecodeEquiv.tr_tup_Decode_fresh.
Print Assumptions RecvEventsEquiv.srv_events_is_model.
Print Assumptions RecvEventsEquiv.cli_events_is_model.
Print Assumptions TarsInvokeEquiv.tr_TarsInvoke_req_equiv.
Print Assumptions TarsInvokeEquiv.tr_TarsInvoke_timeout_equiv.
Print Assumptions TarsInvokeEquiv.tarsinvoke_request_id.
Print Assumptions AdapterRecvEquiv.tr_adapter_Recv_equiv.
Print Assumptions AdapterRecvEquiv.adapter_Recv_timer.
