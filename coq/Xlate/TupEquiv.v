(* tup.UniAttribute.Encode from the CURRENT Go source of tars/protocol/tup/tup.go (Gen/Translated.v):
     tr_tup_Encode_head    WriteHead(codec.MAP, 0); WriteInt32(int32(len(u.data)), 0)  with the early returns on an error
     tr_tup_Encode_entry   the five writes of the loop body for one entry (k, v)
   (their callees are the translated codec.Buffer methods, Xlate/CodecEquiv.v, and tr_WriteBytes) write exactly the bytes
   of the C05T model Codec/Tup.v: [tup_encode] = head tMAP 0 ++ count ++ flat_map enc_entry m.
   Not translated: the iteration `for k, v := range u.data` itself - the order of a Go map with string keys is not
   determined; [go_tup_encode] below runs the translated body over the entries in the order given from outside, as the
   model does (attrs in iteration order). *)
From Coq Require Import List NArith ZArith Bool Lia ZifyBool ZifyNat ZifyN.
From TarsV Require Import Gen.Consts Codec.Wire Codec.Skip Codec.Prim Codec.Tup Xlate.GoSem Xlate.GoSemFacts Gen.Translated
  Xlate.CodecEquiv.
Import ListNotations.
Open Scope Z_scope.

Lemma wrapS32_is_wrap32 z : wrapS 32 z = Skip.wrap32 z.
Proof.
  unfold wrapS, Skip.wrap32. change (2 ^ (32 - 1)) with 2147483648. change (2 ^ 32) with 4294967296. change (2 ^ 31) with 2147483648.
  cbv zeta. rewrite <- (Zplus_mod_idemp_l z). pose proof (Z.mod_pos_bound z 4294967296 ltac:(lia)) as B.
  set (m := z mod 4294967296) in *. destruct (m <? 2147483648) eqn:C.
  - rewrite Z.mod_small by lia. lia.
  - replace (m + 2147483648) with (m - 2147483648 + 1 * 4294967296) by lia. rewrite Z_mod_plus_full, Z.mod_small by lia. lia.
Qed.
Lemma wrap32_range z : -2147483648 <= Skip.wrap32 z <= 2147483647.
Proof. rewrite <- wrapS32_is_wrap32. pose proof (wrapS_range 32 z ltac:(lia)) as H. change (2 ^ (32 - 1)) with 2147483648 in H. lia. Qed.

Lemma tup_codes : Z.to_N k_codec_MAP = tMAP /\ Z.to_N k_codec_SimpleList = tSIMPLE /\ Z.to_N k_codec_BYTE = tBYTE.
Proof. repeat split; reflexivity. Qed.

Theorem tr_WriteBytes_equiv : forall data out, tr_WriteBytes data out = Return (out ++ data, false).
Proof. reflexivity. Qed.

(* the map head and the count: for every count (len of a Go map is below 2^63; the conversion to int32 wraps) *)
Theorem tr_tup_Encode_head_equiv : forall count out,
  tr_tup_Encode_head count out = Next (out ++ head tMAP 0 ++ w_int32 (Skip.wrap32 count) 0, false).
Proof.
  intros count out. unfold tr_tup_Encode_head.
  rewrite tr_WriteHead_equiv by (unfold k_codec_MAP; lia). cbn [go_call bindc Bool.eqb negb].
  rewrite wrapS32_is_wrap32. rewrite tr_WriteInt32_equiv by (pose proof (wrap32_range count); lia).
  cbn [go_call bindc]. destruct tup_codes as (-> & _). rewrite <- app_assoc. reflexivity.
Qed.

(* one entry: the model's enc_entry, for every key and buffer *)
Theorem tr_tup_Encode_entry_equiv : forall err0 k v out,
  tr_tup_Encode_entry err0 k v out = Next (out ++ enc_entry (k, v), false).
Proof.
  intros e0 k v out. unfold tr_tup_Encode_entry, enc_entry. cbn [fst snd].
  rewrite tr_WriteString_equiv by lia. cbn [go_call bindc Bool.eqb negb].
  rewrite tr_WriteHead_equiv by (unfold k_codec_SimpleList; lia). cbn [go_call bindc Bool.eqb negb].
  rewrite tr_WriteHead_equiv by (unfold k_codec_BYTE; lia). cbn [go_call bindc Bool.eqb negb].
  rewrite wrapS32_is_wrap32. rewrite tr_WriteInt32_equiv by (pose proof (wrap32_range (go_len v)); lia).
  cbn [go_call bindc Bool.eqb negb]. rewrite tr_WriteBytes_equiv. cbn [go_call bindc].
  destruct tup_codes as (_ & -> & ->). unfold go_len. repeat rewrite <- app_assoc. reflexivity.
Qed.

(* Encode over the entries in a given order *)
Fixpoint go_tup_entries (m : attrs) (out : list N) : ctl (list N * bool) (list N * bool) :=
  match m with
  | [] => Next (out, false)
  | (k, v) :: m' => bindc (tr_tup_Encode_entry false k v out)
                      (fun st => if snd st then Return st else go_tup_entries m' (fst st))
  end.
Definition go_tup_encode (m : attrs) (out : list N) : ctl (list N * bool) (list N * bool) :=
  bindc (tr_tup_Encode_head (Z.of_nat (length m)) out) (fun st => if snd st then Return st else go_tup_entries m (fst st)).

Lemma go_tup_entries_equiv : forall m out, go_tup_entries m out = Next (out ++ flat_map enc_entry m, false).
Proof.
  induction m as [| [k v] m IH]; intros out; cbn [go_tup_entries flat_map].
  - rewrite app_nil_r. reflexivity.
  - rewrite tr_tup_Encode_entry_equiv. cbn [bindc fst snd]. rewrite IH, <- app_assoc. reflexivity.
Qed.

Theorem go_tup_encode_equiv : forall m out, go_tup_encode m out = Next (out ++ tup_encode m, false).
Proof.
  intros m out. unfold go_tup_encode, tup_encode. rewrite tr_tup_Encode_head_equiv. cbn [bindc fst snd].
  rewrite go_tup_entries_equiv. repeat rewrite <- app_assoc. reflexivity.
Qed.
