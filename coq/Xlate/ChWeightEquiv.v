(* The Gallina text generated from the current Go source of consistenthash.ConsistentHash.weight (Gen/Translated.v:
   tr_ch_weight - the number of rounds of virtual nodes addLocked inserts for a member: the replicates constant, or the
   member's weight when weights are enabled; a positive value is divided by four, never below one) computes the model's
   ch_rounds (Select/Selectors.v), for every int32 weight; a non-positive value means no round at all (the insertion loop
   `for i := 0; i < weight; i++` does not run).  And endpointManager.enableWeight is the comparison with the
   static-weight type that Select/Manager.v weight_mode ends with. *)
From Coq Require Import List NArith ZArith Bool Lia ZifyBool ZifyNat ZifyN.
From TarsV Require Import Base.Hex Gen.Consts Select.Selectors Select.Manager Xlate.GoSem Xlate.GoSemFacts Gen.Translated.
Import ListNotations.
Open Scope Z_scope.

Theorem tr_ch_weight_equiv : forall (w : Z) (weighted : bool), - 2 ^ 31 <= w < 2 ^ 31 ->
  exists r, tr_ch_weight w weighted (Z.of_N c_ConHashVirtualNodes) = Return r /\ Z.to_nat r = ch_rounds weighted w /\
            (0 < r <-> 0 < (if weighted then w else Z.of_N c_ConHashVirtualNodes)).
Proof.
  intros w weighted Hw. destruct weighted.
  - unfold tr_ch_weight, ch_rounds. cbv zeta. cbn [bindc]. destruct (0 <? w) eqn:E0.
    + cbn [negb Z.eqb]. assert (Hq : 0 <= Z.quot w 4 <= 2 ^ 31) by (split; [apply Z.quot_pos; lia|apply Z.quot_le_upper_bound; lia]).
      rewrite wrapS_id by (change (2 ^ (64 - 1)) with 9223372036854775808; lia).
      destruct (Z.quot w 4 =? 0) eqn:E1; cbn [bindc]; eexists; (split; [reflexivity|split; lia]).
    + cbn [bindc]. eexists. split; [reflexivity|split; lia].
  - exists 25. vm_compute. repeat split; try reflexivity; intros; reflexivity.
Qed.

Theorem tr_mgr_enableWeight_equiv : forall t, tr_mgr_enableWeight t = Return (t =? 1).
Proof. reflexivity. Qed.

(* weight_mode of Select/Manager.v is: all endpoints share one weight type, and enableWeight() of that type *)
Lemma weight_mode_enableWeight e0 l : weight_mode (e0 :: l) = true <->
  (forall e, In e (e0 :: l) -> wty e = wty e0) /\ tr_mgr_enableWeight (wty e0) = Return true.
Proof.
  unfold weight_mode. rewrite andb_true_iff, forallb_forall, tr_mgr_enableWeight_equiv. split.
  - intros [H1 H2]. split; [intros e He; apply Z.eqb_eq, H1, He|now rewrite H2].
  - intros [H1 H2]. split; [intros e He; apply Z.eqb_eq, H1, He|now inversion H2].
Qed.

Example tr_ch_weight_example :
  map (fun w => tr_ch_weight w true 100) [-5; 0; 1; 3; 4; 7; 8; 100] = map (@Return unit Z) [-5; 0; 1; 1; 1; 1; 2; 25] /\
  tr_ch_weight 7 false 100 = Return 25.
Proof. vm_compute. split; reflexivity. Qed.
