(* codec.Reader.ReadSliceUint8 and ReadBytes (Gen/Translated.v) against the model of the generic codec
   (Codec.GenCodec.read_slice): length below zero or beyond what is left is an error that leaves target and reader
   alone; every other length (0 included) assigns exactly the next bytes and advances by that much. *)
From Coq Require Import List NArith ZArith Bool Lia ZifyBool ZifyNat ZifyN.
From TarsV Require Import Codec.GenCodec Xlate.GoSem Xlate.GoSemFacts Gen.Translated Xlate.ReaderEquiv.
Import ListNotations.
Open Scope Z_scope.
Notation mk := Build_go_reader.

Lemma go_make_len {A} n (d : A) : 0 <= n -> go_len (go_make n d) = n.
Proof. intros H. unfold go_len, go_make. rewrite repeat_length. lia. Qed.

Lemma slice_common (ref : list N) p len : 0 <= p <= go_len ref -> 0 <= len <= go_len ref - p ->
  go_take (go_drop ref p) len = firstn (Z.to_nat len) (go_drop ref p) /\
  go_len (firstn (Z.to_nat len) (go_drop ref p)) = len /\
  go_drop ref (p + len) = skipn (Z.to_nat len) (go_drop ref p).
Proof.
  intros Hp Hn. pose proof (go_drop_len ref p Hp) as L. split; [apply go_take_firstn|]. split.
  - unfold go_len in *. rewrite firstn_length. lia.
  - rewrite go_drop_add by lia. apply go_drop_skipn. lia.
Qed.

Theorem tr_ReadSliceUint8_equiv : forall ref p d data len req, 0 <= p <= go_len ref ->
  match read_slice len (go_drop ref p) with
  | Some (s, r') => tr_ReadSliceUint8 data len req (mk ref p d) = Return (mk ref (p + len) d, s, false) /\ go_drop ref (p + len) = r'
  | None => tr_ReadSliceUint8 data len req (mk ref p d) = Return (mk ref p d, data, true)
  end.
Proof.
  intros ref p d data len req Hp. unfold read_slice, tr_ReadSliceUint8.
  rewrite rd_len_strict by exact Hp. pose proof (go_drop_len ref p Hp) as L. unfold go_len in L at 1.
  rewrite L.
  (* by the meaning of the two tests, in whatever order and shape the code writes them *)
  assert (C : (len < 0 \/ go_len ref - p < len) \/ 0 <= len <= go_len ref - p) by lia.
  destruct C as [[C|C]|C]; decide_conds; try (split_ifs; reflexivity). cbn [bindc].
  destruct (slice_common ref p len Hp ltac:(lia)) as (T & Lg & Dr).
  destruct (len =? 0) eqn:Cz; cbn [bindc].
  - replace len with 0 by lia. rewrite Z.add_0_r. split; reflexivity.
  - unfold go_rd_read, go_rd_rest, go_rd_set_pos. cbn [rd_ref rd_pos rd_depth].
    destruct (go_drop ref p) as [|b rest] eqn:E.
    { cbn [length Z.of_nat] in L. lia. }
    rewrite go_make_len by lia. rewrite T, Lg. cbn [bindc Bool.eqb negb].
    rewrite (go_drop_nil (go_make len 0%N)) by (rewrite go_make_len; lia). rewrite app_nil_r. split; [reflexivity|exact Dr].
Qed.

Theorem tr_ReadBytes_equiv : forall ref p d data len req, 0 <= p <= go_len ref ->
  match read_slice len (go_drop ref p) with
  | Some (s, r') => tr_ReadBytes data len req (mk ref p d) = Return (mk ref (p + len) d, s, false) /\ go_drop ref (p + len) = r'
  | None => tr_ReadBytes data len req (mk ref p d) = Return (mk ref p d, data, true)
  end.
Proof.
  intros ref p d data len req Hp. unfold read_slice, tr_ReadBytes.
  rewrite rd_len_strict by exact Hp. pose proof (go_drop_len ref p Hp) as L. unfold go_len in L at 1.
  rewrite L.
  (* by the meaning of the two tests, in whatever order and shape the code writes them *)
  assert (C : (len < 0 \/ go_len ref - p < len) \/ 0 <= len <= go_len ref - p) by lia.
  destruct C as [[C|C]|C]; decide_conds; try (split_ifs; reflexivity). cbn [bindc].
  destruct (slice_common ref p len Hp ltac:(lia)) as (T & Lg & Dr).
  unfold go_rd_readfull, go_rd_rest, go_rd_set_pos. cbn [rd_ref rd_pos rd_depth].
  rewrite go_make_len by lia. rewrite T, Lg. rewrite Z.eqb_refl. cbn [negb].
  rewrite (go_drop_nil (go_make len 0%N)) by (rewrite go_make_len; lia). rewrite app_nil_r. split; [reflexivity|exact Dr].
Qed.
