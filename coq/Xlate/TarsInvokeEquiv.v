(* ServantProxy.TarsInvoke from the CURRENT Go source of tars/servant.go (Gen/Translated.v):
     tr_TarsInvoke_req       the composite literal  req := requestf.RequestPacket{ .. }  (which value each member gets)
     tr_TarsInvoke_timeout   from  timeout := time.Duration(s.timeout) * time.Millisecond  to the end of
                             if dl, ok := ctx.Deadline(); ok { .. } else { .. context.WithTimeout(ctx, timeout) .. }
   compared with the request of the C01 model (Rpc/EndToEnd.v [mkreq]), with "the request id is genRequestID's result and
   nothing else" (C08) and with the effective timeout of C09 (design/C09.md: the context's deadline if there is one, else the
   per-call timeout of current.SetClientTimeout, else the proxy's timeout; a timer is armed exactly when the caller brought no
   deadline).
   Inputs (oracles): s.genRequestID() (its steps are Xlate/ReqIdEquiv.v), tools.ByteToInt8(buf) (a cast), what
   current.GetClientTimeout(ctx) returns, whether ctx has a deadline and time.Until(dl).
   Hand-modelled: the dyeing / trace entries put into the status map and IMessageType before the literal (they reach
   the literal as the variables status / msgType), Message / hash settings, filters and doInvoke, the report calls. *)
From Coq Require Import List NArith ZArith Bool Lia.
From TarsV Require Import Gen.Consts Rpc.EndToEnd Xlate.GoSem Xlate.GoSemFacts Gen.Translated.
Import ListNotations.
Open Scope Z_scope.

Notation RP := go_requestf_RequestPacket.

(* ---------- the request ---------- *)
Definition req_is (g : RP) (q : reqpkt) : Prop :=
  go_requestf_RequestPacket_IVersion g = q_ver q /\ go_requestf_RequestPacket_CPacketType g = q_ptype q /\
  go_requestf_RequestPacket_IMessageType g = q_mtype q /\ go_requestf_RequestPacket_IRequestId g = q_id q /\
  go_requestf_RequestPacket_SServantName g = q_servant q /\ go_requestf_RequestPacket_SFuncName g = q_func q /\
  go_requestf_RequestPacket_ITimeout g = q_timeout q /\
  go_requestf_RequestPacket_Context g = q_ctx q /\ go_requestf_RequestPacket_Status g = q_status q.

(* every member but the body (a cast of the argument bytes) is the model's; cType is the call kind the generated proxy passes *)
Theorem tr_TarsInvoke_req_equiv : forall e f args o (oneway : bool) id servant timeout sbuf,
  -2147483648 <= timeout <= 2147483647 ->
  exists g, tr_TarsInvoke_req (if oneway then c_c01_TARSONEWAY else c_c01_TARSNORMAL) (fs_name f) (status_of o) (ctx_of o) 0
              servant timeout c_c01_TARSVERSION id sbuf = Next g /\
            req_is g (mkreq e f args o oneway id servant timeout) /\ go_requestf_RequestPacket_SBuffer g = sbuf.
Proof.
  intros e f args o oneway id servant timeout sbuf Ht. eexists. split; [reflexivity|]. unfold req_is, mkreq. cbn.
  rewrite wrapS32_id by lia. destruct oneway; repeat split; reflexivity.
Qed.

(* ---------- the effective timeout ---------- *)
Definition per_call (ct : bool * Z * bool) : option Z := let '(ok, to, isT) := ct in if ok && isT then Some to else None.
(* nanoseconds the call may take, as passed on to the filters / doInvoke *)
Definition eff_timeout (proxy_ms : Z) (pc : option Z) (deadline_left : option Z) : Z :=
  match deadline_left with
  | Some d => d
  | None => match pc with Some t => t * 1000000 | None => proxy_ms * 1000000 end
  end.
(* milliseconds told to the server in ITimeout *)
Definition eff_itimeout (proxy_ms : Z) (pc : option Z) (deadline_left : option Z) : Z :=
  match deadline_left with
  | Some d => wrapS 32 (Z.quot d 1000000)
  | None => match pc with Some t => wrapS 32 t | None => wrapS 32 proxy_ms end
  end.
Definition with_itimeout (g : RP) (t : Z) : RP :=
  {| go_requestf_RequestPacket_IVersion := go_requestf_RequestPacket_IVersion g; go_requestf_RequestPacket_CPacketType := go_requestf_RequestPacket_CPacketType g;
     go_requestf_RequestPacket_IMessageType := go_requestf_RequestPacket_IMessageType g; go_requestf_RequestPacket_IRequestId := go_requestf_RequestPacket_IRequestId g;
     go_requestf_RequestPacket_SServantName := go_requestf_RequestPacket_SServantName g; go_requestf_RequestPacket_SFuncName := go_requestf_RequestPacket_SFuncName g;
     go_requestf_RequestPacket_SBuffer := go_requestf_RequestPacket_SBuffer g; go_requestf_RequestPacket_ITimeout := t;
     go_requestf_RequestPacket_Context := go_requestf_RequestPacket_Context g; go_requestf_RequestPacket_Status := go_requestf_RequestPacket_Status g |}.

Definition int31 (z : Z) : Prop := -2147483648 <= z <= 2147483647.
Definition int63 (z : Z) : Prop := -9223372036854775808 <= z <= 9223372036854775807.

(* the statements compute the effective timeout, tell it to the server, and arm a timer with exactly that duration when -
   and only when - the caller's context has no deadline; no other member of the request changes *)
Theorem tr_TarsInvoke_timeout_equiv : forall req proxy_ms (has_dl : bool) until ct out,
  int31 proxy_ms -> int31 (snd (fst ct)) -> int63 until ->
  go_requestf_RequestPacket_ITimeout req = wrapS 32 proxy_ms ->
  let dl := if has_dl then Some until else None in
  let t := eff_timeout proxy_ms (per_call ct) dl in
  tr_TarsInvoke_timeout req proxy_ms has_dl until ct out =
  Next (out ++ (if has_dl then [] else [t]), t, with_itimeout req (eff_itimeout proxy_ms (per_call ct) dl)).
Proof.
  intros req proxy_ms has_dl until [[ok to] isT] out Hp Ht Hu Hreq. unfold int31, int63 in *. cbn [fst snd] in Ht. cbv zeta.
  unfold tr_TarsInvoke_timeout, per_call, eff_timeout, eff_itimeout, with_itimeout, k_time_Millisecond, go_arm.
  change (negb (1000000 =? 0)) with true. destruct req as [a b c d e0 f g h i j]. cbn in Hreq. subst h.
  destruct ok, isT, has_dl; cbn [andb bindc negb];
    repeat rewrite wrapS64_id by lia; rewrite ?app_nil_r; reflexivity.
Qed.

(* ---------- the two together: the request that leaves TarsInvoke ---------- *)
Definition go_tarsinvoke (cType : Z) (fn : list N) (status ctx : list (list N * list N)) (mtype : Z) (name : list N) (proxy_ms version id : Z)
           (sbuf : list Z) (has_dl : bool) (until : Z) (ct : bool * Z * bool) : ctl (list Z * Z * RP) (list Z * bool) :=
  match tr_TarsInvoke_req cType fn status ctx mtype name proxy_ms version id sbuf with
  | Next req => tr_TarsInvoke_timeout req proxy_ms has_dl until ct []
  | _ => Panic
  end.

(* C08: on every path the id on the wire is genRequestID's result - not the timeout, not anything else *)
Theorem tarsinvoke_request_id : forall cType fn status ctx mtype name proxy_ms version id sbuf has_dl until ct,
  int31 proxy_ms -> int31 (snd (fst ct)) -> int63 until ->
  exists armed t req, go_tarsinvoke cType fn status ctx mtype name proxy_ms version id sbuf has_dl until ct = Next (armed, t, req) /\
    go_requestf_RequestPacket_IRequestId req = id /\
    go_requestf_RequestPacket_ITimeout req = eff_itimeout proxy_ms (per_call ct) (if has_dl then Some until else None) /\
    t = eff_timeout proxy_ms (per_call ct) (if has_dl then Some until else None) /\
    armed = (if has_dl then [] else [t]).
Proof.
  intros cType fn status ctx mtype name proxy_ms version id sbuf has_dl until ct Hp Ht Hu.
  unfold go_tarsinvoke, tr_TarsInvoke_req.
  rewrite tr_TarsInvoke_timeout_equiv by (try assumption; reflexivity). cbn [app].
  do 3 eexists. split; [reflexivity|]. repeat split; reflexivity.
Qed.

(* instances: proxy timeout 3000 ms, per-call timeout 50 ms, caller deadline 20 ms away *)
Example tarsinvoke_ex_percall :
  go_tarsinvoke 0 [102]%N [] [] 0 [115]%N 3000 1 77 [] false 0 (true, 50, true) =
  Next ([50000000], 50000000, with_itimeout (Build_go_requestf_RequestPacket 1 0 0 77 [115]%N [102]%N [] 0 [] []) 50).
Proof. vm_compute. reflexivity. Qed.
Example tarsinvoke_ex_deadline :
  go_tarsinvoke 0 [102]%N [] [] 0 [115]%N 3000 1 77 [] true 20000000 (true, 50, true) =
  Next ([], 20000000, with_itimeout (Build_go_requestf_RequestPacket 1 0 0 77 [115]%N [102]%N [] 0 [] []) 20).
Proof. vm_compute. reflexivity. Qed.
