(* The Gallina text generated from the current Go source of the selectors' Select functions (Gen/Translated.v:
   tr_rr_Select, tr_mh_Select, tr_rnd_Select - locks left out; the hash code and the random draws are oracles) computes
   the C13 model Select/Selectors.v: [select] / [pick] - the cursor arithmetic (add one modulo 2^64, modulo the length of
   the member list or of the weighted cycle), the hash modulo, the table lookups with Go's bounds checks (a failing
   check is the model's RPanic IndexRange, the translation's Panic), and "no endpoint" as an error. *)
From Coq Require Import List NArith ZArith Bool Lia ZifyBool ZifyNat ZifyN.
From TarsV Require Import Base.Hex Gen.Consts Select.Selectors Xlate.GoSem Xlate.GoSemFacts Gen.Translated Xlate.BSWLEquiv.
Import ListNotations.
Open Scope Z_scope.

Notation zero_ep := (Build_go_endpoint_Endpoint (@nil N) 0 0 0 0 0 0 0 0 (@nil N) (@nil N) (@nil N) (@nil N) (@nil N)).

(* a selector state of the model for the Go fields: members, weighted cycle, the two cursors *)
Definition sel_of (geps : list go_endpoint_Endpoint) (cache : list nat) (p w : N) : sel :=
  {| eps := map m_of geps; cache := cache; pos := p; wpos := w; hring := [] |}.
(* what Select returns for an outcome of the model *)
Definition sel_sim {X} (c : ctl unit X) (mk : go_endpoint_Endpoint -> bool -> X) (r : res) : Prop :=
  match r with
  | RSel e => exists g, c = Return (mk g false) /\ m_of g = e
  | RErr => c = Return (mk zero_ep true)
  | RPanic _ => c = Panic
  | _ => False
  end.

Lemma in_range_nth {A} (l : list A) k d : 0 <= k ->
  if go_in_range l k then nth_error l (Z.to_nat k) = Some (go_nth l k d) else nth_error l (Z.to_nat k) = None.
Proof.
  intros Hk. unfold go_in_range, go_len. rewrite go_nth_std by exact Hk.
  destruct ((0 <=? k) && (k <? Z.of_nat (length l))) eqn:E.
  - apply nth_error_nth'. lia.
  - apply nth_error_None. lia.
Qed.

(* endpoints[k] *)
Lemma lookup_eps geps k : 0 <= k ->
  match nth_error (map m_of geps) (Z.to_nat k) with
  | Some e => go_in_range geps k = true /\ m_of (go_nth geps k zero_ep) = e
  | None => go_in_range geps k = false
  end.
Proof.
  intros Hk. pose proof (in_range_nth geps k zero_ep Hk) as H. rewrite nth_error_map.
  destruct (go_in_range geps k); rewrite H; cbn; auto.
Qed.
(* cache[k] *)
Lemma lookup_cache (cache : list nat) k : 0 <= k ->
  match nth_error cache (Z.to_nat k) with
  | Some j => go_in_range (map Z.of_nat cache) k = true /\ go_nth (map Z.of_nat cache) k 0 = Z.of_nat j
  | None => go_in_range (map Z.of_nat cache) k = false
  end.
Proof.
  intros Hk. pose proof (in_range_nth (map Z.of_nat cache) k 0 Hk) as H. rewrite nth_error_map in H.
  destruct (go_in_range (map Z.of_nat cache) k); destruct (nth_error cache (Z.to_nat k)); cbn in H; try discriminate; auto.
  inversion H. auto.
Qed.

Lemma mod_nat (i : N) (n : nat) : (0 < n)%nat -> N.to_nat (i mod N.of_nat n) = Z.to_nat (Z.of_N i mod Z.of_nat n).
Proof.
  intros H. apply Nat2Z.inj. rewrite N_nat_Z, Z2Nat.id by (apply Z.mod_pos_bound; lia).
  rewrite N2Z.inj_mod, nat_N_Z. reflexivity.
Qed.

(* the two table lookups of the selectors, on the Go values; None = an index check fails *)
Definition look_eps (geps : list go_endpoint_Endpoint) (k : Z) : option go_endpoint_Endpoint :=
  if go_in_range geps k then Some (go_nth geps k zero_ep) else None.
Definition look (geps : list go_endpoint_Endpoint) (cacheZ : list Z) (i : Z) : option go_endpoint_Endpoint :=
  match cacheZ with
  | [] => look_eps geps (i mod go_len geps)
  | _ => let k := i mod go_len cacheZ in
         if go_in_range cacheZ k then look_eps geps (go_nth cacheZ k 0) else None
  end.

(* the model's [pick] at cursor / hash / draw value i is that lookup *)
Lemma pick_look geps cache (i P W : N) : geps <> [] ->
  match pick (sel_of geps cache P W) i with
  | RSel e => exists g, look geps (map Z.of_nat cache) (Z.of_N i) = Some g /\ m_of g = e
  | RPanic _ => look geps (map Z.of_nat cache) (Z.of_N i) = None
  | _ => False
  end.
Proof.
  intros Hne. unfold pick, sel_of, look. cbn [Selectors.cache eps].
  destruct cache as [|c0 cache'] eqn:EC.
  - cbn [map]. rewrite map_length, mod_nat by (destruct geps; [congruence|cbn; lia]). unfold go_len.
    assert (Hk : 0 <= Z.of_N i mod Z.of_nat (length geps)).
    { destruct geps; [congruence|]. apply Z.mod_pos_bound. cbn [length]. lia. }
    pose proof (lookup_eps geps _ Hk) as L. unfold look_eps.
    destruct (nth_error (map m_of geps) (Z.to_nat (Z.of_N i mod Z.of_nat (length geps)))).
    + destruct L as [-> M]. eexists; split; [reflexivity|exact M].
    + rewrite L. reflexivity.
  - cbn [map]. change (Z.of_nat c0 :: map Z.of_nat cache') with (map Z.of_nat (c0 :: cache')).
    clear EC cache. set (cache := c0 :: cache'). assert (Hc : cache <> []) by discriminate.
    cbv zeta. rewrite mod_nat by (destruct cache; [congruence|cbn; lia]). unfold go_len. rewrite map_length.
    assert (Hk : 0 <= Z.of_N i mod Z.of_nat (length cache)).
    { destruct cache; [congruence|]. apply Z.mod_pos_bound. cbn [length]. lia. }
    pose proof (lookup_cache cache _ Hk) as L.
    destruct (nth_error cache (Z.to_nat (Z.of_N i mod Z.of_nat (length cache)))) as [j|].
    + destruct L as [-> ->]. pose proof (lookup_eps geps (Z.of_nat j) ltac:(lia)) as L2. rewrite Nat2Z.id in L2. unfold look_eps.
      destruct (nth_error (map m_of geps) j).
      * destruct L2 as [-> M]. eexists; split; [reflexivity|exact M].
      * rewrite L2. reflexivity.
    + rewrite L. reflexivity.
Qed.

Definition LEN_OK {A} (l : list A) : Prop := Z.of_nat (length l) < 4294967296.
Lemma len_map_nat (cache : list nat) : go_len (map Z.of_nat cache) = go_len cache.
Proof. unfold go_len. rewrite map_length. reflexivity. Qed.

(* the translated lookups in terms of [look] *)
Lemma look_cons geps c0 cache' i :
  look geps (map Z.of_nat (c0 :: cache')) i =
  (let k := i mod go_len (c0 :: cache') in
   if go_in_range (map Z.of_nat (c0 :: cache')) k then look_eps geps (go_nth (map Z.of_nat (c0 :: cache')) k 0) else None).
Proof. unfold look. rewrite len_map_nat. reflexivity. Qed.

Lemma sel_sim_look {X} geps cache (i P W : N) (mk : go_endpoint_Endpoint -> bool -> X) c : geps <> [] ->
  c = match look geps (map Z.of_nat cache) (Z.of_N i) with Some g => Return (mk g false) | None => Panic end ->
  sel_sim c mk (pick (sel_of geps cache P W) i).
Proof.
  intros Hne ->. pose proof (pick_look geps cache i P W Hne) as PL.
  destruct (pick (sel_of geps cache P W) i); try contradiction; cbn [sel_sim].
  - destruct PL as (g & -> & M). eexists; split; [reflexivity|exact M].
  - rewrite PL. reflexivity.
Qed.

Section sel.
  Variable points : list N -> nat -> list N.

  (* round-robin: the cursor that is advanced is the weighted one when there is a weighted cycle *)
  Theorem tr_rr_Select_equiv : forall geps cache (p w : N), LEN_OK geps -> LEN_OK cache ->
    let s := sel_of geps cache p w in
    sel_sim (tr_rr_Select geps (Z.of_N p) (map Z.of_nat cache) (Z.of_N w))
            (fun g e => (g, e, Z.of_N (pos (fst (select RoundRobin s 0%N 0%N))), Z.of_N (wpos (fst (select RoundRobin s 0%N 0%N)))))
            (snd (select RoundRobin s 0%N 0%N)).
  Proof.
    intros geps cache p w Hg Hc. unfold LEN_OK in *. cbv zeta.
    assert (W64 : forall z, wrapU 64 z = z mod 18446744073709551616) by reflexivity.
    assert (T64 : Z.of_N two64 = 18446744073709551616) by reflexivity.
    destruct geps as [|g0 geps'] eqn:EG; [cbn; reflexivity|]. rewrite <- EG in Hg |- *.
    assert (Hne : geps <> []) by (subst; discriminate).
    assert (Lg : 0 < go_len geps) by (subst geps; unfold go_len; cbn [length]; lia).
    assert (Sel : forall k : unit, select RoundRobin (sel_of geps cache p w) 0%N 0%N =
       match cache with
       | [] => let P := N.modulo (p + 1) two64 in (sel_of geps cache P w, pick (sel_of geps cache P w) P)
       | _ => let P := N.modulo (w + 1) two64 in (sel_of geps cache p P, pick (sel_of geps cache p P) P)
       end) by (intros _; subst geps; destruct cache; reflexivity).
    rewrite (Sel tt). clear Sel. unfold tr_rr_Select. rewrite len_map_nat.
    replace (go_len geps =? 0) with false by lia.
    destruct cache as [|c0 cache'] eqn:EC.
    - cbv zeta. cbn [fst snd map negb]. change (go_len (@nil nat) =? 0) with true. cbn [negb].
      set (P := N.modulo (p + 1) two64). cbn [sel_of pos wpos].
      apply sel_sim_look; [exact Hne|].
      replace (wrapU 64 (Z.of_N p + 1)) with (Z.of_N P) by (unfold P; rewrite W64, N2Z.inj_mod, T64, N2Z.inj_add; reflexivity).
      rewrite W64, (Z.mod_small (go_len geps)) by (unfold go_len in *; lia).
      replace (go_len geps =? 0) with false by lia. cbn [negb andb].
      rewrite Z.rem_mod_nonneg by lia. unfold look, look_eps. cbn [map].
      destruct (go_in_range geps (Z.of_N P mod go_len geps)); reflexivity.
    - rewrite <- EC in Hc |- *. assert (Lc : 0 < go_len cache) by (subst cache; unfold go_len; cbn [length]; lia).
      replace (match cache with [] => let P := ((p + 1) mod two64)%N in (sel_of geps cache P w, pick (sel_of geps cache P w) P)
               | _ :: _ => let P := ((w + 1) mod two64)%N in (sel_of geps cache p P, pick (sel_of geps cache p P) P) end)
        with (let P := ((w + 1) mod two64)%N in (sel_of geps cache p P, pick (sel_of geps cache p P) P)) by (subst cache; reflexivity).
      cbv zeta. cbn [fst snd]. replace (go_len cache =? 0) with false by lia. cbn [negb].
      set (P := N.modulo (w + 1) two64). cbn [sel_of pos wpos].
      apply sel_sim_look; [exact Hne|].
      replace (wrapU 64 (Z.of_N w + 1)) with (Z.of_N P) by (unfold P; rewrite W64, N2Z.inj_mod, T64, N2Z.inj_add; reflexivity).
      rewrite W64, (Z.mod_small (go_len cache)) by (unfold go_len in *; lia).
      replace (go_len cache =? 0) with false by lia. cbn [negb andb].
      rewrite Z.rem_mod_nonneg by lia. subst cache. rewrite look_cons. cbv zeta. unfold look_eps.
      destruct (go_in_range (map Z.of_nat (c0 :: cache')) (Z.of_N P mod go_len (c0 :: cache'))); [|reflexivity].
      destruct (go_in_range geps (go_nth (map Z.of_nat (c0 :: cache')) (Z.of_N P mod go_len (c0 :: cache')) 0)); reflexivity.
  Qed.

  (* mod-hash: the hash code (a uint32: the oracle) modulo the length of the cycle resp. of the member list *)
  Theorem tr_mh_Select_equiv : forall geps cache (p w code : N), LEN_OK geps -> LEN_OK cache ->
    let s := sel_of geps cache p w in
    sel_sim (tr_mh_Select geps (map Z.of_nat cache) (Z.of_N (N.modulo code two32))) (fun g e => (g, e))
            (snd (select ModHash s code 0%N)).
  Proof.
    intros geps cache p w code Hg Hc. unfold LEN_OK in *. cbv zeta.
    assert (W32 : forall z, wrapU 32 z = z mod 4294967296) by reflexivity.
    destruct geps as [|g0 geps'] eqn:EG; [cbn; reflexivity|]. rewrite <- EG in Hg |- *.
    assert (Hne : geps <> []) by (subst; discriminate).
    assert (Lg : 0 < go_len geps) by (subst geps; unfold go_len; cbn [length]; lia).
    assert (Sel : forall k : unit, select ModHash (sel_of geps cache p w) code 0%N =
       (sel_of geps cache p w, pick (sel_of geps cache p w) (N.modulo code two32))) by (intros _; subst geps; reflexivity).
    rewrite (Sel tt). clear Sel. cbn [snd]. set (i := N.modulo code two32).
    apply sel_sim_look; [exact Hne|]. unfold tr_mh_Select. rewrite len_map_nat.
    replace (go_len geps =? 0) with false by lia.
    destruct cache as [|c0 cache'] eqn:EC.
    - change (go_len (@nil nat) =? 0) with true. cbn [negb map].
      rewrite W32, (Z.mod_small (go_len geps)) by (unfold go_len in *; lia).
      replace (go_len geps =? 0) with false by lia. cbn [negb andb].
      rewrite Z.rem_mod_nonneg by lia. unfold look, look_eps.
      destruct (go_in_range geps (Z.of_N i mod go_len geps)); reflexivity.
    - rewrite <- EC in Hc |- *. assert (Lc : 0 < go_len cache) by (subst cache; unfold go_len; cbn [length]; lia).
      replace (go_len cache =? 0) with false by lia. cbn [negb].
      rewrite W32, (Z.mod_small (go_len cache)) by (unfold go_len in *; lia).
      replace (go_len cache =? 0) with false by lia. cbn [negb andb].
      rewrite Z.rem_mod_nonneg by lia. subst cache. rewrite look_cons. cbv zeta. unfold look_eps.
      destruct (go_in_range (map Z.of_nat (c0 :: cache')) (Z.of_N i mod go_len (c0 :: cache'))); [|reflexivity].
      destruct (go_in_range geps (go_nth (map Z.of_nat (c0 :: cache')) (Z.of_N i mod go_len (c0 :: cache')) 0)); reflexivity.
  Qed.

  (* random: the draw rand.Intn(n) is an oracle; for every value rnd mod n it can take the lookup is the model's *)
  Theorem tr_rnd_Select_equiv : forall geps cache (p w rnd : N), LEN_OK geps -> LEN_OK cache ->
    let s := sel_of geps cache p w in
    let d := Z.of_N (intn rnd (cyc_len s)) in
    sel_sim (tr_rnd_Select geps (map Z.of_nat cache) d d) (fun g e => (g, e)) (snd (select Random s 0%N rnd)).
  Proof.
    intros geps cache p w rnd Hg Hc. unfold LEN_OK in *. cbv zeta.
    destruct geps as [|g0 geps'] eqn:EG; [cbn; reflexivity|]. rewrite <- EG in Hg |- *.
    assert (Hne : geps <> []) by (subst; discriminate).
    assert (Lg : 0 < go_len geps) by (subst geps; unfold go_len; cbn [length]; lia).
    assert (Sel : forall k : unit, select Random (sel_of geps cache p w) 0%N rnd =
       (sel_of geps cache p w, pick (sel_of geps cache p w) (intn rnd (cyc_len (sel_of geps cache p w))))) by (intros _; subst geps; reflexivity).
    rewrite (Sel tt). clear Sel. cbn [snd]. set (i := intn rnd (cyc_len (sel_of geps cache p w))).
    apply sel_sim_look; [exact Hne|]. unfold tr_rnd_Select. rewrite len_map_nat.
    replace (go_len geps =? 0) with false by lia.
    assert (Hi : 0 <= Z.of_N i < Z.of_nat (cyc_len (sel_of geps cache p w))).
    { unfold i, intn. rewrite N2Z.inj_mod, nat_N_Z. apply Z.mod_pos_bound.
      unfold cyc_len, sel_of. cbn [Selectors.cache eps]. destruct cache; [rewrite map_length; unfold go_len in Lg|cbn [length]]; lia. }
    destruct cache as [|c0 cache'] eqn:EC.
    - change (go_len (@nil nat) =? 0) with true. cbn [negb map]. unfold look, look_eps.
      unfold cyc_len, sel_of in Hi. cbn [Selectors.cache eps] in Hi. rewrite map_length in Hi.
      rewrite (Z.mod_small (Z.of_N i)) by (unfold go_len; lia).
      destruct (go_in_range geps (Z.of_N i)); reflexivity.
    - rewrite <- EC in Hc, Hi |- *. assert (Lc : 0 < go_len cache) by (subst cache; unfold go_len; cbn [length]; lia).
      replace (go_len cache =? 0) with false by lia. cbn [negb].
      assert (Hi' : 0 <= Z.of_N i < go_len cache) by (unfold cyc_len, sel_of in Hi; cbn [Selectors.cache] in Hi; subst cache; exact Hi).
      subst cache. rewrite look_cons. cbv zeta. unfold look_eps. rewrite (Z.mod_small (Z.of_N i)) by lia.
      destruct (go_in_range (map Z.of_nat (c0 :: cache')) (Z.of_N i)); [|reflexivity].
      destruct (go_in_range geps (go_nth (map Z.of_nat (c0 :: cache')) (Z.of_N i) 0)); reflexivity.
  Qed.
End sel.
