(* The Gallina text generated from the current Go source of protocol.TarsRequest (Gen/Translated.v, regenerated on
   every run) computes the hand-written model Frame.Framing.tars_request, for every maximum and every buffer. *)
From Coq Require Import List NArith ZArith Bool Lia ZifyBool ZifyNat ZifyN.
From TarsV Require Import Base.Hex Frame.Framing Xlate.GoSem Xlate.GoSemFacts Gen.Translated.
Import ListNotations.
Open Scope Z_scope.

(* the two results of TarsRequest for an outcome of the model *)
Definition enc_pstat (p : pstat) : Z * Z :=
  match p with
  | Less => (0, k_protocol_PackageLess)
  | Full n => (Z.of_nat n, k_protocol_PackageFull)
  | Bad => (0, k_protocol_PackageError)
  end.

Lemma enc_pstat_injective p q : enc_pstat p = enc_pstat q -> p = q.
Proof.
  destruct p, q; cbn; unfold k_protocol_PackageLess, k_protocol_PackageFull, k_protocol_PackageError;
    intros E; inversion E; try reflexivity. f_equal. lia.
Qed.

(* No range hypothesis: maxPackageLength is any int (a negative maximum behaves like 0: every length is
   rejected), the buffer any byte list. The translated function never panics. *)
Theorem tr_TarsRequest_equiv : forall (max : Z) (buf : list N),
  tr_TarsRequest max buf = Return (enc_pstat (tars_request (Z.to_N max) buf)).
Proof.
  intros max buf. unfold tr_TarsRequest, tars_request. fold_bool.
  destruct buf as [|a [|b [|c [|d r]]]]; try reflexivity.
  assert (L : go_len (a :: b :: c :: d :: r) = 4 + Z.of_nat (length r)) by (unfold go_len; cbn [length]; lia).
  rewrite L.
  replace (go_slice (a :: b :: c :: d :: r) 0 4) with [a; b; c; d] by (rewrite go_slice_std by lia; reflexivity).
  replace (4 + Z.of_nat (length r) <? 4) with false by lia.
  replace (go_slice_ok (a :: b :: c :: d :: r) 0 4) with true by (unfold go_slice_ok; rewrite L; lia).
  replace (4 <=? go_len [a; b; c; d]) with true by reflexivity.
  cbn [andb hdr].
  set (l := (((a * 256 + b) * 256 + c) * 256 + d)%N).
  replace (go_be_u32 [a; b; c; d]) with (Z.of_N l) by (unfold go_be_u32, go_be, l; lia).
  replace (N.of_nat (length (a :: b :: c :: d :: r))) with (4 + N.of_nat (length r))%N by (cbn [length]; lia).
  destruct (l <? 4)%N eqn:E1; [replace (Z.of_N l <? 4) with true by lia; reflexivity|].
  replace (Z.of_N l <? 4) with false by lia.
  destruct (Z.to_N max <? l)%N eqn:E2; [replace (max <? Z.of_N l) with true by lia; reflexivity|].
  replace (max <? Z.of_N l) with false by lia. cbn [orb].
  destruct (4 + N.of_nat (length r) <? l)%N eqn:E3.
  - replace (4 + Z.of_nat (length r) <? Z.of_N l) with true by lia. reflexivity.
  - replace (4 + Z.of_nat (length r) <? Z.of_N l) with false by lia. cbn [enc_pstat]. do 2 f_equal. lia.
Qed.

(* consequently the translated function distinguishes exactly the model's outcomes *)
Corollary tr_TarsRequest_decides : forall max buf p,
  tr_TarsRequest max buf = Return (enc_pstat p) <-> tars_request (Z.to_N max) buf = p.
Proof.
  intros max buf p. rewrite tr_TarsRequest_equiv. split.
  - intros E. inversion E as [E']. apply enc_pstat_injective in E'. exact E'.
  - intros ->. reflexivity.
Qed.

(* a concrete non-trivial instance: a 6-byte packet followed by one more byte, maximum 10 MiB *)
Example tr_TarsRequest_ex :
  tr_TarsRequest 10485760 [0; 0; 0; 6; 7; 7; 9]%N = Return (6, k_protocol_PackageFull).
Proof. vm_compute. reflexivity. Qed.
