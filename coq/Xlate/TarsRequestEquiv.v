(* The Gallina text generated from the current Go source of protocol.TarsRequest (Gen/Translated.v, regenerated on
   every run) computes the hand-written model Frame.Framing.tars_request, for every maximum and every buffer. *)
From Coq Require Import List NArith ZArith Bool Lia ZifyBool ZifyNat ZifyN.
From TarsV Require Import Base.Hex Frame.Framing Xlate.GoSem Xlate.GoSemFacts Gen.Translated.
Import ListNotations.
Open Scope Z_scope.

(* the two results of TarsRequest for an outcome of the model *)
Definition enc_pstat (p : pstat) : Z * Z :=
  match p with
  | Less => (0, k_protocol_PackageLess)
  | Full n => (Z.of_nat n, k_protocol_PackageFull)
  | Bad => (0, k_protocol_PackageError)
  end.

Lemma enc_pstat_injective p q : enc_pstat p = enc_pstat q -> p = q.
Proof.
  destruct p, q; cbn; unfold k_protocol_PackageLess, k_protocol_PackageFull, k_protocol_PackageError;
    intros E; inversion E; try reflexivity. f_equal. lia.
Qed.

(* No range hypothesis: maxPackageLength is any int (a negative maximum behaves like 0: every length is
   rejected), the buffer any byte list. The translated function never panics. *)
Theorem tr_TarsRequest_equiv : forall (max : Z) (buf : list N),
  tr_TarsRequest max buf = Return (enc_pstat (tars_request (Z.to_N max) buf)).
Proof.
  intros max buf. unfold tr_TarsRequest, tars_request.
  destruct buf as [|a [|b [|c [|d r]]]];
    try (unfold go_len; cbn [length hdr]; fold_bool; split_ifs; try reflexivity; exfalso; lia).
  assert (L : go_len (a :: b :: c :: d :: r) = 4 + Z.of_nat (length r)) by (unfold go_len; cbn [length]; lia).
  (* whatever slices of the first four bytes the code takes and checks *)
  repeat match goal with |- context [go_slice (a :: b :: c :: d :: r) ?lo ?hi] =>
    let v := eval cbv in (firstn (Z.to_nat (hi - lo)) (skipn (Z.to_nat lo) [a; b; c; d])) in
    replace (go_slice (a :: b :: c :: d :: r) lo hi) with v by (rewrite go_slice_std by lia; reflexivity) end.
  unfold go_slice_ok. rewrite !L. cbn [hdr].
  set (l := (((a * 256 + b) * 256 + c) * 256 + d)%N).
  replace (go_be_u32 [a; b; c; d]) with (Z.of_N l) by (unfold go_be_u32, go_be, l; lia).
  replace (go_len [a; b; c; d]) with 4 by reflexivity.
  replace (N.of_nat (length (a :: b :: c :: d :: r))) with (4 + N.of_nat (length r))%N by (cbn [length]; lia).
  (* the model's cases, then the conditions of the translated code: they agree or the case is contradictory *)
  destruct (l <? 4)%N eqn:M1; [|destruct (Z.to_N max <? l)%N eqn:M2; [|destruct (4 + N.of_nat (length r) <? l)%N eqn:M3]];
    cbn [orb enc_pstat]; fold_bool; split_ifs; try reflexivity; try (exfalso; lia).
  do 2 f_equal. lia.
Qed.

(* consequently the translated function distinguishes exactly the model's outcomes *)
Corollary tr_TarsRequest_decides : forall max buf p,
  tr_TarsRequest max buf = Return (enc_pstat p) <-> tars_request (Z.to_N max) buf = p.
Proof.
  intros max buf p. rewrite tr_TarsRequest_equiv. split.
  - intros E. inversion E as [E']. apply enc_pstat_injective in E'. exact E'.
  - intros ->. reflexivity.
Qed.

(* a concrete non-trivial instance: a 6-byte packet followed by one more byte, maximum 10 MiB *)
Example tr_TarsRequest_ex :
  tr_TarsRequest 10485760 [0; 0; 0; 6; 7; 7; 9]%N = Return (6, k_protocol_PackageFull).
Proof. vm_compute. reflexivity. Qed.
