(* C01 proofs, part 7: the server side of the C01 model IS the C10 model of Protocol.Invoke / TarsServer.invoke.
   Rpc/EndToEnd.v has its own [server_handle] (filters around the generated Dispatch, error -> IRet / SResultDesc,
   packet type echoed, nothing written for a one-way request); Rpc/Invoke.v (C10) models Protocol.Invoke with the
   dispatcher as a parameter, and its response construction is tied to the source of Protocol.Invoke by the
   translator (Props/C10.v, C10_source_...). Here: for every request that is not a ping, with no handle timeout
   configured and no queueing delay, what C10's [server_step] writes when its dispatcher parameter is C01's
   (pass-through filters around the generated Dispatch and the implementation) is exactly C01's reply - same packet,
   same zero-or-one count, one dispatcher call. *)
From Coq Require Import List NArith ZArith Bool Arith Lia.
From TarsV Require Import Gen.Consts Base.Hex Codec.Wire Codec.Skip Codec.Prim Codec.GenCodec Frame.Framing
  Rpc.Filters Rpc.FiltersProofs Rpc.EndToEnd Rpc.EndToEndProofs.
Require TarsV.Rpc.Invoke.
Import ListNotations.
Open Scope N_scope.

Module I := TarsV.Rpc.Invoke.

Definition wmap (m : smap) : I.smap := map (fun kv => (VStr (fst kv), VStr (snd kv))) m.
Definition to10 (q : reqpkt) : I.request :=
  {| I.q_ver := q_ver q; I.q_ptype := q_ptype q; I.q_mtype := q_mtype q; I.q_id := q_id q; I.q_servant := q_servant q;
     I.q_func := q_func q; I.q_buf := q_buf q; I.q_timeout := q_timeout q; I.q_ctx := wmap (q_ctx q); I.q_status := wmap (q_status q) |}.
Definition rsp10 (p : rsppkt) : I.reply :=
  {| I.p_ver := p_ver p; I.p_ptype := p_ptype p; I.p_id := p_id p; I.p_mtype := p_mtype p; I.p_ret := p_ret p;
     I.p_buf := p_buf p; I.p_status := wmap (p_status p); I.p_desc := p_desc p; I.p_ctx := wmap (p_ctx p) |}.

Section Tie.
  Variable e : env.
  Variable impl : bytes -> list val -> smap -> smap -> impl_res.
  Variable i : iface.

  (* C01's dispatcher + implementation as the parameter of the C10 model, for the request [q]: the filled response or
     the error (a tars.Error{c,m}; a plain error is (1, m)) *)
  Definition dispatch10 (q : reqpkt) : I.request -> I.hrun := fun _ =>
    {| I.h_res := match fst (dispatch e impl i q) with
                  | DispOk p => I.HDone (p_buf p) (wmap (p_status p)) (wmap (p_ctx p))
                  | DispErr c m _ => I.HFail (I.TarsErr c m)
                  end;
       I.h_dur := 0 |}.

  Lemma never_expired_unqueued r : I.queue_expired r 0 = false.
  Proof. unfold I.queue_expired. destruct (0 <? I.q_timeout r)%Z eqn:A; [|reflexivity]. cbn [andb]. apply Z.leb_gt. apply Z.ltb_lt in A. lia. Qed.

  Lemma dispatch_ok_shape q p : fst (dispatch e impl i q) = DispOk p ->
    p_ver p = q_ver q /\ p_id p = q_id q /\ p_mtype p = 0%Z /\ p_ret p = 0%Z /\ p_desc p = [].
  Proof.
    unfold dispatch. destruct (find_fn i (q_func q)); [|discriminate].
    destruct (dec_list _ _ _ _); try discriminate. destruct (impl _ _ _ _); [|discriminate].
    cbn [fst]. intros H. injection H as <-. repeat split.
  Qed.

  Theorem server_is_invoke (cfg : I.config) (q : reqpkt) :
    I.c_ht cfg = 0 -> bytes_eqb (q_func q) I.ping_name = false ->
    I.server_step (dispatch10 q) cfg (to10 q) 0 =
    (map (fun p => (I.FromHandler, rsp10 p)) (olist (srv_reply e impl i q)), 1%nat).
  Proof.
    intros Hht Hping. unfold I.server_step, I.invoke. rewrite never_expired_unqueued.
    cbn [I.q_func to10]. rewrite Hping. unfold dispatch10. cbn [I.h_res I.h_dur].
    unfold srv_reply, is_oneway, I.oneway. cbn [I.q_ptype to10].
    change c_TARSONEWAY with c_c01_TARSONEWAY.
    destruct (fst (dispatch e impl i q)) as [p|c m sys] eqn:Hd.
    - destruct (dispatch_ok_shape q p Hd) as (H1 & H2 & H3 & H4 & H5).
      destruct (q_ptype q =? c_c01_TARSONEWAY)%Z; [reflexivity|].
      rewrite Hht. cbn [N.ltb N.compare andb olist map]. f_equal. f_equal. f_equal.
      unfold I.with_body, I.base_reply, rsp10, reply_of. cbn.
      now rewrite H1, H2, H3, H4, H5.
    - destruct (q_ptype q =? c_c01_TARSONEWAY)%Z; [reflexivity|].
      rewrite Hht. cbn [N.ltb N.compare andb olist map]. reflexivity.
  Qed.
End Tie.
