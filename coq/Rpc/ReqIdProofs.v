(* Proofs about the request id generator model (Rpc/ReqId.v). *)
From Coq Require Import List ZArith Bool Lia ZifyBool ZifyNat.
From TarsV Require Import Rpc.ReqId.
Import ListNotations.
Open Scope Z_scope.

Lemma wrap32_range z : in_i32 (wrap32 z).
Proof.
  unfold in_i32, wrap32, two31, two32.
  pose proof (Z.mod_pos_bound (z + 2147483648) 4294967296 ltac:(lia)). lia.
Qed.

Lemma wrap32_small z : in_i32 z -> wrap32 z = z.
Proof.
  unfold in_i32, wrap32, two31, two32. intros H.
  rewrite Z.mod_small by lia. lia.
Qed.

Lemma add_lt c : in_i32 c -> c < two31 - 1 -> add c = c + 1.
Proof. intros H1 H2. unfold add. apply wrap32_small. unfold in_i32, two31 in *. lia. Qed.

Lemma add_max : add (two31 - 1) = - two31.
Proof. vm_compute. reflexivity. Qed.

Lemma add_range c : in_i32 (add c).
Proof. apply wrap32_range. Qed.

Section Proofs.
  Variable maxi : Z.
  Hypothesis Hmax : maxi = 2147483647.

  Lemma cas_range c : in_i32 c -> in_i32 (cas maxi c).
  Proof. unfold cas. destruct (c =? maxi); auto. intros _. unfold in_i32, two31. lia. Qed.

  (* a Cas never brings any value nearer *)
  Lemma rem_cas c x : in_i32 c -> in_i32 x -> rem maxi c x <= rem maxi (cas maxi c) x.
  Proof.
    unfold in_i32, two31, cas, rem, two32. intros Hc Hx.
    destruct (c =? maxi) eqn:E; [|lia]. apply Z.eqb_eq in E. subst c.
    repeat match goal with |- context [if ?b then _ else _] => destruct b eqn:? end; lia.
  Qed.

  (* an Add brings any value nearer by at most one, and returns x only when x was one step away *)
  Lemma rem_add c x : in_i32 c -> in_i32 x ->
    rem maxi c x <= rem maxi (add c) x + 1 /\ (add c = x -> rem maxi c x <= 1).
  Proof.
    intros Hc Hx. destruct (Z.eq_dec c (two31 - 1)) as [->|Hne].
    - rewrite add_max. unfold in_i32, two31, rem, two32 in *.
      repeat match goal with |- context [if ?b then _ else _] => destruct b eqn:? end; lia.
    - rewrite add_lt by (unfold in_i32, two31 in *; lia).
      unfold in_i32, two31, rem, two32 in *.
      repeat match goal with |- context [if ?b then _ else _] => destruct b eqn:? end; lia.
  Qed.

  Lemma rem_self x : in_i32 x -> two31 - 2 <= rem maxi x x.
  Proof.
    unfold in_i32, two31, rem, two32. intros Hx. rewrite Z.ltb_irrefl.
    destruct (2 <=? x) eqn:E; lia.
  Qed.

  Lemma run_ops_range l : forall c, in_i32 c -> in_i32 (fst (run_ops maxi c l)) /\ Forall in_i32 (adds maxi c l).
  Proof.
    unfold adds. induction l as [|o l IH]; intros c Hc; cbn [run_ops fst snd]; auto.
    destruct o.
    - apply IH. apply cas_range; auto.
    - destruct (run_ops maxi (add c) l) as [c' vs] eqn:E. cbn [fst snd].
      destruct (IH (add c) (add_range c)) as [A B]. rewrite E in A, B. cbn [fst snd] in A, B.
      split; auto. constructor; auto. apply add_range.
  Qed.

  (* x first comes back from the (|pre|+1)-th Add: at least [rem c x] Adds were needed *)
  Lemma adds_rem l : forall c x pre post, in_i32 c -> in_i32 x ->
    adds maxi c l = pre ++ x :: post -> rem maxi c x <= Z.of_nat (length pre) + 1.
  Proof.
    unfold adds. induction l as [|o l IH]; intros c x pre post Hc Hx E; cbn [run_ops snd] in E.
    - destruct pre; discriminate.
    - destruct o.
      + pose proof (rem_cas c x Hc Hx). specialize (IH _ _ _ _ (cas_range c Hc) Hx E). lia.
      + destruct (run_ops maxi (add c) l) as [c' vs] eqn:E1. cbn [snd] in E.
        destruct (rem_add c x Hc Hx) as [R1 R2].
        destruct pre as [|v pre]; cbn [app] in E; inversion E; subst.
        * cbn [length]. specialize (R2 eq_refl). lia.
        * specialize (IH (add c) x pre post (add_range c) Hx). rewrite E1 in IH. cbn [snd] in IH.
          specialize (IH eq_refl). cbn [length]. lia.
  Qed.

  (* after the Add that returned x, the rest of the run starts from counter x *)
  Lemma adds_split l : forall c x pre post,
    adds maxi c l = pre ++ x :: post -> exists l', post = adds maxi x l'.
  Proof.
    unfold adds. induction l as [|o l IH]; intros c x pre post E; cbn [run_ops snd] in E.
    - destruct pre; discriminate.
    - destruct o.
      + eapply IH; eauto.
      + destruct (run_ops maxi (add c) l) as [c' vs] eqn:E1. cbn [snd] in E.
        destruct pre as [|v pre]; cbn [app] in E; inversion E; subst.
        * exists l. rewrite E1. reflexivity.
        * eapply (IH (add c)). rewrite E1. reflexivity.
  Qed.

  (* permissive machine: two Adds returning the same value are at least 2^31-2 Adds apart *)
  Lemma adds_distance c l l1 x l2 l3 : in_i32 c ->
    adds maxi c l = l1 ++ x :: l2 ++ x :: l3 -> two31 - 2 <= Z.of_nat (length l2) + 1.
  Proof.
    intros Hc E.
    assert (Hx : in_i32 x).
    { destruct (run_ops_range l c Hc) as [_ F]. rewrite E in F. apply Forall_app in F. destruct F as [_ F].
      inversion F; auto. }
    destruct (adds_split _ _ _ _ _ E) as [l' E'].
    pose proof (adds_rem l' x x l2 l3 Hx Hx (eq_sym E')). pose proof (rem_self x Hx). lia.
  Qed.

  (* ---------- thread machine ---------- *)
  Lemma run_app s l1 : forall l2, run maxi s (l1 ++ l2) = match run maxi s l1 with Some s' => run maxi s' l2 | None => None end.
  Proof. revert s. induction l1 as [|l l1 IH]; intros s l2; cbn [run app]; auto. destruct (step maxi s l); auto. Qed.

  Lemma step_erase s l s' : step maxi s l = Some s' ->
    exists vs, run_ops maxi (ctr s) (erase l) = (ctr s', vs) /\ hist s' = rev vs ++ hist s.
  Proof.
    destruct l as [t|t|t]; cbn [step erase run_ops]; destruct (nth_error (pcs s) t) as [[| | |v]|]; intros E; inversion E; subst; cbn [ctr hist];
      try (exists []; split; reflexivity).
    exists [add (ctr s)]. split; reflexivity.
  Qed.

  Lemma run_ops_app c l1 l2 : run_ops maxi c (l1 ++ l2) =
    let '(c1, v1) := run_ops maxi c l1 in let '(c2, v2) := run_ops maxi c1 l2 in (c2, v1 ++ v2).
  Proof.
    revert c. induction l1 as [|o l1 IH]; intros c; cbn [app run_ops].
    - destruct (run_ops maxi c l2); reflexivity.
    - destruct o; [apply IH|]. rewrite IH. destruct (run_ops maxi (add c) l1) as [c1 v1].
      destruct (run_ops maxi c1 l2); reflexivity.
  Qed.

  Lemma run_erase ls : forall s s', run maxi s ls = Some s' ->
    exists vs, run_ops maxi (ctr s) (flat_map erase ls) = (ctr s', vs) /\ hist s' = rev vs ++ hist s.
  Proof.
    induction ls as [|l ls IH]; intros s s' E; cbn [run flat_map] in *.
    - inversion E; subst. exists []. split; reflexivity.
    - destruct (step maxi s l) as [s1|] eqn:E1; [|discriminate].
      destruct (step_erase _ _ _ E1) as [v1 [A1 B1]]. destruct (IH _ _ E) as [v2 [A2 B2]].
      exists (v1 ++ v2). rewrite run_ops_app, A1, A2. split; auto.
      rewrite B2, B1, rev_app_distr, app_assoc. reflexivity.
  Qed.

  Definition ids_inv (s : st) : Prop :=
    Forall (fun v => v <> 0) (ids s) /\ (forall v, In v (ids s) -> In v (hist s)) /\
    (forall t v, nth_error (pcs s) t = Some (TDone v) -> v <> 0 /\ In v (ids s)).

  Lemma nth_error_set_nth {A} (l : list A) n x m : nth_error (set_nth n x l) m =
    if Nat.eqb n m then (match nth_error l n with Some _ => Some x | None => None end) else nth_error l m.
  Proof.
    revert n m. induction l as [|y l IH]; intros [|n] [|m]; cbn; auto.
    destruct (Nat.eqb n m); auto.
  Qed.

  Lemma step_ids s l s' : ids_inv s -> step maxi s l = Some s' -> ids_inv s'.
  Proof.
    intros [I1 [I2 I3]] E. unfold ids_inv.
    destruct l as [t|t|t]; cbn [step] in E; destruct (nth_error (pcs s) t) as [[| | |v]|] eqn:Et; inversion E; subst; clear E; cbn [ids hist pcs].
    1-3: (split; [auto|split; [auto|]]; intros t' v' H; rewrite nth_error_set_nth in H; destruct (Nat.eqb t t');
          [rewrite Et in H; discriminate|eauto]).
    destruct (add (ctr s) =? 0) eqn:Ez.
    - split; [auto|split; [intros v Hv; right; auto|]].
      intros t' v' H. rewrite nth_error_set_nth in H. destruct (Nat.eqb t t'); [rewrite Et in H; discriminate|eauto].
    - apply Z.eqb_neq in Ez. split; [constructor; auto|split].
      + intros v [->|Hv]; [left; auto|right; auto].
      + intros t' v' H. rewrite nth_error_set_nth in H. destruct (Nat.eqb t t').
        * rewrite Et in H. inversion H; subst. split; auto. left; auto.
        * destruct (I3 _ _ H). split; auto. right; auto.
  Qed.

  Lemma init_ids c0 n : ids_inv (init c0 n).
  Proof.
    unfold ids_inv, init; cbn. split; [constructor|split; [tauto|]].
    intros t v H. exfalso. revert t H. induction n; intros [|t] H; cbn in H; try discriminate. eauto.
  Qed.

  Lemma run_ids ls : forall s s', ids_inv s -> run maxi s ls = Some s' -> ids_inv s'.
  Proof.
    induction ls as [|l ls IH]; intros s s' I E; cbn [run] in E.
    - inversion E; subst; auto.
    - destruct (step maxi s l) eqn:E1; [|discriminate]. eapply IH; [|exact E]. eapply step_ids; eauto.
  Qed.

  (* every value genRequestID returns, in every interleaving, is non-zero *)
  Theorem id_nonzero c0 n ls s : run maxi (init c0 n) ls = Some s ->
    (forall v, In v (ids s) -> v <> 0) /\ (forall t v, nth_error (pcs s) t = Some (TDone v) -> v <> 0).
  Proof.
    intros E. destruct (run_ids _ _ _ (init_ids c0 n) E) as [I1 [I2 I3]]. split.
    - intros v Hv. rewrite Forall_forall in I1. auto.
    - intros t v H. apply (I3 t v H).
  Qed.

  (* two Adds that return the same value have at least 2^31-3 other Adds between them, in every interleaving *)
  Theorem id_distance c0 n ls s l1 x l2 l3 : in_i32 c0 -> run maxi (init c0 n) ls = Some s ->
    rev (hist s) = l1 ++ x :: l2 ++ x :: l3 -> two31 - 2 <= Z.of_nat (length l2) + 1.
  Proof.
    intros Hc E H. destruct (run_erase _ _ _ E) as [vs [A B]]. cbn [init ctr hist] in A, B.
    rewrite app_nil_r in B. rewrite B, rev_involutive in H.
    eapply (adds_distance c0 (flat_map erase ls)); eauto. unfold adds. rewrite A. exact H.
  Qed.

  (* corollary: any stretch of fewer than 2^31-2 consecutive allocations hands out pairwise distinct values *)
  Theorem id_window_nodup c0 n ls s pre w post : in_i32 c0 -> run maxi (init c0 n) ls = Some s ->
    rev (hist s) = pre ++ w ++ post -> Z.of_nat (length w) < two31 - 1 -> NoDup w.
  Proof.
    intros Hc E H Hw. revert pre H Hw. induction w as [|x w IH]; intros pre H Hw; [constructor|].
    constructor.
    - intros Hin. apply in_split in Hin. destruct Hin as [l2 [l3 ->]].
      assert (H' : rev (hist s) = pre ++ x :: l2 ++ x :: (l3 ++ post)).
      { rewrite H. cbn [app]. rewrite <- !app_assoc. reflexivity. }
      pose proof (id_distance _ _ _ _ _ _ _ _ Hc E H') as D.
      cbn [length] in Hw. rewrite app_length in Hw. cbn [length] in Hw. lia.
    - apply (IH (pre ++ [x])).
      + rewrite <- app_assoc. exact H.
      + cbn [length] in Hw. lia.
  Qed.

  (* the sequential reference is a run of the thread machine (one thread) *)
  Lemma gen1_nonzero c : in_i32 c -> fst (gen1 maxi c) <> 0.
  Proof.
    intros Hc. unfold gen1. destruct (add (cas maxi c) =? 0) eqn:E; cbn [fst].
    - apply Z.eqb_eq in E. rewrite E. vm_compute. discriminate.
    - apply Z.eqb_neq in E. exact E.
  Qed.

  (* [rem] really is a lower bound: soundness of the concurrent-batch check *)
  Theorem mt_check_sound c0 n ls s x : in_i32 c0 -> run maxi (init c0 n) ls = Some s ->
    In x (hist s) -> rem maxi c0 x <= Z.of_nat (length (hist s)).
  Proof.
    intros Hc E Hin. destruct (run_erase _ _ _ E) as [vs [A B]]. cbn [init ctr hist] in A, B.
    rewrite app_nil_r in B. rewrite B in *. rewrite <- in_rev in Hin. rewrite rev_length.
    apply in_split in Hin. destruct Hin as [pre [post Hs]].
    assert (Hx : in_i32 x).
    { destruct (run_ops_range (flat_map erase ls) c0 Hc) as [_ F]. unfold adds in F. rewrite A in F. cbn [snd] in F.
      rewrite Hs in F. apply Forall_app in F. destruct F as [_ F]. inversion F; auto. }
    pose proof (adds_rem (flat_map erase ls) c0 x pre post Hc Hx) as R. unfold adds in R. rewrite A in R.
    specialize (R Hs). rewrite Hs, app_length. cbn [length]. lia.
  Qed.
End Proofs.

(* ---------- the bound of id_distance is tight ---------- *)
(* n consecutive Adds from c, staying below 2^31-1 *)
Fixpoint upto (c : Z) (n : nat) : list Z := match n with O => [] | S k => (c + 1) :: upto (c + 1) k end.

Lemma run_adds maxi n : forall c, in_i32 c -> c + Z.of_nat n < two31 ->
  run_ops maxi c (repeat OAdd n) = (c + Z.of_nat n, upto c n).
Proof.
  induction n as [|n IH]; intros c Hc Hn; cbn [repeat run_ops upto].
  - f_equal. lia.
  - rewrite add_lt by (unfold in_i32, two31 in *; lia).
    rewrite IH by (unfold in_i32, two31 in *; lia). f_equal. lia.
Qed.

Lemma upto_length c n : length (upto c n) = n.
Proof. revert c. induction n; intros c; cbn; auto. Qed.

(* from counter 1, 2^31-2 Adds hand out 2 .. maxInt32; the next call's Cas resets the counter and its Add hands out 2
   again, exactly 2^31-2 allocations after the first (the list is never computed: the proof is symbolic) *)
Definition tight_ops : list op := repeat OAdd (Z.to_nat 2147483646) ++ [OCas; OAdd].

Theorem id_distance_tight : exists l2, adds 2147483647 1 tight_ops = 2 :: l2 ++ [2] /\ Z.of_nat (length l2) + 1 = two31 - 2.
Proof.
  unfold tight_ops, adds. rewrite run_ops_app.
  rewrite run_adds by (unfold in_i32, two31; lia).
  replace (1 + Z.of_nat (Z.to_nat 2147483646)) with 2147483647 by lia.
  cbn [run_ops snd]. unfold cas. rewrite Z.eqb_refl.
  replace (add 1) with 2 by reflexivity.
  destruct (Z.to_nat 2147483646) as [|n] eqn:En; [lia|].
  cbn [upto]. exists (upto 2 n). split; [reflexivity|]. rewrite upto_length. unfold two31. lia.
Qed.

(* non-vacuity: a concrete interleaving of three threads around the wrap threshold *)
Example run_ex :
  option_map (fun s => (ctr s, rev (ids s)))
    (run 2147483647 (init 2147483646 3)
       [LCall 0; LCall 1; LCas 0; LCas 1; LAdd 0; LCall 2; LCas 2; LAdd 1; LAdd 2])
  = Some (3, [2147483647; 2; 3]).
Proof. vm_compute. reflexivity. Qed.

(* the race the Cas cannot prevent: both threads pass the Cas before the counter reaches the threshold,
   the counter then runs through the negative numbers (still non-zero, still distinct) *)
Example run_negative :
  option_map (fun s => (ctr s, rev (ids s)))
    (run 2147483647 (init 2147483645 3)
       [LCall 0; LCall 1; LCall 2; LCas 0; LCas 1; LCas 2; LAdd 0; LAdd 1; LAdd 2])
  = Some (-2147483648, [2147483646; 2147483647; -2147483648]).
Proof. vm_compute. reflexivity. Qed.

(* an Add that returns 0 is retried by the same thread; 0 is never handed out *)
Example run_zero :
  option_map (fun s => (ctr s, rev (ids s), rev (hist s)))
    (run 2147483647 (init (-2) 2) [LCall 0; LCall 1; LCas 0; LCas 1; LAdd 0; LAdd 1; LAdd 1])
  = Some (1, [-1; 1], [-1; 0; 1]).
Proof. vm_compute. reflexivity. Qed.

Example seq_ex : gen_seq 2147483647 (-2) 4 = ([-1; 1; 2; 3], 3).
Proof. vm_compute. reflexivity. Qed.
Example seq_ex_wrap : gen_seq 2147483647 2147483646 3 = ([2147483647; 2; 3], 3).
Proof. vm_compute. reflexivity. Qed.

(* the forward-only check accepts what the machine does and rejects a counter that was moved back *)
Example ctrs_fwd_ex : ctrs_fwd 2147483647 [5; 5; 9; 700; 701] = true /\ ctrs_fwd 2147483647 [2147483640; 2147483646; 2147483647; 1; 2; 7] = true.
Proof. vm_compute. split; reflexivity. Qed.
Example ctrs_fwd_wrap_negative : ctrs_fwd 2147483647 [2147483646; -2147483648; -2147483640] = true /\ ctrs_fwd 2147483647 [-3; 0; 1; 4] = true.
Proof. vm_compute. split; reflexivity. Qed.
Example ctrs_fwd_rejects_decrement : ctrs_fwd 2147483647 [5; 9; 8; 9] = false.
Proof. vm_compute. reflexivity. Qed.

(* soundness of the check for readings taken at Adds: a value the machine hands out after counter c0 within n Adds has
   [rem c0 x <= n] (mt_check_sound) — a value behind c0 would need about 2^32 Adds *)
Example rem_backwards : rem 2147483647 9 8 = 2147483647 - 9 + 8 - 1.
Proof. vm_compute. reflexivity. Qed.

Example id_in_window_ex : id_in_window 5 7 9 = true /\ id_in_window 2147483646 (-2147483647) (-2147483640) = true /\
  id_in_window 5 15000 9 = false /\ id_in_window 5 5 9 = false /\ id_in_window 5 0 9 = false.
Proof. vm_compute. repeat split; reflexivity. Qed.
