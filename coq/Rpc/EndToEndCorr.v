(* C01 correspondence: the model's [call] against what the harness observed on the implementation for one call
   (result at the call site, filter / implementation event sequence). *)
From Coq Require Import List NArith ZArith Bool Arith.
From TarsV Require Import Gen.Consts Base.Hex Codec.Wire Codec.Skip Codec.Prim Codec.GenCodec Codec.Corr Gen.Schemas
  Frame.Framing Rpc.Filters Rpc.EndToEnd.
Import ListNotations.
Open Scope N_scope.

Record c01_case := {
  k_cc : fconf; k_sc : fconf;            (* registered recording filters, client and server *)
  k_sig : fsig;
  k_args : list val;                     (* all arguments as passed (out positions: the caller's prior value) *)
  k_opts : list (option smap);
  k_oneway : bool;
  k_ins : list val;                      (* the in arguments (canonical dump) *)
  k_plan : impl_res;                     (* what the implementation does when it receives exactly these inputs *)
  k_res : call_res;                      (* observed at the call site *)
  k_events : option (list ev)            (* observed recording-filter / implementation events (sequential calls) *)
}.

Fixpoint vals_sim (a b : list val) : bool :=
  match a, b with
  | [], [] => true
  | x :: r, y :: s => val_sim (canon x) y && vals_sim r s
  | _, _ => false
  end.
Definition smap_sim (a b : smap) : bool := val_sim (canon (vmap a)) (canon (vmap b)).
Fixpoint smaps_sim (a b : list smap) : bool :=
  match a, b with
  | [], [] => true
  | x :: r, y :: s => smap_sim x y && smaps_sim r s
  | _, _ => false
  end.

Definition res_match (m o : call_res) : bool :=
  match m, o with
  | COk r1 o1 m1, COk r2 o2 m2 =>
      (match r1, r2 with Some a, Some b => val_sim (canon a) b | None, None => true | _, _ => false end)
      && vals_sim o1 o2 && smaps_sim m1 m2
  | CSent, CSent => true
  | CPanic, CPanic => true
  | CLost, CLost => true
  (* a framework-made text ([sys_msg], whichever side made it: the dispatcher's decode error travels in SResultDesc) is not compared *)
  | CErr c1 m1 sys, CErr c2 m2 _ => (c1 =? c2)%Z && (sys || bytes_eqb m1 sys_msg || bytes_eqb m1 m2)
  | _, _ => false
  end.

Definition fkind_eqb (a b : fkind) : bool :=
  match a, b with KLegacy, KLegacy | KMw, KMw | KPre, KPre | KPost, KPost => true | _, _ => false end.
Definition fev_eqb (a b : fev) : bool :=
  match a, b with
  | FIn k i, FIn k' i' => fkind_eqb k k' && (i =? i')%nat
  | FOut k i, FOut k' i' => fkind_eqb k k' && (i =? i')%nat
  | _, _ => false
  end.
Definition side_eqb (a b : side) : bool := match a, b with Client, Client | Server, Server => true | _, _ => false end.
Definition ev_match (m o : ev) : bool :=
  match m, o with
  | EF s a, EF s' b => side_eqb s s' && fev_eqb a b
  | EImpl f i c s, EImpl f' i' c' s' => bytes_eqb f f' && vals_sim i i' && smap_sim c c' && smap_sim s s'
  | _, _ => false
  end.
Fixpoint evs_match (m o : list ev) : bool :=
  match m, o with
  | [], [] => true
  | x :: r, y :: s => ev_match x y && evs_match r s
  | _, _ => false
  end.
Definition is_client (x : ev) : bool := match x with EF Client _ => true | _ => false end.

Section Check.
  Variable e : env.
  Variable sid_req sid_rsp : nat.
  Variable max_pkt : N.

  (* the harness's implementation: a function of exactly what it receives; inputs that no caller passed fail with 9999 *)
  Definition case_impl (c : c01_case) : bytes -> list val -> smap -> smap -> impl_res :=
    fun fn ins ctx st =>
      if bytes_eqb fn (fs_name (k_sig c)) && vals_sim ins (k_ins c)
         && smap_sim ctx (ctx_of (k_opts c)) && smap_sim st (status_of (k_opts c))
      then k_plan c else IFail 9999 sys_msg.

  Definition case_call (c : c01_case) : call_res * list ev :=
    call e sid_req sid_rsp max_pkt (case_impl c)
         (filters_of inv_res (recording (EF Client) tt (k_cc c)))
         (filters_of disp_res (recording (EF Server) tt (k_sc c)))
         [k_sig c] (k_sig c) (k_args c) (k_opts c) (k_oneway c) 1%Z [] 20000%Z.

  Definition c01_check (c : c01_case) : bool :=
    let '(r, s) := case_call c in
    res_match r (k_res c) &&
    match k_events c with
    | None => true
    | Some o =>
        let m := filter is_obs s in
        if k_oneway c   (* a one-way call returns before the server runs: order is determined per side only *)
        then evs_match (filter is_client m) (filter is_client o) && evs_match (filter (fun x => negb (is_client x)) m) (filter (fun x => negb (is_client x)) o)
        else evs_match m o
    end.
End Check.

Definition c01_check0 : c01_case -> bool :=
  c01_check env0 sid_requestf_RequestPacket sid_requestf_ResponsePacket c_c01_MaxPackageLength.
