(* C10 proofs about the model Rpc/Invoke.v. *)
From Coq Require Import List NArith ZArith Bool Arith Lia ZifyBool ZifyNat ZifyN Permutation.
From TarsV Require Import Gen.Consts Base.Hex Codec.Wire Codec.Skip Codec.Prim Codec.PrimProofs Codec.GenCodec Codec.GenProofs Gen.Schemas
  Frame.Framing Frame.FramingProofs Rpc.Invoke.
Import ListNotations.
Open Scope N_scope.

(* the protocol's constants as the tree defines them (regenerated into Gen/Consts.v on every run): a changed value
   re-opens this proof *)
Theorem protocol_constants :
  c_TARSVERSION = 1%Z /\ c_TUPVERSION = 3%Z /\ c_JSONVERSION = 5%Z /\ c_TARSNORMAL = 0%Z /\ c_TARSONEWAY = 1%Z /\
  c_TARSSERVERSUCCESS = 0%Z /\ c_TARSSERVERQUEUETIMEOUT = (-6)%Z.
Proof. repeat split; reflexivity. Qed.

(* ---------- per request: the function server_step ---------- *)
Section Proofs.
  Variable dispatch : request -> hrun.

  Definition is_ping (r : request) : bool := bytes_eqb (q_func r) ping_name.
  (* the request reaches the dispatcher *)
  Definition dispatched (r : request) (queued : N) : bool := negb (queue_expired r queued) && negb (is_ping r).
  (* the handler outlives the configured handle timeout *)
  Definition overruns (cfg : config) (r : request) (queued : N) : bool :=
    dispatched r queued && (0 <? c_ht cfg) && (c_ht cfg <=? h_dur (dispatch r)).

  Lemma invoke_cases r queued :
    (queue_expired r queued = true /\
       invoke dispatch r queued = (FromQueueTimeout, with_ret (base_reply r) c_TARSSERVERQUEUETIMEOUT timeout_text, O, 0)) \/
    (queue_expired r queued = false /\ is_ping r = true /\ invoke dispatch r queued = (FromPing, base_reply r, O, 0)) \/
    (dispatched r queued = true /\ exists p, invoke dispatch r queued = (FromHandler, p, 1%nat, h_dur (dispatch r)) /\
       match h_res (dispatch r) with
       | HDone buf st cx => p = with_body (base_reply r) buf st cx
       | HFail e => p = with_ret (base_reply r) (err_code e) (err_msg e)
       end).
  Proof.
    unfold invoke, dispatched, is_ping. destruct (queue_expired r queued); [left; auto|].
    destruct (bytes_eqb (q_func r) ping_name); [right; left; auto|].
    right; right. split; [reflexivity|]. destruct (h_res (dispatch r)); eexists; split; reflexivity.
  Qed.

  Lemma invoke_identity r queued o p n d : invoke dispatch r queued = (o, p, n, d) ->
    p_id p = q_id r /\ p_ver p = q_ver r /\ p_ptype p = q_ptype r.
  Proof.
    intros H. destruct (invoke_cases r queued) as [[_ E]|[(_ & _ & E)|(_ & p' & E & Hp)]]; rewrite E in H; inversion H; subst.
    - cbn. auto.
    - cbn. auto.
    - destruct (h_res (dispatch r)); subst; cbn; auto.
  Qed.

  (* exactly one reply for a two-way request, none for a one-way request: every configuration, every queueing
     time, every behaviour of the implementation *)
  Theorem count_exact cfg r queued :
    length (fst (server_step dispatch cfg r queued)) = if oneway r then 0%nat else 1%nat.
  Proof.
    unfold server_step. destruct (invoke dispatch r queued) as [[[o p] n] dur].
    destruct (oneway r); [reflexivity|].
    destruct ((0 <? c_ht cfg) && (c_ht cfg <=? dur)); reflexivity.
  Qed.

  Theorem identity cfg r queued o p : In (o, p) (fst (server_step dispatch cfg r queued)) ->
    p_id p = q_id r /\ p_ver p = q_ver r /\ p_ptype p = q_ptype r.
  Proof.
    unfold server_step. destruct (invoke dispatch r queued) as [[[o' p'] n] dur] eqn:E.
    destruct (oneway r); [intros []|].
    destruct ((0 <? c_ht cfg) && (c_ht cfg <=? dur)); cbn; intros [H|[]]; inversion H; subst.
    - cbn. auto.
    - eapply invoke_identity; eassumption.
  Qed.

  (* the dispatcher (hence the implementation) is entered at most once; exactly once iff the request reaches it *)
  Theorem calls_exact cfg r queued :
    snd (server_step dispatch cfg r queued) = if dispatched r queued then 1%nat else 0%nat.
  Proof.
    unfold server_step.
    destruct (invoke_cases r queued) as [[Q E]|[(Q & P & E)|(D & p' & E & _)]]; rewrite E.
    - unfold dispatched. rewrite Q. cbn. destruct (oneway r); [reflexivity|]. destruct (_ && _); reflexivity.
    - unfold dispatched. rewrite Q, P. cbn. destruct (oneway r); [reflexivity|]. destruct (_ && _); reflexivity.
    - rewrite D. destruct (oneway r); [reflexivity|]. destruct (_ && _); reflexivity.
  Qed.

  (* a ping is answered with success, with an empty body, without entering the dispatcher - in every configuration *)
  Theorem ping cfg r queued : is_ping r = true -> queue_expired r queued = false ->
    snd (server_step dispatch cfg r queued) = 0%nat /\
    (oneway r = false -> fst (server_step dispatch cfg r queued) = [(FromPing, base_reply r)]) /\
    p_ret (base_reply r) = c_TARSSERVERSUCCESS /\ p_buf (base_reply r) = [].
  Proof.
    intros P Q. rewrite calls_exact. unfold dispatched. rewrite Q, P. split; [reflexivity|]. split; [|split; reflexivity].
    intros W. unfold server_step.
    destruct (invoke_cases r queued) as [[Q' _]|[(_ & _ & E)|(D & _)]]; [congruence| |unfold dispatched in D; rewrite P in D; lia].
    rewrite E, W. replace (c_ht cfg <=? 0) with (negb (0 <? c_ht cfg)) by lia.
    destruct (0 <? c_ht cfg); reflexivity.
  Qed.

  (* a request whose own timeout elapsed while it was queued is answered with the queue-timeout code and is not executed *)
  Theorem queue_timeout cfg r queued : (0 < q_timeout r)%Z -> (q_timeout r <= Z.of_N queued)%Z ->
    snd (server_step dispatch cfg r queued) = 0%nat /\
    (oneway r = false ->
     exists p, fst (server_step dispatch cfg r queued) = [(FromQueueTimeout, p)] /\
               p_ret p = c_TARSSERVERQUEUETIMEOUT /\ p_ret p <> 0%Z /\ p_buf p = [] /\
               p_id p = q_id r /\ p_ver p = q_ver r /\ p_ptype p = q_ptype r).
  Proof.
    intros H0 H1. assert (Q : queue_expired r queued = true) by (unfold queue_expired; lia).
    rewrite calls_exact. unfold dispatched. rewrite Q. split; [reflexivity|]. intros W.
    unfold server_step.
    destruct (invoke_cases r queued) as [[_ E]|[(Q' & _)|(D & _)]]; [|congruence|unfold dispatched in D; rewrite Q in D; discriminate].
    rewrite E, W. replace (c_ht cfg <=? 0) with (negb (0 <? c_ht cfg)) by lia.
    eexists. split; [destruct (0 <? c_ht cfg); reflexivity|]. cbn. repeat split; try reflexivity. discriminate.
  Qed.

  (* conversely a request whose timeout is off (<= 0) or has not elapsed is never answered with a queue timeout *)
  Theorem no_spurious_queue_timeout cfg r queued o p : ((q_timeout r <= 0)%Z \/ (Z.of_N queued < q_timeout r)%Z) ->
    In (o, p) (fst (server_step dispatch cfg r queued)) -> o <> FromQueueTimeout.
  Proof.
    intros H. assert (Q : queue_expired r queued = false) by (unfold queue_expired; lia).
    unfold server_step.
    destruct (invoke_cases r queued) as [[Q' _]|[(_ & _ & E)|(_ & p' & E & _)]]; [congruence| |]; rewrite E;
      destruct (oneway r); try (intros []); destruct (_ && _); cbn; intros [X|[]]; inversion X; discriminate.
  Qed.

  (* an implementation error becomes the reply's return code and message: the error's own code for a *tars.Error,
     1 for any other error; the call has been executed exactly once *)
  Theorem error_mapping cfg r queued e : dispatched r queued = true -> h_res (dispatch r) = HFail e ->
    overruns cfg r queued = false -> oneway r = false ->
    fst (server_step dispatch cfg r queued) = [(FromHandler, with_ret (base_reply r) (err_code e) (err_msg e))] /\
    snd (server_step dispatch cfg r queued) = 1%nat.
  Proof.
    intros D He Ho W. rewrite calls_exact, D. split; [|reflexivity].
    unfold server_step. unfold overruns in Ho. rewrite D in Ho. cbn [andb] in Ho.
    destruct (invoke_cases r queued) as [[Q _]|[(_ & P & _)|(_ & p' & E & Hp)]]; unfold dispatched in D; [rewrite Q in D; discriminate|rewrite P in D; lia|].
    rewrite E, W, Ho. rewrite He in Hp. subst. reflexivity.
  Qed.
  Lemma err_code_tars c m : err_code (TarsErr c m) = c /\ err_msg (TarsErr c m) = m. Proof. split; reflexivity. Qed.
  Lemma err_code_plain m : err_code (PlainErr m) = 1%Z /\ err_code (PlainErr m) <> 0%Z /\ err_msg (PlainErr m) = m.
  Proof. repeat split. discriminate. Qed.

  (* a successful call: return code 0 and exactly what the dispatcher produced *)
  Theorem success cfg r queued buf st cx : dispatched r queued = true -> h_res (dispatch r) = HDone buf st cx ->
    overruns cfg r queued = false -> oneway r = false ->
    fst (server_step dispatch cfg r queued) = [(FromHandler, with_body (base_reply r) buf st cx)] /\
    p_ret (with_body (base_reply r) buf st cx) = c_TARSSERVERSUCCESS /\
    snd (server_step dispatch cfg r queued) = 1%nat.
  Proof.
    intros D He Ho W. rewrite calls_exact, D. split; [|split; reflexivity].
    unfold server_step. unfold overruns in Ho. rewrite D in Ho. cbn [andb] in Ho.
    destruct (invoke_cases r queued) as [[Q _]|[(_ & P & _)|(_ & p' & E & Hp)]]; unfold dispatched in D; [rewrite Q in D; discriminate|rewrite P in D; lia|].
    rewrite E, W, Ho. rewrite He in Hp. subst. reflexivity.
  Qed.

  (* an over-long handler under a configured handle timeout: one timeout error with the request's identity;
     the call still runs (once) *)
  Theorem handle_timeout cfg r queued : overruns cfg r queued = true -> oneway r = false ->
    fst (server_step dispatch cfg r queued) = [(FromHandleTimeout, handle_timeout_reply r)] /\
    p_ret (handle_timeout_reply r) <> 0%Z /\
    p_id (handle_timeout_reply r) = q_id r /\ p_ver (handle_timeout_reply r) = q_ver r /\
    p_ptype (handle_timeout_reply r) = q_ptype r /\
    snd (server_step dispatch cfg r queued) = 1%nat.
  Proof.
    intros Ho W. unfold overruns in Ho. apply andb_prop in Ho. destruct Ho as [Ho H2]. apply andb_prop in Ho. destruct Ho as [D H1].
    rewrite calls_exact, D. repeat split; try reflexivity; [|cbn; discriminate].
    unfold server_step.
    destruct (invoke_cases r queued) as [[Q _]|[(_ & P & _)|(_ & p' & E & Hp)]]; unfold dispatched in D; [rewrite Q in D; discriminate|rewrite P in D; lia|].
    rewrite E, W, H1, H2. reflexivity.
  Qed.

  (* without a handle timeout, or when Invoke ends before it, the origin is never the handle timeout *)
  Theorem no_spurious_handle_timeout cfg r queued o p : overruns cfg r queued = false ->
    In (o, p) (fst (server_step dispatch cfg r queued)) -> o <> FromHandleTimeout.
  Proof.
    unfold overruns, server_step.
    destruct (invoke_cases r queued) as [[Q E]|[(Q & P & E)|(D & p' & E & _)]]; rewrite E; intros Ho;
      destruct (oneway r); try (intros []).
    - replace (c_ht cfg <=? 0) with (negb (0 <? c_ht cfg)) by lia. destruct (0 <? c_ht cfg); cbn; intros [X|[]]; inversion X; discriminate.
    - replace (c_ht cfg <=? 0) with (negb (0 <? c_ht cfg)) by lia. destruct (0 <? c_ht cfg); cbn; intros [X|[]]; inversion X; discriminate.
    - rewrite D in Ho. cbn [andb] in Ho. rewrite Ho. cbn. intros [X|[]]; inversion X; discriminate.
  Qed.

  (* worker pool size and transport do not enter the result: the same request gets the same answer *)
  Theorem configuration_independent pool1 pool2 udp1 udp2 ht r queued :
    server_step dispatch {| c_pool := pool1; c_ht := ht; c_udp := udp1 |} r queued =
    server_step dispatch {| c_pool := pool2; c_ht := ht; c_udp := udp2 |} r queued.
  Proof. reflexivity. Qed.

  (* ---------- from the bytes: well-formed packets ---------- *)
  Theorem packet_count cfg pkg r queued : parse_request pkg = Some r ->
    length (fst (serve_packet dispatch cfg pkg queued)) = if oneway r then 0%nat else 1%nat.
  Proof. intros H. unfold serve_packet. rewrite H. apply count_exact. Qed.

  Theorem packet_identity cfg pkg r queued o p : parse_request pkg = Some r ->
    In (o, p) (fst (serve_packet dispatch cfg pkg queued)) ->
    p_id p = q_id r /\ p_ver p = q_ver r /\ p_ptype p = q_ptype r.
  Proof. intros H. unfold serve_packet. rewrite H. apply identity. Qed.

  (* ---------- pipelining ---------- *)
  Definition twoway_count (reqs : list (list N * N)) : nat :=
    length (filter (fun pq => match parse_request (fst pq) with Some r => negb (oneway r) | None => false end) reqs).

  Lemma session_length cfg reqs : length (session dispatch cfg reqs) = twoway_count reqs.
  Proof.
    unfold session, twoway_count. induction reqs as [|[pkg q] reqs IH]; [reflexivity|].
    cbn [flat_map filter fst snd]. rewrite app_length, IH. unfold serve_packet.
    destruct (parse_request pkg) as [r|]; [|reflexivity].
    rewrite count_exact. destruct (oneway r); reflexivity.
  Qed.

  Lemma interleave_perm {A} (ls : list (list A)) out : interleave ls out -> Permutation out (concat ls).
  Proof.
    induction 1 as [ls H|pre x l post out _ IH].
    - induction H as [|l ls -> _ IH]; [constructor|exact IH].
    - rewrite concat_app in *. cbn [concat] in *. cbn [app].
      etransitivity; [apply perm_skip; exact IH|]. apply Permutation_middle.
  Qed.

  (* whatever the interleaving of the handlers' writes, what arrives is - as a multiset - the union of the
     per-request replies, and there are as many replies as there are two-way requests *)
  Theorem pipelining cfg reqs out :
    interleave (map (fun pq => fst (serve_packet dispatch cfg (fst pq) (snd pq))) reqs) out ->
    Permutation out (session dispatch cfg reqs) /\ length out = twoway_count reqs.
  Proof.
    intros H. apply interleave_perm in H. unfold session. rewrite flat_map_concat_map.
    split; [exact H|]. rewrite (Permutation_length H), <- flat_map_concat_map. apply session_length.
  Qed.

  (* every reply in a pipelined session answers one of its requests, with that request's identity *)
  Theorem session_identity cfg reqs o p : In (o, p) (session dispatch cfg reqs) ->
    exists pkg q r, In (pkg, q) reqs /\ parse_request pkg = Some r /\
                    p_id p = q_id r /\ p_ver p = q_ver r /\ p_ptype p = q_ptype r.
  Proof.
    unfold session. rewrite in_flat_map. intros ([pkg q] & Hin & H). cbn [fst snd] in H.
    unfold serve_packet in H. destruct (parse_request pkg) as [r|] eqn:E; [|destruct H].
    exists pkg, q, r. split; [exact Hin|]. split; [exact E|]. eapply identity; exact H.
  Qed.

  (* TCP: the replies do not depend on how the request stream was cut into reads (C07) *)
  Theorem tcp_segmentation max cfg pkgs chunks queued : Forall (valid max) pkgs -> concat chunks = concat pkgs ->
    tcp_session dispatch max cfg chunks queued = session dispatch cfg (combine pkgs queued).
  Proof. intros Hv Hc. unfold tcp_session. rewrite (C07_reassembly max pkgs chunks Hv Hc). reflexivity. Qed.
End Proofs.

(* ---------- schedules of the handle-timeout race ---------- *)
Section Schedules.
  Variable r : request.
  Variable p : reply.   (* what Invoke computes for r when it is entered before the deadline *)
  Hypothesis p_ident : p_id p = q_id r /\ p_ver p = q_ver r /\ p_ptype p = q_ptype r.

  Definition tmo : reply := with_ret (base_reply r) 1 timeout_text.

  Lemma timeout_replies_twoway : oneway r = false -> timeout_replies r = [tmo].
  Proof. intros H. unfold timeout_replies. rewrite H. reflexivity. Qed.
  Lemma timeout_replies_oneway : oneway r = true -> timeout_replies r = [].
  Proof. intros H. unfold timeout_replies. rewrite H. reflexivity. Qed.

  (* invariant of every reachable state *)
  Definition hinv (s : hstate) : Prop :=
    (s_late s = true -> s_fired s = true /\ s_started s = true) /\
    (s_returned s = true -> s_started s = true) /\
    (forall l, s_picked s = Some l ->
       (s_returned s = true /\ ((l = [p] /\ s_late s = false) \/ (l = [late_reply r] /\ s_late s = true))) \/
       (l = timeout_replies r /\ s_fired s = true)) /\
    (forall w, s_written s = Some w -> exists l, s_picked s = Some l /\ (w = [] \/ w = l)) /\
    (forall w, s_written s = Some w -> oneway r = false -> exists l, s_picked s = Some l /\ w = l) /\
    (forall w, s_written s = Some w -> oneway r = true -> w = []).

  Lemma hinv_init : hinv hinit.
  Proof. unfold hinv, hinit; cbn. repeat split; intros; discriminate. Qed.

  Lemma hinv_step s l s' : hinv s -> hstep r p s l = Some s' -> hinv s'.
  Proof.
    intros (I0 & I1 & I2 & I3 & I4 & I5) H. destruct l; cbn [hstep] in H.
    - (* Start *)
      destruct (s_started s) eqn:E; [discriminate|]. inversion H; subst; clear H. unfold hinv; cbn.
      split; [intros F; auto|]. split; [auto|]. split; [|auto].
      intros l Hl. destruct (I2 l Hl) as [[R _]|X]; [|right; exact X].
      specialize (I1 R). congruence.
    - (* Return *)
      destruct (s_started s && negb (s_returned s)) eqn:E; [|discriminate]. inversion H; subst; clear H. unfold hinv; cbn.
      split; [intros F; destruct (I0 F); auto|]. split; [auto|]. split; [|auto].
      intros l Hl. destruct (I2 l Hl) as [[R _]|X]; [|right; exact X].
      rewrite R in E. rewrite andb_false_r in E. discriminate.
    - (* Fire *)
      destruct (s_fired s) eqn:E; [discriminate|]. inversion H; subst; clear H. unfold hinv; cbn.
      split; [intros F; destruct (I0 F); auto|]. split; [auto|]. split; [|auto].
      intros l Hl. destruct (I2 l Hl) as [X|[X _]]; [left; exact X|right; auto].
    - (* Wake *)
      destruct (s_picked s) eqn:E; [discriminate|]. destruct (s_returned s || s_fired s) eqn:E2; [|discriminate].
      inversion H; subst; clear H. unfold hinv; cbn.
      split; [exact I0|]. split; [exact I1|]. split; [|split; [|split]].
      + intros l Hl. inversion Hl; subst; clear Hl. destruct (s_returned s) eqn:R.
        * left. split; [reflexivity|]. destruct (s_late s); auto.
        * right. split; [reflexivity|]. cbn in E2. exact E2.
      + intros w Hw. destruct (I3 w Hw) as (l & Hl & _). discriminate.
      + intros w Hw. destruct (I3 w Hw) as (l & Hl & _). discriminate.
      + intros w Hw. destruct (I3 w Hw) as (l & Hl & _). discriminate.
    - (* Write *)
      destruct (s_picked s) as [x|] eqn:E; [|discriminate]. destruct (s_written s) eqn:E2; [discriminate|].
      inversion H; subst; clear H. unfold hinv; cbn.
      split; [exact I0|]. split; [exact I1|]. split; [exact I2|]. split; [|split].
      + intros w Hw. inversion Hw; subst; clear Hw. exists x. split; [reflexivity|]. destruct (_ =? _)%Z; auto.
      + intros w Hw W. inversion Hw; subst; clear Hw. exists x. split; [reflexivity|].
        unfold oneway in W. destruct (s_returned s); [rewrite W; reflexivity|reflexivity].
      + intros w Hw W. inversion Hw; subst; clear Hw. unfold oneway in W.
        destruct (s_returned s) eqn:R; [rewrite W; reflexivity|].
        destruct (I2 x eq_refl) as [[R' _]|[-> _]]; [congruence|].
        change (0 =? c_TARSONEWAY)%Z with false. cbv iota. apply timeout_replies_oneway. exact W.
  Qed.

  Lemma hinv_run ls : forall s s', hinv s -> hrun_labels r p s ls = Some s' -> hinv s'.
  Proof.
    induction ls as [|l ls IH]; intros s s' I H; cbn [hrun_labels] in H.
    - inversion H; subst. exact I.
    - destruct (hstep r p s l) as [s1|] eqn:E; [|discriminate]. eapply IH; [eapply hinv_step; eassumption|exact H].
  Qed.

  Lemma late_reply_ident : p_id (late_reply r) = q_id r /\ p_ver (late_reply r) = q_ver r /\ p_ptype (late_reply r) = q_ptype r.
  Proof. cbn. auto. Qed.

  (* every schedule: whatever has been written for a two-way request is exactly one reply - the result of Invoke
     (only if Invoke had returned), the queue-timeout answer of an Invoke that was entered after the deadline, or the
     timeout error (only if the deadline had passed) - and it carries the request's id, version and packet type *)
  Theorem schedules_twoway ls s : hrun_labels r p hinit ls = Some s -> oneway r = false ->
    forall w, s_written s = Some w ->
      exists x, w = [x] /\
                ((x = p /\ s_returned s = true /\ s_late s = false) \/
                 (x = late_reply r /\ s_returned s = true /\ s_fired s = true) \/
                 (x = tmo /\ s_fired s = true)) /\
                p_id x = q_id r /\ p_ver x = q_ver r /\ p_ptype x = q_ptype r.
  Proof.
    intros H W w Hw. destruct (hinv_run ls _ _ hinv_init H) as (I0 & _ & I2 & _ & I4 & _).
    destruct (I4 w Hw W) as (l & Hl & ->).
    destruct (I2 l Hl) as [[R [[-> L]|[-> L]]]|[-> F]].
    - exists p. split; [reflexivity|]. split; [left; auto|exact p_ident].
    - exists (late_reply r). split; [reflexivity|]. split; [right; left; destruct (I0 L); auto|exact late_reply_ident].
    - rewrite (timeout_replies_twoway W). exists tmo. split; [reflexivity|]. split; [right; right; auto|cbn; auto].
  Qed.

  (* every schedule: a one-way request is never answered *)
  Theorem schedules_oneway ls s : hrun_labels r p hinit ls = Some s -> oneway r = true ->
    forall w, s_written s = Some w -> w = [].
  Proof.
    intros H W w Hw. destruct (hinv_run ls _ _ hinv_init H) as (_ & _ & _ & _ & _ & I5). exact (I5 w Hw W).
  Qed.

  (* every schedule: at most one reply, ever *)
  Theorem schedules_at_most_one ls s : hrun_labels r p hinit ls = Some s ->
    forall w, s_written s = Some w -> (length w <= 1)%nat.
  Proof.
    intros H w Hw. destruct (hinv_run ls _ _ hinv_init H) as (_ & _ & I2 & I3 & _).
    destruct (I3 w Hw) as (l & Hl & [->| ->]); [cbn; lia|].
    destruct (I2 l Hl) as [[_ [[-> _]|[-> _]]]|[-> _]]; cbn; try lia.
    unfold timeout_replies. destruct (oneway r); cbn; lia.
  Qed.

  (* the dispatcher is not entered by an Invoke that starts after the deadline; that happens only if the deadline
     passed before Invoke was entered *)
  Theorem schedules_late ls s : hrun_labels r p hinit ls = Some s -> s_late s = true -> s_fired s = true /\ s_started s = true.
  Proof. intros H L. destruct (hinv_run ls _ _ hinv_init H) as (I0 & _). exact (I0 L). Qed.

  Lemma hstep_written_stable s l s' w : hstep r p s l = Some s' -> s_written s = Some w -> s_written s' = Some w.
  Proof.
    intros H Hw. destruct l; cbn [hstep] in H.
    - destruct (s_started s); [discriminate|]. inversion H; subst; exact Hw.
    - destruct (_ && _); [|discriminate]. inversion H; subst; exact Hw.
    - destruct (s_fired s); [discriminate|]. inversion H; subst; exact Hw.
    - destruct (s_picked s); [discriminate|]. destruct (_ || _); [|discriminate]. inversion H; subst; exact Hw.
    - destruct (s_picked s); [|discriminate]. rewrite Hw in H. discriminate.
  Qed.
  (* the written list never changes once set: the handler writes once *)
  Theorem schedules_write_once ls : forall s s' w, hrun_labels r p s ls = Some s' -> s_written s = Some w -> s_written s' = Some w.
  Proof.
    induction ls as [|l ls IH]; intros s s' w H Hw; cbn [hrun_labels] in H.
    - inversion H; subst; exact Hw.
    - destruct (hstep r p s l) as [s1|] eqn:E; [|discriminate]. eapply IH; [exact H|]. eapply hstep_written_stable; eassumption.
  Qed.

  (* progress: from every reachable state the handler can still finish - nothing the other parties do or fail to do
     blocks it (the deadline can always pass) *)
  Theorem schedules_progress ls s : hrun_labels r p hinit ls = Some s ->
    exists more s', hrun_labels r p s more = Some s' /\ s_written s' <> None.
  Proof.
    intros _. destruct (s_written s) as [w|] eqn:Ew.
    - exists [], s. split; [reflexivity|]. congruence.
    - destruct (s_picked s) as [x|] eqn:Ep.
      + exists [LWrite]. cbn [hrun_labels hstep]. rewrite Ep, Ew. eexists. split; [reflexivity|]. cbn. discriminate.
      + destruct (s_fired s) eqn:Ef.
        * exists [LWake; LWrite]. cbn [hrun_labels hstep]. rewrite Ep, Ef, orb_true_r. cbn [s_picked s_written]. rewrite Ew.
          eexists. split; [reflexivity|]. cbn. discriminate.
        * exists [LFire; LWake; LWrite]. cbn [hrun_labels hstep]. rewrite Ef. cbn [s_picked s_fired s_returned s_written].
          rewrite Ep, orb_true_r. cbn [s_picked s_written]. rewrite Ew. eexists. split; [reflexivity|]. cbn. discriminate.
  Qed.
End Schedules.

(* ---------- the bytes of a reply ---------- *)
Definition req_typed (r : request) : Prop :=
  fits 16 (q_ver r) = true /\ fits 8 (q_ptype r) = true /\ fits 32 (q_id r) = true.
Definition reply_typed (p : reply) : Prop :=
  fits 16 (p_ver p) = true /\ fits 8 (p_ptype p) = true /\ fits 32 (p_id p) = true /\
  fits 32 (p_mtype p) = true /\ fits 32 (p_ret p) = true.

Lemma rsp_body_shape p : is_tup p = false ->
  exists tail, reply_body p = w_int16 (p_ver p) 1 ++ w_int8 (p_ptype p) 2 ++ w_int32 (p_id p) 3 ++
                              w_int32 (p_mtype p) 4 ++ w_int32 (p_ret p) 5 ++ tail.
Proof. intros H. unfold reply_body. rewrite H. eexists. reflexivity. Qed.

Lemma tup_body_shape p : is_tup p = true ->
  exists tail, reply_body p = w_int16 (p_ver p) 1 ++ w_int8 (p_ptype p) 2 ++ w_int32 (p_mtype p) 3 ++
                              w_int32 (p_id p) 4 ++ tail.
Proof. intros H. unfold reply_body. rewrite H. eexists. reflexivity. Qed.

Lemma skipn4_reply p : skipn 4 (reply_bytes p) = reply_body p.
Proof. reflexivity. Qed.

(* the reply's bytes begin with the request's version, packet type and id, readable member by member - in both
   shapes (ResponsePacket; RequestPacket for TUP) *)
Theorem wire_identity p : reply_typed p -> wire_ident (reply_bytes p) = Some (p_ver p, p_ptype p, p_id p).
Proof.
  intros (Hv & Hp & Hi & Hm & Hr). unfold wire_ident. rewrite skipn4_reply.
  destruct (is_tup p) eqn:T.
  - destruct (tup_body_shape p T) as (tail & ->).
    rewrite roundtrip_int16 by (first [reflexivity|assumption]).
    rewrite roundtrip_int8 by (first [reflexivity|assumption]).
    unfold is_tup in T. rewrite T.
    rewrite roundtrip_int32 by (first [reflexivity|assumption]).
    rewrite roundtrip_int32 by (first [reflexivity|assumption]). reflexivity.
  - destruct (rsp_body_shape p T) as (tail & ->).
    rewrite roundtrip_int16 by (first [reflexivity|assumption]).
    rewrite roundtrip_int8 by (first [reflexivity|assumption]).
    unfold is_tup in T. rewrite T.
    rewrite roundtrip_int32 by (first [reflexivity|assumption]). reflexivity.
Qed.

(* a reply in the ResponsePacket shape carries its return code *)
Theorem wire_ret_rsp p : reply_typed p -> is_tup p = false -> wire_ret (reply_bytes p) = Some (p_ret p).
Proof.
  intros (Hv & Hp & Hi & Hm & Hr) T. unfold wire_ret. rewrite skipn4_reply.
  destruct (rsp_body_shape p T) as (tail & ->).
  rewrite roundtrip_int16 by (first [reflexivity|assumption]). unfold is_tup in T. rewrite T.
  rewrite roundtrip_int8 by (first [reflexivity|assumption]).
  rewrite roundtrip_int32 by (first [reflexivity|assumption]).
  rewrite roundtrip_int32 by (first [reflexivity|assumption]).
  rewrite roundtrip_int32 by (first [reflexivity|assumption]). reflexivity.
Qed.

(* a TUP-versioned reply has no return code on the wire, whatever the code was *)
Theorem wire_ret_tup p : reply_typed p -> is_tup p = true -> wire_ret (reply_bytes p) = None.
Proof.
  intros (Hv & Hp & Hi & Hm & Hr) T. unfold wire_ret. rewrite skipn4_reply.
  destruct (tup_body_shape p T) as (tail & ->).
  rewrite roundtrip_int16 by (first [reflexivity|assumption]). unfold is_tup in T. rewrite T. reflexivity.
Qed.

(* the reply is a well-formed frame: its 4-byte header is its length *)
Theorem wire_frame p : 4 + N.of_nat (length (reply_body p)) < 4294967296 ->
  hdr (reply_bytes p) = Some (N.of_nat (length (reply_bytes p))).
Proof.
  intros H. unfold reply_bytes. cbv zeta.
  change (Invoke.be32 (4 + N.of_nat (length (reply_body p)))) with (FramingProofs.be32 (4 + N.of_nat (length (reply_body p)))).
  rewrite hdr_be32 by exact H. f_equal. rewrite app_length. cbn [length FramingProofs.be32]. lia.
Qed.

(* ---------- complete decoding of replies without payload ---------- *)
Lemma fuel_shape n : exists f, (4 * n + 64)%nat = S (S (S (S (S (S (S (S (S (S (S (S (S (S (S (S (S (S (S (S f))))))))))))))))))).
Proof. exists (4 * n + 44)%nat. lia. Qed.

Lemma empty_bytes_member6 f e rest :
  dec_var (S (S (S (S f)))) e 6 true (TVec TI8) (VBytes [])
    ((head tSIMPLE 6 ++ head tBYTE 0 ++ w_int32 (Z.of_nat (@length N [])) 0 ++ []) ++ rest) = DOk (VBytes []) rest.
Proof.
  (* the repaired ReadSliceInt8 compares the length (0) with the bytes left before it assigns the empty vector *)
  assert (E : read_slice 0 rest = Some ([], rest)).
  { unfold read_slice. change (0 <? 0)%Z with false. cbv iota.
    destruct (Z.of_nat (length rest) <? 0)%Z eqn:E; [lia|reflexivity]. }
  change (dec_var (S (S (S (S f)))) e 6 true (TVec TI8) (VBytes [])
            ((head tSIMPLE 6 ++ head tBYTE 0 ++ w_int32 (Z.of_nat (@length N [])) 0 ++ []) ++ rest))
    with (match read_slice 0 rest with None => @DErr val | Some (s, r3) => DOk (bytes_val TI8 s) r3 end).
  now rewrite E.
Qed.
Lemma empty_map_member7 f e rest :
  dec_var (S (S (S (S f)))) e 7 true (TMap TStr TStr) (VMap [])
    ((head tMAP 7 ++ w_int32 (Z.of_nat (@length (val*val) [])) 0 ++ []) ++ rest) = DOk (VMap []) rest.
Proof.
  (* the repaired generated code compares the count (0) with half the bytes left before the loop *)
  change (dec_var (S (S (S (S f)))) e 7 true (TMap TStr TStr) (VMap [])
            ((head tMAP 7 ++ w_int32 (Z.of_nat (@length (val*val) [])) 0 ++ []) ++ rest))
    with (if (0 <? 0)%Z || (Z.of_nat (length rest) / 2 <? 0)%Z then @DErr val else DOk (VMap []) rest).
  replace ((0 <? 0)%Z || (Z.of_nat (length rest) / 2 <? 0)%Z) with false; [reflexivity|].
  symmetry. apply orb_false_iff. split; [reflexivity|]. apply Z.ltb_ge. apply Z.div_pos; lia.
Qed.

Ltac scalar_step :=
  cbn [dec_fields ftag freq fty fdef tl];
  rewrite scalar_member_roundtrip by (first [reflexivity | assumption]).

Lemma rsp_decode p : reply_typed p -> is_tup p = false -> p_buf p = [] -> p_status p = [] -> p_ctx p = [] ->
  N.of_nat (length (p_desc p)) < 4294967296 ->
  decode env0 sid_requestf_ResponsePacket (reply_body p) = DOk (rsp_val p) [].
Proof.
  intros (Hv & Hp & Hi & Hm & Hr) T Hb Hs Hc Hd.
  unfold reply_body. rewrite T. unfold decode, decode_into.
  destruct (fuel_shape (length (encode env0 sid_requestf_ResponsePacket (rsp_val p)))) as (f & ->).
  unfold rsp_val. rewrite Hb, Hs, Hc.
  cbn [encode fields_of nth env0 sid_requestf_ResponsePacket schema_requestf_ResponsePacket].
  cbn [ftag freq fty fdef].
  match goal with |- context [reset_default ?a ?b ?c ?d] =>
    replace (reset_default a b c d)
      with (VStruct [VInt 0; VInt 0; VInt 0; VInt 0; VInt 0; VBytes []; VMap []; VStr []; VMap []]) by reflexivity end.
  cbn [enc_var negb andb].
  unfold schema_requestf_ResponsePacket.
  do 5 scalar_step.
  cbn [dec_fields ftag freq fty fdef tl].
  rewrite empty_bytes_member6. rewrite empty_map_member7.
  destruct (p_desc p) as [|c s] eqn:Ed.
  - reflexivity.
  - cbn [scalar_is_default bytes_eqb list_eqb]. cbn [app].
    rewrite app_nil_r.
    rewrite <- (app_nil_r (w_scalar TStr (VStr (c :: s)) 8)).
    rewrite scalar_member_roundtrip by (first [reflexivity | exact Hd]).
    reflexivity.
Qed.

Lemma tup_decode p : reply_typed p -> is_tup p = true -> p_buf p = [] -> p_status p = [] -> p_ctx p = [] ->
  decode env0 sid_requestf_RequestPacket (reply_body p) = DOk (tup_val p) [].
Proof.
  intros (Hv & Hp & Hi & Hm & Hr) T Hb Hs Hc.
  unfold reply_body. rewrite T. unfold decode, decode_into.
  destruct (fuel_shape (length (encode env0 sid_requestf_RequestPacket (tup_val p)))) as (f & ->).
  unfold tup_val. rewrite Hb, Hs, Hc.
  cbn [encode fields_of nth env0 sid_requestf_RequestPacket schema_requestf_RequestPacket].
  cbn [ftag freq fty fdef].
  match goal with |- context [reset_default ?a ?b ?c ?d] =>
    replace (reset_default a b c d)
      with (VStruct [VInt 0; VInt 0; VInt 0; VInt 0; VStr []; VStr []; VBytes []; VInt 0; VMap []; VMap []]) by reflexivity end.
  cbn [enc_var negb andb].
  unfold schema_requestf_RequestPacket.
  do 4 scalar_step.
  reflexivity.
Qed.

Lemma first_i16_body p : reply_typed p -> first_i16 (reply_body p) = Some (p_ver p).
Proof.
  intros (Hv & _). unfold first_i16.
  destruct (is_tup p) eqn:T; [destruct (tup_body_shape p T) as (tail & ->)|destruct (rsp_body_shape p T) as (tail & ->)];
    rewrite roundtrip_int16 by (first [reflexivity|assumption]); reflexivity.
Qed.

(* every reply without payload - errors of the implementation, of the dispatcher, queue and handle timeouts, pings -
   decodes from its bytes to itself (ResponsePacket shape: code and message included), or to itself without code and
   message (RequestPacket shape of a TUP-versioned reply) *)
Theorem bodyless_reply_decodes p : reply_typed p -> p_buf p = [] -> p_status p = [] -> p_ctx p = [] ->
  4 + N.of_nat (length (reply_body p)) < 4294967296 -> N.of_nat (length (p_desc p)) < 4294967296 ->
  decode_reply (reply_bytes p) = Some (is_tup p, if is_tup p then with_ret p 0 [] else p).
Proof.
  intros Ht Hb Hs Hc Hl Hd. unfold decode_reply. rewrite (wire_frame p Hl), N.eqb_refl, skipn4_reply.
  rewrite (first_i16_body p Ht).
  destruct (is_tup p) eqn:T.
  - unfold is_tup in T. rewrite T. rewrite (tup_decode p Ht T Hb Hs Hc). destruct p; reflexivity.
  - unfold is_tup in T. rewrite T. rewrite (rsp_decode p Ht T Hb Hs Hc Hd). destruct p; reflexivity.
Qed.

Section Served.
  Variable dispatch : request -> hrun.
  (* codes are Go int32 values *)
  Definition codes_typed (r : request) : Prop :=
    forall c m, h_res (dispatch r) = HFail (TarsErr c m) -> fits 32 c = true.

  Lemma served_typed cfg r queued o p : req_typed r -> codes_typed r ->
    In (o, p) (fst (server_step dispatch cfg r queued)) -> reply_typed p.
  Proof.
    intros (Hv & Hp & Hi) Hc. unfold server_step.
    destruct (invoke_cases dispatch r queued) as [[Q E]|[(Q & P & E)|(D & p' & E & Hp')]]; rewrite E;
      destruct (oneway r); try (intros []); destruct (_ && _); cbn [In fst]; intros [X|[]]; inversion X; subst;
      unfold reply_typed; cbn; try (repeat split; assumption).
    destruct (h_res (dispatch r)) as [buf st cx|e] eqn:He; subst; cbn; repeat split; try assumption; try reflexivity.
    destruct e; cbn; try reflexivity. eapply Hc. exact He.
  Qed.

  (* end to end at the byte level: whatever is written for a request begins with that request's version, packet
     type and id *)
  Theorem served_wire_identity cfg r queued o p : req_typed r -> codes_typed r ->
    In (o, p) (fst (server_step dispatch cfg r queued)) ->
    wire_ident (reply_bytes p) = Some (q_ver r, q_ptype r, q_id r).
  Proof.
    intros Hr Hc Hin. rewrite wire_identity by (eapply served_typed; eassumption).
    destruct (identity dispatch cfg r queued o p Hin) as (-> & -> & ->). reflexivity.
  Qed.

  (* the error code reaches the caller's bytes for TARS- and JSON-versioned requests (any version but TUP) *)
  Theorem served_wire_error cfg r queued e : req_typed r -> codes_typed r -> (q_ver r =? c_TUPVERSION)%Z = false ->
    dispatched r queued = true -> h_res (dispatch r) = HFail e -> overruns dispatch cfg r queued = false -> oneway r = false ->
    exists p, map snd (fst (server_step dispatch cfg r queued)) = [p] /\ wire_ret (reply_bytes p) = Some (err_code e).
  Proof.
    intros Hr Hc Hv D He Ho W. destruct (error_mapping dispatch cfg r queued e D He Ho W) as [E _].
    eexists. rewrite E. split; [reflexivity|].
    rewrite wire_ret_rsp; [reflexivity| |exact Hv].
    eapply served_typed; [exact Hr|exact Hc|]. rewrite E. left. reflexivity.
  Qed.

  (* the error's code and message, decoded from the reply's bytes (every version but TUP); for TUP the bytes decode to a
     reply without code and message *)
  Theorem served_error_on_wire cfg r queued e : req_typed r -> codes_typed r ->
    dispatched r queued = true -> h_res (dispatch r) = HFail e -> overruns dispatch cfg r queued = false -> oneway r = false ->
    N.of_nat (length (err_msg e)) < 4294967296 ->
    4 + N.of_nat (length (reply_body (with_ret (base_reply r) (err_code e) (err_msg e)))) < 4294967296 ->
    exists p, map snd (fst (server_step dispatch cfg r queued)) = [p] /\ p_ret p = err_code e /\ p_desc p = err_msg e /\
              decode_reply (reply_bytes p) = Some (is_tup p, if is_tup p then with_ret p 0 [] else p).
  Proof.
    intros Hr Hc D He Ho W Hm Hl. destruct (error_mapping dispatch cfg r queued e D He Ho W) as [E _].
    eexists. rewrite E. split; [reflexivity|]. split; [reflexivity|]. split; [reflexivity|].
    apply bodyless_reply_decodes; try reflexivity; try assumption.
    eapply served_typed; [exact Hr|exact Hc|]. rewrite E. left. reflexivity.
  Qed.
End Served.

(* the full-strength wire statement of the error clause is false of the model (hence of the code): a TUP caller
   cannot see the code *)
Definition error_code_on_wire_statement : Prop :=
  forall p, reply_typed p -> wire_ret (reply_bytes p) = Some (p_ret p).
Definition tup_error_witness : reply :=
  {| p_ver := c_TUPVERSION; p_ptype := 0; p_id := 7; p_mtype := 0; p_ret := 78; p_buf := []; p_status := [];
     p_desc := raw "boom"%hex; p_ctx := [] |}.
Theorem error_code_on_wire_refuted :
  exists p, reply_typed p /\ p_ret p <> 0%Z /\ wire_ret (reply_bytes p) = None /\
            decode_reply (reply_bytes p) = Some (true, with_ret p 0 []).
Proof. exists tup_error_witness. vm_compute. repeat split; congruence. Qed.

(* ---------- the schedules, instantiated with what Invoke computes ---------- *)
Section ServedSchedules.
  Variable dispatch : request -> hrun.
  Definition inv_reply (r : request) (queued : N) : reply := snd (fst (fst (invoke dispatch r queued))).

  Lemma inv_reply_ident r queued :
    p_id (inv_reply r queued) = q_id r /\ p_ver (inv_reply r queued) = q_ver r /\ p_ptype (inv_reply r queued) = q_ptype r.
  Proof.
    unfold inv_reply. destruct (invoke dispatch r queued) as [[[o p] n] d] eqn:E. cbn. eapply invoke_identity; exact E.
  Qed.

  Theorem served_schedules_twoway r queued ls s :
    hrun_labels r (inv_reply r queued) hinit ls = Some s -> oneway r = false ->
    forall w, s_written s = Some w ->
      exists x, w = [x] /\
                ((x = inv_reply r queued /\ s_returned s = true /\ s_late s = false) \/
                 (x = late_reply r /\ s_returned s = true /\ s_fired s = true) \/
                 (x = handle_timeout_reply r /\ s_fired s = true)) /\
                p_id x = q_id r /\ p_ver x = q_ver r /\ p_ptype x = q_ptype r.
  Proof. intros H W. exact (schedules_twoway r (inv_reply r queued) (inv_reply_ident r queued) ls s H W). Qed.

  (* the function server_step is the outcome of one of the schedules: Invoke first when it is the faster one,
     the deadline first otherwise *)
  Theorem function_is_a_schedule cfg r queued : 0 < c_ht cfg ->
    exists ls s, hrun_labels r (inv_reply r queued) hinit ls = Some s /\ s_late s = false /\
                 s_written s = Some (map snd (fst (server_step dispatch cfg r queued))).
  Proof.
    intros Hht. unfold server_step, inv_reply.
    destruct (invoke dispatch r queued) as [[[o p] n] dur] eqn:E. cbn [fst snd].
    destruct (oneway r) eqn:W.
    - exists [LStart; LReturn; LWake; LWrite]. eexists. split; [reflexivity|]. split; [reflexivity|].
      cbn. unfold oneway in W. rewrite W. reflexivity.
    - destruct ((0 <? c_ht cfg) && (c_ht cfg <=? dur)) eqn:O.
      + exists [LStart; LFire; LWake; LWrite; LReturn]. eexists. split; [reflexivity|]. split; [reflexivity|].
        cbn. unfold timeout_replies. rewrite W. reflexivity.
      + exists [LStart; LReturn; LWake; LWrite]. eexists. split; [reflexivity|]. split; [reflexivity|].
        cbn. unfold oneway in W. rewrite W. reflexivity.
  Qed.
End ServedSchedules.

(* ---------- concrete instances (no implication above is vacuous) ---------- *)
Definition ex_req : request :=
  {| q_ver := c_TARSVERSION; q_ptype := c_TARSNORMAL; q_mtype := 0; q_id := (-2147483648)%Z;
     q_servant := raw "VerifApp.C10Server.TcpObj"%hex; q_func := raw "act"%hex; q_buf := [16; 1; 44];
     q_timeout := 100; q_ctx := [(VStr (raw "k"%hex), VStr (raw "v"%hex))]; q_status := [] |}.
Definition ex_pkg : list N :=
  let b := encode env0 sid_requestf_RequestPacket (val_of_req ex_req) in Invoke.be32 (4 + N.of_nat (length b)) ++ b.
Definition ex_dispatch (r : request) : hrun := {| h_res := HFail (TarsErr 78 (raw "boom"%hex)); h_dur := 30 |}.
Definition ex_cfg : config := {| c_pool := 1; c_ht := 250; c_udp := false |}.

Example ex_parses : parse_request ex_pkg = Some ex_req.
Proof. vm_compute. reflexivity. Qed.
Example ex_typed : req_typed ex_req /\ codes_typed ex_dispatch ex_req.
Proof. split; [vm_compute; auto|]. intros c m H. inversion H. reflexivity. Qed.
Example ex_valid : valid 10485760 ex_pkg.
Proof. vm_compute. repeat split; try reflexivity; try lia; discriminate. Qed.
(* an error reply, end to end: bytes in, bytes out, decoded again *)
Example ex_error_reply :
  map (fun op => decode_reply (reply_bytes (snd op))) (fst (serve_packet ex_dispatch ex_cfg ex_pkg 0)) =
  [Some (false, with_ret (base_reply ex_req) 78 (raw "boom"%hex))] /\ snd (serve_packet ex_dispatch ex_cfg ex_pkg 0) = 1%nat.
Proof. vm_compute. split; reflexivity. Qed.
(* the same request queued for longer than its own timeout: queue-timeout code, not executed *)
Example ex_queue_timeout :
  map (fun op => (fst op, p_ret (snd op))) (fst (serve_packet ex_dispatch ex_cfg ex_pkg 100)) =
  [(FromQueueTimeout, c_TARSSERVERQUEUETIMEOUT)] /\ snd (serve_packet ex_dispatch ex_cfg ex_pkg 100) = 0%nat /\
  map fst (fst (serve_packet ex_dispatch ex_cfg ex_pkg 99)) = [FromHandler].
Proof. vm_compute. repeat split; reflexivity. Qed.
(* the handler overruns the handle timeout: exactly at the limit counts as overrun in the model *)
Example ex_handle_timeout :
  map fst (fst (serve_packet (fun _ => {| h_res := HDone [] [] []; h_dur := 250 |}) ex_cfg ex_pkg 0)) = [FromHandleTimeout] /\
  map fst (fst (serve_packet (fun _ => {| h_res := HDone [] [] []; h_dur := 249 |}) ex_cfg ex_pkg 0)) = [FromHandler].
Proof. vm_compute. split; reflexivity. Qed.
Example ex_overruns : overruns (fun _ => {| h_res := HDone [] [] []; h_dur := 250 |}) ex_cfg ex_req 0 = true /\
                      overruns ex_dispatch ex_cfg ex_req 0 = false /\ dispatched ex_req 0 = true /\ oneway ex_req = false.
Proof. vm_compute. repeat split. Qed.
Definition ex_ping : request :=
  {| q_ver := c_JSONVERSION; q_ptype := c_TARSNORMAL; q_mtype := 0; q_id := 9; q_servant := []; q_func := ping_name;
     q_buf := []; q_timeout := 3000; q_ctx := []; q_status := [] |}.
Example ex_ping_hyps : is_ping ex_ping = true /\ queue_expired ex_ping 2999 = false /\ queue_expired ex_ping 3000 = true /\
                       is_ping ex_req = false.
Proof. vm_compute. repeat split. Qed.
Example ex_queue_hyps : (0 < q_timeout ex_req)%Z /\ (q_timeout ex_req <= Z.of_N 100)%Z.
Proof. vm_compute. split; [reflexivity|discriminate]. Qed.
(* two handlers' replies reaching the socket in the other order *)
Example ex_interleave : interleave [[1; 2]; [3]] [3; 1; 2].
Proof.
  apply (il_cons [[1; 2]] 3 [] []). apply (il_cons [] 1 [2] [[]]). apply (il_cons [] 2 [] [[]]).
  apply il_nil. repeat constructor.
Qed.
(* the two schedules of a real race end differently, both within the theorem *)
Example ex_race :
  option_map s_written (hrun_labels ex_req (base_reply ex_req) hinit [LStart; LFire; LReturn; LWake; LWrite]) = Some (Some [base_reply ex_req]) /\
  option_map s_written (hrun_labels ex_req (base_reply ex_req) hinit [LStart; LFire; LWake; LReturn; LWrite]) = Some (Some [handle_timeout_reply ex_req]) /\
  (* the goroutine running Invoke is held back beyond the deadline: queue-timeout answer or timeout error *)
  option_map s_written (hrun_labels ex_req (base_reply ex_req) hinit [LFire; LStart; LReturn; LWake; LWrite]) = Some (Some [late_reply ex_req]) /\
  option_map s_written (hrun_labels ex_req (base_reply ex_req) hinit [LFire; LWake; LWrite; LStart; LReturn]) = Some (Some [handle_timeout_reply ex_req]).
Proof. vm_compute. repeat split; reflexivity. Qed.
(* the same schedules for a one-way request: nothing is written, also when the handler wakes before Invoke has started *)
Definition ex_oneway : request :=
  {| q_ver := 1; q_ptype := c_TARSONEWAY; q_mtype := 0; q_id := 5; q_servant := []; q_func := raw "act"%hex;
     q_buf := []; q_timeout := 0; q_ctx := []; q_status := [] |}.
Example ex_oneway_schedules :
  option_map s_written (hrun_labels ex_oneway (base_reply ex_oneway) hinit [LFire; LWake; LWrite]) = Some (Some []) /\
  option_map s_written (hrun_labels ex_oneway (base_reply ex_oneway) hinit [LStart; LFire; LWake; LWrite; LReturn]) = Some (Some []) /\
  option_map s_written (hrun_labels ex_oneway (base_reply ex_oneway) hinit [LStart; LReturn; LWake; LWrite]) = Some (Some []).
Proof. vm_compute. repeat split; reflexivity. Qed.
Example ex_bodyless_hyps :
  let p := with_ret (base_reply ex_req) 78 (raw "boom"%hex) in
  reply_typed p /\ p_buf p = [] /\ p_status p = [] /\ p_ctx p = [] /\
  4 + N.of_nat (length (reply_body p)) < 4294967296 /\ N.of_nat (length (p_desc p)) < 4294967296.
Proof. vm_compute. repeat split. Qed.

(* ---------- a whole connection under a handle timeout: every request has its own handler, its own goroutine running
   Invoke and its own deadline; each of them runs under any schedule, and the handlers' writes reach the socket in any
   interleaving ---------- *)
Section ConnectionSchedules.
  Variable dispatch : request -> hrun.

  (* one handler: the request, its queueing time, the schedule, the state it ends in, what it has written *)
  Definition handler_run : Type := (request * N * list hlabel * hstate * list reply)%type.
  Definition run_ok (t : handler_run) : Prop :=
    let '(r, q, ls, s, w) := t in
    hrun_labels r (inv_reply dispatch r q) hinit ls = Some s /\ s_written s = Some w.
  Definition run_request (t : handler_run) : request := let '(r, _, _, _, _) := t in r.
  Definition run_written (t : handler_run) : list reply := let '(_, _, _, _, w) := t in w.

  Lemma run_written_length t : run_ok t -> length (run_written t) = if oneway (run_request t) then 0%nat else 1%nat.
  Proof.
    destruct t as [[[[r q] ls] s] w]. cbn. intros [H Hw]. destruct (oneway r) eqn:W.
    - rewrite (schedules_oneway r _ ls s H W w Hw). reflexivity.
    - destruct (served_schedules_twoway dispatch r q ls s H W w Hw) as (x & -> & _). reflexivity.
  Qed.

  Theorem connection_schedules (ts : list handler_run) (out : list reply) :
    Forall run_ok ts -> interleave (map run_written ts) out ->
    length out = length (filter (fun t => negb (oneway (run_request t))) ts) /\
    forall x, In x out -> exists t, In t ts /\ oneway (run_request t) = false /\
                                    p_id x = q_id (run_request t) /\ p_ver x = q_ver (run_request t) /\
                                    p_ptype x = q_ptype (run_request t).
  Proof.
    intros Hok Hil. apply interleave_perm in Hil. split.
    - rewrite (Permutation_length Hil). clear Hil. induction Hok as [|t ts Ht _ IH]; [reflexivity|].
      cbn [map concat filter]. rewrite app_length, IH, (run_written_length t Ht).
      destruct (oneway (run_request t)); reflexivity.
    - intros x Hx. apply (Permutation_in _ Hil) in Hx. apply in_concat in Hx. destruct Hx as (w & Hw & Hxw).
      apply in_map_iff in Hw. destruct Hw as (t & <- & Ht). exists t. split; [exact Ht|].
      rewrite Forall_forall in Hok. specialize (Hok t Ht).
      destruct t as [[[[r q] ls] s] w]. cbn in *. destruct Hok as [H Hw]. destruct (oneway r) eqn:W.
      + rewrite (schedules_oneway r _ ls s H W w Hw) in Hxw. destruct Hxw.
      + destruct (served_schedules_twoway dispatch r q ls s H W w Hw) as (y & -> & _ & Hid).
        destruct Hxw as [<-|[]]. split; [reflexivity|exact Hid].
  Qed.
End ConnectionSchedules.
