(* C10 proofs about the model Rpc/Invoke.v *)
From Coq Require Import List NArith ZArith Bool Arith Lia.
From TarsV Require Import Gen.Consts Base.Hex Codec.GenCodec Rpc.Invoke.
Import ListNotations.
Open Scope N_scope.

Section Proofs.
  Variable dispatch : request -> hrun.

  Lemma count_exact cfg r queued :
    length (replies dispatch cfg r queued) = if oneway r then 0%nat else 1%nat.
  Proof.
    unfold replies, server_step. destruct (invoke dispatch r queued) as [[[o p] n] dur].
    destruct (oneway r); [reflexivity|].
    destruct ((0 <? c_ht cfg) && (c_ht cfg <=? dur)); reflexivity.
  Qed.
End Proofs.
