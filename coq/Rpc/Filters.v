(* C01 model, part 1: filter selection and chaining on either side of a call
   (tars/servant.go TarsInvoke, tars/tarsprotocol.go Invoke, tars/filter.go getMiddleware*Filter).

   A computation is a state transformer over the event log; the wrapped call ([inner]: doInvoke on the
   client, Dispatch on the server) and every filter are computations. The arguments a filter hands to its
   continuation are implicit: a pass-through filter hands on exactly what it received, so the continuation
   is the same computation. Selection mirrors the code:
     a registered legacy single filter wins; otherwise a non-empty middleware chain (first registered
     outermost: cf = m0 (m1 (... (mk base)))); otherwise every pre filter, the call, every post filter,
     the results of pre and post filters being ignored (logged) and the call's result returned. *)
From Coq Require Import List.
Import ListNotations.

Section Filters.
  Variable Ev : Type.      (* events *)
  Variable R : Type.       (* result of the wrapped call (error or nil, plus the packets it filled in) *)
  Variable E : Type.       (* what a pre/post filter returns *)

  Definition log := list Ev.
  Definition comp (A : Type) := log -> A * log.
  Definition mw := comp R -> comp R.          (* legacy filter applied to the call / one middleware applied to next *)

  Record filters := { f_legacy : option mw; f_mws : list mw; f_pres : list (comp E); f_posts : list (comp E) }.

  (* getMiddlewareClientFilter / getMiddlewareServerFilter: for i := len-1 .. 0 { cf = cfms[i](cf) } *)
  Fixpoint chain (ms : list mw) (inner : comp R) : comp R :=
    match ms with [] => inner | m :: r => m (chain r inner) end.

  (* pre / post filter loops: each is called in order; its result is only logged *)
  Fixpoint run_each (fs : list (comp E)) (s : log) : log :=
    match fs with [] => s | f :: r => run_each r (snd (f s)) end.

  Definition run (F : filters) (inner : comp R) : comp R :=
    match f_legacy F with
    | Some f => f inner
    | None =>
        match f_mws F with
        | _ :: _ => chain (f_mws F) inner
        | [] => fun s => let s1 := run_each (f_pres F) s in
                         let '(r, s2) := inner s1 in
                         (r, run_each (f_posts F) s2)
        end
    end.

  (* ---- pass-through filters ---- *)
  (* a legacy filter / middleware that does something of its own before ([a]) and after ([b]) and calls
     its continuation exactly once with unchanged arguments, returning the continuation's result *)
  Definition pass_mw (a b : list Ev) : mw :=
    fun k s => let '(r, s1) := k (s ++ a) in (r, s1 ++ b).
  (* a pre/post filter that does something of its own, does not call the dispatcher / invoker and does not
     touch the packets; it may return anything ([x]): the code ignores it *)
  Definition pass_pp (a : list Ev) (x : E) : comp E := fun s => (x, s ++ a).

  (* a registered set of pass-through filters: the descriptions (own events) in registration order *)
  Record pfilters := { p_legacy : option (list Ev * list Ev); p_mws : list (list Ev * list Ev);
                       p_pres : list (list Ev * E); p_posts : list (list Ev * E) }.
  Definition filters_of (P : pfilters) : filters :=
    {| f_legacy := option_map (fun ab => pass_mw (fst ab) (snd ab)) (p_legacy P);
       f_mws := map (fun ab => pass_mw (fst ab) (snd ab)) (p_mws P);
       f_pres := map (fun ax => pass_pp (fst ax) (snd ax)) (p_pres P);
       f_posts := map (fun ax => pass_pp (fst ax) (snd ax)) (p_posts P) |}.

  (* what the selected filters append before and after the call *)
  Definition before (P : pfilters) : list Ev :=
    match p_legacy P with
    | Some (a, _) => a
    | None => match p_mws P with
              | _ :: _ => concat (map fst (p_mws P))
              | [] => concat (map fst (p_pres P))
              end
    end.
  Definition after (P : pfilters) : list Ev :=
    match p_legacy P with
    | Some (_, b) => b
    | None => match p_mws P with
              | _ :: _ => concat (rev (map snd (p_mws P)))
              | [] => concat (map fst (p_posts P))
              end
    end.
End Filters.

Arguments f_legacy {Ev R E}. Arguments f_mws {Ev R E}. Arguments f_pres {Ev R E}. Arguments f_posts {Ev R E}.
Arguments Build_filters {Ev R E}. Arguments chain {Ev R}. Arguments run_each {Ev E}. Arguments run {Ev R E}.
Arguments pass_mw {Ev R}. Arguments pass_pp {Ev E}.
Arguments p_legacy {Ev E}. Arguments p_mws {Ev E}. Arguments p_pres {Ev E}. Arguments p_posts {Ev E}.
Arguments Build_pfilters {Ev E}. Arguments filters_of {Ev} R {E}. Arguments before {Ev E}. Arguments after {Ev E}.

(* ---- recording filters: what the harness registers ---- *)
Inductive fkind := KLegacy | KMw | KPre | KPost.
Inductive fev := FIn (k : fkind) (i : nat) | FOut (k : fkind) (i : nat).

(* registration: legacy filter registered or not, number of middlewares, of pre filters, of post filters *)
Record fconf := { c_legacy : bool; c_mws : nat; c_pres : nat; c_posts : nat }.

Section Recording.
  Variable Ev : Type.
  Variable inj : fev -> Ev.        (* tags the event with the side *)
  Variable E : Type.
  Variable nil_err : E.

  Definition recording (c : fconf) : pfilters Ev E :=
    {| p_legacy := if c_legacy c then Some ([inj (FIn KLegacy 0)], [inj (FOut KLegacy 0)]) else None;
       p_mws := map (fun i => ([inj (FIn KMw i)], [inj (FOut KMw i)])) (seq 0 (c_mws c));
       p_pres := map (fun i => ([inj (FIn KPre i)], nil_err)) (seq 0 (c_pres c));
       p_posts := map (fun i => ([inj (FIn KPost i)], nil_err)) (seq 0 (c_posts c)) |}.

  (* the filters that see the call, in the order in which they see it (the others are shadowed) *)
  Definition expected_before (c : fconf) : list Ev :=
    if c_legacy c then [inj (FIn KLegacy 0)]
    else match c_mws c with
         | S _ => map (fun i => inj (FIn KMw i)) (seq 0 (c_mws c))
         | O => map (fun i => inj (FIn KPre i)) (seq 0 (c_pres c))
         end.
  Definition expected_after (c : fconf) : list Ev :=
    if c_legacy c then [inj (FOut KLegacy 0)]
    else match c_mws c with
         | S _ => map (fun i => inj (FOut KMw i)) (rev (seq 0 (c_mws c)))
         | O => map (fun i => inj (FIn KPost i)) (seq 0 (c_posts c))
         end.
End Recording.
Arguments recording {Ev} inj {E}. Arguments expected_before {Ev}. Arguments expected_after {Ev}.
