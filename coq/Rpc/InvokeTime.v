(* C10 model with time as data. The model Rpc/Invoke.v takes the queueing time and the handler's running time as
   abstract inputs; here a request's life is a record of timestamps in nanoseconds, and the quantities the code
   computes from clocks are computed from them, instruction by instruction:
     transport (tcphandler/udphandler.getConnContext):  recvPkgTs := time.Now().UnixNano()/1e6          at t_arr
     handler start (TarsServer.invoke):                 invokeCtx, _ := WithTimeout(ctx, HandleTimeout)  at t_hdl
     Protocol.Invoke:  now := time.Now().UnixNano()/1e6; sub := now - recvPkgTs;
                       timeout := ITimeout - sub; ctx := WithTimeout(ctx, timeout ms); select on ctx.Done()   at t_sel
   and, with a handle timeout, the race between the goroutine running Invoke, the deadline t_hdl + HandleTimeout and
   the handler (its wake-up and its write may each be delayed).  Model only; proofs in InvokeTimeProofs.v. *)
From Coq Require Import List NArith ZArith Bool Arith.
From TarsV Require Import Gen.Consts Base.Hex Codec.GenCodec Rpc.Invoke.
Import ListNotations.
Open Scope N_scope.

Definition ns_per_ms : N := 1000000.
Definition ms_of (t : N) : N := t / ns_per_ms.            (* time.Now().UnixNano() / 1e6 *)

Record stamps := {
  t_arr : N;     (* the packet has been read off the socket: getConnContext stamps recvPkgTs *)
  t_hdl : N;     (* the handler starts (a worker is free / the goroutine runs); invokeCtx is created here *)
  t_sel : N;     (* Protocol.Invoke reads the clock, derives its context and passes the select on ctx.Done() *)
  d_run : N;     (* time the rest of Invoke takes (dispatch included) *)
  d_wake : N;    (* delay between the handler becoming runnable (Invoke returned or deadline passed) and its waking *)
  d_write : N }. (* delay between the handler's waking and its reading the packet type / writing *)

Definition stamps_ok (st : stamps) : Prop := t_arr st <= t_hdl st /\ t_hdl st <= t_sel st.

Definition recv_stamp (st : stamps) : N := ms_of (t_arr st).
(* sub := now - recvPkgTs (both in ms; int64 in the code, never negative for ordered stamps) *)
Definition sub_ms (st : stamps) : N := ms_of (t_sel st) - recv_stamp st.
(* the time the request really waited between receipt and Invoke's decision, in ns *)
Definition waited (st : stamps) : N := t_sel st - t_arr st.

Section TimedServer.
  Variable dispatch : request -> hrun.

  (* Protocol.Invoke entered in time: the queue-timeout decision is the code's, on the code's own clock readings *)
  Definition timed_invoke (r : request) (st : stamps) : origin * reply * nat * N := invoke dispatch r (sub_ms st).

  Definition fire_t (cfg : config) (st : stamps) : N := t_hdl st + c_ht cfg * ns_per_ms.   (* deadline of invokeCtx *)
  (* Invoke passes its select when the handle deadline has already passed: the ctx.Done() branch, whatever ITimeout is *)
  Definition late (cfg : config) (st : stamps) : bool := (0 <? c_ht cfg) && (fire_t cfg st <=? t_sel st).
  Definition ret_t (st : stamps) : N := t_sel st + d_run st.                                 (* rsp assigned, cancelFunc() *)
  Definition wake_t (cfg : config) (st : stamps) : N := N.min (ret_t st) (fire_t cfg st) + d_wake st.
  Definition write_t (cfg : config) (st : stamps) : N := wake_t cfg st + d_write st.

  Definition timed_step (cfg : config) (r : request) (st : stamps) : list (origin * reply) * nat :=
    let '(o, p, n, _) := timed_invoke r st in
    if c_ht cfg =? 0 then (if oneway r then [] else [(o, p)], n)     (* Invoke is called synchronously *)
    else
      let own := if late cfg st then (FromQueueTimeout, late_reply r) else (o, p) in
      let picked := if ret_t st <=? wake_t cfg st then [own]
                    else map (fun x => (FromHandleTimeout, x)) (timeout_replies r) in
      (* the packet type is in the Current only once Invoke has returned *)
      let pt := if ret_t st <=? write_t cfg st then q_ptype r else 0%Z in
      (if (pt =? c_TARSONEWAY)%Z then [] else picked, if late cfg st then O else n).

  (* the schedule of the handle-timeout race that these timestamps stand for *)
  Definition timed_labels (cfg : config) (st : stamps) : list hlabel :=
    if negb (late cfg st) && (ret_t st <=? fire_t cfg st) then [LStart; LReturn; LWake; LWrite]
    else if ret_t st <=? wake_t cfg st then
      (if late cfg st then [LFire; LStart; LReturn; LWake; LWrite] else [LStart; LFire; LReturn; LWake; LWrite])
    else if ret_t st <=? write_t cfg st then
      (if late cfg st then [LFire; LWake; LStart; LReturn; LWrite] else [LStart; LFire; LWake; LReturn; LWrite])
    else (if late cfg st then [LFire; LWake; LWrite; LStart; LReturn] else [LStart; LFire; LWake; LWrite; LReturn]).
End TimedServer.

(* the clock of seeded change C10-m11, for contrast: the receive time taken from a clock that only advances once a
   second (gtime.CurrUnixTime * 1e3) *)
Definition stale_recv_stamp (st : stamps) : N := (t_arr st / (1000 * ns_per_ms)) * 1000.
Definition stale_sub_ms (st : stamps) : N := ms_of (t_sel st) - stale_recv_stamp st.

(* ---------- a connection: one handler state per request, steps of different requests interleave ----------
   Every request has a Current of its own (ContextWithTarsCurrent in getConnContext, per packet): the packet type
   cell a handler reads is the one its own Invoke wrote. A step of request i touches component i only. *)
Definition cstate := list hstate.
Fixpoint set_nth {A} (i : nat) (x : A) (l : list A) : list A :=
  match i, l with
  | O, _ :: t => x :: t
  | S k, h :: t => h :: set_nth k x t
  | _, [] => []
  end.
Definition cstep (rs : list (request * reply)) (cs : cstate) (il : nat * hlabel) : option cstate :=
  match nth_error rs (fst il), nth_error cs (fst il) with
  | Some (r, p), Some s => option_map (fun s' => set_nth (fst il) s' cs) (hstep r p s (snd il))
  | _, _ => None
  end.
Fixpoint crun (rs : list (request * reply)) (cs : cstate) (ls : list (nat * hlabel)) : option cstate :=
  match ls with
  | [] => Some cs
  | l :: ls' => match cstep rs cs l with Some cs' => crun rs cs' ls' | None => None end
  end.
Definition cinit (rs : list (request * reply)) : cstate := map (fun _ => hinit) rs.
Definition proj (i : nat) (ls : list (nat * hlabel)) : list hlabel :=
  map snd (filter (fun il => Nat.eqb (fst il) i) ls).

(* for contrast (seeded change C10-m12): ONE Current per connection - the packet type cell is shared, the last Invoke to
   return overwrites it and every handler of the connection reads that *)
Record sstate := { sh_cell : Z; sh_hs : list hstate }.
Definition sstep (rs : list (request * reply)) (ss : sstate) (il : nat * hlabel) : option sstate :=
  match nth_error rs (fst il), nth_error (sh_hs ss) (fst il) with
  | Some (r, p), Some s =>
      match snd il with
      | LWrite =>
          match s_picked s, s_written s with
          | Some x, None =>
              Some {| sh_cell := sh_cell ss;
                      sh_hs := set_nth (fst il)
                                 {| s_started := s_started s; s_late := s_late s; s_returned := s_returned s;
                                    s_fired := s_fired s; s_picked := s_picked s;
                                    s_written := Some (if (sh_cell ss =? c_TARSONEWAY)%Z then [] else x) |} (sh_hs ss) |}
          | _, _ => None
          end
      | l =>
          match hstep r p s l with
          | Some s' => Some {| sh_cell := (match l with LReturn => q_ptype r | _ => sh_cell ss end);
                               sh_hs := set_nth (fst il) s' (sh_hs ss) |}
          | None => None
          end
      end
  | _, _ => None
  end.
Fixpoint srun (rs : list (request * reply)) (ss : sstate) (ls : list (nat * hlabel)) : option sstate :=
  match ls with
  | [] => Some ss
  | l :: ls' => match sstep rs ss l with Some ss' => srun rs ss' ls' | None => None end
  end.
