(* C01 model, part 2: one call through a tars2go-generated proxy and dispatcher, as the literal composition
     generated proxy (genIFProxyFun): encode all arguments at tags 1..n
     -> ServantProxy.TarsInvoke: request packet, client filter selection, doInvoke
     -> packet codec + 4-byte length frame + the server's receive loop (C07 model)
     -> Protocol.Invoke: server filter selection, generated Dispatch (genSwitchCase): decode the in
        arguments, call the implementation, encode return value (tag 0) and out arguments (their positions),
        response context/status; error -> IRet / SResultDesc
     -> packet codec + frame + the client's receive loop
     -> doInvoke: IRet / SResultDesc -> error; generated proxy: decode return value and out arguments,
        copy the response context/status into the caller's maps.
   The implementation and the environment of struct schemas are Section variables; the argument list is a
   struct schema with required members at tags 1..n, encoded and decoded by the generated-codec model
   (Codec/GenCodec.v: enc_var / dec_fields), exactly as the generator emits genWriteVar / genReadVar for
   dummy members. *)
From Coq Require Import List NArith ZArith Bool Arith.
From TarsV Require Import Gen.Consts Base.Hex Codec.Wire Codec.Skip Codec.Prim Codec.GenCodec Frame.Framing Rpc.Filters.
Import ListNotations.
Open Scope N_scope.

Definition bytes := list N.
Definition smap := list (bytes * bytes).          (* map[string]string in iteration order *)

(* ---------- interfaces ---------- *)
Record fsig := { fs_name : bytes; fs_ret : option ty; fs_args : list (ty * bool) }.   (* bool: out parameter *)
Definition iface := list fsig.

Definition mkfield (tag : N) (t : ty) : field := {| ftag := tag; freq := true; fty := t; fdef := None |}.
Fixpoint arg_fields (i : N) (args : list (ty * bool)) : list (field * bool) :=
  match args with [] => [] | (t, o) :: r => (mkfield i t, o) :: arg_fields (i + 1) r end.
Definition all_fields (f : fsig) : schema := map fst (arg_fields 1 (fs_args f)).
Definition in_fields (f : fsig) : schema := map fst (filter (fun p => negb (snd p)) (arg_fields 1 (fs_args f))).
Definition out_fields (f : fsig) : schema := map fst (filter (fun p => snd p) (arg_fields 1 (fs_args f))).
Definition ret_fields (f : fsig) : schema := match fs_ret f with Some t => [mkfield 0 t] | None => [] end.
Definition rsp_fields (f : fsig) : schema := ret_fields f ++ out_fields f.

(* projections of a full argument list (in order of declaration) *)
Fixpoint pick {A} (want : bool) (dirs : list bool) (l : list A) : list A :=
  match dirs, l with
  | d :: dr, x :: r => if Bool.eqb d want then x :: pick want dr r else pick want dr r
  | _, _ => []
  end.
Definition dirs_of (f : fsig) : list bool := map snd (fs_args f).
Definition ins_of {A} (f : fsig) (l : list A) : list A := pick false (dirs_of f) l.
Definition outs_of {A} (f : fsig) (l : list A) : list A := pick true (dirs_of f) l.

Definition find_fn (i : iface) (name : bytes) : option fsig := find (fun f => bytes_eqb (fs_name f) name) i.

(* ---------- packets (requestf.RequestPacket / ResponsePacket) ---------- *)
Record reqpkt := { q_ver : Z; q_ptype : Z; q_mtype : Z; q_id : Z; q_servant : bytes; q_func : bytes;
                   q_buf : bytes; q_timeout : Z; q_ctx : smap; q_status : smap }.
Record rsppkt := { p_ver : Z; p_ptype : Z; p_id : Z; p_mtype : Z; p_ret : Z; p_buf : bytes;
                   p_status : smap; p_desc : bytes; p_ctx : smap }.

Definition vmap (m : smap) : val := VMap (map (fun kv => (VStr (fst kv), VStr (snd kv))) m).
Definition req_val (q : reqpkt) : val :=
  VStruct [VInt (q_ver q); VInt (q_ptype q); VInt (q_mtype q); VInt (q_id q); VStr (q_servant q); VStr (q_func q);
           VBytes (q_buf q); VInt (q_timeout q); vmap (q_ctx q); vmap (q_status q)].
Definition rsp_val (p : rsppkt) : val :=
  VStruct [VInt (p_ver p); VInt (p_ptype p); VInt (p_id p); VInt (p_mtype p); VInt (p_ret p); VBytes (p_buf p);
           vmap (p_status p); VStr (p_desc p); vmap (p_ctx p)].
Fixpoint smap_of (l : list (val * val)) : option smap :=
  match l with
  | [] => Some []
  | (VStr k, VStr v) :: r => option_map (cons (k, v)) (smap_of r)
  | _ => None
  end.
Definition val_req (v : val) : option reqpkt :=
  match v with
  | VStruct [VInt a; VInt b; VInt c; VInt d; VStr s; VStr f; VBytes buf; VInt t; VMap cx; VMap st] =>
      match smap_of cx, smap_of st with
      | Some cx', Some st' => Some {| q_ver := a; q_ptype := b; q_mtype := c; q_id := d; q_servant := s; q_func := f;
                                      q_buf := buf; q_timeout := t; q_ctx := cx'; q_status := st' |}
      | _, _ => None
      end
  | _ => None
  end.
Definition val_rsp (v : val) : option rsppkt :=
  match v with
  | VStruct [VInt a; VInt b; VInt c; VInt d; VInt r; VBytes buf; VMap st; VStr ds; VMap cx] =>
      match smap_of st, smap_of cx with
      | Some st', Some cx' => Some {| p_ver := a; p_ptype := b; p_id := c; p_mtype := d; p_ret := r; p_buf := buf;
                                      p_status := st'; p_desc := ds; p_ctx := cx' |}
      | _, _ => None
      end
  | _ => None
  end.

(* length-prefixed frame (rsp2Byte / the client's request framing) *)
Definition be32' (n : N) : bytes := [n / 16777216 mod 256; n / 65536 mod 256; n / 256 mod 256; n mod 256].
Definition frame (body : bytes) : bytes := be32' (4 + N.of_nat (length body)) ++ body.

(* ---------- events ---------- *)
Inductive side := Client | Server.
Inductive ev :=
| EF (s : side) (e : fev)                                         (* a recording filter *)
| EInvoke                                                          (* ServantProxy.doInvoke *)
| EDispatch                                                        (* generated Dispatch entered *)
| EImpl (fn : bytes) (ins : list val) (ctx status : smap)          (* the implementation is called with these *)
| EReply.                                                          (* a response packet is written to the connection *)

(* ---------- outcomes ---------- *)
Inductive impl_res :=
| IOk (ret : option val) (outs : list val) (rctx rstatus : smap)
| IFail (code : Z) (msg : bytes).               (* *tars.Error{code,msg}; any other error value is (1, msg) *)

Inductive disp_res := DispOk (p : rsppkt) | DispErr (code : Z) (msg : bytes) (sys : bool).

(* what doInvoke hands back to TarsInvoke *)
Inductive inv_res := VResp (p : rsppkt) | VErr (code : Z) (msg : bytes) (sys : bool) | VOneWay | VLost.

(* what the caller of the generated proxy method observes *)
Inductive call_res :=
| COk (ret : option val) (outs : list val) (maps : list smap)   (* maps: the caller's opts after the call *)
| CSent                                                          (* one-way: nil error, nothing else *)
| CErr (code : Z) (msg : bytes) (sys : bool)                     (* tars.GetErrorCode(err), err.Error(); sys: text made by the framework *)
| CPanic                                                         (* the generated proxy panics; not an outcome of the model (observed only) *)
| CLost.                                                         (* no reply: the call would run into its timeout *)

Definition sys_msg : bytes := [63].                (* stands for any framework-made, non-empty error text *)

Section Call.
  Variable e : env.                                (* struct schemas of the IDL *)
  Variable sid_req sid_rsp : nat.                  (* RequestPacket / ResponsePacket in e *)
  Variable max_pkt : N.                            (* maxPackageLength *)
  Variable impl : bytes -> list val -> smap -> smap -> impl_res.

  Fixpoint enc_fields (fds : schema) (vs : list val) : bytes :=
    match vs, fds with
    | x :: vs', fd :: fds' => enc_var e (ftag fd) (freq fd) (fty fd) (fdef fd) x ++ enc_fields fds' vs'
    | _, _ => []
    end.
  Definition dec_list (fds : schema) (priors : list val) (bs : bytes) : dres (list val) :=
    dec_fields (4 * length bs + 64) e fds priors bs.
  Definition zeros (fds : schema) : list val := map (fun fd => zero_of 64 e (fty fd)) fds.

  (* ----- transport of one packet: codec, frame, receive loop, codec ----- *)
  Definition deliver (body : bytes) : option bytes :=
    match recv_loop max_pkt [] [frame body] with
    | ([pk], Some []) => Some (skipn 4 pk)
    | _ => None
    end.
  Definition wire_req (q : reqpkt) : option reqpkt :=
    match deliver (encode e sid_req (req_val q)) with
    | Some bs => match decode e sid_req bs with DOk v _ => val_req v | _ => None end
    | None => None
    end.
  Definition wire_rsp (p : rsppkt) : option rsppkt :=
    match deliver (encode e sid_rsp (rsp_val p)) with
    | Some bs => match decode e sid_rsp bs with DOk v _ => val_rsp v | _ => None end
    | None => None
    end.

  (* ----- server: generated Dispatch ----- *)
  Definition dispatch (i : iface) (q : reqpkt) : disp_res * list ev :=
    match find_fn i (q_func q) with
    | None => (DispErr 1 sys_msg true, [])                                  (* "func mismatch" *)
    | Some f =>
        match dec_list (in_fields f) (zeros (in_fields f)) (q_buf q) with
        | DOk ins _ =>
            let evs := [EImpl (q_func q) ins (q_ctx q) (q_status q)] in
            match impl (q_func q) ins (q_ctx q) (q_status q) with
            | IOk ret outs rc rs =>
                (DispOk {| p_ver := q_ver q; p_ptype := 0; p_id := q_id q; p_mtype := 0; p_ret := 0;
                           p_buf := enc_fields (rsp_fields f) (match ret with Some r => r :: outs | None => outs end);
                           p_status := rs; p_desc := []; p_ctx := rc |}, evs)
            | IFail c m => (DispErr c m false, evs)
            end
        | _ => (DispErr 1 sys_msg true, [])                                 (* argument decode error *)
        end
    end.

  Definition SF := filters ev (disp_res) unit.      (* server filters *)
  Definition CF := filters ev (inv_res) unit.       (* client filters *)

  (* Protocol.Invoke + the transport handler: zero or one response packet *)
  Definition server_handle (Fs : SF) (i : iface) (q : reqpkt) (s : list ev) : option rsppkt * list ev :=
    let inner := fun s0 : list ev => let '(r, evs) := dispatch i q in (r, s0 ++ EDispatch :: evs) in
    let '(r, s1) := run Fs inner s in
    let p := match r with
             | DispOk p => {| p_ver := p_ver p; p_ptype := q_ptype q; p_id := p_id p; p_mtype := p_mtype p; p_ret := p_ret p;
                              p_buf := p_buf p; p_status := p_status p; p_desc := p_desc p; p_ctx := p_ctx p |}
             | DispErr c m _ => {| p_ver := q_ver q; p_ptype := q_ptype q; p_id := q_id q; p_mtype := 0; p_ret := c;
                                   p_buf := []; p_status := []; p_desc := m; p_ctx := [] |}
             end in
    if (q_ptype q =? c_c01_TARSONEWAY)%Z then (None, s1) else (Some p, s1 ++ [EReply]).

  (* ServantProxy.doInvoke: IRet / SResultDesc -> error. An empty SResultDesc is replaced by a framework-made text;
     IRet other than 0 and 1 travels in a *tars.Error, otherwise the error is a plain one (GetErrorCode = 1) *)
  Definition map_reply (p : rsppkt) : inv_res :=
    if (p_ret p =? 0)%Z then VResp p
    else let '(desc, sys) := match p_desc p with [] => (sys_msg, true) | _ => (p_desc p, false) end in
         if (p_ret p =? 1)%Z then VErr 1 desc sys else VErr (p_ret p) desc sys.

  (* the caller's variadic opts: 0, 1 (context) or 2 (context, status) maps, each possibly nil *)
  Definition opts := list (option smap).
  Definition map_arg (o : option smap) : smap := match o with Some m => m | None => [] end.
  Definition ctx_of (o : opts) : smap := match o with [c] => map_arg c | [c; _] => map_arg c | _ => [] end.
  Definition status_of (o : opts) : smap := match o with [_; s] => map_arg s | _ => [] end.

  (* copying a response map into the caller's map: delete all, then assign; a nil map (nothing the caller could
     read the entries from) is left alone *)
  Definition copy_into (target : option smap) (src : smap) : smap :=
    match target with
    | Some _ => src
    | None => []
    end.

  Definition proxy_finish (f : fsig) (args : list val) (o : opts) (r : inv_res) : call_res :=
    match r with
    | VErr c m sys => CErr c m sys
    | VOneWay => CSent
    | VLost => CLost
    | VResp p =>
        match dec_list (rsp_fields f) (zeros (ret_fields f) ++ outs_of f args) (p_buf p) with
        | DOk vs _ =>
            let ret := match fs_ret f with Some _ => Some (hd (VInt 0) vs) | None => None end in
            let outs := match fs_ret f with Some _ => tl vs | None => vs end in
            match o with
            | [c] => COk ret outs [copy_into c (p_ctx p)]
            | [c; st] => COk ret outs [copy_into c (p_ctx p); copy_into st (p_status p)]
            | _ => COk ret outs []
            end
        | _ => CErr 1 sys_msg true
        end
    end.

  Definition mkreq (f : fsig) (args : list val) (o : opts) (oneway : bool) (id : Z) (servant : bytes) (timeout : Z) : reqpkt :=
    {| q_ver := c_c01_TARSVERSION; q_ptype := if oneway then c_c01_TARSONEWAY else c_c01_TARSNORMAL; q_mtype := 0; q_id := id;
       q_servant := servant; q_func := fs_name f; q_buf := enc_fields (all_fields f) args; q_timeout := timeout;
       q_ctx := ctx_of o; q_status := status_of o |}.

  (* doInvoke: send, then wait for the reply with this request id unless the call is one-way *)
  Definition do_invoke (Fs : SF) (i : iface) (q : reqpkt) (s : list ev) : inv_res * list ev :=
    let s := s ++ [EInvoke] in
    match wire_req q with
    | None => (VLost, s)
    | Some q' =>
        let '(rp, s1) := server_handle Fs i q' s in
        if (q_ptype q =? c_c01_TARSONEWAY)%Z then (VOneWay, s1)
        else match rp with
             | None => (VLost, s1)
             | Some p => match wire_rsp p with
                         | Some p' => if (p_id p' =? q_id q)%Z then (map_reply p', s1) else (VLost, s1)
                         | None => (VLost, s1)
                         end
             end
    end.

  Definition call (Fc : CF) (Fs : SF) (i : iface) (f : fsig) (args : list val) (o : opts) (oneway : bool)
             (id : Z) (servant : bytes) (timeout : Z) : call_res * list ev :=
    let q := mkreq f args o oneway id servant timeout in
    let '(r, s) := run Fc (do_invoke Fs i q) [] in
    (proxy_finish f args o r, s).

  (* ----- many calls multiplexed over one connection ----- *)
  Definition enc_req (q : reqpkt) : bytes := frame (encode e sid_req (req_val q)).
  Definition dec_req (pk : bytes) : option reqpkt :=
    match decode e sid_req (skipn 4 pk) with DOk v _ => val_req v | _ => None end.
  Definition enc_rsp (p : rsppkt) : bytes := frame (encode e sid_rsp (rsp_val p)).
  Definition dec_rsp (pk : bytes) : option rsppkt :=
    match decode e sid_rsp (skipn 4 pk) with DOk v _ => val_rsp v | _ => None end.
  Definition olist {A} (o : option A) : list A := match o with Some a => [a] | None => [] end.

  (* server end: whatever the receive loop delivers from the byte stream is handled on its own (one goroutine per
     packet); the replies are written in some order *)
  Definition server_conn (Fs : SF) (i : iface) (chunks : list bytes) : list rsppkt :=
    flat_map (fun pk => match dec_req pk with
                        | Some q => olist (fst (server_handle Fs i q []))
                        | None => []
                        end) (fst (recv_loop max_pkt [] chunks)).
  (* client end: each reply delivered by the receive loop goes to the pending call with its request id; a caller
     takes the first such reply *)
  Definition client_conn (chunks : list bytes) (id : Z) : option rsppkt :=
    find (fun p => (p_id p =? id)%Z) (flat_map (fun pk => olist (dec_rsp pk)) (fst (recv_loop max_pkt [] chunks))).
End Call.

(* ---------- correspondence ---------- *)
Definition is_obs (x : ev) : bool := match x with EF _ _ | EImpl _ _ _ _ => true | _ => false end.
