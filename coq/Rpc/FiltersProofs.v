(* C01 proofs, part 1: pass-through filters see the call exactly once, in registration order, and do not
   change its outcome - for every combination of registered filters. *)
From Coq Require Import List Arith Lia.
From TarsV Require Import Rpc.Filters.
Import ListNotations.

Section Proofs.
  Variable Ev R E : Type.
  Notation comp := (comp Ev).
  Notation log := (list Ev).

  Lemma chain_pass (l : list (list Ev * list Ev)) (inner : comp R) (s : log) :
    chain (map (fun ab => pass_mw (fst ab) (snd ab)) l) inner s =
    let '(r, s1) := inner (s ++ concat (map fst l)) in (r, s1 ++ concat (rev (map snd l))).
  Proof.
    revert s. induction l as [|[a b] l IH]; intros s; cbn.
    - rewrite app_nil_r. destruct (inner s) as [r s1]. now rewrite app_nil_r.
    - unfold pass_mw at 1. rewrite IH. rewrite <- app_assoc.
      destruct (inner (s ++ a ++ concat (map fst l))) as [r s1].
      rewrite concat_app. cbn. rewrite app_nil_r. now rewrite app_assoc.
  Qed.

  Lemma run_each_pass (l : list (list Ev * E)) (s : log) :
    run_each (map (fun ax => pass_pp (fst ax) (snd ax)) l) s = s ++ concat (map fst l).
  Proof.
    revert s. induction l as [|[a x] l IH]; intros s; cbn.
    - now rewrite app_nil_r.
    - rewrite IH. now rewrite app_assoc.
  Qed.

  (* every combination of pass-through filters: the wrapped call runs exactly once, after what the selected
     filters do before it, and its result is returned unchanged *)
  Theorem run_pass (P : pfilters Ev E) (inner : comp R) (s : log) :
    run (filters_of R P) inner s =
    let '(r, s1) := inner (s ++ before P) in (r, s1 ++ after P).
  Proof.
    destruct P as [lg ms pr po]. unfold run, before, after; cbn.
    destruct lg as [[a b]|]; cbn.
    - reflexivity.
    - destruct ms as [|m ms].
      + cbn. rewrite run_each_pass. destruct (inner (s ++ concat (map fst pr))) as [r s1].
        now rewrite run_each_pass.
      + pose proof (chain_pass (m :: ms) inner s) as H. cbn [map] in H. cbn. cbn in H. exact H.
  Qed.

  (* an inner call that returns r and appends its own events c *)
  Corollary run_pass_result (P : pfilters Ev E) (r : R) (c : list Ev) (s : log) :
    run (filters_of R P) (fun s => (r, s ++ c)) s = (r, s ++ before P ++ c ++ after P).
  Proof. rewrite run_pass. now rewrite <- !app_assoc. Qed.
End Proofs.

(* ---- recording filters: order and exactly-once ---- *)
Section Rec.
  Variable Ev : Type.
  Variable inj : fev -> Ev.
  Variable E : Type.
  Variable nil_err : E.

  Lemma concat_singletons {A B} (f : A -> B) (l : list A) : concat (map (fun x => [f x]) l) = map f l.
  Proof. induction l; cbn; congruence. Qed.

  Theorem recording_before (c : fconf) : before (recording inj nil_err c) = expected_before inj c.
  Proof.
    unfold before, recording, expected_before; cbn. destruct (c_legacy c); [reflexivity|].
    destruct (c_mws c) as [|k] eqn:Hk.
    - cbn. rewrite map_map. cbn. apply concat_singletons.
    - remember (S k) as n. destruct (seq 0 n) eqn:Hs; [subst; discriminate|]. rewrite <- Hs.
      destruct (map _ (seq 0 n)) eqn:Hm; [rewrite Hs in Hm; discriminate|]. rewrite <- Hm.
      rewrite map_map. cbn. apply concat_singletons.
  Qed.

  Theorem recording_after (c : fconf) : after (recording inj nil_err c) = expected_after inj c.
  Proof.
    unfold after, recording, expected_after; cbn. destruct (c_legacy c); [reflexivity|].
    destruct (c_mws c) as [|k] eqn:Hk.
    - cbn. rewrite map_map. cbn. apply concat_singletons.
    - remember (S k) as n. destruct (seq 0 n) eqn:Hs; [subst; discriminate|]. rewrite <- Hs.
      destruct (map _ (seq 0 n)) eqn:Hm; [rewrite Hs in Hm; discriminate|]. rewrite <- Hm.
      rewrite map_map. cbn [snd]. rewrite <- map_rev. rewrite concat_singletons. reflexivity.
  Qed.

  (* exactly once: with an injective tagging, every filter that is selected occurs once on the way in *)
  Hypothesis inj_inj : forall a b, inj a = inj b -> a = b.

  Lemma nodup_map_inj {A B} (f : A -> B) (l : list A) : (forall a b, f a = f b -> a = b) -> NoDup l -> NoDup (map f l).
  Proof.
    intros Hf H. induction H as [|x l Hx _ IH]; cbn; constructor; auto.
    intros Hin. apply in_map_iff in Hin. destruct Hin as [y [Hy Hin]]. apply Hf in Hy. subst. auto.
  Qed.

  Theorem recording_once_before (c : fconf) : NoDup (expected_before inj c).
  Proof.
    unfold expected_before. destruct (c_legacy c).
    - repeat constructor. intros [].
    - destruct (c_mws c); apply nodup_map_inj; try apply seq_NoDup;
        intros a b H; apply inj_inj in H; congruence.
  Qed.
  Theorem recording_once_after (c : fconf) : NoDup (expected_after inj c).
  Proof.
    unfold expected_after. destruct (c_legacy c).
    - repeat constructor. intros [].
    - destruct (c_mws c).
      + apply nodup_map_inj; try apply seq_NoDup. intros a b H; apply inj_inj in H; congruence.
      + apply nodup_map_inj. { intros a b H; apply inj_inj in H; congruence. }
        apply NoDup_rev. apply seq_NoDup.
  Qed.
End Rec.
