(* C10 model: what the server writes back for one request.
   Mirrors tars/tarsprotocol.go (Protocol.Invoke, rsp2Byte / req2Byte, InvokeTimeout),
   tars/transport/tarsserver.go (TarsServer.invoke: the handle-timeout race) and the write decision of
   tcphandler.handleConn / udphandler.handleUDPAddr (nothing is written for a one-way request).
   The generated dispatcher together with the servant implementation is external behaviour: a Section
   variable [dispatch] that says, per request, what Dispatch returns and for how long it runs.
   Time is abstract (milliseconds as N): [queued] is the time between the receipt of the packet and the start of
   Invoke (recvPkgTs .. now), the handler's running time is part of [dispatch]'s answer.
   Model only; proofs live in InvokeProofs.v so that the model still evaluates when a proof breaks. *)
From Coq Require Import List NArith ZArith Bool Arith.
From TarsV Require Import Gen.Consts Base.Hex Codec.Wire Codec.Skip Codec.Prim Codec.GenCodec Codec.Corr Gen.Schemas
  Frame.Framing.
Import ListNotations.
Open Scope N_scope.

(* ---------- packets ---------- *)
Definition smap := list (val * val).   (* map<string,string> in wire order *)

Record request := {
  q_ver : Z; q_ptype : Z; q_mtype : Z; q_id : Z;
  q_servant : list N; q_func : list N; q_buf : list N; q_timeout : Z;
  q_ctx : smap; q_status : smap }.

Record reply := {
  p_ver : Z; p_ptype : Z; p_id : Z; p_mtype : Z; p_ret : Z;
  p_buf : list N; p_status : smap; p_desc : list N; p_ctx : smap }.

Definition req_of_val (v : val) : option request :=
  match v with
  | VStruct [VInt ver; VInt pt; VInt mt; VInt id; VStr sv; VStr fn; VBytes buf; VInt tmo; VMap cx; VMap st] =>
      Some {| q_ver := ver; q_ptype := pt; q_mtype := mt; q_id := id; q_servant := sv; q_func := fn;
              q_buf := buf; q_timeout := tmo; q_ctx := cx; q_status := st |}
  | _ => None
  end.

Definition val_of_req (r : request) : val :=
  VStruct [VInt (q_ver r); VInt (q_ptype r); VInt (q_mtype r); VInt (q_id r); VStr (q_servant r); VStr (q_func r);
           VBytes (q_buf r); VInt (q_timeout r); VMap (q_ctx r); VMap (q_status r)].

(* Invoke reads the request with the generated RequestPacket.ReadFrom from req[4:] *)
Definition parse_request (pkg : list N) : option request :=
  match pkg with
  | _ :: _ :: _ :: _ :: body =>
      match decode env0 sid_requestf_RequestPacket body with
      | DOk v [] => req_of_val v
      | _ => None
      end
  | _ => None
  end.

(* ---------- the dispatcher + implementation (external) ---------- *)
Inductive herr :=
| TarsErr (code : Z) (msg : list N)     (* the implementation returned *tars.Error{code,msg} *)
| PlainErr (msg : list N)               (* the implementation returned any other error *)
| DispErr.                              (* the generated dispatcher itself refused (unknown function / version): code 1, text unspecified *)
Inductive hres :=
| HDone (buf : list N) (status ctx : smap)   (* Dispatch returned nil and filled the response *)
| HFail (e : herr).
Record hrun := { h_res : hres; h_dur : N }.  (* result and running time (ms) of Dispatch *)

Definition err_code (e : herr) : Z := match e with TarsErr c _ => c | PlainErr _ => 1 | DispErr => 1 end.
Definition err_msg (e : herr) : list N := match e with TarsErr _ m => m | PlainErr m => m | DispErr => [] end.

Record config := { c_pool : N; c_ht : N; c_udp : bool }.   (* maxroutine, handletimeout (ms; 0 = none), transport *)

Definition ping_name : list N := raw "tars_ping"%hex.
Definition timeout_text : list N := raw "server invoke timeout"%hex.

Definition oneway (r : request) : bool := (q_ptype r =? c_TARSONEWAY)%Z.

(* ctx, cancel = context.WithTimeout(ctx, (ITimeout - (now - recvPkgTs)) ms) when ITimeout > 0; a non-positive
   duration is a context that is already done, and the select takes the ctx.Done() branch *)
Definition queue_expired (r : request) (queued : N) : bool :=
  (0 <? q_timeout r)%Z && (q_timeout r - Z.of_N queued <=? 0)%Z.

Inductive origin := FromHandler | FromPing | FromQueueTimeout | FromHandleTimeout.

Definition base_reply (r : request) : reply :=
  {| p_ver := q_ver r; p_ptype := q_ptype r; p_id := q_id r; p_mtype := 0; p_ret := 0;
     p_buf := []; p_status := []; p_desc := []; p_ctx := [] |}.

Definition with_ret (p : reply) (ret : Z) (desc : list N) : reply :=
  {| p_ver := p_ver p; p_ptype := p_ptype p; p_id := p_id p; p_mtype := p_mtype p; p_ret := ret;
     p_buf := p_buf p; p_status := p_status p; p_desc := desc; p_ctx := p_ctx p |}.
Definition with_body (p : reply) (buf : list N) (st cx : smap) : reply :=
  {| p_ver := p_ver p; p_ptype := p_ptype p; p_id := p_id p; p_mtype := p_mtype p; p_ret := p_ret p;
     p_buf := buf; p_status := st; p_desc := p_desc p; p_ctx := cx |}.

Section Server.
  Variable dispatch : request -> hrun.

  (* Protocol.Invoke: (where the reply comes from, the reply, number of calls of the dispatcher, running time) *)
  Definition invoke (r : request) (queued : N) : origin * reply * nat * N :=
    if queue_expired r queued then
      (FromQueueTimeout, with_ret (base_reply r) c_TARSSERVERQUEUETIMEOUT timeout_text, O, 0)
    else if bytes_eqb (q_func r) ping_name then (FromPing, base_reply r, O, 0)
    else
      let h := dispatch r in
      match h_res h with
      | HDone buf st cx => (FromHandler, with_body (base_reply r) buf st cx, 1%nat, h_dur h)
      | HFail e => (FromHandler, with_ret (base_reply r) (err_code e) (err_msg e), 1%nat, h_dur h)
      end.

  (* Protocol.InvokeTimeout (as repaired: version and packet type of the request are echoed) *)
  Definition handle_timeout_reply (r : request) : reply := with_ret (base_reply r) 1 timeout_text.

  (* TarsServer.invoke + the handler's write decision: the list of replies written for this request and the
     number of dispatcher calls. With a handle timeout, Invoke runs in its own goroutine and the handler waits for
     whichever comes first; an Invoke that overruns still runs to its end, its result is dropped. *)
  Definition server_step (cfg : config) (r : request) (queued : N) : list (origin * reply) * nat :=
    let '(o, p, n, dur) := invoke r queued in
    if oneway r then ([], n)
    else if (0 <? c_ht cfg) && (c_ht cfg <=? dur) then ([(FromHandleTimeout, handle_timeout_reply r)], n)
    else ([(o, p)], n).

  Definition replies (cfg : config) (r : request) (queued : N) : list reply :=
    map snd (fst (server_step cfg r queued)).

  (* a packet as delivered by the transport: malformed ones are outside this model (and the property) *)
  Definition serve_packet (cfg : config) (pkg : list N) (queued : N) : list (origin * reply) * nat :=
    match parse_request pkg with
    | Some r => server_step cfg r queued
    | None => ([], O)
    end.

  (* requests pipelined on one connection / sent from one UDP socket, each with its own queueing time *)
  Definition session (cfg : config) (reqs : list (list N * N)) : list (origin * reply) :=
    flat_map (fun pq => fst (serve_packet cfg (fst pq) (snd pq))) reqs.

  (* the same through the TCP receive loop: [chunks] are the results of conn.Read *)
  Definition tcp_session (max : N) (cfg : config) (chunks : list (list N)) (queued : list N) : list (origin * reply) :=
    session cfg (combine (fst (recv_loop max [] chunks)) queued).
End Server.

(* ---------- the bytes on the wire: rsp2Byte / req2Byte ---------- *)
Definition be32 (n : N) : list N := [n / 16777216 mod 256; n / 65536 mod 256; n / 256 mod 256; n mod 256].

Definition rsp_val (p : reply) : val :=
  VStruct [VInt (p_ver p); VInt (p_ptype p); VInt (p_id p); VInt (p_mtype p); VInt (p_ret p);
           VBytes (p_buf p); VMap (p_status p); VStr (p_desc p); VMap (p_ctx p)].
(* a TUP-versioned reply is written as a RequestPacket: no servant, no function, no timeout - and no place for
   IRet and SResultDesc *)
Definition tup_val (p : reply) : val :=
  VStruct [VInt (p_ver p); VInt (p_ptype p); VInt (p_mtype p); VInt (p_id p); VStr []; VStr [];
           VBytes (p_buf p); VInt 0; VMap (p_ctx p); VMap (p_status p)].

Definition is_tup (p : reply) : bool := (p_ver p =? c_TUPVERSION)%Z.

Definition reply_body (p : reply) : list N :=
  if is_tup p then encode env0 sid_requestf_RequestPacket (tup_val p)
  else encode env0 sid_requestf_ResponsePacket (rsp_val p).
Definition reply_bytes (p : reply) : list N :=
  let b := reply_body p in be32 (4 + N.of_nat (length b)) ++ b.

(* what a client that knows the protocol sees in the bytes: (TUP-shaped?, fields) *)
Definition reply_of_rsp_val (v : val) : option reply :=
  match v with
  | VStruct [VInt ver; VInt pt; VInt id; VInt mt; VInt ret; VBytes buf; VMap st; VStr desc; VMap cx] =>
      Some {| p_ver := ver; p_ptype := pt; p_id := id; p_mtype := mt; p_ret := ret; p_buf := buf;
              p_status := st; p_desc := desc; p_ctx := cx |}
  | _ => None
  end.
Definition reply_of_tup_val (v : val) : option reply :=
  match v with
  | VStruct [VInt ver; VInt pt; VInt mt; VInt id; VStr _; VStr _; VBytes buf; VInt _; VMap cx; VMap st] =>
      Some {| p_ver := ver; p_ptype := pt; p_id := id; p_mtype := mt; p_ret := 0; p_buf := buf;
              p_status := st; p_desc := []; p_ctx := cx |}
  | _ => None
  end.

Definition first_i16 (body : list N) : option Z :=
  match r_int16 8%nat 1 true body with ROk z _ => Some z | _ => None end.

Definition decode_reply (bs : list N) : option (bool * reply) :=
  match hdr bs with
  | Some l =>
      if l =? N.of_nat (length bs) then
        let body := skipn 4 bs in
        match first_i16 body with
        | Some ver =>
            if (ver =? c_TUPVERSION)%Z then
              match decode env0 sid_requestf_RequestPacket body with
              | DOk v [] => option_map (fun p => (true, p)) (reply_of_tup_val v)
              | _ => None
              end
            else
              match decode env0 sid_requestf_ResponsePacket body with
              | DOk v [] => option_map (fun p => (false, p)) (reply_of_rsp_val v)
              | _ => None
              end
        | None => None
        end
      else None
  | None => None
  end.

(* what a client reads first: version (tag 1), packet type (tag 2), then the request id - tag 3 of a
   ResponsePacket, tag 4 (after the message type, tag 3) of the RequestPacket shape used for TUP - and, for a
   ResponsePacket, the message type (tag 4) and the return code (tag 5). Member by member, like the generated ReadFrom. *)
Definition wire_ident (bs : list N) : option (Z * Z * Z) :=
  match r_int16 1 1 true (skipn 4 bs) with
  | ROk ver r1 =>
      match r_int8 1 2 true r1 with
      | ROk pt r2 =>
          if (ver =? c_TUPVERSION)%Z then
            match r_int32 1 3 true r2 with
            | ROk _ r3 => match r_int32 1 4 true r3 with ROk id _ => Some (ver, pt, id) | _ => None end
            | _ => None
            end
          else match r_int32 1 3 true r2 with ROk id _ => Some (ver, pt, id) | _ => None end
      | _ => None
      end
  | _ => None
  end.

(* the return code as far as the bytes carry one: None for the TUP shape *)
Definition wire_ret (bs : list N) : option Z :=
  match r_int16 1 1 true (skipn 4 bs) with
  | ROk ver r1 =>
      if (ver =? c_TUPVERSION)%Z then None else
      match r_int8 1 2 true r1 with
      | ROk _ r2 =>
          match r_int32 1 3 true r2 with
          | ROk _ r3 => match r_int32 1 4 true r3 with
                        | ROk _ r4 => match r_int32 1 5 true r4 with ROk ret _ => Some ret | _ => None end
                        | _ => None end
          | _ => None
          end
      | _ => None
      end
  | _ => None
  end.

(* ---------- schedules: TarsServer.invoke with a handle timeout, as a transition system ----------
   Three parties: the goroutine that runs Protocol.Invoke (Start = it has decoded the request and passed the
   select on ctx.Done(): if the deadline has already passed it takes that branch, answers with the queue-timeout code
   and does not dispatch; Return = it has stored the packet type in the request's Current, assigned rsp and called
   cancelFunc), the deadline of invokeCtx (Fire), and the handler (Wake = it gets past <-invokeCtx.Done() and picks
   rsp or, if rsp is still empty, InvokeTimeout(pkg) - which is empty for a one-way request; Write = it reads the
   packet type from the Current and writes unless that is one-way or there is nothing to write).
   [p] is what Invoke computes for this request when it is entered in time (invoke above); the label sequence is the
   scheduler's choice. *)
Inductive hlabel := LStart | LReturn | LFire | LWake | LWrite.
Record hstate := { s_started : bool; s_late : bool; s_returned : bool; s_fired : bool;
                   s_picked : option (list reply); s_written : option (list reply) }.
Definition hinit : hstate :=
  {| s_started := false; s_late := false; s_returned := false; s_fired := false; s_picked := None; s_written := None |}.

(* Invoke entered after the deadline: the ctx.Done() branch *)
Definition late_reply (r : request) : reply := with_ret (base_reply r) c_TARSSERVERQUEUETIMEOUT timeout_text.
(* Protocol.InvokeTimeout *)
Definition timeout_replies (r : request) : list reply :=
  if oneway r then [] else [with_ret (base_reply r) 1 timeout_text].

Definition hstep (r : request) (p : reply) (s : hstate) (l : hlabel) : option hstate :=
  match l with
  | LStart => if s_started s then None else
      Some {| s_started := true; s_late := s_fired s; s_returned := s_returned s; s_fired := s_fired s;
              s_picked := s_picked s; s_written := s_written s |}
  | LReturn => if s_started s && negb (s_returned s) then
      Some {| s_started := true; s_late := s_late s; s_returned := true; s_fired := s_fired s;
              s_picked := s_picked s; s_written := s_written s |}
      else None
  | LFire => if s_fired s then None else
      Some {| s_started := s_started s; s_late := s_late s; s_returned := s_returned s; s_fired := true;
              s_picked := s_picked s; s_written := s_written s |}
  | LWake =>
      match s_picked s with
      | Some _ => None
      | None =>
          if s_returned s || s_fired s then
            Some {| s_started := s_started s; s_late := s_late s; s_returned := s_returned s; s_fired := s_fired s;
                    s_picked := Some (if s_returned s then [if s_late s then late_reply r else p] else timeout_replies r);
                    s_written := s_written s |}
          else None
      end
  | LWrite =>
      match s_picked s, s_written s with
      | Some x, None =>
          (* current.GetPacketTypeFromContext: the request's packet type once Invoke has returned, 0 before *)
          let pt := if s_returned s then q_ptype r else 0%Z in
          Some {| s_started := s_started s; s_late := s_late s; s_returned := s_returned s; s_fired := s_fired s;
                  s_picked := s_picked s;
                  s_written := Some (if (pt =? c_TARSONEWAY)%Z then [] else x) |}
      | _, _ => None
      end
  end.

Fixpoint hrun_labels (r : request) (p : reply) (s : hstate) (ls : list hlabel) : option hstate :=
  match ls with
  | [] => Some s
  | l :: ls' => match hstep r p s l with Some s' => hrun_labels r p s' ls' | None => None end
  end.

(* ---------- pipelining: replies of concurrently handled requests reach the socket in any interleaving ---------- *)
Inductive interleave {A} : list (list A) -> list A -> Prop :=
| il_nil : forall ls, Forall (fun l => l = []) ls -> interleave ls []
| il_cons : forall pre x l post out, interleave (pre ++ l :: post) out -> interleave (pre ++ (x :: l) :: post) (x :: out).

(* ---------- correspondence ---------- *)
(* One case = one scripted connection: configuration, per request (packet bytes, queueing class in ms, what the
   dispatcher was scripted to do), everything the server wrote back (one byte string per reply, any order) and the
   number of times the implementation was entered per request. *)
Definition smap_eqb (a b : smap) : bool := val_sim (VMap a) (VMap b).

(* fields compared between the model's reply and the decoded observed bytes. Texts produced by the framework
   itself (timeouts, dispatcher refusals) are not compared, only the code; a TUP payload is compared as a finite map. *)
(* a TUP payload is a map<string, vector<byte>> at tag 0 (tup.UniAttribute.Encode iterates a Go map: any order):
   decoded with the generated-codec model and compared as a finite map *)
Definition tup_payload_val (buf : list N) : option val :=
  match dec_var (4 * length buf + 64) env0 0 true (TMap TStr (TVec TI8)) (VMap []) buf with
  | DOk v [] => Some v
  | _ => None
  end.
Definition tup_payload_eqb (a b : list N) : bool :=
  match tup_payload_val a, tup_payload_val b with
  | Some va, Some vb => val_sim va vb && (length a =? length b)%nat
  | _, _ => false
  end.

Definition fields_match (o : origin) (disp_err tup_payload : bool) (m : reply) (obs : bool * reply) : bool :=
  let '(shape, p) := obs in
  Bool.eqb shape (is_tup m) &&
  (p_ver p =? p_ver m)%Z && (p_ptype p =? p_ptype m)%Z && (p_id p =? p_id m)%Z && (p_mtype p =? p_mtype m)%Z &&
  (if is_tup m then true
   else (p_ret p =? p_ret m)%Z &&
        (match o with FromHandler => disp_err || bytes_eqb (p_desc p) (p_desc m) | _ => true end)) &&
  (if is_tup m && tup_payload && (match o with FromHandler => true | _ => false end)
   then tup_payload_eqb (p_buf p) (p_buf m) else bytes_eqb (p_buf p) (p_buf m)) &&
  smap_eqb (p_status p) (p_status m) && smap_eqb (p_ctx p) (p_ctx m).

(* the model's reply with the members that are not compared (framework texts, the unordered TUP payload) taken
   from the observation: its encoding must then be the observed bytes exactly. This ties the model's encoder
   (reply_bytes: rsp2Byte / req2Byte), which the wire-level theorems are about, to the implementation. *)
Definition patched (m p : reply) : reply :=
  {| p_ver := p_ver m; p_ptype := p_ptype m; p_id := p_id m; p_mtype := p_mtype m; p_ret := p_ret m;
     p_buf := p_buf p; p_status := p_status m; p_desc := p_desc p; p_ctx := p_ctx m |}.

Definition reply_matches (o : origin) (disp_err tup_payload : bool) (m : reply) (obs : (bool * reply) * list N) : bool :=
  if fields_match o disp_err tup_payload m (fst obs)
  then bytes_eqb (reply_bytes (patched m (snd (fst obs)))) (snd obs)
  else false.

Fixpoint take_first {A} (f : A -> bool) (l : list A) : option (list A) :=
  match l with
  | [] => None
  | x :: r => if f x then Some r else option_map (cons x) (take_first f r)
  end.

(* [k_counted]: the script's function is one whose entries the servant logs per request (act); for the others
   (void function, unknown function) the count is not observable per request *)
(* recorded events of one request (sched scenarios: the server's protocol is a recording wrapper of the real one):
   ES = Protocol.Invoke entered, ER = it returned, ET = InvokeTimeout called (the handler woke on the deadline and found
   rsp empty). The trace is validated against the transition system: the label sequence it stands for must be a run,
   and what that run writes must be what was observed. *)
Inductive hevent := ES | ER | ET.
Definition labels_of_trace (evs : list hevent) : list hlabel :=
  flat_map (fun e => match e with ES => [LStart] | ER => [LReturn] | ET => [LFire; LWake; LWrite] end) evs ++
  (if existsb (fun e => match e with ET => true | _ => false end) evs then [] else [LWake; LWrite]).

(* [k_window]: for a request that was answered, (send, seen) in ns: the wall clock just before the client wrote the
   request and when it read the reply. The request was received not before [send] and Invoke decided not after [seen].
   A queue-timeout answer of the model must be possible within that window (InvokeTimeProofs.qt_window_sound): the
   request's own timeout fits between the two clocks' millisecond readings, or the whole handle timeout does. *)
Definition qt_window_ok (timeout : Z) (ht : N) (send seen : N) : bool :=
  ((0 <? timeout)%Z && (timeout <=? Z.of_N (seen / 1000000 - send / 1000000))%Z) ||
  ((0 <? ht) && (ht * 1000000 <=? seen - send)).

Record c10_req := { k_pkg : hexs; k_queued : N; k_run : hrun; k_alts : list (N * N); k_trace : option (list hevent);
                    k_window : option (N * N); k_counted : bool; k_invoked : N }.
Record c10_case := { k_cfg : config; k_reqs : list c10_req; k_obs : list hexs }.

Definition is_disp_err (h : hrun) : bool := match h_res h with HFail DispErr => true | _ => false end.
Definition is_done (h : hrun) : bool := match h_res h with HDone _ _ _ => true | _ => false end.

(* every request: parses, the model's replies are all found among the observed ones (each observed reply used
   once), the invocation count agrees; nothing observed is left over.
   [k_alts]: for a scripted race (handler running for about the handle timeout; own timeout about the queueing
   time) the (queueing time, running time) pairs on either side of the boundary: the observation must agree with
   the model for one of them - the outcomes the schedules theorems allow. Empty otherwise: only the scripted pair. *)
Fixpoint c10_consume (cfg : config) (reqs : list c10_req) (obs : list (option ((bool * reply) * list N))) : bool :=
  match reqs with
  | [] => match obs with [] => true | _ => false end
  | k :: rest =>
      match parse_request (unhex (k_pkg k)) with
      | None => false
      | Some r =>
          existsb (fun qd : N * N =>
            match
              match k_trace k with
              | None => Some (server_step (fun _ => {| h_res := h_res (k_run k); h_dur := snd qd |}) cfg r (fst qd))
              | Some evs =>
                  let '(o, p, n, _) := invoke (fun _ => k_run k) r (fst qd) in
                  let fired := existsb (fun e => match e with ET => true | _ => false end) evs in
                  match hrun_labels r p hinit (labels_of_trace evs) with
                  | Some s => match s_written s with
                              | Some l => Some (map (fun x => (if fired then FromHandleTimeout else o, x)) l,
                                                if s_late s then O else n)
                              | None => None   (* not a complete run *)
                              end
                  | None => None               (* not a run of the transition system *)
                  end
              end
            with
            | None => false
            | Some (rs, n) =>
            ((if k_counted k then N.of_nat n else 0) =? k_invoked k) &&
            (match k_window k with
             | Some (a, b) => forallb (fun om : origin * reply =>
                                         match fst om with
                                         | FromQueueTimeout => qt_window_ok (q_timeout r) (c_ht cfg) a b
                                         | _ => true
                                         end) rs
             | None => true
             end) &&
            (fix go (rs : list (origin * reply)) (obs : list (option ((bool * reply) * list N))) : bool :=
               match rs with
               | [] => c10_consume cfg rest obs
               | (o, m) :: rs' =>
                   match take_first (fun x => match x with
                                              | Some ob => reply_matches o (is_disp_err (k_run k)) (is_done (k_run k)) m ob
                                              | None => false end) obs with
                   | Some obs' => go rs' obs'
                   | None => false
                   end
               end) rs obs
            end)
            (match k_alts k with [] => [(k_queued k, h_dur (k_run k))] | alts => alts end)
      end
  end.

Definition c10_check (c : c10_case) : bool :=
  c10_consume (k_cfg c) (k_reqs c)
    (map (fun h => let bs := unhex h in option_map (fun d => (d, bs)) (decode_reply bs)) (k_obs c)).
Definition c10_mismatches (off : N) (cs : list c10_case) : list N := failing_from c10_check off cs.

