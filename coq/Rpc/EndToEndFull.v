(* C01 proofs, part 4: the value clause without codec hypotheses.
   The struct-level codec round trip of C03 (Codec/RoundTripProofs.v, rt_all: mutual induction over vectors, bytes,
   maps, arrays, nested structs, for every fuel, with unknown fields in front of every member) is applied to the
   argument list seen as a struct schema with required members at tags 1..n (what the generator does with its dummy
   members):
     - the dispatcher's decoder, run over the proxy's encoding of all arguments, yields the in arguments (normalised):
       [args_decode_full] for signatures whose out parameters follow the in parameters (no skipping involved),
       [args_decode_any] for every signature - the encoded out arguments between the in arguments are unknown fields,
       well formed by Rpc/ValueWire.v ([interleave]);
     - the proxy's decoder, run over the dispatcher's encoding of return value and out arguments into fresh out
       variables ([outs_fresh]: Go zero values; a variable holding earlier content is the known finding), yields them
       (normalised);
     - both packets survive packet codec, frame and receive loop (C03 on the regenerated packet schemas, C07).
   [norm] (Codec/RoundTrip.v) is the identity except that an optional scalar struct member equal (==) to its declared
   default comes back as the default (only -0.0 vs +0.0 differ). *)
From Coq Require Import List NArith ZArith Bool Arith Lia.
From TarsV Require Import Gen.Consts Base.Hex Codec.Wire Codec.Skip Codec.Prim Codec.GenCodec Codec.Corr
  Codec.RoundTrip Codec.RoundTripProofs Codec.SkipProofs Frame.Framing Rpc.Filters Rpc.FiltersProofs Rpc.EndToEnd Rpc.EndToEndProofs Rpc.EndToEndConc Rpc.ValueWire Rpc.PriorIndep.
Import ListNotations.
Open Scope N_scope.

(* ---------- the two renderings of "encode a list of members" agree ---------- *)
Lemma enc_fields_bridge e fds vs : EndToEnd.enc_fields e fds vs = RoundTrip.enc_fields e vs fds.
Proof.
  revert fds. induction vs as [|x vs IH]; intros [|fd fds]; cbn [EndToEnd.enc_fields RoundTrip.enc_fields]; try reflexivity.
  now rewrite IH.
Qed.

Lemma enc_fields_app e : forall a va b vb, length a = length va ->
  RoundTrip.enc_fields e (va ++ vb) (a ++ b) = RoundTrip.enc_fields e va a ++ RoundTrip.enc_fields e vb b.
Proof.
  induction a as [|fd a IH]; intros [|x va] b vb Hl; try discriminate; [reflexivity|].
  cbn [app RoundTrip.enc_fields]. rewrite IH by (cbn [length] in Hl; lia). now rewrite app_assoc.
Qed.

(* ---------- signatures whose out parameters follow the in parameters ---------- *)
Fixpoint ins_first (l : list (ty * bool)) : bool :=
  match l with
  | [] => true
  | (_, false) :: r => ins_first r
  | (_, true) :: r => forallb snd r
  end.

Definition keep_in (p : field * bool) : bool := negb (snd p).
Definition keep_out (p : field * bool) : bool := snd p.

Lemma arg_fields_length : forall l i, length (arg_fields i l) = length l.
Proof. induction l as [|[t o] l IH]; intros i; cbn [arg_fields length]; [reflexivity|now rewrite IH]. Qed.

Lemma all_out_split : forall l i, forallb snd l = true ->
  filter keep_in (arg_fields i l) = [] /\ filter keep_out (arg_fields i l) = arg_fields i l.
Proof.
  induction l as [|[t o] l IH]; intros i H; [split; reflexivity|].
  cbn [forallb snd] in H. apply andb_true_iff in H. destruct H as [-> H].
  cbn [arg_fields filter keep_in keep_out snd negb]. destruct (IH (i + 1) H) as [-> ->]. split; reflexivity.
Qed.
Lemma all_out_pick {A} : forall (l : list (ty * bool)) (args : list A), forallb snd l = true -> length args = length l ->
  pick false (map snd l) args = [] /\ pick true (map snd l) args = args.
Proof.
  induction l as [|[t o] l IH]; intros [|x args] H Hl; try discriminate; [split; reflexivity|].
  cbn [forallb snd] in H. apply andb_true_iff in H. destruct H as [-> H].
  cbn [map snd pick Bool.eqb]. cbn [length] in Hl. destruct (IH args H ltac:(lia)) as [-> ->]. split; reflexivity.
Qed.

(* under [ins_first] the member list is the in members followed by the out members, and likewise the values *)
Lemma ins_first_fields : forall l i, ins_first l = true ->
  map fst (arg_fields i l) = map fst (filter keep_in (arg_fields i l)) ++ map fst (filter keep_out (arg_fields i l)).
Proof.
  induction l as [|[t o] l IH]; intros i H; [reflexivity|]. destruct o.
  - cbn [ins_first] in H. destruct (all_out_split l (i + 1) H) as [E1 E2].
    cbn [arg_fields filter keep_in keep_out snd negb]. rewrite E1, E2. reflexivity.
  - cbn [ins_first] in H. cbn [arg_fields filter keep_in keep_out snd negb map fst app]. now rewrite <- IH.
Qed.
Lemma ins_first_vals {A} : forall (l : list (ty * bool)) (args : list A), ins_first l = true -> length args = length l ->
  args = pick false (map snd l) args ++ pick true (map snd l) args.
Proof.
  induction l as [|[t o] l IH]; intros [|x args] H Hl; try discriminate; [reflexivity|]. destruct o.
  - cbn [ins_first] in H. cbn [length] in Hl. destruct (all_out_pick l args H ltac:(lia)) as [E1 E2].
    cbn [map snd pick Bool.eqb]. rewrite E1, E2. reflexivity.
  - cbn [ins_first] in H. cbn [length] in Hl. cbn [map snd pick Bool.eqb app]. now rewrite <- IH by (assumption || lia).
Qed.

Lemma pick_length {A} want : forall (l : list (ty * bool)) i (args : list A), length args = length l ->
  length (pick want (map snd l) args) = length (filter (fun p : field * bool => Bool.eqb (snd p) want) (arg_fields i l)).
Proof.
  induction l as [|[t o] l IH]; intros i [|x args] Hl; try discriminate; [reflexivity|].
  cbn [map snd pick arg_fields filter]. cbn [length] in Hl. destruct (Bool.eqb o want); cbn [length]; rewrite (IH (i + 1)) by lia; reflexivity.
Qed.
Lemma keep_in_eqb : forall l : list (field * bool), filter keep_in l = filter (fun p => Bool.eqb (snd p) false) l.
Proof. intros l. apply filter_ext. intros [fd []]; reflexivity. Qed.
Lemma keep_out_eqb : forall l : list (field * bool), filter keep_out l = filter (fun p => Bool.eqb (snd p) true) l.
Proof. intros l. apply filter_ext. intros [fd []]; reflexivity. Qed.

(* ---------- typing of argument lists ---------- *)
Definition args_typed (e : env) (l : list (ty * bool)) (args : list val) : Prop :=
  Forall2 (fun p x => has_type e (fst p) x) l args.

Lemma picked_typed e want : forall l i args, args_typed e l args ->
  Forall2 (fun fd x => has_type e (fty fd) x)
          (map fst (filter (fun p : field * bool => Bool.eqb (snd p) want) (arg_fields i l))) (pick want (map snd l) args).
Proof.
  induction l as [|[t o] l IH]; intros i args H; inversion H as [|? x ? args' Hx Hr]; subst; [constructor|].
  cbn [arg_fields filter map snd pick]. destruct (Bool.eqb o want); cbn [map fst]; [constructor; [exact Hx|]|]; now apply IH.
Qed.

(* ---------- tags ascend ---------- *)
Lemma picked_ascending (P : field * bool -> bool) : forall l i p, p < i -> i + N.of_nat (length l) <= 256 ->
  ascending p (map fst (filter P (arg_fields i l))).
Proof.
  induction l as [|[t o] l IH]; intros i p Hp Hb; [exact I|].
  cbn [arg_fields filter]. cbn [length] in Hb. destruct (P _); cbn [map fst ascending].
  - cbn [mkfield ftag]. split; [assumption|]. split; [lia|]. apply IH; lia.
  - apply IH; lia.
Qed.
Lemma ascending_schema p fds : ascending p fds -> schema_ascending fds.
Proof. destruct fds as [|fd r]; [trivial|]. cbn [ascending schema_ascending]. tauto. Qed.

Lemma picked_members (P : field * bool -> bool) (Q : field -> Prop) : forall l i,
  (forall j t, Q (mkfield j t)) -> Forall Q (map fst (filter P (arg_fields i l))).
Proof.
  induction l as [|[t o] l IH]; intros i H; [constructor|]. cbn [arg_fields filter]. destruct (P _); cbn [map fst]; [constructor; [apply H|]|]; now apply IH.
Qed.
Lemma picked_members_ty (P : field * bool -> bool) (Q : ty -> Prop) : forall l i,
  Forall (fun p => Q (fst p)) l -> Forall (fun fd => Q (fty fd)) (map fst (filter P (arg_fields i l))).
Proof.
  induction l as [|[t o] l IH]; intros i H; inversion H as [|? ? Ht Hr]; subst; [constructor|].
  cbn [arg_fields filter]. destruct (P _); cbn [map fst]; [constructor; [exact Ht|]|]; now apply IH.
Qed.

Lemma filter_true_all {A} (l : list A) : filter (fun _ => true) l = l.
Proof. induction l as [|x l IH]; cbn [filter]; [reflexivity|now rewrite IH]. Qed.

Lemma encx_length e : forall vs fds Js lo, junks_ok lo fds Js ->
  (length (RoundTrip.enc_fields e vs fds) <= length (encx_fields e vs fds Js))%nat.
Proof.
  induction vs as [|x vs IH]; intros fds Js lo HJ; [destruct fds; cbn; lia|].
  destruct fds as [|fd fds]; [cbn; lia|]. destruct Js as [|J Js]; [contradiction|].
  cbn [junks_ok] in HJ. destruct HJ as [_ HJ]. cbn [RoundTrip.enc_fields encx_fields].
  rewrite !app_length. specialize (IH fds Js _ HJ). lia.
Qed.

(* the recursion depth a member list needs, without a term for the number of members: member i is reached after i-1
   required members of at least one byte each *)
Lemma need_fields_bound2 e (g : ty -> nat) : forall fds vs,
  Forall2 (fun fd x => (need x <= g (fty fd) + 2 * length (enc_var e (ftag fd) (freq fd) (fty fd) (fdef fd) x))%nat /\
                       (1 <= length (enc_var e (ftag fd) (freq fd) (fty fd) (fdef fd) x))%nat) fds vs ->
  (need_list vs <= 2 + tmax g fds + 2 * length (RoundTrip.enc_fields e vs fds))%nat.
Proof.
  induction 1 as [|fd x fds vs [Hb H1] _ IH]; cbn [need_list RoundTrip.enc_fields length tmax fold_right]; [lia|].
  fold (tmax g fds). rewrite app_length. lia.
Qed.
Lemma required_nonempty e fds vs : Forall2 (fun fd x => has_type e (fty fd) x) fds vs -> Forall (fun fd => freq fd = true) fds ->
  Forall2 (fun fd x => (1 <= length (enc_var e (ftag fd) (freq fd) (fty fd) (fdef fd) x))%nat) fds vs.
Proof.
  induction 1 as [|fd x fds vs Hx _ IH]; intros Hr; [constructor|]. inversion Hr as [|? ? Hf Hr']; subst.
  constructor; [rewrite Hf; now apply enc_var_req_length|now apply IH].
Qed.
Lemma Forall2_conj {A B} (P Q : A -> B -> Prop) l1 l2 : Forall2 P l1 l2 -> Forall2 Q l1 l2 -> Forall2 (fun a b => P a b /\ Q a b) l1 l2.
Proof. induction 1; intros H2; inversion H2; subst; constructor; auto. Qed.

(* ---------- the member-list round trip, from C03's rt_all ---------- *)
Section Full.
  Variable e : env.
  Variable k n : nat.
  Hypothesis Hwf : wf_schema k e.
  Hypothesis Hk : (k <= 64)%nat.

  (* conditions on a member list (argument list / result list): required members without defaults, types nested
     within k and of finite depth, and few and shallow enough for the decoder's fuel 4 * length + 64 *)
  Definition member_fine (fd : field) : Prop :=
    ty_nest k e (fty fd) = true /\ tfin n e (fty fd) = true /\ fdef fd = None.
  Definition fuel_static (fds : schema) : Prop := (tmax (tneed n e) fds + k + 5 <= 64)%nat.
  Definition all_required (fds : schema) : Prop := Forall (fun fd => freq fd = true) fds.

  Lemma fields_rt fds vs ps tail :
    Forall2 (fun fd x => has_type e (fty fd) x) fds vs -> Forall member_fine fds -> schema_ascending fds ->
    Forall2 (fun fd p => zlike e (fty fd) p) fds ps ->
    (forall fd, In fd fds -> follows (ftag fd) tail) -> all_required fds -> fuel_static fds ->
    dec_fields (4 * length (RoundTrip.enc_fields e vs fds ++ tail) + 64) e fds ps (RoundTrip.enc_fields e vs fds ++ tail)
    = DOk (norm_fields e vs fds) tail.
  Proof.
    intros Hty Hmem Hasc Hps Hfo Hreq Hfuel.
    assert (Hl : length fds = length vs) by (now apply Forall2_len in Hty).
    destruct (rt_all e k Hwf (4 * length (RoundTrip.enc_fields e vs fds ++ tail) + 64)) as (_ & _ & _ & _ & HF).
    specialize (HF fds vs ps (map (fun _ => []) fds) None tail).
    rewrite (encx_nil e vs fds Hl) in HF. apply HF; clear HF.
    - exact Hty.
    - eapply Forall_impl; [|exact Hmem]. intros fd (H1 & _ & H3). split; [exact H1|]. intros H. now rewrite H3 in H.
    - exact Hasc.
    - clear - Hps Hmem. induction Hps as [|fd p fds ps Hp _ IH]; [constructor|].
      inversion Hmem as [|? ? (_ & _ & Hd) Hm]; subst. constructor; [|now apply IH].
      unfold prior_ok. now rewrite Hd.
    - apply junks_nil.
    - exact Hfo.
    - unfold fuel_ok.
      assert (Hb : Forall2 (fun fd x => (need x <= tneed n e (fty fd) + 2 * length (enc_var e (ftag fd) (freq fd) (fty fd) (fdef fd) x))%nat) fds vs).
      { apply fields_bound_aux; [exact Hty|]. intros fd Hin x tag req d Hx. apply need_bound; [|exact Hx].
        rewrite Forall_forall in Hmem. now destruct (Hmem fd Hin) as (_ & H & _). }
      pose proof (need_fields_bound2 e (tneed n e) fds vs (Forall2_conj _ _ _ _ Hb (required_nonempty e fds vs Hty Hreq))) as Hn.
      unfold fuel_static in Hfuel. rewrite app_length in *. lia.
  Qed.

  (* ----- helper facts about member lists cut out of an argument list ----- *)
  Definition ty_fine (t : ty) : Prop := ty_nest k e t = true /\ tfin n e t = true.

  Lemma picked_fine (P : field * bool -> bool) : forall l i,
    Forall (fun p => ty_fine (fst p)) l -> Forall member_fine (map fst (filter P (arg_fields i l))).
  Proof.
    induction l as [|[t o] l IH]; intros i H; inversion H as [|? ? [H1 H2] Hr]; subst; [constructor|].
    cbn [arg_fields filter]. destruct (P _); cbn [map fst]; [constructor; [repeat split; assumption|]|]; now apply IH.
  Qed.

  Lemma zeros_zlike fds : Forall member_fine fds -> Forall2 (fun fd p => zlike e (fty fd) p) fds (zeros e fds).
  Proof.
    induction 1 as [|fd fds (H1 & _ & _) _ IH]; cbn [zeros map]; constructor; [|exact IH].
    apply (zero_zlike e k); [now apply (ty_nest_nest e k)|exact Hk].
  Qed.

  Lemma ascending_app p : forall a b, ascending p (a ++ b) ->
    forall x y, In x a -> In y b -> ftag x < ftag y.
  Proof.
    intros a. revert p. induction a as [|fd a IH]; intros p b H x y Hx Hy; [contradiction|].
    cbn [app ascending] in H. destruct H as (_ & _ & H). destruct Hx as [->|Hx].
    - apply (ascending_all_gt _ _ H). apply in_or_app. now right.
    - now apply (IH _ _ H).
  Qed.

  (* what follows the in members: nothing, or the head of the first out member, whose tag is larger *)
  Lemma tail_follows t : forall fds vs, Forall2 (fun fd x => has_type e (fty fd) x) fds vs ->
    (forall fd, In fd fds -> freq fd = true /\ t < ftag fd /\ ftag fd < 256) ->
    follows t (RoundTrip.enc_fields e vs fds).
  Proof.
    intros fds vs H Hall. destruct H as [|fd x fds vs Hx _]; [now left|].
    cbn [RoundTrip.enc_fields]. destruct (Hall fd (or_introl eq_refl)) as (Hreq & Hlt & H256).
    destruct (enc_var_head e (ftag fd) (freq fd) (fty fd) (fdef fd) x Hx) as [[Hf _]|(wt & r & Hwt & ->)]; [congruence|].
    right. exists wt, (ftag fd), (r ++ RoundTrip.enc_fields e vs fds). repeat split; try assumption.
    - now rewrite <- app_assoc.
    - now right.
  Qed.

  Lemma in_fields_eqb f : in_fields f = map fst (filter (fun p : field * bool => Bool.eqb (snd p) false) (arg_fields 1 (fs_args f))).
  Proof. unfold in_fields. apply (f_equal (map fst)). apply filter_ext. intros [fd []]; reflexivity. Qed.
  Lemma out_fields_eqb f : out_fields f = map fst (filter (fun p : field * bool => Bool.eqb (snd p) true) (arg_fields 1 (fs_args f))).
  Proof. unfold out_fields. apply (f_equal (map fst)). apply filter_ext. intros [fd []]; reflexivity. Qed.

  Lemma picked_tags (P : field * bool -> bool) : forall l i fd, i + N.of_nat (length l) <= 256 ->
    In fd (map fst (filter P (arg_fields i l))) -> freq fd = true /\ i <= ftag fd /\ ftag fd < 256.
  Proof.
    induction l as [|[t o] l IH]; intros i fd Hb Hin; [contradiction|]. cbn [arg_fields filter length] in *.
    destruct (P _); cbn [map fst In] in Hin.
    - destruct Hin as [<-|Hin]; [cbn [mkfield freq ftag]; repeat split; lia|]. destruct (IH (i + 1) fd ltac:(lia) Hin) as (? & ? & ?). repeat split; [assumption|lia|assumption].
    - destruct (IH (i + 1) fd ltac:(lia) Hin) as (? & ? & ?). repeat split; [assumption|lia|assumption].
  Qed.

  (* ----- the argument list: the dispatcher decodes the (normalised) in arguments ----- *)
  Definition sig_args_ok (f : fsig) : Prop :=
    Forall (fun p => ty_fine (fst p)) (fs_args f) /\ N.of_nat (length (fs_args f)) < 255.

  Theorem args_decode_full f args :
    ins_first (fs_args f) = true -> args_typed e (fs_args f) args -> sig_args_ok f -> fuel_static (in_fields f) ->
    args_decode e f args (norm_fields e (ins_of f args) (in_fields f)).
  Proof.
    intros Hif Hty [Hfine Hlen] Hfuel.
    assert (Hl : length args = length (fs_args f)) by (symmetry; now apply Forall2_len in Hty).
    set (tail := RoundTrip.enc_fields e (outs_of f args) (out_fields f)).
    exists tail. unfold dec_list.
    assert (Henc : EndToEnd.enc_fields e (all_fields f) args = RoundTrip.enc_fields e (ins_of f args) (in_fields f) ++ tail).
    { rewrite enc_fields_bridge. unfold all_fields, tail, in_fields, out_fields, ins_of, outs_of, dirs_of.
      rewrite (ins_first_fields (fs_args f) 1 Hif).
      rewrite (ins_first_vals (fs_args f) args Hif Hl) at 1.
      apply enc_fields_app. rewrite map_length. fold keep_in. rewrite keep_in_eqb. symmetry. now apply pick_length. }
    rewrite Henc. apply fields_rt.
    - rewrite in_fields_eqb. unfold ins_of, dirs_of. now apply picked_typed.
    - unfold in_fields. now apply picked_fine.
    - unfold in_fields. apply (ascending_schema 0). apply picked_ascending; lia.
    - apply zeros_zlike. unfold in_fields. now apply picked_fine.
    - intros fd Hin. unfold tail. apply tail_follows.
      + rewrite out_fields_eqb. unfold outs_of, dirs_of. now apply picked_typed.
      + intros fo Hfo. unfold out_fields in Hfo. destruct (picked_tags _ (fs_args f) 1 fo ltac:(lia) Hfo) as (H1 & _ & H3).
        repeat split; try assumption.
        assert (Hasc : ascending 0 (in_fields f ++ out_fields f)).
        { unfold in_fields, out_fields. fold keep_in keep_out. rewrite <- (ins_first_fields (fs_args f) 1 Hif).
          rewrite <- (filter_true_all (arg_fields 1 (fs_args f))). apply picked_ascending; lia. }
        exact (ascending_app 0 _ _ Hasc fd fo Hin Hfo).
    - unfold all_required, in_fields. apply picked_members. reflexivity.
    - exact Hfuel.
  Qed.

  (* ----- any signature: the encoded out arguments between the in arguments are passed over (C04's skip_exact) ----- *)
  Lemma fields_rt_junk fds vs ps Js tail :
    Forall2 (fun fd x => has_type e (fty fd) x) fds vs -> Forall member_fine fds -> schema_ascending fds ->
    Forall2 (fun fd p => zlike e (fty fd) p) fds ps -> junks_ok None fds Js ->
    (forall fd, In fd fds -> follows (ftag fd) tail) -> all_required fds -> fuel_static fds ->
    dec_fields (4 * length (encx_fields e vs fds Js ++ tail) + 64) e fds ps (encx_fields e vs fds Js ++ tail)
    = DOk (norm_fields e vs fds) tail.
  Proof.
    intros Hty Hmem Hasc Hps HJ Hfo Hreq Hfuel.
    destruct (rt_all e k Hwf (4 * length (encx_fields e vs fds Js ++ tail) + 64)) as (_ & _ & _ & _ & HF).
    apply (HF fds vs ps Js None tail); clear HF.
    - exact Hty.
    - eapply Forall_impl; [|exact Hmem]. intros fd (H1 & _ & H3). split; [exact H1|]. intros H. now rewrite H3 in H.
    - exact Hasc.
    - clear - Hps Hmem. induction Hps as [|fd p fds ps Hp _ IH]; [constructor|].
      inversion Hmem as [|? ? (_ & _ & Hd) Hm]; subst. constructor; [|now apply IH].
      unfold prior_ok. now rewrite Hd.
    - exact HJ.
    - exact Hfo.
    - unfold fuel_ok.
      assert (Hb : Forall2 (fun fd x => (need x <= tneed n e (fty fd) + 2 * length (enc_var e (ftag fd) (freq fd) (fty fd) (fdef fd) x))%nat) fds vs).
      { apply fields_bound_aux; [exact Hty|]. intros fd Hin x tag req d Hx. apply need_bound; [|exact Hx].
        rewrite Forall_forall in Hmem. now destruct (Hmem fd Hin) as (_ & H & _). }
      pose proof (need_fields_bound2 e (tneed n e) fds vs (Forall2_conj _ _ _ _ Hb (required_nonempty e fds vs Hty Hreq))) as Hn.
      pose proof (encx_length e vs fds Js None HJ) as Hle.
      unfold fuel_static in Hfuel. rewrite app_length in *. lia.
  Qed.

  Lemma env_tags : forall sid fd, In fd (fields_of e sid) -> ftag fd < 256.
  Proof.
    intros sid fd Hin. pose proof (wf_asc k e Hwf sid) as H. revert H Hin. generalize (fields_of e sid). intros fds.
    destruct fds as [|f0 r]; [contradiction|]. cbn [schema_ascending]. intros [H0 Hr] [<-|Hin]; [exact H0|].
    revert Hr Hin. generalize (ftag f0). induction r as [|g r IH]; intros p Hr Hin; [contradiction|].
    cbn [ascending] in Hr. destruct Hr as (_ & Hg & Hr). destruct Hin as [<-|Hin]; [exact Hg|]. exact (IH _ Hr Hin).
  Qed.

  (* an out argument the dispatcher can pass over: sizes and nesting within what the skipping reader handles *)
  Definition skippable (x : val) : Prop := small x /\ vdepth x <= maxd.
  Definition outs_skippable (f : fsig) (args : list val) : Prop := Forall skippable (outs_of f args).

  Lemma ser_fields_app a b : ser_fields (a ++ b) = ser_fields a ++ ser_fields b.
  Proof. induction a as [|x a IH]; cbn [app ser_fields]; [reflexivity|]. now rewrite IH, app_assoc. Qed.

  Definition lo_lt (lo : option N) (i : N) : Prop := match lo with Some l0 => l0 < i | None => True end.
  Definition junk_between (lo : option N) (hi : N) (J : list (N * wf)) : Prop := junk_ok lo hi J.

  (* walking the argument list with the pending (not yet passed over) encoded out arguments [J] *)
  Lemma interleave : forall l i args J lo,
    args_typed e l args -> Forall skippable (pick true (map snd l) args) ->
    i + N.of_nat (length l) <= 256 -> lo_lt lo i -> junk_ok lo i J ->
    exists Js Jt,
      ser_fields J ++ RoundTrip.enc_fields e args (map fst (arg_fields i l))
      = encx_fields e (pick false (map snd l) args) (map fst (filter keep_in (arg_fields i l))) Js ++ ser_fields Jt
      /\ junks_ok lo (map fst (filter keep_in (arg_fields i l))) Js
      /\ Forall (fun p => fst p < 256 /\ match lo with Some l0 => l0 < fst p | None => True end) Jt
      /\ (forall fd, In fd (map fst (filter keep_in (arg_fields i l))) -> Forall (fun p => ftag fd < fst p) Jt).
  Proof.
    induction l as [|[t o] l IH]; intros i args J lo Hty Hsk Hb Hlo HJ.
    - inversion Hty; subst. exists [], J. cbn [arg_fields map filter pick RoundTrip.enc_fields encx_fields junks_ok].
      rewrite app_nil_r. repeat split.
      + eapply Forall_impl; [|exact HJ]. intros p (H1 & _ & _ & _ & H5). split; assumption.
      + intros fd [].
    - inversion Hty as [|? x ? xs Hx Hr]; subst. cbn [fst] in Hx. cbn [length] in Hb. destruct o.
      + (* out argument: becomes pending junk *)
        cbn [map snd pick Bool.eqb] in Hsk. inversion Hsk as [|? ? [Hsm Hd] Hsk']; subst.
        destruct (value_is_field e env_tags (need x) x t i true None (le_n _) Hx ltac:(lia) Hsm) as [[Hf _]|(w & Ew & Okw & Dw)]; [discriminate|].
        destruct (IH (i + 1) xs (J ++ [(i, w)]) lo Hr Hsk' ltac:(lia)) as (Js & Jt & E & HJs & HJt & Hfd).
        { destruct lo; cbn [lo_lt] in *; lia. }
        { unfold junk_ok in *. apply Forall_app. split.
          - eapply Forall_impl; [|exact HJ]. intros p (H1 & H2 & H3 & H4 & H5). repeat split; try assumption. lia.
          - constructor; [|constructor]. cbn [fst snd]. repeat split; try assumption; try lia. all: try (destruct lo; cbn [lo_lt] in Hlo; [assumption|trivial]). }
        exists Js, Jt. cbn [arg_fields map fst filter keep_in snd negb pick Bool.eqb RoundTrip.enc_fields mkfield ftag freq fty fdef].
        rewrite Ew. split; [|repeat split; assumption].
        rewrite <- E, ser_fields_app. cbn [ser_fields]. rewrite app_nil_r, <- !app_assoc. reflexivity.
      + (* in argument: the pending junk precedes it *)
        cbn [map snd pick Bool.eqb] in Hsk.
        destruct (IH (i + 1) xs [] (Some i) Hr Hsk ltac:(lia)) as (Js & Jt & E & HJs & HJt & Hfd).
        { cbn [lo_lt]. lia. }
        { constructor. }
        cbn [ser_fields app] in E.
        exists (J :: Js), Jt. cbn [arg_fields map fst filter keep_in snd negb pick Bool.eqb RoundTrip.enc_fields encx_fields mkfield ftag freq fty fdef].
        split; [|split; [|split]].
        * rewrite E, <- !app_assoc. reflexivity.
        * cbn [junks_ok ftag]. split; [exact HJ|exact HJs].
        * eapply Forall_impl; [|exact HJt]. intros p [H1 H2]. split; [assumption|]. destruct lo; cbn [lo_lt] in Hlo; [lia|trivial].
        * intros fd [<-|Hin]; [|now apply Hfd]. cbn [ftag]. eapply Forall_impl; [|exact HJt]. intros p [_ H2]. exact H2.
  Qed.

  Lemma junk_tail_follows t Jt : Forall (fun p : N * wf => fst p < 256 /\ t < fst p) Jt -> follows t (ser_fields Jt).
  Proof.
    intros H. destruct Jt as [|[t0 w0] r]; [now left|]. inversion H as [|? ? [H1 H2] _]; subst. cbn [fst] in *.
    right. exists (ty_of w0), t0, (ser_body w0 ++ ser_fields r). repeat split.
    - apply ty_of_lt.
    - exact H1.
    - rewrite ser_fields_cons. reflexivity.
    - now right.
  Qed.

  Theorem args_decode_any f args :
    args_typed e (fs_args f) args -> outs_skippable f args -> sig_args_ok f -> fuel_static (in_fields f) ->
    args_decode e f args (norm_fields e (ins_of f args) (in_fields f)).
  Proof.
    intros Hty Hsk [Hfine Hlen] Hfuel.
    destruct (interleave (fs_args f) 1 args [] None Hty Hsk ltac:(lia) I ltac:(constructor)) as (Js & Jt & E & HJs & HJt & Hfd).
    cbn [ser_fields app] in E.
    exists (ser_fields Jt). unfold dec_list. rewrite enc_fields_bridge. unfold all_fields. rewrite E.
    unfold ins_of, dirs_of. fold (in_fields f). change (map fst (filter keep_in (arg_fields 1 (fs_args f)))) with (in_fields f) in *.
    apply fields_rt_junk.
    - rewrite in_fields_eqb. now apply picked_typed.
    - unfold in_fields. now apply picked_fine.
    - unfold in_fields. apply (ascending_schema 0). apply picked_ascending; lia.
    - apply zeros_zlike. unfold in_fields. now apply picked_fine.
    - exact HJs.
    - intros fd Hin. apply junk_tail_follows. specialize (Hfd fd Hin).
      clear - HJt Hfd. induction Jt as [|p r IH]; [constructor|]. inversion HJt as [|? ? [H1 _] H2]; inversion Hfd; subst.
      constructor; [split; assumption|]. now apply IH.
    - unfold all_required, in_fields. apply picked_members. reflexivity.
    - exact Hfuel.
  Qed.

  (* for finite (non-recursive) types the nesting depth of a value is bounded by its type (ValueWire.vdepth_bound) and the
     static size condition keeps that bound below the skip depth limit regenerated from the code: only the sizes remain *)
  Definition outs_small (f : fsig) (args : list val) : Prop := Forall small (outs_of f args).
  Lemma maxd_ge_64 : 64 <= maxd.
  Proof. vm_compute. discriminate. Qed.

  Lemma outs_skippable_static f args :
    args_typed e (fs_args f) args -> sig_args_ok f -> fuel_static (rsp_fields f) -> outs_small f args -> outs_skippable f args.
  Proof.
    intros Hty [Hfine _] Hfuel Hsm. unfold outs_skippable, outs_small in *.
    assert (Ht : Forall2 (fun fd x => has_type e (fty fd) x) (out_fields f) (outs_of f args)).
    { rewrite out_fields_eqb. unfold outs_of, dirs_of. now apply picked_typed. }
    assert (Hm : Forall member_fine (out_fields f)) by (unfold out_fields; now apply picked_fine).
    assert (Hb : forall fd, In fd (out_fields f) -> (tneed n e (fty fd) <= 59)%nat).
    { intros fd Hin. unfold fuel_static, rsp_fields in Hfuel.
      pose proof (tmax_ge (tneed n e) (ret_fields f ++ out_fields f) fd ltac:(apply in_or_app; now right)). lia. }
    clear Hfuel Hfine Hty. revert Hsm Hm Hb. induction Ht as [|fd x fds vs Hx _ IH]; intros Hsm Hm Hb; [constructor|].
    inversion Hsm; inversion Hm as [|? ? (_ & Hfin & _) Hm']; subst. constructor.
    - split; [assumption|]. pose proof (vdepth_bound e n (fty fd) x Hfin Hx). pose proof (Hb fd (or_introl eq_refl)).
      pose proof maxd_ge_64. lia.
    - apply IH; try assumption. intros fd' Hin. apply Hb. now right.
  Qed.

  (* ----- the results: the proxy decodes the (normalised) return value and out arguments into fresh variables ----- *)
  Definition ret_ok (f : fsig) : Prop := match fs_ret f with Some t => ty_fine t | None => True end.
  Definition results_typed (f : fsig) (vs : list val) : Prop := Forall2 (fun fd x => has_type e (fty fd) x) (rsp_fields f) vs.
  (* the caller's out variables hold Go zero values (freshly declared variables) *)
  Definition outs_fresh (f : fsig) (args : list val) : Prop :=
    Forall2 (fun fd p => zlike e (fty fd) p) (out_fields f) (outs_of f args).

  Lemma ret_fields_fine f : ret_ok f -> Forall member_fine (ret_fields f).
  Proof. unfold ret_ok, ret_fields. destruct (fs_ret f); intros H; constructor; [|constructor]. destruct H. repeat split; assumption. Qed.

  (* core: any targets for the out parameters that look like fresh variables *)
  Lemma results_decode_priors f ps vs :
    results_typed f vs -> sig_args_ok f -> ret_ok f -> Forall2 (fun fd p => zlike e (fty fd) p) (out_fields f) ps ->
    fuel_static (rsp_fields f) ->
    dec_list e (rsp_fields f) (zeros e (ret_fields f) ++ ps) (EndToEnd.enc_fields e (rsp_fields f) vs)
    = DOk (norm_fields e vs (rsp_fields f)) [].
  Proof.
    intros Hty [Hfine Hlen] Hret Hfresh Hfuel. unfold dec_list. rewrite enc_fields_bridge.
    assert (Hmem : Forall member_fine (rsp_fields f)).
    { unfold rsp_fields. apply Forall_app. split; [now apply ret_fields_fine|]. unfold out_fields. now apply picked_fine. }
    pose proof (fields_rt (rsp_fields f) vs (zeros e (ret_fields f) ++ ps) [] Hty Hmem) as H.
    rewrite app_nil_r in H. apply H; clear H.
    - unfold rsp_fields, ret_fields, out_fields. destruct (fs_ret f); cbn [app].
      + cbn [schema_ascending mkfield ftag]. split; [lia|]. apply picked_ascending; lia.
      + apply (ascending_schema 0). apply picked_ascending; lia.
    - unfold rsp_fields. apply Forall2_app; [|exact Hfresh]. apply zeros_zlike. now apply ret_fields_fine.
    - intros; apply follows_nil.
    - unfold all_required, rsp_fields. apply Forall_app. split.
      + unfold ret_fields. destruct (fs_ret f); repeat constructor.
      + unfold out_fields. apply picked_members. reflexivity.
    - exact Hfuel.
  Qed.

  Theorem results_decode_full f args vs :
    results_typed f vs -> sig_args_ok f -> ret_ok f -> outs_fresh f args -> fuel_static (rsp_fields f) ->
    results_decode e f args vs (norm_fields e vs (rsp_fields f)).
  Proof. intros Hty Hs Hret Hfresh Hfuel. exists []. now apply results_decode_priors. Qed.

  (* ANY content of the caller's out variables: a required non-array member decodes independently of its target
     (Rpc/PriorIndep.v), so decoding into the caller's variables is decoding into fresh ones *)
  Definition no_array_params (f : fsig) : Prop :=
    Forall (fun p => not_array (fst p) = true) (fs_args f) /\ match fs_ret f with Some t => not_array t = true | None => True end.

  Lemma rsp_fields_plain f : no_array_params f -> Forall plain_required (rsp_fields f).
  Proof.
    intros [Ha Hr]. unfold rsp_fields. apply Forall_app. split.
    - unfold ret_fields. destruct (fs_ret f); constructor; [split; [reflexivity|exact Hr]|constructor].
    - unfold out_fields. generalize 1. revert Ha. generalize (fs_args f). induction l as [|[t o] l IH]; intros Ha i; [constructor|].
      inversion Ha as [|? ? Ht Hl]; subst. cbn [arg_fields filter snd]. destruct o; cbn [map fst]; [constructor; [split; [reflexivity|exact Ht]|]|]; now apply IH.
  Qed.

  Theorem results_decode_any_outs f args vs :
    results_typed f vs -> sig_args_ok f -> ret_ok f -> no_array_params f -> fuel_static (rsp_fields f) ->
    results_decode e f args vs (norm_fields e vs (rsp_fields f)).
  Proof.
    intros Hty Hs Hret Hna Hfuel. exists []. unfold dec_list.
    rewrite (dec_fields_prior_indep e _ (rsp_fields f) (zeros e (ret_fields f) ++ outs_of f args)
               (zeros e (ret_fields f) ++ zeros e (out_fields f)) _ (rsp_fields_plain f Hna)).
    apply results_decode_priors; try assumption.
    apply zeros_zlike. destruct Hs as [Hfine _]. unfold out_fields. now apply picked_fine.
  Qed.
End Full.

(* ---------- the call theorems without codec hypotheses on arguments and results ---------- *)
Section FullCall.
  Variable e : env.
  Variable k n : nat.
  Hypothesis Hwf : wf_schema k e.
  Hypothesis Hk : (k <= 64)%nat.
  Variable sid_req sid_rsp : nat.
  Variable max_pkt : N.
  Variable impl : bytes -> list val -> smap -> smap -> impl_res.

  (* static conditions on a signature: out parameters after in parameters, at most 254 parameters, every type
     nested within k and of finite depth, parameter lists short and shallow enough for the decoders' fuel *)
  Definition sig_fine (f : fsig) : Prop :=
    sig_args_ok e k n f /\ ret_ok e k n f /\ fuel_static e k n (in_fields f) /\ fuel_static e k n (rsp_fields f).
  Definition sig_ok (f : fsig) : Prop := ins_first (fs_args f) = true /\ sig_fine f.   (* outs after ins: no skipping involved *)

  (* what the implementation receives / what the caller gets: the values, normalised *)
  Definition ins_seen (f : fsig) (args : list val) : list val := norm_fields e (ins_of f args) (in_fields f).
  Definition results_seen (f : fsig) (ret : option val) (outs : list val) : list val :=
    norm_fields e (results ret outs) (rsp_fields f).

  Theorem transparent_ok_full (Pc Ps : pfilters ev unit) i f args o id sv t ret outs rc rs :
    let q := mkreq e f args o false id sv t in
    find_fn i (fs_name f) = Some f -> sig_fine f ->
    args_typed e (fs_args f) args -> outs_skippable f args -> no_array_params f ->
    impl (fs_name f) (ins_seen f args) (ctx_of o) (status_of o) = IOk ret outs rc rs ->
    results_typed e f (results ret outs) ->
    wire_ok_req e sid_req max_pkt q -> wire_ok_rsp e sid_rsp max_pkt (ok_reply e f q ret outs rc rs) ->
    call e sid_req sid_rsp max_pkt impl (filters_of inv_res Pc) (filters_of disp_res Ps) i f args o false id sv t =
    (COk (ret_of f (results_seen f ret outs)) (outs_from f (results_seen f ret outs)) (maps_after o rc rs),
     core_events_at Pc Ps f (ins_seen f args) o true).
  Proof.
    cbn zeta. intros Hf (Hargs & Hret & Hfi & Hfr) Hty Hsk Hfresh Himpl Hrty Hwq Hwp.
    apply (transparent_ok_decoded e sid_req sid_rsp max_pkt impl Pc Ps i f args (ins_seen f args) o id sv t ret outs rc rs
             (results_seen f ret outs)); try assumption.
    - now apply (args_decode_any e k n Hwf Hk).
    - now apply (results_decode_any_outs e k n Hwf Hk).
  Qed.

  Theorem transparent_err_full (Pc Ps : pfilters ev unit) i f args o id sv t c m :
    let q := mkreq e f args o false id sv t in
    find_fn i (fs_name f) = Some f -> sig_fine f -> args_typed e (fs_args f) args -> outs_skippable f args ->
    impl (fs_name f) (ins_seen f args) (ctx_of o) (status_of o) = IFail c m -> c <> 0%Z ->
    wire_ok_req e sid_req max_pkt q -> wire_ok_rsp e sid_rsp max_pkt (err_reply q c m) ->
    call e sid_req sid_rsp max_pkt impl (filters_of inv_res Pc) (filters_of disp_res Ps) i f args o false id sv t =
    (err_seen c m, core_events_at Pc Ps f (ins_seen f args) o true).
  Proof.
    cbn zeta. intros Hf (Hargs & Hret & Hfi & Hfr) Hty Hsk Himpl Hc Hwq Hwp.
    apply (transparent_err_decoded e sid_req sid_rsp max_pkt impl Pc Ps i f args (ins_seen f args)); try assumption.
    now apply (args_decode_any e k n Hwf Hk).
  Qed.

  Theorem oneway_full (Pc Ps : pfilters ev unit) i f args o id sv t :
    let q := mkreq e f args o true id sv t in
    find_fn i (fs_name f) = Some f -> sig_fine f -> args_typed e (fs_args f) args -> outs_skippable f args ->
    wire_ok_req e sid_req max_pkt q ->
    call e sid_req sid_rsp max_pkt impl (filters_of inv_res Pc) (filters_of disp_res Ps) i f args o true id sv t =
    (CSent, core_events_at Pc Ps f (ins_seen f args) o false).
  Proof.
    cbn zeta. intros Hf (Hargs & Hret & Hfi & Hfr) Hty Hsk Hwq.
    apply (oneway_decoded e sid_req sid_rsp max_pkt impl Pc Ps i f args (ins_seen f args)); try assumption.
    now apply (args_decode_any e k n Hwf Hk).
  Qed.
End FullCall.

(* ---------- the packets: RequestPacket / ResponsePacket survive packet codec, frame and receive loop ---------- *)
From TarsV Require Import Gen.Schemas Frame.FramingProofs.

Definition str_fine (s : bytes) : Prop := N.of_nat (length s) < 4294967296.
Definition smap_fine (m : smap) : Prop :=
  N.of_nat (length m) < 2147483648 /\ Forall (fun kv => str_fine (fst kv) /\ str_fine (snd kv)) m.
(* field ranges of the Go struct types: int16 version, int8 packet type, int32 ids, byte vector within an int32 count *)
Definition req_fine (q : reqpkt) : Prop :=
  fits 16 (q_ver q) = true /\ fits 8 (q_ptype q) = true /\ fits 32 (q_mtype q) = true /\ fits 32 (q_id q) = true /\
  str_fine (q_servant q) /\ str_fine (q_func q) /\ N.of_nat (length (q_buf q)) < 2147483648 /\
  fits 32 (q_timeout q) = true /\ smap_fine (q_ctx q) /\ smap_fine (q_status q).
Definition rsp_fine (p : rsppkt) : Prop :=
  fits 16 (p_ver p) = true /\ fits 8 (p_ptype p) = true /\ fits 32 (p_id p) = true /\ fits 32 (p_mtype p) = true /\
  fits 32 (p_ret p) = true /\ N.of_nat (length (p_buf p)) < 2147483648 /\ smap_fine (p_status p) /\
  str_fine (p_desc p) /\ smap_fine (p_ctx p).

Lemma smap_of_vmap m : smap_of (map (fun kv : bytes * bytes => (VStr (fst kv), VStr (snd kv))) m) = Some m.
Proof. induction m as [|[a b] m IH]; cbn [map smap_of fst snd]; [reflexivity|]. now rewrite IH. Qed.
Lemma val_req_req_val q : val_req (req_val q) = Some q.
Proof. destruct q. unfold req_val, val_req, vmap. cbn -[smap_of map]. now rewrite !smap_of_vmap. Qed.
Lemma val_rsp_rsp_val p : val_rsp (rsp_val p) = Some p.
Proof. destruct p. unfold rsp_val, val_rsp, vmap. cbn -[smap_of map]. now rewrite !smap_of_vmap. Qed.

Lemma smap_typed e m : smap_fine m -> has_type e (TMap TStr TStr) (vmap m).
Proof.
  intros [Hl Hall]. unfold vmap. apply HT_map; [now rewrite map_length|].
  apply Forall_map. eapply Forall_impl; [|exact Hall]. intros [a b] [Ha Hb]. cbn [fst snd] in *.
  split; apply HT_scalar; try reflexivity; assumption.
Qed.
Lemma norm_smap e req d m : norm e (TMap TStr TStr) req d (vmap m) = vmap m.
Proof.
  unfold vmap. rewrite norm_map. f_equal. induction m as [|[a b] m IH]; cbn [map norm_entries fst snd]; [reflexivity|].
  now rewrite IH.
Qed.

Lemma deliver_fits max body : 4 + N.of_nat (length body) <= max -> max < 4294967296 -> deliver max body = Some body.
Proof.
  intros H1 H2. unfold deliver.
  assert (Hr : recv_loop max [] [frame body] = ([frame body], Some [])).
  { apply C07_reassembly; [|reflexivity]. constructor; [|constructor].
    change (frame body) with (mk_packet body). apply valid_mk_packet; lia. }
  rewrite Hr. reflexivity.
Qed.

Section Packets.
  Variable e : env.
  Variable k : nat.
  Hypothesis Hwf : wf_schema k e.
  Hypothesis Hk : (k <= 40)%nat.
  Variable sid_req sid_rsp : nat.
  Hypothesis Hreq : fields_of e sid_req = schema_requestf_RequestPacket.
  Hypothesis Hrsp : fields_of e sid_rsp = schema_requestf_ResponsePacket.
  Variable max_pkt : N.
  Hypothesis Hmax : max_pkt < 4294967296.

  Lemma sc e' t v : scalar_ty t = true -> sc_typed t v -> has_type e' t v.
  Proof. apply HT_scalar. Qed.

  Lemma req_codec q : req_fine q -> decode e sid_req (encode e sid_req (req_val q)) = DOk (req_val q) [].
  Proof.
    intros (H1 & H2 & H3 & H4 & H5 & H6 & H7 & H8 & H9 & H10).
    assert (Hty : has_type e (TStruct sid_req) (req_val q)).
    { unfold req_val. apply HT_struct. rewrite Hreq. unfold schema_requestf_RequestPacket.
      repeat (apply Forall2_cons; [cbn [fty]; first [apply sc; [reflexivity|assumption] | now apply smap_typed | now apply HT_bytes]|]).
      apply Forall2_nil. }
    unfold req_val in *. rewrite (roundtrip_struct_static e k 3 sid_req _ Hwf ltac:(lia)); try assumption.
    - f_equal. unfold norm_struct. rewrite norm_str, Hreq. unfold schema_requestf_RequestPacket.
      cbn [norm_fields fty freq fdef]. rewrite !norm_smap. reflexivity.
    - cbn [tfin]. rewrite Hreq. reflexivity.
    - cbn [tneed]. rewrite Hreq. cbn. lia.
  Qed.

  Theorem wire_ok_req_full q : req_fine q -> 4 + N.of_nat (length (encode e sid_req (req_val q))) <= max_pkt ->
    wire_ok_req e sid_req max_pkt q.
  Proof.
    intros Hq Hfit. unfold wire_ok_req, wire_req. rewrite (deliver_fits max_pkt _ Hfit Hmax), (req_codec q Hq).
    apply val_req_req_val.
  Qed.

  Lemma norm_opt_str s : norm e TStr false None (VStr s) = VStr s.
  Proof. destruct s; reflexivity. Qed.

  Lemma rsp_codec p : rsp_fine p -> decode e sid_rsp (encode e sid_rsp (rsp_val p)) = DOk (rsp_val p) [].
  Proof.
    intros (H1 & H2 & H3 & H4 & H5 & H6 & H7 & H8 & H9).
    assert (Hty : has_type e (TStruct sid_rsp) (rsp_val p)).
    { unfold rsp_val. apply HT_struct. rewrite Hrsp. unfold schema_requestf_ResponsePacket.
      repeat (apply Forall2_cons; [cbn [fty]; first [apply sc; [reflexivity|assumption] | now apply smap_typed | now apply HT_bytes]|]).
      apply Forall2_nil. }
    unfold rsp_val in *. rewrite (roundtrip_struct_static e k 3 sid_rsp _ Hwf ltac:(lia)); try assumption.
    - f_equal. unfold norm_struct. rewrite norm_str, Hrsp. unfold schema_requestf_ResponsePacket.
      cbn [norm_fields fty freq fdef]. rewrite !norm_smap, norm_opt_str. reflexivity.
    - cbn [tfin]. rewrite Hrsp. reflexivity.
    - cbn [tneed]. rewrite Hrsp. cbn. lia.
  Qed.

  Theorem wire_ok_rsp_full p : rsp_fine p -> 4 + N.of_nat (length (encode e sid_rsp (rsp_val p))) <= max_pkt ->
    wire_ok_rsp e sid_rsp max_pkt p.
  Proof.
    intros Hp Hfit. unfold wire_ok_rsp, wire_rsp. rewrite (deliver_fits max_pkt _ Hfit Hmax), (rsp_codec p Hp).
    apply val_rsp_rsp_val.
  Qed.

  (* a packet whose fields are in range and whose frame fits maxPackageLength *)
  Definition req_sendable (q : reqpkt) : Prop := req_fine q /\ 4 + N.of_nat (length (encode e sid_req (req_val q))) <= max_pkt.
  Definition rsp_sendable (p : rsppkt) : Prop := rsp_fine p /\ 4 + N.of_nat (length (encode e sid_rsp (rsp_val p))) <= max_pkt.

  (* ---------- C01, value clause, no codec hypothesis left ---------- *)
  Variable n : nat.
  Variable impl : bytes -> list val -> smap -> smap -> impl_res.
  Lemma Hk64 : (k <= 64)%nat. Proof. lia. Qed.
  Lemma skippable_of_small f args : sig_fine e k n f -> args_typed e (fs_args f) args -> outs_small f args -> outs_skippable f args.
  Proof. intros (Ha & _ & _ & Hfr) Hty Hsm. exact (outs_skippable_static e k n Hk64 f args Hty Ha Hfr Hsm). Qed.

  Theorem transparent_ok_closed (Pc Ps : pfilters ev unit) i f args o id sv t ret outs rc rs :
    let q := mkreq e f args o false id sv t in
    find_fn i (fs_name f) = Some f -> sig_fine e k n f ->
    args_typed e (fs_args f) args -> outs_small f args -> no_array_params f ->
    impl (fs_name f) (ins_seen e f args) (ctx_of o) (status_of o) = IOk ret outs rc rs ->
    results_typed e f (results ret outs) ->
    req_sendable q -> rsp_sendable (ok_reply e f q ret outs rc rs) ->
    call e sid_req sid_rsp max_pkt impl (filters_of inv_res Pc) (filters_of disp_res Ps) i f args o false id sv t =
    (COk (ret_of f (results_seen e f ret outs)) (outs_from f (results_seen e f ret outs)) (maps_after o rc rs),
     core_events_at Pc Ps f (ins_seen e f args) o true).
  Proof.
    cbn zeta. intros Hf Hsig Hty Hsk Hfresh Himpl Hrty [Hq Hqf] [Hp Hpf].
    apply (transparent_ok_full e k n Hwf Hk64); try assumption; try (now apply skippable_of_small).
    - now apply wire_ok_req_full.
    - now apply wire_ok_rsp_full.
  Qed.

  (* exact values, any content of the caller's out variables: for values the codec does not normalise
     ([ins_seen] = the in arguments, [results_seen] = the results; always so unless an optional scalar struct member
     equals its default without being identical to it, i.e. -0.0 against +0.0) *)
  Definition canonical_call (f : fsig) (args : list val) (ret : option val) (outs : list val) : Prop :=
    ins_seen e f args = ins_of f args /\ results_seen e f ret outs = results ret outs.

  Theorem transparent_ok_any_outs (Pc Ps : pfilters ev unit) i f args o id sv t ret outs rc rs :
    let q := mkreq e f args o false id sv t in
    find_fn i (fs_name f) = Some f -> sig_fine e k n f ->
    args_typed e (fs_args f) args -> outs_small f args -> no_array_params f ->
    impl (fs_name f) (ins_of f args) (ctx_of o) (status_of o) = IOk ret outs rc rs -> ret_shape f ret ->
    results_typed e f (results ret outs) -> canonical_call f args ret outs ->
    req_sendable q -> rsp_sendable (ok_reply e f q ret outs rc rs) ->
    call e sid_req sid_rsp max_pkt impl (filters_of inv_res Pc) (filters_of disp_res Ps) i f args o false id sv t =
    (COk ret outs (maps_after o rc rs), core_events Pc Ps f args o true).
  Proof.
    cbn zeta. intros Hf Hsig Hty Hsk Hna Himpl Hshape Hrty [Hci Hcr] Hq Hp.
    rewrite (transparent_ok_closed Pc Ps i f args o id sv t ret outs rc rs); try assumption.
    - unfold core_events. rewrite Hci, Hcr. f_equal. unfold ret_of, outs_from, results. unfold ret_shape in Hshape.
      destruct (fs_ret f), ret; try contradiction; reflexivity.
    - now rewrite Hci.
  Qed.

  Theorem transparent_err_closed (Pc Ps : pfilters ev unit) i f args o id sv t c m :
    let q := mkreq e f args o false id sv t in
    find_fn i (fs_name f) = Some f -> sig_fine e k n f -> args_typed e (fs_args f) args -> outs_small f args ->
    impl (fs_name f) (ins_seen e f args) (ctx_of o) (status_of o) = IFail c m -> c <> 0%Z ->
    req_sendable q -> rsp_sendable (err_reply q c m) ->
    call e sid_req sid_rsp max_pkt impl (filters_of inv_res Pc) (filters_of disp_res Ps) i f args o false id sv t =
    (err_seen c m, core_events_at Pc Ps f (ins_seen e f args) o true).
  Proof.
    cbn zeta. intros Hf Hsig Hty Hsk Himpl Hc [Hq Hqf] [Hp Hpf].
    apply (transparent_err_full e k n Hwf Hk64); try assumption; try (now apply skippable_of_small).
    - now apply wire_ok_req_full.
    - now apply wire_ok_rsp_full.
  Qed.

  Theorem oneway_closed (Pc Ps : pfilters ev unit) i f args o id sv t :
    let q := mkreq e f args o true id sv t in
    find_fn i (fs_name f) = Some f -> sig_fine e k n f -> args_typed e (fs_args f) args -> outs_small f args -> req_sendable q ->
    call e sid_req sid_rsp max_pkt impl (filters_of inv_res Pc) (filters_of disp_res Ps) i f args o true id sv t =
    (CSent, core_events_at Pc Ps f (ins_seen e f args) o false).
  Proof.
    cbn zeta. intros Hf Hsig Hty Hsk [Hq Hqf].
    apply (oneway_full e k n Hwf Hk64); try assumption; try (now apply skippable_of_small). now apply wire_ok_req_full.
  Qed.

  (* ----- concurrent callers: the packet-codec hypotheses of EndToEndConc.concurrent follow from sendability ----- *)
  Lemma req_codec_ok_full q : req_sendable q -> EndToEndConc.req_codec_ok e sid_req max_pkt q.
  Proof.
    intros [Hq Hfit]. split.
    - unfold dec_req, enc_req. change (skipn 4 (frame (encode e sid_req (req_val q)))) with (encode e sid_req (req_val q)).
      rewrite (req_codec q Hq). apply val_req_req_val.
    - unfold enc_req. change (frame (encode e sid_req (req_val q))) with (mk_packet (encode e sid_req (req_val q))).
      apply valid_mk_packet; lia.
  Qed.
  Lemma rsp_codec_ok_full p : rsp_sendable p -> EndToEndConc.rsp_codec_ok e sid_rsp max_pkt p.
  Proof.
    intros [Hp Hfit]. split.
    - unfold dec_rsp, enc_rsp. change (skipn 4 (frame (encode e sid_rsp (rsp_val p)))) with (encode e sid_rsp (rsp_val p)).
      rewrite (rsp_codec p Hp). apply val_rsp_rsp_val.
    - unfold enc_rsp. change (frame (encode e sid_rsp (rsp_val p))) with (mk_packet (encode e sid_rsp (rsp_val p))).
      apply valid_mk_packet; lia.
  Qed.

  Theorem concurrent_closed (Ps : pfilters ev unit) i (qs sent : list reqpkt) (chunks_q : list bytes)
          (written : list rsppkt) (chunks_p : list bytes) :
    Permutation.Permutation sent qs -> NoDup (map q_id qs) ->
    Forall req_sendable sent ->
    concat chunks_q = concat (map (enc_req e sid_req) sent) ->
    Permutation.Permutation written (server_conn e sid_req max_pkt impl (filters_of disp_res Ps) i chunks_q) ->
    Forall rsp_sendable written ->
    concat chunks_p = concat (map (enc_rsp e sid_rsp) written) ->
    forall q, In q qs -> client_conn e sid_rsp max_pkt chunks_p (q_id q) = srv_reply e impl i q.
  Proof.
    intros Hperm Hnd Hs Hcq Hw Hwr Hcp.
    apply (EndToEndConc.concurrent e sid_req sid_rsp max_pkt impl Ps i qs sent chunks_q written chunks_p); try assumption.
    - eapply Forall_impl; [|exact Hs]. exact req_codec_ok_full.
    - eapply Forall_impl; [|exact Hwr]. exact rsp_codec_ok_full.
  Qed.

  (* ----- concurrent callers, at the level of CALL RESULTS: what a caller of the generated proxy gets when its request
     travels together with any other requests of the proxy (any order, any segmentation, replies in any order) is what
     the same call returns alone ----- *)
  Definition conc_result (chunks_p : list bytes) (f : fsig) (args : list val) (o : opts) (q : reqpkt) : call_res :=
    proxy_finish e f args o
      (if is_oneway q then VOneWay
       else match client_conn e sid_rsp max_pkt chunks_p (q_id q) with Some p => map_reply p | None => VLost end).

  Theorem concurrent_calls (Pc Ps : pfilters ev unit) i (qs sent : list reqpkt) (chunks_q : list bytes)
          (written : list rsppkt) (chunks_p : list bytes) :
    Permutation.Permutation sent qs -> NoDup (map q_id qs) ->
    Forall req_sendable sent ->
    concat chunks_q = concat (map (enc_req e sid_req) sent) ->
    Permutation.Permutation written (server_conn e sid_req max_pkt impl (filters_of disp_res Ps) i chunks_q) ->
    Forall rsp_sendable written ->
    concat chunks_p = concat (map (enc_rsp e sid_rsp) written) ->
    forall f args o ow id sv t, In (mkreq e f args o ow id sv t) qs ->
      conc_result chunks_p f args o (mkreq e f args o ow id sv t) =
      fst (call e sid_req sid_rsp max_pkt impl (filters_of inv_res Pc) (filters_of disp_res Ps) i f args o ow id sv t).
  Proof.
    intros Hperm Hnd Hs Hcq Hw Hwr Hcp f args o ow id sv t Hin.
    set (q := mkreq e f args o ow id sv t) in *.
    pose proof (concurrent_closed Ps i qs sent chunks_q written chunks_p Hperm Hnd Hs Hcq Hw Hwr Hcp q Hin) as Hc.
    assert (Hqs : In q sent) by (eapply Permutation.Permutation_in; [apply Permutation.Permutation_sym, Hperm|exact Hin]).
    assert (Hq : req_sendable q) by (rewrite Forall_forall in Hs; now apply Hs).
    rewrite call_pass. cbn [fst]. unfold conc_result. f_equal. fold q.
    unfold inv_result. rewrite (wire_ok_req_full q (proj1 Hq) (proj2 Hq)).
    destruct (is_oneway q); [reflexivity|]. rewrite Hc.
    destruct (srv_reply e impl i q) as [p|] eqn:Hr; [|reflexivity].
    assert (Hp : rsp_sendable p).
    { rewrite Forall_forall in Hwr. apply Hwr. eapply Permutation.Permutation_in; [apply Permutation.Permutation_sym, Hw|].
      rewrite (EndToEndConc.server_conn_sent e sid_req max_pkt impl Ps i sent chunks_q); [|eapply Forall_impl; [|exact Hs]; exact req_codec_ok_full|exact Hcq].
      apply in_flat_map. exists q. split; [exact Hqs|]. rewrite Hr. now left. }
    rewrite (wire_ok_rsp_full p (proj1 Hp) (proj2 Hp)).
    rewrite (EndToEndConc.reply_id e impl i q p Hr), Z.eqb_refl. reflexivity.
  Qed.
End Packets.

(* ---------- the value clause for ANY content of the caller's out variables, as a closed statement (proved in
   Props/C01.v from transparent_ok_any_outs) ---------- *)
Definition transparent_ok_statement : Prop :=
  forall e k n sid_req sid_rsp max impl (Pc Ps : pfilters ev unit) i f args o id sv t ret outs rc rs,
    wf_schema k e -> (k <= 40)%nat ->
    fields_of e sid_req = schema_requestf_RequestPacket -> fields_of e sid_rsp = schema_requestf_ResponsePacket ->
    max < 4294967296 ->
    let q := mkreq e f args o false id sv t in
    find_fn i (fs_name f) = Some f -> sig_fine e k n f -> args_typed e (fs_args f) args -> outs_small f args ->
    no_array_params f ->
    impl (fs_name f) (ins_of f args) (ctx_of o) (status_of o) = IOk ret outs rc rs -> ret_shape f ret ->
    results_typed e f (results ret outs) -> canonical_call e f args ret outs ->
    req_sendable e sid_req max q -> rsp_sendable e sid_rsp max (ok_reply e f q ret outs rc rs) ->
    fst (call e sid_req sid_rsp max impl (filters_of inv_res Pc) (filters_of disp_res Ps) i f args o false id sv t)
    = COk ret outs (maps_after o rc rs).

Theorem transparent_ok_statement_holds : transparent_ok_statement.
Proof.
  intros e k n sid_req sid_rsp max impl Pc Ps i f args o id sv t ret outs rc rs Hwf Hk Hq Hp Hm. cbn zeta. intros.
  rewrite (transparent_ok_any_outs e k Hwf Hk sid_req sid_rsp Hq Hp max Hm n impl Pc Ps i f args o id sv t ret outs rc rs); try assumption.
  reflexivity.
Qed.
