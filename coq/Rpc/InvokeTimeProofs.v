(* C10: proofs about the timed model Rpc/InvokeTime.v. *)
From Coq Require Import List NArith ZArith Bool Arith Lia ZifyBool ZifyNat ZifyN.
From TarsV Require Import Gen.Consts Base.Hex Codec.GenCodec Rpc.Invoke Rpc.InvokeProofs Rpc.InvokeTime.
Import ListNotations.
Open Scope N_scope.

(* ---------- millisecond truncation ---------- *)
Lemma ms_of_spec t : ms_of t * ns_per_ms <= t /\ t < (ms_of t + 1) * ns_per_ms.
Proof.
  unfold ms_of, ns_per_ms. pose proof (N.div_mod t 1000000 ltac:(discriminate)) as E.
  pose proof (N.mod_lt t 1000000 ltac:(discriminate)). lia.
Qed.

(* the code's [sub] against the real waiting time: they differ by less than a millisecond, either way *)
Lemma sub_ms_bounds st : t_arr st <= t_sel st ->
  sub_ms st * ns_per_ms < waited st + ns_per_ms /\ waited st < (sub_ms st + 1) * ns_per_ms.
Proof.
  intros H. unfold sub_ms, recv_stamp, waited.
  pose proof (ms_of_spec (t_arr st)) as [A1 A2]. pose proof (ms_of_spec (t_sel st)) as [B1 B2].
  assert (ms_of (t_arr st) <= ms_of (t_sel st)).
  { unfold ms_of. apply N.div_le_mono; [discriminate|exact H]. }
  unfold ns_per_ms in *. lia.
Qed.

Section TimedProofs.
  Variable dispatch : request -> hrun.

  Lemma timed_invoke_cases r st :
    (queue_expired r (sub_ms st) = true /\
       timed_invoke dispatch r st = (FromQueueTimeout, with_ret (base_reply r) c_TARSSERVERQUEUETIMEOUT timeout_text, O, 0)) \/
    (queue_expired r (sub_ms st) = false /\ exists o p n d, timed_invoke dispatch r st = (o, p, n, d) /\ o <> FromQueueTimeout).
  Proof.
    unfold timed_invoke.
    destruct (invoke_cases dispatch r (sub_ms st)) as [[Q E]|[(Q & P & E)|(D & p & E & _)]].
    - left. auto.
    - right. split; [exact Q|]. do 4 eexists. split; [exact E|discriminate].
    - right. unfold dispatched in D. apply andb_prop in D. destruct D as [D _]. apply negb_true_iff in D.
      split; [exact D|]. do 4 eexists. split; [exact E|discriminate].
  Qed.

  (* ---- exactly one reply for a two-way request, none for a one-way request: all timestamps ---- *)
  Theorem timed_count cfg r st :
    length (fst (timed_step dispatch cfg r st)) = if oneway r then 0%nat else 1%nat.
  Proof.
    unfold timed_step. destruct (timed_invoke dispatch r st) as [[[o p] n] d].
    destruct (c_ht cfg =? 0); [destruct (oneway r); reflexivity|]. cbn [fst].
    unfold oneway, timeout_replies, oneway.
    destruct (ret_t st <=? wake_t (cfg) st) eqn:W.
    - assert (X : ret_t st <=? write_t cfg st = true) by (unfold write_t in *; lia). rewrite X.
      destruct (q_ptype r =? c_TARSONEWAY)%Z; reflexivity.
    - destruct (ret_t st <=? write_t cfg st).
      + destruct (q_ptype r =? c_TARSONEWAY)%Z; reflexivity.
      + change (0 =? c_TARSONEWAY)%Z with false. cbv iota.
        destruct (q_ptype r =? c_TARSONEWAY)%Z; reflexivity.
  Qed.

  Theorem timed_identity cfg r st o p : In (o, p) (fst (timed_step dispatch cfg r st)) ->
    p_id p = q_id r /\ p_ver p = q_ver r /\ p_ptype p = q_ptype r.
  Proof.
    unfold timed_step. destruct (timed_invoke dispatch r st) as [[[o' p'] n] d] eqn:E.
    assert (I : p_id p' = q_id r /\ p_ver p' = q_ver r /\ p_ptype p' = q_ptype r)
      by (eapply invoke_identity; exact E).
    destruct (c_ht cfg =? 0).
    - destruct (oneway r); cbn; [intros []|intros [X|[]]; inversion X; subst; exact I].
    - cbn [fst]. destruct (_ =? c_TARSONEWAY)%Z; [intros []|].
      destruct (ret_t st <=? wake_t cfg st).
      + destruct (late cfg st); cbn; intros [X|[]]; inversion X; subst; [cbn; auto|exact I].
      + unfold timeout_replies. destruct (oneway r); cbn; [intros []|intros [X|[]]; inversion X; subst; cbn; auto].
  Qed.

  (* ---- the timestamps stand for a schedule of the handle-timeout race, and that schedule writes what timed_step says ---- *)
  Theorem timed_is_schedule cfg r st : 0 < c_ht cfg ->
    exists s, hrun_labels r (inv_reply dispatch r (sub_ms st)) hinit (timed_labels cfg st) = Some s /\
              s_late s = late cfg st /\
              s_written s = Some (map snd (fst (timed_step dispatch cfg r st))).
  Proof.
    intros Hht. unfold timed_step, timed_labels, inv_reply, timed_invoke.
    destruct (invoke dispatch r (sub_ms st)) as [[[o p] n] d]. cbn [fst snd].
    replace (c_ht cfg =? 0) with false by lia.
    assert (Hl : late cfg st = true -> ret_t st <=? fire_t cfg st = true -> ret_t st <=? wake_t cfg st = true).
    { unfold wake_t. lia. }
    destruct (late cfg st) eqn:L; cbn [negb andb].
    - (* Invoke passes its select after the deadline *)
      destruct (ret_t st <=? wake_t cfg st) eqn:W.
      + assert (X : ret_t st <=? write_t cfg st = true) by (unfold write_t; lia). rewrite X.
        eexists. split; [reflexivity|]. split; [reflexivity|]. cbn.
        destruct (q_ptype r =? c_TARSONEWAY)%Z; reflexivity.
      + destruct (ret_t st <=? write_t cfg st) eqn:X.
        * eexists. split; [reflexivity|]. split; [reflexivity|]. cbn.
          destruct (q_ptype r =? c_TARSONEWAY)%Z; [reflexivity|]. rewrite map_map. cbn. rewrite map_id. reflexivity.
        * eexists. split; [reflexivity|]. split; [reflexivity|]. cbn.
          change (0 =? c_TARSONEWAY)%Z with false. cbv iota. rewrite map_map. cbn. rewrite map_id. reflexivity.
    - destruct (ret_t st <=? fire_t cfg st) eqn:F.
      + assert (W : ret_t st <=? wake_t cfg st = true) by (unfold wake_t; lia).
        assert (X : ret_t st <=? write_t cfg st = true) by (unfold write_t; lia). rewrite W, X.
        eexists. split; [reflexivity|]. split; [reflexivity|]. cbn.
        destruct (q_ptype r =? c_TARSONEWAY)%Z; reflexivity.
      + destruct (ret_t st <=? wake_t cfg st) eqn:W.
        * assert (X : ret_t st <=? write_t cfg st = true) by (unfold write_t; lia). rewrite X.
          eexists. split; [reflexivity|]. split; [reflexivity|]. cbn.
          destruct (q_ptype r =? c_TARSONEWAY)%Z; reflexivity.
        * destruct (ret_t st <=? write_t cfg st) eqn:X.
          -- eexists. split; [reflexivity|]. split; [reflexivity|]. cbn.
             destruct (q_ptype r =? c_TARSONEWAY)%Z; [reflexivity|]. rewrite map_map. cbn. rewrite map_id. reflexivity.
          -- eexists. split; [reflexivity|]. split; [reflexivity|]. cbn.
             change (0 =? c_TARSONEWAY)%Z with false. cbv iota. rewrite map_map. cbn. rewrite map_id. reflexivity.
  Qed.

  (* ---- the queue-timeout answer: only for a request that really waited ---- *)
  (* all arrival / handler-start / decision times: a queue-timeout answer means that the request carried a timeout and
     waited longer than that timeout less one millisecond (the clocks are read in whole milliseconds) - or, with a
     handle timeout, that the whole handle timeout passed between the handler's start and Invoke's decision *)
  Theorem timed_queue_timeout_only_if_waited cfg r st p : stamps_ok st ->
    In (FromQueueTimeout, p) (fst (timed_step dispatch cfg r st)) ->
    ((0 < q_timeout r)%Z /\ (Z.of_N (waited st) > (q_timeout r - 1) * 1000000)%Z) \/
    (0 < c_ht cfg /\ c_ht cfg * ns_per_ms <= t_sel st - t_hdl st).
  Proof.
    intros [Ha Hh] Hin.
    assert (Hq : queue_expired r (sub_ms st) = true ->
                 (0 < q_timeout r)%Z /\ (Z.of_N (waited st) > (q_timeout r - 1) * 1000000)%Z).
    { intros Q. unfold queue_expired in Q. pose proof (sub_ms_bounds st ltac:(lia)) as [B1 _].
      unfold ns_per_ms in B1. split; [lia|]. lia. }
    unfold timed_step in Hin.
    destruct (timed_invoke_cases r st) as [[Q E]|(Q & o & p' & n & d & E & Ho)]; rewrite E in Hin.
    - left. exact (Hq Q).
    - destruct (c_ht cfg =? 0) eqn:Z.
      + destruct (oneway r); cbn in Hin; [destruct Hin|]. destruct Hin as [X|[]]. inversion X; subst. congruence.
      + cbn [fst] in Hin. destruct (_ =? c_TARSONEWAY)%Z; [destruct Hin|].
        destruct (ret_t st <=? wake_t cfg st).
        * destruct (late cfg st) eqn:L.
          -- right. unfold late, fire_t in L. lia.
          -- destruct Hin as [X|[]]. inversion X; subst. congruence.
        * apply in_map_iff in Hin. destruct Hin as (x & X & _). inversion X.
  Qed.

  (* what an observer with a clock can check: if the request was sent at [send] (so received not earlier) and its
     reply was read at [seen] (so decided not later), a queue-timeout answer must fit into that window *)
  Theorem qt_window_sound cfg r st p send seen : stamps_ok st -> send <= t_arr st -> t_sel st <= seen ->
    In (FromQueueTimeout, p) (fst (timed_step dispatch cfg r st)) ->
    qt_window_ok (q_timeout r) (c_ht cfg) send seen = true.
  Proof.
    intros Hok Hs He Hin. destruct Hok as [Ha Hh].
    assert (M1 : send / 1000000 <= t_arr st / 1000000) by (apply N.div_le_mono; [discriminate|exact Hs]).
    assert (M2 : t_sel st / 1000000 <= seen / 1000000) by (apply N.div_le_mono; [discriminate|exact He]).
    unfold qt_window_ok. unfold timed_step in Hin.
    destruct (timed_invoke_cases r st) as [[Q E]|(Q & o & p' & n & d & E & Ho)]; rewrite E in Hin.
    - unfold queue_expired, sub_ms, recv_stamp, ms_of, ns_per_ms in Q. apply orb_true_iff. left. lia.
    - destruct (c_ht cfg =? 0) eqn:Z.
      + destruct (oneway r); cbn in Hin; [destruct Hin|]. destruct Hin as [X|[]]. inversion X; subst. congruence.
      + cbn [fst] in Hin. destruct (_ =? c_TARSONEWAY)%Z; [destruct Hin|].
        destruct (ret_t st <=? wake_t cfg st).
        * destruct (late cfg st) eqn:L.
          -- apply orb_true_iff. right. unfold late, fire_t, ns_per_ms in L. lia.
          -- destruct Hin as [X|[]]. inversion X; subst. congruence.
        * apply in_map_iff in Hin. destruct Hin as (x & X & _). inversion X.
  Qed.

  (* conversely: a request that carried a timeout and really waited that long is never executed, whatever the rest *)
  Theorem timed_waited_then_not_executed cfg r st : stamps_ok st -> (0 < q_timeout r)%Z ->
    (Z.of_N (waited st) >= q_timeout r * 1000000)%Z ->
    snd (timed_step dispatch cfg r st) = 0%nat /\
    forall o p, In (o, p) (fst (timed_step dispatch cfg r st)) -> o = FromQueueTimeout \/ o = FromHandleTimeout.
  Proof.
    intros [Ha Hh] HT Hw.
    assert (Q : queue_expired r (sub_ms st) = true).
    { unfold queue_expired. pose proof (sub_ms_bounds st ltac:(lia)) as [_ B2]. unfold ns_per_ms in B2. lia. }
    unfold timed_step. destruct (timed_invoke_cases r st) as [[_ E]|(Q' & _)]; [|congruence]. rewrite E.
    destruct (c_ht cfg =? 0).
    - split; [reflexivity|]. intros o p. destruct (oneway r); cbn; [intros []|intros [X|[]]; inversion X; auto].
    - cbn [fst snd]. split; [destruct (late cfg st); reflexivity|].
      intros o p. destruct (_ =? c_TARSONEWAY)%Z; [intros []|].
      destruct (ret_t st <=? wake_t cfg st).
      + destruct (late cfg st); cbn; intros [X|[]]; inversion X; auto.
      + intros Hin. apply in_map_iff in Hin. destruct Hin as (x & X & _). inversion X. auto.
  Qed.

  (* without a handle timeout the timed model is the function model on the code's own [sub] *)
  Theorem timed_no_handle_timeout cfg r st : c_ht cfg = 0 ->
    timed_step dispatch cfg r st =
    (if oneway r then [] else [(fst (fst (fst (invoke dispatch r (sub_ms st)))), inv_reply dispatch r (sub_ms st))],
     snd (fst (invoke dispatch r (sub_ms st)))).
  Proof.
    intros H. unfold timed_step, timed_invoke, inv_reply. rewrite H.
    destruct (invoke dispatch r (sub_ms st)) as [[[o p] n] d]. reflexivity.
  Qed.

  (* the handle deadline counts from the handler's start, not from the receipt: however long the request was queued,
     an Invoke that is entered and returns before t_hdl + HandleTimeout answers with its own result *)
  Theorem timed_queueing_does_not_eat_handle_timeout cfg r st : 0 < c_ht cfg ->
    t_sel st + d_run st < t_hdl st + c_ht cfg * ns_per_ms -> oneway r = false ->
    fst (timed_step dispatch cfg r st) =
      [(fst (fst (fst (invoke dispatch r (sub_ms st)))), inv_reply dispatch r (sub_ms st))] /\
    snd (timed_step dispatch cfg r st) = snd (fst (invoke dispatch r (sub_ms st))).
  Proof.
    intros Hht Hlt W. unfold timed_step, timed_invoke, inv_reply.
    destruct (invoke dispatch r (sub_ms st)) as [[[o p] n] d]. cbn [fst snd].
    replace (c_ht cfg =? 0) with false by lia.
    assert (L : late cfg st = false) by (unfold late, fire_t; lia).
    assert (Wk : ret_t st <=? wake_t cfg st = true) by (unfold wake_t, ret_t, fire_t in *; lia).
    assert (X : ret_t st <=? write_t cfg st = true) by (unfold write_t; lia).
    rewrite L, Wk, X. unfold oneway in W. rewrite W. split; reflexivity.
  Qed.
End TimedProofs.

(* the full-strength reading "a queue-timeout answer only if the request waited at least its whole timeout" is false
   of the model (and of the code): both clocks are truncated to milliseconds, a request with ITimeout = 1 that arrives
   1 ns before a millisecond boundary and is decided on the boundary is refused after 1 ns *)
Definition queue_timeout_exact_statement : Prop :=
  forall dispatch cfg r st p, stamps_ok st -> c_ht cfg = 0 ->
    In (FromQueueTimeout, p) (fst (timed_step dispatch cfg r st)) ->
    (Z.of_N (waited st) >= q_timeout r * 1000000)%Z.
Definition trunc_witness_req : request :=
  {| q_ver := 1; q_ptype := 0; q_mtype := 0; q_id := 1; q_servant := []; q_func := raw "act"%hex;
     q_buf := []; q_timeout := 1; q_ctx := []; q_status := [] |}.
Definition trunc_witness_stamps : stamps :=
  {| t_arr := 999999; t_hdl := 999999; t_sel := 1000000; d_run := 0; d_wake := 0; d_write := 0 |}.
Theorem queue_timeout_exact_refuted : ~ queue_timeout_exact_statement.
Proof.
  intros H.
  specialize (H (fun _ => {| h_res := HDone [] [] []; h_dur := 0 |}) {| c_pool := 0; c_ht := 0; c_udp := false |}
                trunc_witness_req trunc_witness_stamps (late_reply trunc_witness_req)).
  assert (X : (Z.of_N (waited trunc_witness_stamps) >= q_timeout trunc_witness_req * 1000000)%Z).
  { apply H; [vm_compute; split; discriminate|reflexivity|vm_compute; left; reflexivity]. }
  vm_compute in X. apply X. reflexivity.
Qed.

(* seeded change C10-m11 in the model: with the receive time taken from the one-second clock a request that did not
   wait at all (t_sel = t_arr) is refused whenever the millisecond part of the clock exceeds its timeout *)
Example stale_clock_refuses_unqueued :
  let st := {| t_arr := 5700000000; t_hdl := 5700000000; t_sel := 5700000000; d_run := 0; d_wake := 0; d_write := 0 |} in
  waited st = 0 /\ queue_expired ex_req (sub_ms st) = false /\ queue_expired ex_req (stale_sub_ms st) = true.
Proof. vm_compute. repeat split. Qed.

(* ---------- a connection: interleaved steps of its requests' handlers ---------- *)
Lemma nth_error_set_nth_same {A} i (x : A) l : (i < length l)%nat -> nth_error (set_nth i x l) i = Some x.
Proof. revert l. induction i as [|i IH]; intros [|h t] H; cbn in *; try lia; [reflexivity|apply IH; lia]. Qed.
Lemma nth_error_set_nth_other {A} i j (x : A) l : i <> j -> nth_error (set_nth i x l) j = nth_error l j.
Proof.
  revert j l. induction i as [|i IH]; intros [|j] [|h t] H; cbn; try reflexivity; try congruence.
  apply IH. congruence.
Qed.
Lemma set_nth_length {A} i (x : A) l : length (set_nth i x l) = length l.
Proof. revert l. induction i as [|i IH]; intros [|h t]; cbn; auto. Qed.

(* every request's handler sees exactly its own steps: the projection of an interleaved run of the connection onto
   request i is a run of request i's own transition system, from and to component i *)
Theorem crun_projection rs ls : forall cs cs', crun rs cs ls = Some cs' ->
  forall i r p s, nth_error rs i = Some (r, p) -> nth_error cs i = Some s ->
  exists s', nth_error cs' i = Some s' /\ hrun_labels r p s (proj i ls) = Some s'.
Proof.
  induction ls as [|[j l] ls IH]; intros cs cs' H i r p s Hr Hs; cbn [crun] in H.
  - inversion H; subst. exists s. split; [exact Hs|reflexivity].
  - destruct (cstep rs cs (j, l)) as [cs1|] eqn:E; [|discriminate].
    unfold cstep in E. cbn [fst snd] in E.
    destruct (nth_error rs j) as [[rj pj]|] eqn:Erj; [|discriminate].
    destruct (nth_error cs j) as [sj|] eqn:Esj; [|discriminate].
    destruct (hstep rj pj sj l) as [sj'|] eqn:Eh; [|discriminate]. cbn in E. inversion E; subst cs1; clear E.
    unfold proj. cbn [filter fst]. destruct (Nat.eqb j i) eqn:Eji.
    + apply Nat.eqb_eq in Eji. subst j. rewrite Hr in Erj. inversion Erj; subst rj pj. rewrite Hs in Esj. inversion Esj; subst sj.
      cbn [map snd hrun_labels]. rewrite Eh.
      apply (IH _ _ H i r p sj' Hr). apply nth_error_set_nth_same. apply nth_error_Some. congruence.
    + apply Nat.eqb_neq in Eji. apply (IH _ _ H i r p s Hr).
      rewrite nth_error_set_nth_other by exact Eji. exact Hs.
Qed.

Lemma cinit_nth rs i rp : nth_error rs i = Some rp -> nth_error (cinit rs) i = Some hinit.
Proof. intros H. unfold cinit. rewrite nth_error_map, H. reflexivity. Qed.

(* consequence: in every interleaving of a connection's handlers, whatever request i has written is what the
   single-request theorems allow - nothing for a one-way request, exactly one reply with its own identity otherwise *)
Theorem connection_interleaved rs ls cs : crun rs (cinit rs) ls = Some cs ->
  forall i r p s, nth_error rs i = Some (r, p) -> nth_error cs i = Some s ->
  (p_id p = q_id r /\ p_ver p = q_ver r /\ p_ptype p = q_ptype r) ->
  forall w, s_written s = Some w ->
    if oneway r then w = []
    else exists x, w = [x] /\ p_id x = q_id r /\ p_ver x = q_ver r /\ p_ptype x = q_ptype r.
Proof.
  intros H i r p s Hr Hs Hid w Hw.
  destruct (crun_projection rs ls _ _ H i r p hinit Hr (cinit_nth rs i _ Hr)) as (s' & Hs' & Hrun).
  rewrite Hs in Hs'. inversion Hs'; subst s'.
  destruct (oneway r) eqn:W.
  - exact (schedules_oneway r p _ s Hrun W w Hw).
  - destruct (schedules_twoway r p Hid _ s Hrun W w Hw) as (x & -> & _ & Hx). exists x. split; [reflexivity|exact Hx].
Qed.

(* with ONE Current per connection (seeded change C10-m12) the same is false: a one-way request is answered when the
   handler of another, two-way request of the connection returns in between *)
Definition shared_current_statement : Prop :=
  forall rs ls ss, srun rs {| sh_cell := 0; sh_hs := cinit rs |} ls = Some ss ->
  forall i r p s, nth_error rs i = Some (r, p) -> nth_error (sh_hs ss) i = Some s -> oneway r = true ->
  forall w, s_written s = Some w -> w = [].
Definition shared_witness_rs : list (request * reply) :=
  [(ex_oneway, base_reply ex_oneway); (ex_req, base_reply ex_req)].
Theorem shared_current_refuted : ~ shared_current_statement.
Proof.
  intros H.
  pose (ls := [(0%nat, LStart); (0%nat, LReturn); (0%nat, LWake); (1%nat, LStart); (1%nat, LReturn); (0%nat, LWrite)]).
  destruct (srun shared_witness_rs {| sh_cell := 0; sh_hs := cinit shared_witness_rs |} ls) as [ss|] eqn:E; [|vm_compute in E; discriminate].
  destruct (nth_error (sh_hs ss) 0) as [s|] eqn:Es; [|vm_compute in E; inversion E; subst; vm_compute in Es; discriminate].
  destruct (s_written s) as [w|] eqn:Ew; [|vm_compute in E; inversion E; subst; vm_compute in Es; inversion Es; subst; vm_compute in Ew; discriminate].
  specialize (H shared_witness_rs ls ss E 0%nat ex_oneway (base_reply ex_oneway) s eq_refl Es eq_refl w Ew).
  vm_compute in E. inversion E; subst ss. vm_compute in Es. inversion Es; subst s. vm_compute in Ew. inversion Ew; subst w.
  discriminate.
Qed.

(* ---------- concrete instances ---------- *)
Definition ex_stamps (arr hdl sel run wake write : N) : stamps :=
  {| t_arr := arr; t_hdl := hdl; t_sel := sel; d_run := run; d_wake := wake; d_write := write |}.
(* ex_req carries ITimeout = 100 ms; ex_cfg has a handle timeout of 250 ms *)
Example ex_timed_queue_timeout :
  let waited_101 := ex_stamps 7000400000 7101400000 7101400000 30000 0 0 in
  let waited_99  := ex_stamps 7000400000 7099400000 7099400000 30000 0 0 in
  stamps_ok waited_101 /\ map fst (fst (timed_step ex_dispatch ex_cfg ex_req waited_101)) = [FromQueueTimeout] /\
  snd (timed_step ex_dispatch ex_cfg ex_req waited_101) = 0%nat /\
  stamps_ok waited_99 /\ map fst (fst (timed_step ex_dispatch ex_cfg ex_req waited_99)) = [FromHandler] /\
  snd (timed_step ex_dispatch ex_cfg ex_req waited_99) = 1%nat.
Proof. vm_compute. repeat split; discriminate. Qed.
(* the race in timestamps: Invoke returns 1 ns before / 1 ns after the deadline; a handler that wakes late still
   finds Invoke's result; an Invoke held back beyond the deadline *)
Example ex_timed_race :
  map fst (fst (timed_step ex_dispatch ex_cfg ex_req (ex_stamps 0 0 1000 249998999 0 0))) = [FromHandler] /\
  map fst (fst (timed_step ex_dispatch ex_cfg ex_req (ex_stamps 0 0 1000 249999001 0 0))) = [FromHandleTimeout] /\
  map fst (fst (timed_step ex_dispatch ex_cfg ex_req (ex_stamps 0 0 1000 249999001 5000 0))) = [FromHandler] /\
  timed_step ex_dispatch ex_cfg ex_req (ex_stamps 0 0 260000000 1000 0 0) = ([(FromHandleTimeout, handle_timeout_reply ex_req)], 0%nat) /\
  timed_step ex_dispatch ex_cfg ex_req (ex_stamps 0 0 260000000 1000 20000000 0) = ([(FromQueueTimeout, late_reply ex_req)], 0%nat).
Proof. vm_compute. repeat split. Qed.
(* queued for a second, then a fast handler: the handle timeout (250 ms) has not been used up by the queueing *)
Example ex_timed_long_queue :
  let st := ex_stamps 0 1000000000 1000001000 30000 0 0 in
  stamps_ok st /\ map fst (fst (timed_step ex_dispatch ex_cfg ex_ping st)) = [FromPing].
Proof. vm_compute. repeat split; discriminate. Qed.
(* an interleaved run of a connection with a one-way and a two-way request *)
Example ex_connection_run :
  option_map (map s_written)
    (crun shared_witness_rs (cinit shared_witness_rs)
       [(0%nat, LStart); (1%nat, LStart); (0%nat, LReturn); (0%nat, LWake); (1%nat, LReturn); (0%nat, LWrite); (1%nat, LWake); (1%nat, LWrite)]) =
  Some [Some []; Some [base_reply ex_req]].
Proof. vm_compute. reflexivity. Qed.
