(* C01 proofs, part 6: what a required member decodes to does not depend on what the target variable held before
   (the repaired generator/codec: ResetDefault assigns every member, empty byte vectors are assigned, C04_reuse_member).
   A required member is either found - then scalars, strings, vectors, byte vectors and maps are assigned and structs
   are reset before they are read - or the decoder fails. Fixed-size arrays are the exception (elements beyond the
   count on the wire keep their content); the IDL has array types for struct members only, never for parameters. *)
From Coq Require Import List NArith ZArith Bool Arith Lia.
From TarsV Require Import Gen.Consts Base.Hex Codec.Wire Codec.Skip Codec.Prim Codec.GenCodec Codec.Corr
  Codec.RoundTrip Codec.RoundTripProofs Codec.PrefixGenProofs.
Import ListNotations.
Open Scope N_scope.

Lemma seek_req_found : forall f tag bs r, skip_to_no_check f tag true bs <> NotFound r.
Proof.
  induction f as [|f IH]; intros tag bs r; cbn [skip_to_no_check]; [discriminate|].
  destruct (read_head2 bs) as [[[[ty tg] r0] two]|]; [|discriminate].
  destruct ((ty =? tSE) || (tag <? tg)); [discriminate|]. destruct (tg =? tag); [discriminate|].
  destruct (skip_field f 0 ty r0) as [[| |] r']; try discriminate. apply IH.
Qed.
Lemma skip_to_req_found f ty tag bs r : skip_to f ty tag true bs <> NotFound r.
Proof.
  unfold skip_to. destruct (skip_to_no_check f tag true bs) eqn:E; try discriminate.
  - destruct (_ =? _); discriminate.
  - exfalso. exact (seek_req_found _ _ _ _ E).
Qed.

Definition not_array (t : ty) : bool := match t with TArr _ _ => false | _ => true end.

Theorem dec_var_req_prior_indep fuel e tag t p1 p2 bs : not_array t = true ->
  dec_var fuel e tag true t p1 bs = dec_var fuel e tag true t p2 bs.
Proof.
  intros Ht. destruct fuel as [|f]; [reflexivity|].
  destruct t; try discriminate;
    try (rewrite !dec_var_scalar by reflexivity; unfold_scalar;
         destruct (skip_to_no_check f tag true bs) eqn:E; try reflexivity;
         [match goal with |- context [match ?b with Some _ => _ | None => _ end] => destruct b as [[? ?]|] end; reflexivity
         |exfalso; exact (seek_req_found _ _ _ _ E)]).
  - rewrite !dec_var_vec. destruct (skip_to_no_check f tag true bs) eqn:E; try reflexivity.
    exfalso; exact (seek_req_found _ _ _ _ E).
  - rewrite !dec_var_map. destruct (skip_to f tMAP tag true bs) eqn:E; try reflexivity.
    exfalso; exact (skip_to_req_found _ _ _ _ _ E).
  - apply GenProofs.dec_var_struct_prior_indep.
Qed.

(* a list of required non-array members: the decoded values do not depend on the prior content of the targets *)
Definition plain_required (fd : field) : Prop := freq fd = true /\ not_array (fty fd) = true.

Theorem dec_fields_prior_indep e : forall fuel fds ps1 ps2 bs, Forall plain_required fds ->
  dec_fields fuel e fds ps1 bs = dec_fields fuel e fds ps2 bs.
Proof.
  induction fuel as [|f IH]; intros fds ps1 ps2 bs H; [reflexivity|].
  rewrite !dec_fields_S. destruct fds as [|fd fds]; [reflexivity|]. inversion H as [|? ? [Hr Ha] Hrest]; subst.
  cbv zeta. rewrite Hr.
  rewrite (dec_var_req_prior_indep f e (ftag fd) (fty fd)
             (match ps1 with p :: _ => p | [] => zero_of f e (fty fd) end)
             (match ps2 with p :: _ => p | [] => zero_of f e (fty fd) end) bs Ha).
  destruct (dec_var f e (ftag fd) true (fty fd) _ bs); try reflexivity.
  now rewrite (IH fds (tl ps1) (tl ps2) rest Hrest).
Qed.
