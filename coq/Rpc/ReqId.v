(* C08 — the request id generator  tars/servant.go:genRequestID

     atomic.CompareAndSwapInt32(&msgID, maxInt32, 1)
     for { if v := atomic.AddInt32(&msgID, 1); v != 0 { return v } }

   The counter is an int32 (two's complement, wraps).  Two atomic operations exist, [Cas] and [Add]; a call
   of genRequestID is one Cas followed by Adds until a non-zero value comes back.  Any number of threads, any
   interleaving: a run is an arbitrary sequence of (thread, operation) labels.  Definitions only. *)
From Coq Require Import List ZArith Bool Lia.
Import ListNotations.
Open Scope Z_scope.

Definition two31 : Z := 2147483648.
Definition two32 : Z := 4294967296.
Definition min_i32 : Z := - two31.

(* int32 wrap-around of an integer *)
Definition wrap32 (z : Z) : Z := ((z + two31) mod two32) - two31.
Definition in_i32 (z : Z) : Prop := - two31 <= z < two31.

Section Gen.
  (* the wrap threshold [maxInt32] of the code; regenerated into Gen/Consts.v and instantiated in Props *)
  Variable maxi : Z.

  (* ---- the two atomic operations on the counter ---- *)
  Definition cas (c : Z) : Z := if c =? maxi then 1 else c.
  Definition add (c : Z) : Z := wrap32 (c + 1).

  (* ---- the permissive machine: any sequence of atomic operations, whoever performs them ---- *)
  Inductive op := OCas | OAdd.

  (* returns the final counter and the values returned by the Adds, oldest first *)
  Fixpoint run_ops (c : Z) (l : list op) : Z * list Z :=
    match l with
    | [] => (c, [])
    | OCas :: r => run_ops (cas c) r
    | OAdd :: r => let v := add c in let '(c', vs) := run_ops v r in (c', v :: vs)
    end.
  Definition adds (c : Z) (l : list op) : list Z := snd (run_ops c l).

  (* ---- the thread machine: per-thread program counters, one label per atomic step ---- *)
  Inductive tpc := TIdle | TAtCas | TAtAdd | TDone (v : Z).
  Record st := { ctr : Z; pcs : list tpc; hist : list Z (* ghost: Add results, newest first *);
                 ids : list Z (* ghost: returned ids, newest first *) }.
  Inductive label := LCall (t : nat) | LCas (t : nat) | LAdd (t : nat).

  Fixpoint set_nth {A} (n : nat) (x : A) (l : list A) : list A :=
    match l, n with
    | [], _ => []
    | _ :: r, O => x :: r
    | y :: r, S k => y :: set_nth k x r
    end.

  Definition step (s : st) (l : label) : option st :=
    match l with
    | LCall t => match nth_error (pcs s) t with
                 | Some TIdle | Some (TDone _) => Some {| ctr := ctr s; pcs := set_nth t TAtCas (pcs s); hist := hist s; ids := ids s |}
                 | _ => None end
    | LCas t => match nth_error (pcs s) t with
                | Some TAtCas => Some {| ctr := cas (ctr s); pcs := set_nth t TAtAdd (pcs s); hist := hist s; ids := ids s |}
                | _ => None end
    | LAdd t => match nth_error (pcs s) t with
                | Some TAtAdd => let v := add (ctr s) in
                    Some {| ctr := v; pcs := set_nth t (if v =? 0 then TAtAdd else TDone v) (pcs s);
                            hist := v :: hist s; ids := if v =? 0 then ids s else v :: ids s |}
                | _ => None end
    end.

  Fixpoint run (s : st) (ls : list label) : option st :=
    match ls with
    | [] => Some s
    | l :: r => match step s l with Some s' => run s' r | None => None end
    end.

  Definition init (c0 : Z) (nthreads : nat) : st := {| ctr := c0; pcs := repeat TIdle nthreads; hist := []; ids := [] |}.

  Definition erase (l : label) : list op :=
    match l with LCall _ => [] | LCas _ => [OCas] | LAdd _ => [OAdd] end.

  (* ---- sequential reference: one whole call ---- *)
  (* two Adds always suffice: after an Add returned 0 the next returns 1 *)
  Definition gen1 (c : Z) : Z * Z :=   (* (id, counter afterwards) *)
    let c1 := cas c in let v := add c1 in if v =? 0 then (add v, add v) else (v, v).
  Fixpoint gen_seq (c : Z) (n : nat) : list Z * Z :=
    match n with
    | O => ([], c)
    | S k => let '(id, c') := gen1 c in let '(l, c'') := gen_seq c' k in (id :: l, c'')
    end.

  (* lower bound on the number of Adds until an Add returns [x], starting with counter [c] *)
  Definition rem (c x : Z) : Z :=
    if c <? x then x - c else if 2 <=? x then maxi - c + x - 1 else two32 - (c - x).
End Gen.

(* ---- correspondence cases (written by the harness) ---- *)
(* sequential: start value, observed ids, observed final counter *)
Definition c08_seq_case := (Z * list Z * Z)%type.
Definition zlist_eqb (a b : list Z) : bool :=
  (fix go a b := match a, b with [] , [] => true | x :: a', y :: b' => (x =? y) && go a' b' | _, _ => false end) a b.
Definition c08_seq_check (maxi : Z) (c : c08_seq_case) : bool :=
  let '(c0, obs, fin) := c in
  let '(l, c') := gen_seq maxi c0 (length obs) in zlist_eqb l obs && (c' =? fin).

(* concurrent batch: start value, all ids handed out by the threads (any order), final counter.
   Checked against what the theorems conclude: non-zero, pairwise distinct, and — because every call performs one
   or two Adds — final counter and every id within the window an interleaving can reach. *)
Fixpoint zmem (x : Z) (l : list Z) : bool := match l with [] => false | y :: r => (x =? y) || zmem x r end.
Fixpoint znodup (l : list Z) : bool := match l with [] => true | x :: r => negb (zmem x r) && znodup r end.
Definition c08_mt_case := (Z * list Z * Z)%type.
Definition c08_mt_check (maxi : Z) (c : c08_mt_case) : bool :=
  let '(c0, obs, fin) := c in
  let n := Z.of_nat (length obs) in
  znodup obs && negb (zmem 0 obs)
  && forallb (fun x => (rem maxi c0 x <=? n + 1)) obs
  && ((n =? 0) || (rem maxi c0 fin <=? n + 1)).

(* ---- a drawn id is never handed back: the counter only moves forward ----
   The machine has two operations, [cas] and [add]; nothing decrements.  Two successive readings a, b of the counter of a
   short run (far fewer than [fwd_bound] allocations between them) are therefore equal, or b lies a few forward steps
   after a: [rem] is the lower bound on the Adds needed to reach a value (ReqIdProofs.mt_check_sound), and the only value
   that is reached without being returned by an Add is the transient 1 right after the Cas at the threshold. *)
Definition fwd_bound : Z := 1048576.
Definition ctr_fwd (maxi a b : Z) : bool :=
  (a =? b) || (rem maxi a b <=? fwd_bound) || ((b =? 1) && (0 <? a) && (maxi - a <=? fwd_bound)).
Fixpoint ctrs_fwd (maxi : Z) (l : list Z) : bool :=
  match l with
  | a :: ((b :: _) as r) => ctr_fwd maxi a b && ctrs_fwd maxi r
  | _ => true
  end.

(* ---- every id comes from the generator ----
   c0 = counter when the observation started, id = the id a call (or ping) carries, ctr = a reading of the counter taken
   after the id was drawn.  The counter moves forward only (int32 wrap, the Cas jumps ahead), so in the forward order from c0
   the id lies strictly after c0 and not after ctr. *)
Definition id_in_window (c0 id ctr : Z) : bool :=
  let d := (id - c0) mod two32 in let w := (ctr - c0) mod two32 in negb (d =? 0) && (d <=? w).
