(* C01 proofs, part 2: transparency of a call through generated proxy and dispatcher. *)
From Coq Require Import List NArith ZArith Bool Arith Lia.
From TarsV Require Import Gen.Consts Base.Hex Codec.Wire Codec.Skip Codec.Prim Codec.GenCodec
  Frame.Framing Frame.FramingProofs Rpc.Filters Rpc.FiltersProofs Rpc.EndToEnd.
Import ListNotations.
Open Scope N_scope.

Ltac norm_app := repeat (progress (cbn [app]; rewrite <- ?app_assoc)); reflexivity.

Section Proofs.
  Variable e : env.
  Variable sid_req sid_rsp : nat.
  Variable max_pkt : N.
  Variable impl : bytes -> list val -> smap -> smap -> impl_res.

  Notation dispatch := (dispatch e impl).
  Notation server_handle := (server_handle e impl).
  Notation do_invoke := (do_invoke e sid_req sid_rsp max_pkt impl).
  Notation call := (call e sid_req sid_rsp max_pkt impl).
  Notation wire_req := (wire_req e sid_req max_pkt).
  Notation wire_rsp := (wire_rsp e sid_rsp max_pkt).
  Notation mkreq := (mkreq e).
  Notation proxy_finish := (proxy_finish e).

  Definition is_oneway (q : reqpkt) : bool := (q_ptype q =? c_c01_TARSONEWAY)%Z.

  (* ---------- the server as a function of the request packet alone ---------- *)
  Definition reply_of (q : reqpkt) (r : disp_res) : rsppkt :=
    match r with
    | DispOk p => {| p_ver := p_ver p; p_ptype := q_ptype q; p_id := p_id p; p_mtype := p_mtype p; p_ret := p_ret p;
                     p_buf := p_buf p; p_status := p_status p; p_desc := p_desc p; p_ctx := p_ctx p |}
    | DispErr c m _ => {| p_ver := q_ver q; p_ptype := q_ptype q; p_id := q_id q; p_mtype := 0; p_ret := c;
                          p_buf := []; p_status := []; p_desc := m; p_ctx := [] |}
    end.
  Definition srv_reply (i : iface) (q : reqpkt) : option rsppkt :=
    if is_oneway q then None else Some (reply_of q (fst (dispatch i q))).
  Definition srv_events (Ps : pfilters ev unit) (i : iface) (q : reqpkt) : list ev :=
    before Ps ++ (EDispatch :: snd (dispatch i q)) ++ after Ps ++ (if is_oneway q then [] else [EReply]).

  Lemma server_handle_pass Ps i q s :
    server_handle (filters_of disp_res Ps) i q s = (srv_reply i q, s ++ srv_events Ps i q).
  Proof.
    unfold EndToEnd.server_handle, srv_reply, srv_events, is_oneway.
    destruct (dispatch i q) as [r evs] eqn:Hd.
    rewrite (run_pass ev disp_res unit Ps).
    cbn [fst snd]. destruct (q_ptype q =? c_c01_TARSONEWAY)%Z.
    - f_equal. rewrite app_nil_r. rewrite <- !app_assoc. reflexivity.
    - f_equal. rewrite <- !app_assoc. reflexivity.
  Qed.

  (* ---------- doInvoke as a function of the request packet alone ---------- *)
  Definition inv_result (i : iface) (q : reqpkt) : inv_res :=
    match wire_req q with
    | None => VLost
    | Some q' =>
        if is_oneway q then VOneWay
        else match srv_reply i q' with
             | None => VLost
             | Some p => match wire_rsp p with
                         | Some p' => if (p_id p' =? q_id q)%Z then map_reply p' else VLost
                         | None => VLost
                         end
             end
    end.
  Definition inv_events (Ps : pfilters ev unit) (i : iface) (q : reqpkt) : list ev :=
    EInvoke :: match wire_req q with None => [] | Some q' => srv_events Ps i q' end.

  Lemma do_invoke_pass Ps i q s :
    do_invoke (filters_of disp_res Ps) i q s = (inv_result i q, s ++ inv_events Ps i q).
  Proof.
    unfold EndToEnd.do_invoke, inv_result, inv_events.
    destruct (wire_req q) as [q'|].
    - rewrite server_handle_pass. unfold is_oneway.
      replace ((s ++ [EInvoke]) ++ srv_events Ps i q') with (s ++ EInvoke :: srv_events Ps i q')
        by (now rewrite <- app_assoc).
      destruct (q_ptype q =? c_c01_TARSONEWAY)%Z; [reflexivity|].
      destruct (srv_reply i q') as [p|]; [|reflexivity].
      destruct (wire_rsp p) as [p'|]; [|reflexivity].
      destruct (p_id p' =? q_id q)%Z; reflexivity.
    - reflexivity.
  Qed.

  (* ---------- a call under any combination of pass-through filters ---------- *)
  Theorem call_pass (Pc Ps : pfilters ev unit) i f args o ow id sv t :
    call (filters_of inv_res Pc) (filters_of disp_res Ps) i f args o ow id sv t =
    (proxy_finish f args o (inv_result i (mkreq f args o ow id sv t)),
     before Pc ++ inv_events Ps i (mkreq f args o ow id sv t) ++ after Pc).
  Proof.
    unfold EndToEnd.call.
    rewrite (run_pass ev inv_res unit Pc). rewrite do_invoke_pass. cbn [app]. now rewrite <- app_assoc.
  Qed.

  Definition no_filters : pfilters ev unit := {| p_legacy := None; p_mws := []; p_pres := []; p_posts := [] |}.

  (* filters do not change the outcome; they see the call once each, in registration order, around the unfiltered events *)
  Theorem filters_transparent (Pc Ps : pfilters ev unit) i f args o ow id sv t :
    fst (call (filters_of inv_res Pc) (filters_of disp_res Ps) i f args o ow id sv t) =
    fst (call (filters_of inv_res no_filters) (filters_of disp_res no_filters) i f args o ow id sv t).
  Proof. now rewrite !call_pass. Qed.

  Theorem filters_log (Pc Ps : pfilters ev unit) i f args o ow id sv t :
    let q := mkreq f args o ow id sv t in
    snd (call (filters_of inv_res Pc) (filters_of disp_res Ps) i f args o ow id sv t) =
    before Pc ++ [EInvoke] ++
      match wire_req q with
      | None => []
      | Some q' => before Ps ++ (EDispatch :: snd (dispatch i q')) ++ after Ps ++ (if is_oneway q' then [] else [EReply])
      end ++ after Pc.
  Proof. cbn zeta. rewrite call_pass. cbn [snd]. unfold inv_events, srv_events. reflexivity. Qed.

  (* ---------- value level: per-call hypotheses on the codec (named; see Props/C01.v) ---------- *)
  (* the request / response packet survives packet codec, framing and the receive loop *)
  Definition wire_ok_req (q : reqpkt) : Prop := wire_req q = Some q.
  Definition wire_ok_rsp (p : rsppkt) : Prop := wire_rsp p = Some p.
  (* codec round trip of the argument list: the dispatcher's decoder, run over the proxy's encoding of all
     arguments, yields the in arguments *)
  (* general form: the dispatcher decodes the in arguments [ins'] from the proxy's encoding of all arguments *)
  Definition args_decode (f : fsig) (args ins' : list val) : Prop :=
    exists rest, dec_list e (in_fields f) (zeros e (in_fields f)) (enc_fields e (all_fields f) args) = DOk ins' rest.
  Definition args_roundtrip (f : fsig) (args : list val) : Prop := args_decode f args (ins_of f args).
  (* codec round trip of the results: the proxy's decoder (into the caller's variables), run over the dispatcher's
     encoding of return value and out arguments, yields them *)
  Definition results_decode (f : fsig) (args : list val) (vs vs' : list val) : Prop :=
    exists rest, dec_list e (rsp_fields f) (zeros e (ret_fields f) ++ outs_of f args) (enc_fields e (rsp_fields f) vs) = DOk vs' rest.
  Definition results_roundtrip (f : fsig) (args : list val) (vs : list val) : Prop := results_decode f args vs vs.

  Definition ret_shape (f : fsig) (ret : option val) : Prop :=
    match fs_ret f, ret with Some _, Some _ | None, None => True | _, _ => False end.
  Definition results (ret : option val) (outs : list val) : list val :=
    match ret with Some r => r :: outs | None => outs end.

  (* the caller's maps after the call: each non-nil map holds exactly the response map; a nil map stays nil *)
  Definition maps_after (o : opts) (rc rs : smap) : list smap :=
    match o with
    | [c] => [copy_into c rc]
    | [c; st] => [copy_into c rc; copy_into st rs]
    | _ => []
    end.

  Definition ok_reply (f : fsig) (q : reqpkt) (ret : option val) (outs : list val) (rc rs : smap) : rsppkt :=
    {| p_ver := q_ver q; p_ptype := q_ptype q; p_id := q_id q; p_mtype := 0; p_ret := 0;
       p_buf := enc_fields e (rsp_fields f) (results ret outs); p_status := rs; p_desc := []; p_ctx := rc |}.
  Definition err_reply (q : reqpkt) (c : Z) (m : bytes) : rsppkt :=
    {| p_ver := q_ver q; p_ptype := q_ptype q; p_id := q_id q; p_mtype := 0; p_ret := c;
       p_buf := []; p_status := []; p_desc := m; p_ctx := [] |}.

  Definition core_events_at (Pc Ps : pfilters ev unit) (f : fsig) (ins' : list val) (o : opts) (reply : bool) : list ev :=
    before Pc ++ [EInvoke] ++ before Ps ++ [EDispatch; EImpl (fs_name f) ins' (ctx_of o) (status_of o)]
      ++ after Ps ++ (if reply then [EReply] else []) ++ after Pc.
  Definition core_events (Pc Ps : pfilters ev unit) (f : fsig) (args : list val) (o : opts) (reply : bool) : list ev :=
    core_events_at Pc Ps f (ins_of f args) o reply.

  Lemma dispatch_decoded i f args ins' o ow id sv t :
    find_fn i (fs_name f) = Some f -> args_decode f args ins' ->
    dispatch i (mkreq f args o ow id sv t) =
    (let q := mkreq f args o ow id sv t in
     match impl (fs_name f) ins' (ctx_of o) (status_of o) with
     | IOk ret outs rc rs =>
         DispOk {| p_ver := q_ver q; p_ptype := 0; p_id := q_id q; p_mtype := 0; p_ret := 0;
                   p_buf := enc_fields e (rsp_fields f) (results ret outs); p_status := rs; p_desc := []; p_ctx := rc |}
     | IFail c m => DispErr c m false
     end, [EImpl (fs_name f) ins' (ctx_of o) (status_of o)]).
  Proof.
    intros Hf [rest Hrt]. unfold EndToEnd.dispatch. cbn [q_func EndToEnd.mkreq q_buf q_ctx q_status].
    rewrite Hf, Hrt. destruct (impl _ _ _ _) as [ret outs rc rs|c m]; [|reflexivity].
    destruct ret; reflexivity.
  Qed.
  Lemma dispatch_reaches_impl i f args o ow id sv t :
    find_fn i (fs_name f) = Some f -> args_roundtrip f args ->
    dispatch i (mkreq f args o ow id sv t) =
    (let q := mkreq f args o ow id sv t in
     match impl (fs_name f) (ins_of f args) (ctx_of o) (status_of o) with
     | IOk ret outs rc rs =>
         DispOk {| p_ver := q_ver q; p_ptype := 0; p_id := q_id q; p_mtype := 0; p_ret := 0;
                   p_buf := enc_fields e (rsp_fields f) (results ret outs); p_status := rs; p_desc := []; p_ctx := rc |}
     | IFail c m => DispErr c m false
     end, [EImpl (fs_name f) (ins_of f args) (ctx_of o) (status_of o)]).
  Proof. apply dispatch_decoded. Qed.

  Lemma oneway_flag f args o ow id sv t : is_oneway (mkreq f args o ow id sv t) = ow.
  Proof. unfold is_oneway. cbn. destruct ow; reflexivity. Qed.

  (* what the proxy hands back from the decoded result list *)
  Definition ret_of (f : fsig) (vs : list val) : option val := match fs_ret f with Some _ => Some (hd (VInt 0) vs) | None => None end.
  Definition outs_from (f : fsig) (vs : list val) : list val := match fs_ret f with Some _ => tl vs | None => vs end.

  (* general form: whatever the two decoders yield ([ins'] at the dispatcher, [vs'] at the proxy) *)
  Theorem transparent_ok_decoded (Pc Ps : pfilters ev unit) i f args ins' o id sv t ret outs rc rs vs' :
    let q := mkreq f args o false id sv t in
    find_fn i (fs_name f) = Some f ->
    wire_ok_req q -> args_decode f args ins' ->
    impl (fs_name f) ins' (ctx_of o) (status_of o) = IOk ret outs rc rs ->
    results_decode f args (results ret outs) vs' ->
    wire_ok_rsp (ok_reply f q ret outs rc rs) ->
    call (filters_of inv_res Pc) (filters_of disp_res Ps) i f args o false id sv t =
    (COk (ret_of f vs') (outs_from f vs') (maps_after o rc rs), core_events_at Pc Ps f ins' o true).
  Proof.
    cbn zeta. intros Hf Hwq Hargs Himpl [rest Hres] Hwp.
    rewrite call_pass. unfold inv_result, inv_events, srv_reply, srv_events.
    rewrite Hwq. rewrite oneway_flag. rewrite (dispatch_decoded i f args ins' o false id sv t Hf Hargs), Himpl.
    cbn [fst snd reply_of p_ver p_ptype p_id p_mtype p_ret p_buf p_status p_desc p_ctx].
    change (q_ptype (mkreq f args o false id sv t)) with c_c01_TARSNORMAL.
    unfold ok_reply in Hwp. change (q_ptype (mkreq f args o false id sv t)) with c_c01_TARSNORMAL in Hwp.
    cbn [q_ver q_id EndToEnd.mkreq] in *. unfold wire_ok_rsp in Hwp. rewrite Hwp.
    cbn [p_id]. rewrite Z.eqb_refl. unfold map_reply. cbn [p_ret]. cbn [Z.eqb].
    unfold core_events_at. f_equal.
    - unfold EndToEnd.proxy_finish. cbn [p_buf p_ctx p_status]. rewrite Hres.
      unfold maps_after, ret_of, outs_from.
      destruct o as [|c [|st [|x o']]]; reflexivity.
    - norm_app.
  Qed.

  (* C01_transparent_ok *)
  Theorem transparent_ok (Pc Ps : pfilters ev unit) i f args o id sv t ret outs rc rs :
    let q := mkreq f args o false id sv t in
    find_fn i (fs_name f) = Some f ->
    wire_ok_req q -> args_roundtrip f args ->
    impl (fs_name f) (ins_of f args) (ctx_of o) (status_of o) = IOk ret outs rc rs ->
    ret_shape f ret -> results_roundtrip f args (results ret outs) ->
    wire_ok_rsp (ok_reply f q ret outs rc rs) ->
    call (filters_of inv_res Pc) (filters_of disp_res Ps) i f args o false id sv t =
    (COk ret outs (maps_after o rc rs), core_events Pc Ps f args o true).
  Proof.
    cbn zeta. intros Hf Hwq Hargs Himpl Hshape Hres Hwp.
    rewrite (transparent_ok_decoded Pc Ps i f args (ins_of f args) o id sv t ret outs rc rs (results ret outs)); try assumption.
    unfold core_events. f_equal. unfold ret_of, outs_from, results. unfold ret_shape in Hshape.
    destruct (fs_ret f), ret; try contradiction; reflexivity.
  Qed.

  (* what the caller reads from the error: the message, or a framework-made text when the message is empty *)
  Definition err_seen (c : Z) (m : bytes) : call_res :=
    match m with [] => CErr c sys_msg true | _ => CErr c m false end.

  (* general forms of the failure and one-way clauses *)
  Theorem transparent_err_decoded (Pc Ps : pfilters ev unit) i f args ins' o id sv t c m :
    let q := mkreq f args o false id sv t in
    find_fn i (fs_name f) = Some f ->
    wire_ok_req q -> args_decode f args ins' ->
    impl (fs_name f) ins' (ctx_of o) (status_of o) = IFail c m ->
    c <> 0%Z ->
    wire_ok_rsp (err_reply q c m) ->
    call (filters_of inv_res Pc) (filters_of disp_res Ps) i f args o false id sv t =
    (err_seen c m, core_events_at Pc Ps f ins' o true).
  Proof.
    cbn zeta. intros Hf Hwq Hargs Himpl Hc Hwp.
    rewrite call_pass. unfold inv_result, inv_events, srv_reply, srv_events.
    rewrite Hwq. rewrite oneway_flag. rewrite (dispatch_decoded i f args ins' o false id sv t Hf Hargs), Himpl.
    cbn [fst snd reply_of]. unfold err_reply, wire_ok_rsp in Hwp. rewrite Hwp.
    cbn [p_id]. rewrite Z.eqb_refl. unfold map_reply. cbn [p_ret p_desc].
    destruct (c =? 0)%Z eqn:Hc0; [apply Z.eqb_eq in Hc0; contradiction|].
    unfold core_events_at. f_equal.
    - unfold err_seen. destruct m as [|b m]; destruct (c =? 1)%Z eqn:H1;
        try (apply Z.eqb_eq in H1; subst c); reflexivity.
    - norm_app.
  Qed.

  (* C01_transparent_err *)
  Theorem transparent_err (Pc Ps : pfilters ev unit) i f args o id sv t c m :
    let q := mkreq f args o false id sv t in
    find_fn i (fs_name f) = Some f ->
    wire_ok_req q -> args_roundtrip f args ->
    impl (fs_name f) (ins_of f args) (ctx_of o) (status_of o) = IFail c m ->
    c <> 0%Z ->
    wire_ok_rsp (err_reply q c m) ->
    call (filters_of inv_res Pc) (filters_of disp_res Ps) i f args o false id sv t =
    (err_seen c m, core_events Pc Ps f args o true).
  Proof. cbn zeta. intros. now apply transparent_err_decoded. Qed.

  Theorem oneway_decoded (Pc Ps : pfilters ev unit) i f args ins' o id sv t :
    let q := mkreq f args o true id sv t in
    find_fn i (fs_name f) = Some f ->
    wire_ok_req q -> args_decode f args ins' ->
    call (filters_of inv_res Pc) (filters_of disp_res Ps) i f args o true id sv t =
    (CSent, core_events_at Pc Ps f ins' o false).
  Proof.
    cbn zeta. intros Hf Hwq Hargs.
    rewrite call_pass. unfold inv_result, inv_events, srv_events.
    rewrite Hwq. rewrite oneway_flag. rewrite (dispatch_decoded i f args ins' o true id sv t Hf Hargs).
    cbn [snd]. unfold core_events_at. f_equal. norm_app.
  Qed.

  (* C01_oneway: whatever the implementation does, it is called once with the caller's inputs, nothing is replied *)
  Theorem oneway (Pc Ps : pfilters ev unit) i f args o id sv t :
    let q := mkreq f args o true id sv t in
    find_fn i (fs_name f) = Some f ->
    wire_ok_req q -> args_roundtrip f args ->
    call (filters_of inv_res Pc) (filters_of disp_res Ps) i f args o true id sv t =
    (CSent, core_events Pc Ps f args o false).
  Proof. cbn zeta. intros. now apply oneway_decoded. Qed.
End Proofs.
