(* C01: a concrete, non-trivial instance satisfying every hypothesis of the value-level theorems (so none of the
   implications is vacuous), on the regenerated schemas of the code: the function
     int mixed(int a, out string o1, string b, out vector<int> o2, long c, out Item o3, Item d, out map<string,string> o4, bool e)
   of harness/idl/e2e.tars, with in and out parameters interleaved, a struct, a vector and a map. *)
From Coq Require Import List NArith ZArith Bool Arith Lia.
From TarsV Require Import Gen.Consts Base.Hex Codec.Wire Codec.Skip Codec.Prim Codec.GenCodec Codec.Corr Gen.Schemas
  Frame.Framing Rpc.Filters Rpc.FiltersProofs Rpc.EndToEnd Rpc.EndToEndProofs Rpc.EndToEndConc Frame.FramingProofs.
Import ListNotations.
Open Scope N_scope.

Definition ex_item := TStruct sid_verife2e_Item.
Definition ex_sig : fsig :=
  {| fs_name := [109; 105; 120; 101; 100]; fs_ret := Some TI32;
     fs_args := [(TI32, false); (TStr, true); (TStr, false); (TVec TI32, true); (TI64, false); (ex_item, true);
                 (ex_item, false); (TMap TStr TStr, true); (TBool, false)] |}.
Definition ex_it (id : Z) : val := VStruct [VInt id; VStr [97; 98]; VList [VInt 1; VInt (-5000000000)]; VInt 8].
Definition ex_args : list val :=
  [VInt 300; VStr []; VStr [104; 105]; VList []; VInt (-1); VStruct [VInt 0; VStr []; VList []; VInt 0];
   ex_it 5; VMap []; VBool true].
Definition ex_opts : opts := [Some [([107], [118])]; Some []].
Definition ex_ret : option val := Some (VInt (-32769)).
Definition ex_outs : list val := [VStr [111; 49]; VList [VInt 1; VInt 70000]; ex_it 9; VMap [(VStr [120], VStr [121; 122])]].
Definition ex_rc : smap := [([114], [99]); ([], [1; 2])].
Definition ex_rs : smap := [].
Definition ex_impl_ok : bytes -> list val -> smap -> smap -> impl_res := fun _ _ _ _ => IOk ex_ret ex_outs ex_rc ex_rs.
Definition ex_impl_err : bytes -> list val -> smap -> smap -> impl_res := fun _ _ _ _ => IFail 78 [111; 111; 112; 115].
Definition ex_pc : pfilters ev unit := recording (EF Client) tt {| c_legacy := false; c_mws := 2; c_pres := 1; c_posts := 1 |}.
Definition ex_ps : pfilters ev unit := recording (EF Server) tt {| c_legacy := false; c_mws := 0; c_pres := 1; c_posts := 2 |}.

Notation SR := sid_requestf_RequestPacket.
Notation SP := sid_requestf_ResponsePacket.
Notation MAXP := c_c01_MaxPackageLength.
Definition ex_q (ow : bool) := mkreq env0 ex_sig ex_args ex_opts ow 41 [79; 98; 106] 3000.

Example ex_find : find_fn [ex_sig] (fs_name ex_sig) = Some ex_sig.
Proof. vm_compute. reflexivity. Qed.
Example ex_wire_req : wire_ok_req env0 SR MAXP (ex_q false).
Proof. vm_compute. reflexivity. Qed.
Example ex_wire_req_oneway : wire_ok_req env0 SR MAXP (ex_q true).
Proof. vm_compute. reflexivity. Qed.
Example ex_args_rt : args_roundtrip env0 ex_sig ex_args.
Proof. eexists. vm_compute. reflexivity. Qed.
Example ex_results_rt : results_roundtrip env0 ex_sig ex_args (results ex_ret ex_outs).
Proof. eexists. vm_compute. reflexivity. Qed.
Example ex_wire_rsp : wire_ok_rsp env0 SP MAXP (ok_reply env0 ex_sig (ex_q false) ex_ret ex_outs ex_rc ex_rs).
Proof. vm_compute. reflexivity. Qed.
Example ex_wire_rsp_err : wire_ok_rsp env0 SP MAXP (err_reply (ex_q false) 78 [111; 111; 112; 115]).
Proof. vm_compute. reflexivity. Qed.
Example ex_maps : maps_after ex_opts ex_rc ex_rs = [ex_rc; ex_rs].
Proof. reflexivity. Qed.

(* the theorems applied to the instance ... *)
Example ex_transparent_ok :
  call env0 SR SP MAXP ex_impl_ok (filters_of inv_res ex_pc) (filters_of disp_res ex_ps) [ex_sig] ex_sig ex_args ex_opts false 41 [79; 98; 106] 3000
  = (COk ex_ret ex_outs [ex_rc; ex_rs], core_events ex_pc ex_ps ex_sig ex_args ex_opts true).
Proof.
  apply (transparent_ok env0 SR SP MAXP ex_impl_ok ex_pc ex_ps [ex_sig] ex_sig ex_args ex_opts 41 [79; 98; 106] 3000 ex_ret ex_outs ex_rc ex_rs).
  - exact ex_find. - exact ex_wire_req. - exact ex_args_rt. - reflexivity. - exact I. - exact ex_results_rt.
  - exact ex_wire_rsp.
Qed.
Example ex_transparent_err :
  call env0 SR SP MAXP ex_impl_err (filters_of inv_res ex_pc) (filters_of disp_res ex_ps) [ex_sig] ex_sig ex_args ex_opts false 41 [79; 98; 106] 3000
  = (CErr 78 [111; 111; 112; 115] false, core_events ex_pc ex_ps ex_sig ex_args ex_opts true).
Proof.
  apply (transparent_err env0 SR SP MAXP ex_impl_err ex_pc ex_ps [ex_sig] ex_sig ex_args ex_opts 41 [79; 98; 106] 3000 78 [111; 111; 112; 115]).
  - exact ex_find. - exact ex_wire_req. - exact ex_args_rt. - reflexivity. - discriminate. - exact ex_wire_rsp_err.
Qed.
(* an error with an empty message: the code arrives, the text is the framework's *)
Definition ex_impl_err0 : bytes -> list val -> smap -> smap -> impl_res := fun _ _ _ _ => IFail 78 [].
Example ex_wire_rsp_err0 : wire_ok_rsp env0 SP MAXP (err_reply (ex_q false) 78 []).
Proof. vm_compute. reflexivity. Qed.
Example ex_transparent_err_empty :
  fst (call env0 SR SP MAXP ex_impl_err0 (filters_of inv_res ex_pc) (filters_of disp_res ex_ps) [ex_sig] ex_sig ex_args ex_opts false 41 [79; 98; 106] 3000)
  = CErr 78 sys_msg true.
Proof.
  rewrite (transparent_err env0 SR SP MAXP ex_impl_err0 ex_pc ex_ps [ex_sig] ex_sig ex_args ex_opts 41 [79; 98; 106] 3000 78 []).
  - reflexivity. - exact ex_find. - exact ex_wire_req. - exact ex_args_rt. - reflexivity. - discriminate. - exact ex_wire_rsp_err0.
Qed.
(* a nil context map passed by the caller while the implementation sets a response context: no panic, the results arrive *)
Example ex_nil_context_map :
  fst (call env0 SR SP MAXP ex_impl_ok (filters_of inv_res ex_pc) (filters_of disp_res ex_ps) [ex_sig] ex_sig ex_args [None; Some []] false 41 [79; 98; 106] 3000)
  = COk ex_ret ex_outs [[]; ex_rs].
Proof. vm_compute. reflexivity. Qed.
Example ex_oneway :
  call env0 SR SP MAXP ex_impl_ok (filters_of inv_res ex_pc) (filters_of disp_res ex_ps) [ex_sig] ex_sig ex_args ex_opts true 41 [79; 98; 106] 3000
  = (CSent, core_events ex_pc ex_ps ex_sig ex_args ex_opts false).
Proof.
  apply (oneway env0 SR SP MAXP ex_impl_ok ex_pc ex_ps [ex_sig] ex_sig ex_args ex_opts 41 [79; 98; 106] 3000).
  - exact ex_find. - exact ex_wire_req_oneway. - exact ex_args_rt.
Qed.
(* ... and the same call evaluated directly: the in arguments reach the implementation, once, between the filters *)
Example ex_events :
  filter is_obs (snd (call env0 SR SP MAXP ex_impl_ok (filters_of inv_res ex_pc) (filters_of disp_res ex_ps) [ex_sig] ex_sig ex_args ex_opts false 41 [79; 98; 106] 3000))
  = [EF Client (FIn KMw 0); EF Client (FIn KMw 1); EF Server (FIn KPre 0);
     EImpl (fs_name ex_sig) [VInt 300; VStr [104; 105]; VInt (-1); ex_it 5; VBool true] [([107], [118])] [];
     EF Server (FIn KPost 0); EF Server (FIn KPost 1); EF Client (FOut KMw 1); EF Client (FOut KMw 0)].
Proof. vm_compute. reflexivity. Qed.

(* the packet-codec hypotheses of the concurrency theorem hold of the instance's packets *)
Example ex_req_codec_ok : req_codec_ok env0 SR MAXP (ex_q false).
Proof.
  split; [vm_compute; reflexivity|]. unfold valid. split; [|split].
  - vm_compute. reflexivity.
  - apply Nat.leb_le. vm_compute. reflexivity.
  - apply N.leb_le. vm_compute. reflexivity.
Qed.
Example ex_rsp_codec_ok : rsp_codec_ok env0 SP MAXP (ok_reply env0 ex_sig (ex_q false) ex_ret ex_outs ex_rc ex_rs).
Proof.
  split; [vm_compute; reflexivity|]. unfold valid. split; [|split].
  - vm_compute. reflexivity.
  - apply Nat.leb_le. vm_compute. reflexivity.
  - apply N.leb_le. vm_compute. reflexivity.
Qed.

(* ---------- the closed value theorems (Rpc/EndToEndFull.v) applied to the same call of mixed (in and out parameters
   interleaved: the dispatcher passes over the encoded out arguments), fresh out variables ---------- *)
From TarsV Require Import Codec.RoundTrip Codec.RoundTripProofs Rpc.ValueWire Rpc.EndToEndFull.

(* the regenerated schemas satisfy the conditions of the struct-level codec theorems (tags ascending, defaults on
   scalars only, by-value struct nesting at most 2) *)
Example fx_env0_wf : wf_schema 2 env0.
Proof. apply wf_schema_b_sound. vm_compute. reflexivity. Qed.

Ltac typed_list := repeat (apply Forall2_cons; [cbn [fst fty]; apply (has_type_b_sound env0 8); vm_compute; reflexivity|]); apply Forall2_nil.
Ltac fine_packet := repeat split; try reflexivity; repeat constructor.

Example ex_sig_fine : sig_fine env0 2 4 ex_sig.
Proof.
  unfold sig_fine, sig_args_ok, ret_ok, ty_fine, fuel_static. cbn [ex_sig fs_args fs_ret].
  repeat split; try (vm_compute; reflexivity); try (vm_compute; lia).
  repeat constructor; vm_compute; reflexivity.
Qed.
Example ex_args_typed : args_typed env0 (fs_args ex_sig) ex_args.
Proof. unfold args_typed. typed_list. Qed.
Example ex_outs_skippable : outs_small ex_sig ex_args.
Proof. unfold outs_small. vm_compute outs_of. repeat constructor; vm_compute; try reflexivity; try discriminate. Qed.
Example ex_outs_fresh : outs_fresh env0 ex_sig ex_args.
Proof.
  unfold outs_fresh. vm_compute out_fields. vm_compute outs_of.
  repeat (apply Forall2_cons; [cbn [fty]; first [match goal with |- zlike _ ?t _ => exact (ZL_base env0 t eq_refl) end | apply (zero_zlike env0 2 ex_item 3); [vm_compute; reflexivity|lia]]|]).
  apply Forall2_nil.
Qed.
Example ex_results_typed : results_typed env0 ex_sig (results ex_ret ex_outs).
Proof. unfold results_typed. vm_compute rsp_fields. typed_list. Qed.
Example ex_req_sendable : req_sendable env0 SR MAXP (ex_q false).
Proof.
  split; [|apply N.leb_le; vm_compute; reflexivity].
  unfold req_fine, smap_fine, str_fine. cbn [ex_q mkreq q_ver q_ptype q_mtype q_id q_servant q_func q_buf q_timeout q_ctx q_status]. fine_packet.
Qed.
Example ex_rsp_sendable : rsp_sendable env0 SP MAXP (ok_reply env0 ex_sig (ex_q false) ex_ret ex_outs ex_rc ex_rs).
Proof.
  split; [|apply N.leb_le; vm_compute; reflexivity].
  unfold rsp_fine, smap_fine, str_fine. cbn [ok_reply p_ver p_ptype p_id p_mtype p_ret p_buf p_status p_desc p_ctx ex_q mkreq q_ver q_ptype q_id]. fine_packet.
Qed.

Example ex_transparent_ok_closed :
  call env0 SR SP MAXP ex_impl_ok (filters_of inv_res ex_pc) (filters_of disp_res ex_ps) [ex_sig] ex_sig ex_args ex_opts false 41 [79; 98; 106] 3000
  = (COk ex_ret ex_outs [ex_rc; ex_rs],
     core_events_at ex_pc ex_ps ex_sig [VInt 300; VStr [104; 105]; VInt (-1); ex_it 5; VBool true] ex_opts true).
Proof.
  rewrite (transparent_ok_closed env0 2 fx_env0_wf ltac:(lia) SR SP eq_refl eq_refl MAXP ltac:(vm_compute; reflexivity) 4
             ex_impl_ok ex_pc ex_ps [ex_sig] ex_sig ex_args ex_opts 41 [79; 98; 106] 3000 ex_ret ex_outs ex_rc ex_rs).
  - vm_compute. reflexivity.
  - vm_compute. reflexivity.
  - exact ex_sig_fine.
  - exact ex_args_typed.
  - exact ex_outs_skippable.
  - split; [repeat constructor|exact eq_refl].
  - reflexivity.
  - exact ex_results_typed.
  - exact ex_req_sendable.
  - exact ex_rsp_sendable.
Qed.

(* ---------- an out variable that already holds a value: the Item passed for o3 has nums = [1; ...], the implementation
   sets an Item with nums = [] - at the pinned revision the caller read the stale nums (former known finding, repaired
   in the generator template; the closed theorem still asks for fresh out variables). Signature with the out parameters last:
     int m2(int a, string b, Item d, out string o1, out vector<int> o2, out Item o3, out map<string,string> o4) ---------- *)
Definition fx_sig : fsig :=
  {| fs_name := [109; 50]; fs_ret := Some TI32;
     fs_args := [(TI32, false); (TStr, false); (ex_item, false); (TStr, true); (TVec TI32, true); (ex_item, true); (TMap TStr TStr, true)] |}.
Example fx_sig_fine : sig_fine env0 2 4 fx_sig.
Proof.
  unfold sig_fine, sig_args_ok, ret_ok, ty_fine, fuel_static. cbn [fx_sig fs_args fs_ret].
  repeat split; try (vm_compute; reflexivity); try (vm_compute; lia).
  repeat constructor; vm_compute; reflexivity.
Qed.
Definition fx_args_prefilled : list val := [VInt 300; VStr [104; 105]; ex_it 5; VStr []; VList []; ex_it 5; VMap []].
Definition fx_set_item : val := VStruct [VInt 9; VStr [97; 98]; VList []; VInt 8].
Definition fx_outs_empty : list val := [VStr [111; 49]; VList [VInt 1; VInt 70000]; fx_set_item; VMap [(VStr [120], VStr [121; 122])]].
Definition fx_impl_empty : bytes -> list val -> smap -> smap -> impl_res := fun _ _ _ _ => IOk ex_ret fx_outs_empty ex_rc ex_rs.
Definition fx_qp := mkreq env0 fx_sig fx_args_prefilled ex_opts false 41 [79; 98; 106] 3000.
Example fx_prefilled_typed : args_typed env0 (fs_args fx_sig) fx_args_prefilled.
Proof. unfold args_typed. typed_list. Qed.
Example fx_prefilled_skippable : outs_small fx_sig fx_args_prefilled.
Proof. unfold outs_small. vm_compute outs_of. repeat constructor; vm_compute; try reflexivity; try discriminate. Qed.
Example fx_empty_typed : results_typed env0 fx_sig (results ex_ret fx_outs_empty).
Proof. unfold results_typed. vm_compute rsp_fields. typed_list. Qed.
Example fx_qp_sendable : req_sendable env0 SR MAXP fx_qp.
Proof.
  split; [|apply N.leb_le; vm_compute; reflexivity].
  unfold req_fine, smap_fine, str_fine. cbn [fx_qp mkreq q_ver q_ptype q_mtype q_id q_servant q_func q_buf q_timeout q_ctx q_status]. fine_packet.
Qed.
Example fx_rp_sendable : rsp_sendable env0 SP MAXP (ok_reply env0 fx_sig fx_qp ex_ret fx_outs_empty ex_rc ex_rs).
Proof.
  split; [|apply N.leb_le; vm_compute; reflexivity].
  unfold rsp_fine, smap_fine, str_fine. cbn [ok_reply p_ver p_ptype p_id p_mtype p_ret p_buf p_status p_desc p_ctx fx_qp mkreq q_ver q_ptype q_id]. fine_packet.
Qed.
(* after the repair of the generated ResetDefault (every member is reset) the caller reads exactly what the
   implementation set: the stale nums = [1; -5000000000] of the pre-filled out variable are gone. (At the pinned
   revision this call returned the Item with the old nums - the former known finding
   e2e/out/prefilled-out-variable/stale-optional-member; Codec/Pinned.v has the pinned decoder.) *)
Example fx_prefilled_result :
  fst (call env0 SR SP MAXP fx_impl_empty (filters_of inv_res ex_pc) (filters_of disp_res ex_ps) [fx_sig] fx_sig fx_args_prefilled ex_opts false 41 [79; 98; 106] 3000)
  = COk ex_ret fx_outs_empty [ex_rc; ex_rs].
Proof. vm_compute. reflexivity. Qed.

(* the instance of the full-strength value statement that the pinned code refuted now holds *)
Theorem prefilled_out_witness :
  find_fn [fx_sig] (fs_name fx_sig) = Some fx_sig /\ sig_fine env0 2 4 fx_sig /\ args_typed env0 (fs_args fx_sig) fx_args_prefilled /\
  outs_small fx_sig fx_args_prefilled /\ results_typed env0 fx_sig (results ex_ret fx_outs_empty) /\
  req_sendable env0 SR MAXP fx_qp /\ rsp_sendable env0 SP MAXP (ok_reply env0 fx_sig fx_qp ex_ret fx_outs_empty ex_rc ex_rs) /\
  fst (call env0 SR SP MAXP fx_impl_empty (filters_of inv_res ex_pc) (filters_of disp_res ex_ps) [fx_sig] fx_sig fx_args_prefilled ex_opts false 41 [79; 98; 106] 3000)
  = COk ex_ret fx_outs_empty [ex_rc; ex_rs].
Proof.
  exact (conj eq_refl (conj fx_sig_fine (conj fx_prefilled_typed (conj fx_prefilled_skippable (conj fx_empty_typed
          (conj fx_qp_sendable (conj fx_rp_sendable fx_prefilled_result))))))).
Qed.

(* ... and it is an instance of the theorem for arbitrary content of the out variables (EndToEndFull.transparent_ok_any_outs):
   every hypothesis holds of the pre-filled call, by computation *)
Example fx_no_arrays : no_array_params fx_sig.
Proof. split; [repeat constructor|exact eq_refl]. Qed.
Example fx_canonical : canonical_call env0 fx_sig fx_args_prefilled ex_ret fx_outs_empty.
Proof. split; vm_compute; reflexivity. Qed.
Example fx_prefilled_by_theorem :
  call env0 SR SP MAXP fx_impl_empty (filters_of inv_res ex_pc) (filters_of disp_res ex_ps) [fx_sig] fx_sig fx_args_prefilled ex_opts false 41 [79; 98; 106] 3000
  = (COk ex_ret fx_outs_empty [ex_rc; ex_rs], core_events ex_pc ex_ps fx_sig fx_args_prefilled ex_opts true).
Proof.
  apply (transparent_ok_any_outs env0 2 fx_env0_wf ltac:(lia) SR SP eq_refl eq_refl MAXP ltac:(vm_compute; reflexivity) 4
           fx_impl_empty ex_pc ex_ps [fx_sig] fx_sig fx_args_prefilled ex_opts 41 [79; 98; 106] 3000 ex_ret fx_outs_empty ex_rc ex_rs).
  - vm_compute. reflexivity.
  - exact fx_sig_fine.
  - exact fx_prefilled_typed.
  - exact fx_prefilled_skippable.
  - exact fx_no_arrays.
  - reflexivity.
  - exact I.
  - exact fx_empty_typed.
  - exact fx_canonical.
  - exact fx_qp_sendable.
  - exact fx_rp_sendable.
Qed.

(* ---------- why [canonical_call] is needed for exact values: an optional double member without a declared default
   that holds -0.0 compares equal to the default 0.0, is not written, and the implementation receives +0.0
   (void f(NumLast a) on the regenerated schema verifidl2.NumLast; everything else arrives exactly) ---------- *)
Definition nz_sig : fsig := {| fs_name := [110; 122]; fs_ret := None; fs_args := [(TStruct sid_verifidl2_NumLast, false)] |}.
Definition nz_args : list val := [VStruct [VStr [120]; VInt 7; VFlt 9223372036854775808; VFlt 0]].
Definition nz_impl : bytes -> list val -> smap -> smap -> impl_res := fun _ _ _ _ => IOk None [] [] [].
Example nz_typed : args_typed env0 (fs_args nz_sig) nz_args.
Proof. unfold args_typed. typed_list. Qed.
Example nz_minus_zero_arrives_as_plus_zero :
  filter is_obs (snd (call env0 SR SP MAXP nz_impl (filters_of inv_res no_filters) (filters_of disp_res no_filters) [nz_sig] nz_sig nz_args [] false 41 [79] 3000))
  = [EImpl (fs_name nz_sig) [VStruct [VStr [120]; VInt 7; VFlt 0; VFlt 0]] [] []]
  /\ ins_seen env0 nz_sig nz_args <> ins_of nz_sig nz_args.
Proof. split; [vm_compute; reflexivity|vm_compute; discriminate]. Qed.

(* ---------- why [outs_skippable] is needed: int deep(out Node o, int a) with the caller's o holding a Node nested n
   structs deep (2n-1 nesting levels on the wire: struct > list > struct > ...). The request carries o in front of a;
   the dispatcher has to pass over it and skipField refuses more than maxSkipDepth = 512 levels: 256 structs pass,
   257 make the call fail although the implementation never looks at o (same on the code: known finding
   e2e/spurious-error/prefilled-out-argument-deeper-than-skip-limit) ---------- *)
Fixpoint dp_chain (n : nat) (v : Z) : val :=
  match n with
  | O => VStruct [VInt v; VList []]
  | S m => VStruct [VInt v; VList [dp_chain m (v + 1)%Z]]
  end.
Definition dp_sig : fsig :=
  {| fs_name := [100; 101; 101; 112]; fs_ret := Some TI32; fs_args := [(TStruct sid_verife2e_Node, true); (TI32, false)] |}.
Definition dp_impl : bytes -> list val -> smap -> smap -> impl_res :=
  fun _ _ _ _ => IOk (Some (VInt 5)) [VStruct [VInt 1; VList []]] [] [].
Definition dp_call (structs : nat) : call_res :=
  fst (call env0 SR SP MAXP dp_impl (filters_of inv_res no_filters) (filters_of disp_res no_filters) [dp_sig] dp_sig
            [dp_chain (structs - 1) 1; VInt 7] [] false 41 [79] 3000).
Example dp_256_structs_pass : dp_call 256 = COk (Some (VInt 5)) [VStruct [VInt 1; VList []]] [].
Proof. vm_compute. reflexivity. Qed.
Example dp_257_structs_fail : dp_call 257 = CErr 1 sys_msg false.
Proof. vm_compute. reflexivity. Qed.
Example dp_257_typed : args_typed env0 (fs_args dp_sig) [dp_chain 256 1; VInt 7].
Proof. unfold args_typed. repeat (apply Forall2_cons; [cbn [fst]; apply (has_type_b_sound env0 600); vm_compute; reflexivity|]). apply Forall2_nil. Qed.

(* ---------- the error clause at code 0: an implementation that fails with a tars.Error whose code is 0 (the protocol's
   success marker) - the reply carries IRet = 0, so the caller of a void function sees SUCCESS, the caller of a function
   with results a decode error with code 1; code and message are lost (same on the code: known findings
   e2e/error-code-zero/...). For every other code the error theorems give code and message exactly. ---------- *)
Definition z_void : fsig := {| fs_name := [112; 105; 110; 103]; fs_ret := None; fs_args := [] |}.
Definition z_int : fsig := {| fs_name := [102; 73; 110; 116]; fs_ret := Some TI32; fs_args := [(TI32, false); (TI32, true)] |}.
Definition z_impl : bytes -> list val -> smap -> smap -> impl_res := fun _ _ _ _ => IFail 0 [98; 111; 111; 109].
Example z_code_zero_void_succeeds :
  fst (call env0 SR SP MAXP z_impl (filters_of inv_res no_filters) (filters_of disp_res no_filters) [z_void] z_void [] [] false 41 [79] 3000)
  = COk None [] [].
Proof. vm_compute. reflexivity. Qed.
Example z_code_zero_results_decode_error :
  fst (call env0 SR SP MAXP z_impl (filters_of inv_res no_filters) (filters_of disp_res no_filters) [z_int] z_int [VInt 5; VInt 0] [] false 41 [79] 3000)
  = CErr 1 sys_msg true.
Proof. vm_compute. reflexivity. Qed.

(* ---------- two concurrent callers on one connection (EndToEndFull.concurrent_calls): the requests of mixed (id 41) and
   m2 with a pre-filled out variable (id 42) are sent in the order 42, 41, the request stream arrives one byte at a time,
   the replies are written in the opposite order and arrive coalesced; each caller gets what its call returns alone ---------- *)
Definition cc_impl : bytes -> list val -> smap -> smap -> impl_res :=
  fun fn _ _ _ => if bytes_eqb fn (fs_name ex_sig) then IOk ex_ret ex_outs ex_rc ex_rs else IOk ex_ret fx_outs_empty ex_rc ex_rs.
Definition cc_iface : iface := [ex_sig; fx_sig].
Definition cc_q1 := ex_q false.
Definition cc_q2 := mkreq env0 fx_sig fx_args_prefilled ex_opts false 42 [79; 98; 106] 3000.
Definition cc_sent := [cc_q2; cc_q1].
Definition cc_chunks_q : list bytes := map (fun b => [b]) (concat (map (enc_req env0 SR) cc_sent)).
Definition cc_written : list rsppkt :=
  [ok_reply env0 ex_sig cc_q1 ex_ret ex_outs ex_rc ex_rs; ok_reply env0 fx_sig cc_q2 ex_ret fx_outs_empty ex_rc ex_rs].
Definition cc_chunks_p : list bytes := [concat (map (enc_rsp env0 SP) cc_written)].
Lemma concat_singletons {A} (l : list A) : concat (map (fun b => [b]) l) = l.
Proof. induction l as [|x l IH]; cbn [map concat app]; [reflexivity|now rewrite IH]. Qed.
Example cc_q2_sendable : req_sendable env0 SR MAXP cc_q2.
Proof.
  split; [|apply N.leb_le; vm_compute; reflexivity].
  unfold req_fine, smap_fine, str_fine. cbn [cc_q2 mkreq q_ver q_ptype q_mtype q_id q_servant q_func q_buf q_timeout q_ctx q_status]. fine_packet.
Qed.
Example cc_r2_sendable : rsp_sendable env0 SP MAXP (ok_reply env0 fx_sig cc_q2 ex_ret fx_outs_empty ex_rc ex_rs).
Proof.
  split; [|apply N.leb_le; vm_compute; reflexivity].
  unfold rsp_fine, smap_fine, str_fine. cbn [ok_reply p_ver p_ptype p_id p_mtype p_ret p_buf p_status p_desc p_ctx cc_q2 mkreq q_ver q_ptype q_id]. fine_packet.
Qed.
Example cc_served_in_reverse :
  cc_written = rev (server_conn env0 SR MAXP cc_impl (filters_of disp_res ex_ps) cc_iface cc_chunks_q).
Proof. vm_compute. reflexivity. Qed.
Example cc_both_callers :
  conc_result env0 SP MAXP cc_chunks_p ex_sig ex_args ex_opts cc_q1 = COk ex_ret ex_outs [ex_rc; ex_rs] /\
  conc_result env0 SP MAXP cc_chunks_p fx_sig fx_args_prefilled ex_opts cc_q2 = COk ex_ret fx_outs_empty [ex_rc; ex_rs].
Proof.
  assert (H := concurrent_calls env0 2 fx_env0_wf ltac:(lia) SR SP eq_refl eq_refl MAXP ltac:(vm_compute; reflexivity) cc_impl
                 ex_pc ex_ps cc_iface [cc_q1; cc_q2] cc_sent cc_chunks_q cc_written cc_chunks_p
                 (Permutation.perm_swap _ _ _)).
  assert (Hnd : NoDup (map q_id [cc_q1; cc_q2])).
  { cbn. repeat constructor; cbn; intuition discriminate. }
  specialize (H Hnd).
  assert (Hs : Forall (req_sendable env0 SR MAXP) cc_sent) by (apply Forall_cons; [exact cc_q2_sendable|apply Forall_cons; [exact ex_req_sendable|apply Forall_nil]]).
  specialize (H Hs (concat_singletons _)).
  assert (Hw : Permutation.Permutation cc_written (server_conn env0 SR MAXP cc_impl (filters_of disp_res ex_ps) cc_iface cc_chunks_q)).
  { rewrite cc_served_in_reverse. apply Permutation.Permutation_sym, Permutation.Permutation_rev. }
  assert (Hr : Forall (rsp_sendable env0 SP MAXP) cc_written) by (apply Forall_cons; [exact ex_rsp_sendable|apply Forall_cons; [exact cc_r2_sendable|apply Forall_nil]]).
  specialize (H Hw Hr).
  assert (Hc : concat cc_chunks_p = concat (map (enc_rsp env0 SP) cc_written)) by (unfold cc_chunks_p; cbn [concat]; apply app_nil_r).
  specialize (H Hc). unfold cc_q1, ex_q, cc_q2. split.
  - rewrite (H ex_sig ex_args ex_opts false 41%Z [79; 98; 106] 3000%Z (or_introl eq_refl)). vm_compute. reflexivity.
  - rewrite (H fx_sig fx_args_prefilled ex_opts false 42%Z [79; 98; 106] 3000%Z (or_intror (or_introl eq_refl))). vm_compute. reflexivity.
Qed.
