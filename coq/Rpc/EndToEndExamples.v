(* C01: a concrete, non-trivial instance satisfying every hypothesis of the value-level theorems (so none of the
   implications is vacuous), on the regenerated schemas of the code: the function
     int mixed(int a, out string o1, string b, out vector<int> o2, long c, out Item o3, Item d, out map<string,string> o4, bool e)
   of harness/idl/e2e.tars, with in and out parameters interleaved, a struct, a vector and a map. *)
From Coq Require Import List NArith ZArith Bool Arith.
From TarsV Require Import Gen.Consts Base.Hex Codec.Wire Codec.Skip Codec.Prim Codec.GenCodec Codec.Corr Gen.Schemas
  Frame.Framing Rpc.Filters Rpc.FiltersProofs Rpc.EndToEnd Rpc.EndToEndProofs Rpc.EndToEndConc Frame.FramingProofs.
Import ListNotations.
Open Scope N_scope.

Definition ex_item := TStruct sid_verife2e_Item.
Definition ex_sig : fsig :=
  {| fs_name := [109; 105; 120; 101; 100]; fs_ret := Some TI32;
     fs_args := [(TI32, false); (TStr, true); (TStr, false); (TVec TI32, true); (TI64, false); (ex_item, true);
                 (ex_item, false); (TMap TStr TStr, true); (TBool, false)] |}.
Definition ex_it (id : Z) : val := VStruct [VInt id; VStr [97; 98]; VList [VInt 1; VInt (-5000000000)]; VInt 8].
Definition ex_args : list val :=
  [VInt 300; VStr []; VStr [104; 105]; VList []; VInt (-1); VStruct [VInt 0; VStr []; VList []; VInt 0];
   ex_it 5; VMap []; VBool true].
Definition ex_opts : opts := [Some [([107], [118])]; Some []].
Definition ex_ret : option val := Some (VInt (-32769)).
Definition ex_outs : list val := [VStr [111; 49]; VList [VInt 1; VInt 70000]; ex_it 9; VMap [(VStr [120], VStr [121; 122])]].
Definition ex_rc : smap := [([114], [99]); ([], [1; 2])].
Definition ex_rs : smap := [].
Definition ex_impl_ok : bytes -> list val -> smap -> smap -> impl_res := fun _ _ _ _ => IOk ex_ret ex_outs ex_rc ex_rs.
Definition ex_impl_err : bytes -> list val -> smap -> smap -> impl_res := fun _ _ _ _ => IFail 78 [111; 111; 112; 115].
Definition ex_pc : pfilters ev unit := recording (EF Client) tt {| c_legacy := false; c_mws := 2; c_pres := 1; c_posts := 1 |}.
Definition ex_ps : pfilters ev unit := recording (EF Server) tt {| c_legacy := false; c_mws := 0; c_pres := 1; c_posts := 2 |}.

Notation SR := sid_requestf_RequestPacket.
Notation SP := sid_requestf_ResponsePacket.
Notation MAXP := c_c01_MaxPackageLength.
Definition ex_q (ow : bool) := mkreq env0 ex_sig ex_args ex_opts ow 41 [79; 98; 106] 3000.

Example ex_find : find_fn [ex_sig] (fs_name ex_sig) = Some ex_sig.
Proof. vm_compute. reflexivity. Qed.
Example ex_wire_req : wire_ok_req env0 SR MAXP (ex_q false).
Proof. vm_compute. reflexivity. Qed.
Example ex_wire_req_oneway : wire_ok_req env0 SR MAXP (ex_q true).
Proof. vm_compute. reflexivity. Qed.
Example ex_args_rt : args_roundtrip env0 ex_sig ex_args.
Proof. eexists. vm_compute. reflexivity. Qed.
Example ex_results_rt : results_roundtrip env0 ex_sig ex_args (results ex_ret ex_outs).
Proof. eexists. vm_compute. reflexivity. Qed.
Example ex_wire_rsp : wire_ok_rsp env0 SP MAXP (ok_reply env0 ex_sig (ex_q false) ex_ret ex_outs ex_rc ex_rs).
Proof. vm_compute. reflexivity. Qed.
Example ex_wire_rsp_err : wire_ok_rsp env0 SP MAXP (err_reply (ex_q false) 78 [111; 111; 112; 115]).
Proof. vm_compute. reflexivity. Qed.
Example ex_maps : maps_after ex_opts ex_rc ex_rs = [ex_rc; ex_rs].
Proof. reflexivity. Qed.

(* the theorems applied to the instance ... *)
Example ex_transparent_ok :
  call env0 SR SP MAXP ex_impl_ok (filters_of inv_res ex_pc) (filters_of disp_res ex_ps) [ex_sig] ex_sig ex_args ex_opts false 41 [79; 98; 106] 3000
  = (COk ex_ret ex_outs [ex_rc; ex_rs], core_events ex_pc ex_ps ex_sig ex_args ex_opts true).
Proof.
  apply (transparent_ok env0 SR SP MAXP ex_impl_ok ex_pc ex_ps [ex_sig] ex_sig ex_args ex_opts 41 [79; 98; 106] 3000 ex_ret ex_outs ex_rc ex_rs).
  - exact ex_find. - exact ex_wire_req. - exact ex_args_rt. - reflexivity. - exact I. - exact ex_results_rt.
  - exact ex_wire_rsp.
Qed.
Example ex_transparent_err :
  call env0 SR SP MAXP ex_impl_err (filters_of inv_res ex_pc) (filters_of disp_res ex_ps) [ex_sig] ex_sig ex_args ex_opts false 41 [79; 98; 106] 3000
  = (CErr 78 [111; 111; 112; 115] false, core_events ex_pc ex_ps ex_sig ex_args ex_opts true).
Proof.
  apply (transparent_err env0 SR SP MAXP ex_impl_err ex_pc ex_ps [ex_sig] ex_sig ex_args ex_opts 41 [79; 98; 106] 3000 78 [111; 111; 112; 115]).
  - exact ex_find. - exact ex_wire_req. - exact ex_args_rt. - reflexivity. - discriminate. - exact ex_wire_rsp_err.
Qed.
(* an error with an empty message: the code arrives, the text is the framework's *)
Definition ex_impl_err0 : bytes -> list val -> smap -> smap -> impl_res := fun _ _ _ _ => IFail 78 [].
Example ex_wire_rsp_err0 : wire_ok_rsp env0 SP MAXP (err_reply (ex_q false) 78 []).
Proof. vm_compute. reflexivity. Qed.
Example ex_transparent_err_empty :
  fst (call env0 SR SP MAXP ex_impl_err0 (filters_of inv_res ex_pc) (filters_of disp_res ex_ps) [ex_sig] ex_sig ex_args ex_opts false 41 [79; 98; 106] 3000)
  = CErr 78 sys_msg true.
Proof.
  rewrite (transparent_err env0 SR SP MAXP ex_impl_err0 ex_pc ex_ps [ex_sig] ex_sig ex_args ex_opts 41 [79; 98; 106] 3000 78 []).
  - reflexivity. - exact ex_find. - exact ex_wire_req. - exact ex_args_rt. - reflexivity. - discriminate. - exact ex_wire_rsp_err0.
Qed.
(* a nil context map passed by the caller while the implementation sets a response context: no panic, the results arrive *)
Example ex_nil_context_map :
  fst (call env0 SR SP MAXP ex_impl_ok (filters_of inv_res ex_pc) (filters_of disp_res ex_ps) [ex_sig] ex_sig ex_args [None; Some []] false 41 [79; 98; 106] 3000)
  = COk ex_ret ex_outs [[]; ex_rs].
Proof. vm_compute. reflexivity. Qed.
Example ex_oneway :
  call env0 SR SP MAXP ex_impl_ok (filters_of inv_res ex_pc) (filters_of disp_res ex_ps) [ex_sig] ex_sig ex_args ex_opts true 41 [79; 98; 106] 3000
  = (CSent, core_events ex_pc ex_ps ex_sig ex_args ex_opts false).
Proof.
  apply (oneway env0 SR SP MAXP ex_impl_ok ex_pc ex_ps [ex_sig] ex_sig ex_args ex_opts 41 [79; 98; 106] 3000).
  - exact ex_find. - exact ex_wire_req_oneway. - exact ex_args_rt.
Qed.
(* ... and the same call evaluated directly: the in arguments reach the implementation, once, between the filters *)
Example ex_events :
  filter is_obs (snd (call env0 SR SP MAXP ex_impl_ok (filters_of inv_res ex_pc) (filters_of disp_res ex_ps) [ex_sig] ex_sig ex_args ex_opts false 41 [79; 98; 106] 3000))
  = [EF Client (FIn KMw 0); EF Client (FIn KMw 1); EF Server (FIn KPre 0);
     EImpl (fs_name ex_sig) [VInt 300; VStr [104; 105]; VInt (-1); ex_it 5; VBool true] [([107], [118])] [];
     EF Server (FIn KPost 0); EF Server (FIn KPost 1); EF Client (FOut KMw 1); EF Client (FOut KMw 0)].
Proof. vm_compute. reflexivity. Qed.

(* the packet-codec hypotheses of the concurrency theorem hold of the instance's packets *)
Example ex_req_codec_ok : req_codec_ok env0 SR MAXP (ex_q false).
Proof.
  split; [vm_compute; reflexivity|]. unfold valid. split; [|split].
  - vm_compute. reflexivity.
  - apply Nat.leb_le. vm_compute. reflexivity.
  - apply N.leb_le. vm_compute. reflexivity.
Qed.
Example ex_rsp_codec_ok : rsp_codec_ok env0 SP MAXP (ok_reply env0 ex_sig (ex_q false) ex_ret ex_outs ex_rc ex_rs).
Proof.
  split; [vm_compute; reflexivity|]. unfold valid. split; [|split].
  - vm_compute. reflexivity.
  - apply Nat.leb_le. vm_compute. reflexivity.
  - apply N.leb_le. vm_compute. reflexivity.
Qed.
