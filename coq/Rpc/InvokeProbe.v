(* C10: the model's Protocol.Invoke against the table Gen/C10Probe.v, which is regenerated from the tree on every run
   (harness/c10probe.go: one row per call of the real tars.Protocol.Invoke with the scripted servant, receive time
   stamped [queued] ms in the past). The comparison is the one of the run-time correspondence (c10_check): decoded
   members, then the model's encoder byte for byte; texts the framework makes up itself and the unordered TUP payload are
   not compared. Proved by evaluation: an edit of the tree that changes one of these answers breaks this file. *)
From Coq Require Import List NArith ZArith Bool.
From TarsV Require Import Base.Hex Codec.GenCodec Rpc.Invoke Gen.C10Probe.
Import ListNotations.
Open Scope N_scope.

Definition probe_run (k : N * Z * hexs * hexs) : hrun :=
  let '(kind, code, msg, payload) := k in
  {| h_res := if kind =? 0 then HDone (unhex payload) [] []
              else if kind =? 1 then HFail (TarsErr code (unhex msg))
              else if kind =? 2 then HFail (PlainErr (unhex msg))
              else HFail DispErr;
     h_dur := 0 |}.

Definition probe_row_ok (row : hexs * N * (N * Z * hexs * hexs) * hexs * bool * N) : bool :=
  let '(pkg, queued, k, rsp, counted, calls) := row in
  match parse_request (unhex pkg) with
  | None => false
  | Some r =>
      let run := probe_run k in
      let '(o, p, n, _) := invoke (fun _ => run) r queued in
      let bs := unhex rsp in
      (* what Invoke returns for a one-way request is never written anywhere: only the dispatch is compared *)
      if oneway r then (if counted then N.of_nat n else 0) =? calls else
      match decode_reply bs with
      | Some d => reply_matches o (is_disp_err run) (is_done run) p (d, bs) &&
                  (* the implementation is entered exactly when the model dispatches *)
                  ((if counted then N.of_nat n else 0) =? calls)
      | None => false
      end
  end.

Definition probe_failing : list N := failing probe_row_ok c10_probe.
Theorem invoke_probe_agrees : probe_failing = [].
Proof. vm_compute. reflexivity. Qed.
Theorem invoke_probe_nonempty : (100 <=? length c10_probe)%nat = true.
Proof. vm_compute. reflexivity. Qed.
