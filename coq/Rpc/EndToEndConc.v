(* C01 proofs, part 3: concurrent callers sharing one connection - per-call independence.
   Uses the framing theorem of C07 (any segmentation of the byte stream delivers exactly the packets sent). *)
From Coq Require Import List NArith ZArith Bool Arith Lia Permutation.
From TarsV Require Import Gen.Consts Base.Hex Codec.Wire Codec.Skip Codec.Prim Codec.GenCodec
  Frame.Framing Frame.FramingProofs Rpc.Filters Rpc.FiltersProofs Rpc.EndToEnd Rpc.EndToEndProofs.
Import ListNotations.
Open Scope N_scope.

Section Conc.
  Variable e : env.
  Variable sid_req sid_rsp : nat.
  Variable max_pkt : N.
  Variable impl : bytes -> list val -> smap -> smap -> impl_res.

  Notation enc_req := (enc_req e sid_req).
  Notation dec_req := (dec_req e sid_req).
  Notation enc_rsp := (enc_rsp e sid_rsp).
  Notation dec_rsp := (dec_rsp e sid_rsp).
  Notation srv_reply := (srv_reply e impl).

  (* the packet codec round-trips this packet and its frame fits maxPackageLength *)
  Definition req_codec_ok (q : reqpkt) : Prop := dec_req (enc_req q) = Some q /\ valid max_pkt (enc_req q).
  Definition rsp_codec_ok (p : rsppkt) : Prop := dec_rsp (enc_rsp p) = Some p /\ valid max_pkt (enc_rsp p).

  Lemma reply_id i q p : srv_reply i q = Some p -> p_id p = q_id q.
  Proof.
    unfold EndToEndProofs.srv_reply. destruct (is_oneway q); [discriminate|]. intros H. injection H as <-.
    unfold EndToEnd.dispatch. destruct (find_fn i (q_func q)); [|reflexivity].
    destruct (dec_list _ _ _ _); try reflexivity.
    destruct (impl _ _ _ _); reflexivity.
  Qed.

  Lemma flat_map_dec_req l : Forall req_codec_ok l ->
    forall (g : reqpkt -> list rsppkt),
    flat_map (fun pk => match dec_req pk with Some q => g q | None => [] end) (map enc_req l) = flat_map g l.
  Proof.
    intros H g. induction H as [|q l [Hq _] _ IH]; cbn [flat_map map]; [reflexivity|]. now rewrite Hq, IH.
  Qed.
  Lemma flat_map_dec_rsp l : Forall rsp_codec_ok l ->
    flat_map (fun pk => olist (dec_rsp pk)) (map enc_rsp l) = l.
  Proof.
    intros H. induction H as [|p l [Hp _] _ IH]; cbn [flat_map map]; [reflexivity|]. rewrite Hp, IH. reflexivity.
  Qed.

  Lemma server_conn_sent Ps i sent chunks :
    Forall req_codec_ok sent -> concat chunks = concat (map enc_req sent) ->
    server_conn e sid_req max_pkt impl (filters_of disp_res Ps) i chunks = flat_map (fun q => olist (srv_reply i q)) sent.
  Proof.
    intros Hok Hc. unfold server_conn.
    rewrite (C07_reassembly max_pkt (map enc_req sent) chunks).
    - cbn [fst]. rewrite (flat_map_dec_req sent Hok). apply flat_map_ext. intros q.
      now rewrite server_handle_pass.
    - apply Forall_map. eapply Forall_impl; [|exact Hok]. intros q [_ H]. exact H.
    - exact Hc.
  Qed.

  Lemma client_conn_written written chunks id :
    Forall rsp_codec_ok written -> concat chunks = concat (map enc_rsp written) ->
    client_conn e sid_rsp max_pkt chunks id = find (fun p => (p_id p =? id)%Z) written.
  Proof.
    intros Hok Hc. unfold client_conn.
    rewrite (C07_reassembly max_pkt (map enc_rsp written) chunks).
    - cbn [fst]. now rewrite flat_map_dec_rsp.
    - apply Forall_map. eapply Forall_impl; [|exact Hok]. intros p [_ H]. exact H.
    - exact Hc.
  Qed.

  (* find in a list whose keys are pairwise distinct depends only on membership *)
  Lemma find_unique {A} (key : A -> Z) (l : list A) (id : Z) :
    NoDup (map key l) ->
    forall a, In a l -> key a = id -> find (fun x => (key x =? id)%Z) l = Some a.
  Proof.
    induction l as [|x l IH]; intros Hnd a Hin Hk; [contradiction|].
    cbn in Hnd. inversion Hnd as [|? ? Hx Hnd']; subst. cbn.
    destruct Hin as [->|Hin].
    - now rewrite Z.eqb_refl.
    - destruct (key x =? key a)%Z eqn:E.
      + apply Z.eqb_eq in E. exfalso. apply Hx. rewrite E. now apply in_map.
      + now apply IH.
  Qed.
  Lemma find_none {A} (key : A -> Z) (l : list A) (id : Z) :
    (forall a, In a l -> key a <> id) -> find (fun x => (key x =? id)%Z) l = None.
  Proof.
    induction l as [|x l IH]; intros H; [reflexivity|]. cbn.
    destruct (key x =? id)%Z eqn:E.
    - apply Z.eqb_eq in E. exfalso. apply (H x); [now left|exact E].
    - apply IH. intros a Ha. apply H. now right.
  Qed.

  Lemma replies_ids i (l : list reqpkt) :
    forall p, In p (flat_map (fun q => olist (srv_reply i q)) l) -> exists q, In q l /\ srv_reply i q = Some p.
  Proof.
    intros p Hin. apply in_flat_map in Hin. destruct Hin as [q [Hq Hp]].
    exists q. split; [exact Hq|]. destruct (srv_reply i q) as [p'|]; cbn in Hp; [|contradiction].
    destruct Hp as [->|[]]. reflexivity.
  Qed.

  Lemma replies_nodup i (l : list reqpkt) : NoDup (map q_id l) ->
    NoDup (map p_id (flat_map (fun q => olist (srv_reply i q)) l)).
  Proof.
    induction l as [|q l IH]; intros Hnd; cbn; [constructor|].
    cbn in Hnd. inversion Hnd as [|? ? Hq Hnd']; subst.
    destruct (srv_reply i q) as [p|] eqn:Hr; cbn; [|now apply IH].
    constructor; [|now apply IH].
    intros Hin. apply in_map_iff in Hin. destruct Hin as [p' [Hid Hin]].
    apply replies_ids in Hin. destruct Hin as [q' [Hq' Hr']].
    apply Hq. apply reply_id in Hr. apply reply_id in Hr'. rewrite <- Hr, <- Hid, Hr'. now apply in_map.
  Qed.

  Theorem concurrent (Ps : pfilters ev unit) i (qs sent : list reqpkt) (chunks_q : list bytes)
          (written : list rsppkt) (chunks_p : list bytes) :
    Permutation sent qs -> NoDup (map q_id qs) ->
    Forall req_codec_ok sent ->
    concat chunks_q = concat (map enc_req sent) ->
    Permutation written (server_conn e sid_req max_pkt impl (filters_of disp_res Ps) i chunks_q) ->
    Forall rsp_codec_ok written ->
    concat chunks_p = concat (map enc_rsp written) ->
    forall q, In q qs -> client_conn e sid_rsp max_pkt chunks_p (q_id q) = srv_reply i q.
  Proof.
    intros Hperm Hnd Hok Hcq Hw Hokw Hcp q Hq.
    rewrite (client_conn_written written chunks_p (q_id q) Hokw Hcp).
    rewrite (server_conn_sent Ps i sent chunks_q Hok Hcq) in Hw.
    set (L := flat_map (fun q => olist (srv_reply i q)) sent) in *.
    assert (Hnds : NoDup (map q_id sent)).
    { eapply Permutation_NoDup; [apply Permutation_map, Permutation_sym, Hperm | exact Hnd]. }
    assert (HndL : NoDup (map p_id L)) by (apply replies_nodup; exact Hnds).
    assert (HndW : NoDup (map p_id written)).
    { eapply Permutation_NoDup; [apply Permutation_map, Permutation_sym, Hw | exact HndL]. }
    assert (Hqs : In q sent) by (eapply Permutation_in; [apply Permutation_sym, Hperm | exact Hq]).
    destruct (srv_reply i q) as [p|] eqn:Hr.
    - apply (find_unique p_id written (q_id q) HndW p).
      + eapply Permutation_in; [apply Permutation_sym, Hw|]. unfold L. apply in_flat_map. exists q. split; [exact Hqs|].
        rewrite Hr. now left.
      + now apply reply_id in Hr.
    - apply find_none. intros p Hp Hid.
      assert (HpL : In p L) by (eapply Permutation_in; [exact Hw | exact Hp]).
      apply replies_ids in HpL. destruct HpL as [q' [Hq' Hr']].
      pose proof (reply_id _ _ _ Hr') as Hid'. rewrite Hid in Hid'.
      (* q and q' have the same id, hence are the same element of sent *)
      assert (q' = q).
      { clear - Hnds Hqs Hq' Hid'. induction sent as [|x l IH]; [contradiction|].
        cbn in Hnds. inversion Hnds as [|? ? Hx Hn]; subst.
        destruct Hqs as [->|Hqs], Hq' as [->|Hq']; try reflexivity.
        - exfalso. apply Hx. rewrite Hid'. now apply in_map.
        - exfalso. apply Hx. rewrite <- Hid'. now apply in_map.
        - now apply IH. }
      subst q'. rewrite Hr in Hr'. discriminate.
  Qed.
End Conc.
