(* C01 proofs, part 5: what the generated encoder writes for a typed value is a well-formed wire field (Codec/Skip.v
   wire trees), of nesting depth at most the value's. Consequence (used in Rpc/EndToEndFull.v): the dispatcher's
   decoder passes over the encoded out arguments that sit between the in arguments, by C04's skip_exact. *)
From Coq Require Import List NArith ZArith Bool Arith Lia.
From Coq Require Import ZifyN ZifyNat ZifyBool.
From TarsV Require Import Gen.Consts Base.Hex Codec.Wire Codec.WireProofs Codec.Skip Codec.SkipProofs Codec.Prim Codec.PrimProofs
  Codec.GenCodec Codec.Corr Codec.RoundTrip Codec.RoundTripProofs.
Import ListNotations.
Open Scope N_scope.

(* ---------- nesting depth and admissible sizes of a value ---------- *)
Fixpoint vdepth (v : val) : N :=
  match v with
  | VList xs => 1 + (fix mx l := match l with [] => 0 | y :: r => N.max (vdepth y) (mx r) end) xs
  | VMap kvs => 1 + (fix mx l := match l with [] => 0 | (k, x) :: r => N.max (N.max (vdepth k) (vdepth x)) (mx r) end) kvs
  | VStruct vs => 1 + (fix mx l := match l with [] => 0 | y :: r => N.max (vdepth y) (mx r) end) vs
  | _ => 0
  end.
Fixpoint vdepth_list (l : list val) : N := match l with [] => 0 | y :: r => N.max (vdepth y) (vdepth_list r) end.
Fixpoint vdepth_entries (l : list (val * val)) : N :=
  match l with [] => 0 | (k, x) :: r => N.max (N.max (vdepth k) (vdepth x)) (vdepth_entries r) end.
Lemma vdepth_list_go l : (fix mx l := match l with [] => 0 | y :: r => N.max (vdepth y) (mx r) end) l = vdepth_list l.
Proof. induction l as [|y r IH]; cbn [vdepth_list]; [reflexivity|now rewrite IH]. Qed.
Lemma vdepth_entries_go l :
  (fix mx l := match l with [] => 0 | (k, x) :: r => N.max (N.max (vdepth k) (vdepth x)) (mx r) end) l = vdepth_entries l.
Proof. induction l as [|[k x] r IH]; cbn [vdepth_entries]; [reflexivity|now rewrite IH]. Qed.
Lemma vdepth_VList xs : vdepth (VList xs) = 1 + vdepth_list xs.
Proof. cbn [vdepth]. now rewrite vdepth_list_go. Qed.
Lemma vdepth_VMap kvs : vdepth (VMap kvs) = 1 + vdepth_entries kvs.
Proof. cbn [vdepth]. now rewrite vdepth_entries_go. Qed.
Lemma vdepth_VStruct vs : vdepth (VStruct vs) = 1 + vdepth_list vs.
Proof. cbn [vdepth]. now rewrite vdepth_list_go. Qed.

(* sizes the skipping reader handles: strings below 2^31 bytes, containers below 2^30 elements *)
Fixpoint small (v : val) : Prop :=
  match v with
  | VStr s => N.of_nat (length s) < 2147483648
  | VList xs => N.of_nat (length xs) < 1073741824 /\ (fix all l := match l with [] => True | y :: r => small y /\ all r end) xs
  | VMap kvs => N.of_nat (length kvs) < 1073741824 /\
                (fix all l := match l with [] => True | (k, x) :: r => small k /\ small x /\ all r end) kvs
  | VStruct vs => (fix all l := match l with [] => True | y :: r => small y /\ all r end) vs
  | _ => True
  end.
Lemma small_list_go l : (fix all l := match l with [] => True | y :: r => small y /\ all r end) l <-> Forall small l.
Proof. induction l as [|y r IH]; [split; [constructor|trivial]|]. rewrite IH. split; [intros [A B]; now constructor|intros H; inversion H; tauto]. Qed.
Lemma small_entries_go l :
  (fix all l := match l with [] => True | (k, x) :: r => small k /\ small x /\ all r end) l <-> Forall (fun p => small (fst p) /\ small (snd p)) l.
Proof.
  induction l as [|[k x] r IH]; [split; [constructor|trivial]|]. rewrite IH. cbn [fst snd].
  split; [intros (A & B & C); now constructor|intros H; inversion H; cbn [fst snd] in *; tauto].
Qed.

(* ---------- scalars ---------- *)
Definition wire_int8 (v : Z) : wf := if (v =? 0)%Z then WZero else WByte (wrapu 8 v).
Definition wire_int16 (v : Z) : wf := if ((-128 <=? v) && (v <=? 127))%Z then wire_int8 v else WShort (wrapu 16 v).
Definition wire_int32 (v : Z) : wf := if ((-32768 <=? v) && (v <=? 32767))%Z then wire_int16 v else WInt (wrapu 32 v).
Definition wire_int64 (v : Z) : wf := if ((-2147483648 <=? v) && (v <=? 2147483647))%Z then wire_int32 v else WLong (wrapu 64 v).

Lemma w_int8_wire v tag : w_int8 v tag = ser_field (tag, wire_int8 v).
Proof. unfold w_int8, wire_int8, ser_field. destruct (v =? 0)%Z; cbn [fst snd ty_of ser_body]; [now rewrite app_nil_r|reflexivity]. Qed.
Lemma w_int16_wire v tag : w_int16 v tag = ser_field (tag, wire_int16 v).
Proof. unfold w_int16, wire_int16. destruct (_ && _)%bool; [apply w_int8_wire|reflexivity]. Qed.
Lemma w_int32_wire v tag : w_int32 v tag = ser_field (tag, wire_int32 v).
Proof. unfold w_int32, wire_int32. destruct (_ && _)%bool; [apply w_int16_wire|reflexivity]. Qed.
Lemma w_int64_wire v tag : w_int64 v tag = ser_field (tag, wire_int64 v).
Proof. unfold w_int64, wire_int64. destruct (_ && _)%bool; [apply w_int32_wire|reflexivity]. Qed.

Lemma wire_int8_ok v : wf_ok (wire_int8 v) /\ wdepth (wire_int8 v) = 0.
Proof. unfold wire_int8. destruct (v =? 0)%Z; cbn [wf_ok wdepth]; split; trivial. apply (wrapu_lt 8). lia. Qed.
Lemma wire_int16_ok v : wf_ok (wire_int16 v) /\ wdepth (wire_int16 v) = 0.
Proof. unfold wire_int16. destruct (_ && _)%bool; [apply wire_int8_ok|]. cbn [wf_ok wdepth]. split; trivial. apply (wrapu_lt 16). lia. Qed.
Lemma wire_int32_ok v : wf_ok (wire_int32 v) /\ wdepth (wire_int32 v) = 0.
Proof. unfold wire_int32. destruct (_ && _)%bool; [apply wire_int16_ok|]. cbn [wf_ok wdepth]. split; trivial. apply (wrapu_lt 32). lia. Qed.
Lemma wire_int64_ok v : wf_ok (wire_int64 v) /\ wdepth (wire_int64 v) = 0.
Proof. unfold wire_int64. destruct (_ && _)%bool; [apply wire_int32_ok|]. cbn [wf_ok wdepth]. split; trivial. apply (wrapu_lt 64). lia. Qed.

Definition wire_scalar (t : ty) (v : val) : wf :=
  match t, v with
  | TBool, VBool b => wire_int8 (if b then 1 else 0)%Z
  | TI8, VInt z => wire_int8 z | TU8, VInt z => wire_int16 z
  | TI16, VInt z => wire_int16 z | TU16, VInt z => wire_int32 z
  | TI32, VInt z => wire_int32 z | TU32, VInt z => wire_int64 z
  | TI64, VInt z => wire_int64 z | TEnum, VInt z => wire_int32 z
  | TF32, VFlt b => WFloat b | TF64, VFlt b => WDouble b
  | TStr, VStr s => if 255 <? N.of_nat (length s) then WStr4 s else WStr1 s
  | _, _ => WZero
  end.

Lemma w_scalar_wire t v tag : scalar_ty t = true -> sc_typed t v -> small v ->
  w_scalar t v tag = ser_field (tag, wire_scalar t v) /\ wf_ok (wire_scalar t v) /\ wdepth (wire_scalar t v) = 0.
Proof.
  intros Hs Hty Hsm. destruct t; try discriminate; destruct v; cbn [sc_typed] in Hty; try contradiction;
    cbn [w_scalar wire_scalar].
  - split; [apply w_int8_wire|apply wire_int8_ok].
  - split; [apply w_int8_wire|apply wire_int8_ok].
  - split; [apply w_int16_wire|apply wire_int16_ok].
  - split; [apply w_int16_wire|apply wire_int16_ok].
  - split; [apply w_int32_wire|apply wire_int32_ok].
  - split; [apply w_int32_wire|apply wire_int32_ok].
  - split; [apply w_int64_wire|apply wire_int64_ok].
  - split; [apply w_int64_wire|apply wire_int64_ok].
  - cbn [wf_ok wdepth]. repeat split. exact Hty.
  - cbn [wf_ok wdepth]. repeat split. exact Hty.
  - cbn [small] in Hsm. unfold w_string. destruct (255 <? N.of_nat (length s)) eqn:E; cbn [wf_ok wdepth]; repeat split.
    + unfold ser_field. cbn [fst snd ty_of ser_body]. rewrite N.mod_small by lia. reflexivity.
    + exact Hsm.
    + lia.
  - split; [apply w_int32_wire|apply wire_int32_ok].
Qed.

(* ---------- every typed value: by induction on the recursion depth [need] ---------- *)
Lemma need_list_Forall xs : Forall (fun y => (need y < need_list xs)%nat) xs.
Proof.
  induction xs as [|y r IH]; [constructor|]. cbn [need_list]. constructor; [lia|].
  eapply Forall_impl; [|exact IH]. intros z Hz. cbv beta in Hz. lia.
Qed.
Lemma need_entries_Forall kvs : Forall (fun p => (need (fst p) < need_entries kvs)%nat /\ (need (snd p) < need_entries kvs)%nat) kvs.
Proof.
  induction kvs as [|[k x] r IH]; [constructor|]. cbn [need_entries]. constructor; [cbn [fst snd]; lia|].
  eapply Forall_impl; [|exact IH]. intros z Hz. cbv beta in Hz. lia.
Qed.

Lemma elems_premise (P : val -> Prop) xs m : (need_list xs <= S m)%nat -> Forall P xs -> Forall small xs ->
  Forall (fun y => (need y <= m)%nat /\ P y /\ small y) xs.
Proof.
  intros Hn HP Hs. pose proof (need_list_Forall xs) as Hnl. rewrite Forall_forall in *. intros y Hy.
  specialize (HP y Hy). specialize (Hs y Hy). specialize (Hnl y Hy). cbv beta in Hnl. repeat split; try assumption. lia.
Qed.
Lemma entries_premise (P Q : val -> Prop) kvs m : (need_entries kvs <= S m)%nat ->
  Forall (fun p => P (fst p) /\ Q (snd p)) kvs -> Forall (fun p => small (fst p) /\ small (snd p)) kvs ->
  Forall (fun p => ((need (fst p) <= m)%nat /\ P (fst p) /\ small (fst p)) /\
                   ((need (snd p) <= m)%nat /\ Q (snd p) /\ small (snd p))) kvs.
Proof.
  intros Hn HP Hs. pose proof (need_entries_Forall kvs) as Hnl. rewrite Forall_forall in *. intros y Hy.
  specialize (HP y Hy). specialize (Hs y Hy). specialize (Hnl y Hy). cbv beta in Hnl. destruct HP, Hs, Hnl. repeat split; try assumption; lia.
Qed.
Lemma members_premise (R : field -> val -> Prop) : forall fds vs m, (need_list vs <= S m)%nat -> Forall2 R fds vs -> Forall small vs ->
  Forall2 (fun fd y => (need y <= m)%nat /\ R fd y /\ small y) fds vs.
Proof.
  intros fds vs m Hn H. revert Hn. induction H as [|fd y fds vs Hy _ IH]; intros Hn Hs; [constructor|].
  inversion Hs; subst. cbn [need_list] in Hn. constructor; [repeat split; try assumption; lia|]. apply IH; [lia|assumption].
Qed.

Section VW.
  Variable e : env.
  Hypothesis Htags : forall sid fd, In fd (fields_of e sid) -> ftag fd < 256.

  Definition as_field (tag : N) (bs : list N) (dmax : N) : Prop :=
    exists w, bs = ser_field (tag, w) /\ wf_ok w /\ wdepth w <= dmax.

  Definition PV (n : nat) : Prop := forall v t tag req d, (need v <= n)%nat -> has_type e t v -> tag < 256 -> small v ->
    (req = false /\ enc_var e tag req t d v = []) \/ as_field tag (enc_var e tag req t d v) (vdepth v).

  Lemma mxd_cons t w fs : mxd ((t, w) :: fs) = N.max (wdepth w) (mxd fs).
  Proof. reflexivity. Qed.

  Lemma elems_fields n x : PV n -> forall xs, Forall (fun y => (need y <= n)%nat /\ has_type e x y /\ small y) xs ->
    exists fs, enc_elems e x xs = ser_fields fs /\ length fs = length xs /\ fields_ok fs /\ mxd fs <= vdepth_list xs.
  Proof.
    intros HP xs H. induction H as [|y r (Hn & Hty & Hsm) _ (fs & E & L & Ok & D)].
    - exists []. repeat split; try reflexivity. constructor.
    - destruct (HP y x 0 true None Hn Hty ltac:(lia) Hsm) as [[Hf _]|(w & Ew & Okw & Dw)]; [discriminate|].
      exists ((0, w) :: fs). cbn [enc_elems]. rewrite Ew, E. repeat split.
      + cbn [length]. now rewrite L.
      + constructor; [split; [cbn [fst]; lia|exact Okw]|exact Ok].
      + rewrite mxd_cons. cbn [vdepth_list]. lia.
  Qed.

  Definition pairs_ok (ps : list ((N * wf) * (N * wf))) : Prop :=
    (fix all l := match l with [] => True
       | ((tk, k), (tv, v)) :: r => tk < 256 /\ tv < 256 /\ wf_ok k /\ wf_ok v /\ all r end) ps.

  Lemma entries_fields n kt vt : PV n -> forall kvs,
    Forall (fun p => ((need (fst p) <= n)%nat /\ has_type e kt (fst p) /\ small (fst p)) /\
                     ((need (snd p) <= n)%nat /\ has_type e vt (snd p) /\ small (snd p))) kvs ->
    exists ps, enc_entries e kt vt kvs = ser_fields (flat ps) /\ length ps = length kvs /\ pairs_ok ps /\
               mxd (flat ps) <= vdepth_entries kvs.
  Proof.
    intros HP kvs H. induction H as [|[k x] r [(Hn1 & Ht1 & Hs1) (Hn2 & Ht2 & Hs2)] _ (ps & E & L & Ok & D)]; cbn [fst snd] in *.
    - exists []. repeat split; reflexivity.
    - destruct (HP k kt 0 true None Hn1 Ht1 ltac:(lia) Hs1) as [[Hf _]|(wk & Ek & Okk & Dk)]; [discriminate|].
      destruct (HP x vt 1 true None Hn2 Ht2 ltac:(lia) Hs2) as [[Hf _]|(wx & Ex & Okx & Dx)]; [discriminate|].
      exists (((0, wk), (1, wx)) :: ps). cbn [enc_entries]. rewrite Ek, Ex, E. split; [|split; [|split]].
      + change (flat (((0, wk), (1, wx)) :: ps)) with ((0, wk) :: (1, wx) :: flat ps). cbn [ser_fields]. rewrite <- ?app_assoc. reflexivity.
      + cbn [length]. now rewrite L.
      + cbn [pairs_ok]. repeat split; try lia; assumption.
      + change (flat (((0, wk), (1, wx)) :: ps)) with ((0, wk) :: (1, wx) :: flat ps). rewrite !mxd_cons. cbn [vdepth_entries]. lia.
  Qed.

  Lemma members_fields n : PV n -> forall fds vs,
    Forall2 (fun fd y => (need y <= n)%nat /\ has_type e (fty fd) y /\ small y) fds vs ->
    Forall (fun fd => ftag fd < 256) fds ->
    exists fs, RoundTrip.enc_fields e vs fds = ser_fields fs /\ fields_ok fs /\ mxd fs <= vdepth_list vs.
  Proof.
    intros HP fds vs H. induction H as [|fd y fds vs (Hn & Hty & Hsm) _ IH]; intros Ht.
    - exists []. repeat split; try reflexivity. constructor.
    - inversion Ht as [|? ? Htag Ht']; subst. destruct (IH Ht') as (fs & E & Ok & D).
      cbn [RoundTrip.enc_fields vdepth_list].
      destruct (HP y (fty fd) (ftag fd) (freq fd) (fdef fd) Hn Hty Htag Hsm) as [[_ Ee]|(w & Ew & Okw & Dw)].
      + exists fs. rewrite Ee, E. repeat split; [exact Ok|lia].
      + exists ((ftag fd, w) :: fs). rewrite Ew, E. repeat split.
        * constructor; [split; [exact Htag|exact Okw]|exact Ok].
        * rewrite mxd_cons. lia.
  Qed.

  Lemma len_count m : m < 2147483648 -> w_int32 (Z.of_nat (N.to_nat m)) 0 = w_len m.
  Proof. intros H. rewrite <- (w_int32_len m H). f_equal. lia. Qed.
  Lemma len_count_nat (l : nat) : N.of_nat l < 2147483648 -> w_int32 (Z.of_nat l) 0 = w_len (N.of_nat l).
  Proof. intros H. rewrite <- (w_int32_len _ H). f_equal. lia. Qed.

  Theorem value_is_field : forall n, PV n.
  Proof.
    induction n as [|n IH]; intros v t tag req d Hn Hty Htag Hsm; [pose proof (need_ge v); lia|].
    inversion Hty as [t' v' Hsc Hst | s Hl | x xs Hx Hl Hall | len x xs Hlen Hpos Hl Hall | kt vt kvs Hl Hall | sid vs Hall]; subst.
    - (* scalar *)
      rewrite enc_var_scalar by assumption. destruct (omit t req d v) eqn:Eo.
      + left. split; [|reflexivity]. destruct req; [|reflexivity]. unfold omit in Eo. destruct t; discriminate.
      + right. destruct (w_scalar_wire t v tag Hsc Hst Hsm) as (E & Ok & D). exists (wire_scalar t v). repeat split; [exact E|exact Ok|lia].
    - (* vector<byte> *)
      cbn [enc_var]. destruct (negb req && match s with [] => true | _ :: _ => false end) eqn:Eo.
      + left. split; [|reflexivity]. destruct req; [discriminate|reflexivity].
      + right. exists (WSimple s). split; [|split].
        * unfold ser_field. cbn [fst snd ty_of ser_body]. rewrite len_count_nat by exact Hl. rewrite <- ?app_assoc; reflexivity.
        * cbn [wf_ok]. exact Hl.
        * cbn [wdepth vdepth]. lia.
    - (* vector *)
      rewrite enc_var_list. destruct (negb req && match xs with [] => true | _ :: _ => false end) eqn:Eo.
      + left. split; [|reflexivity]. destruct req; [discriminate|reflexivity].
      + right. cbn [small] in Hsm. destruct Hsm as [Hlen Hsm]. apply small_list_go in Hsm. rewrite need_VList in Hn.
        destruct (elems_fields n x IH xs) as (fs & E & L & Ok & D).
        { apply elems_premise; [lia|assumption|assumption]. }
        exists (WList fs). split; [|split].
        * unfold ser_field. cbn [fst snd ty_of ser_body]. rewrite ser_list_go, L, len_count_nat by lia. rewrite E, <- ?app_assoc; reflexivity.
        * cbn [wf_ok]. split; [rewrite L; exact Hlen|]. apply wf_ok_fields. exact Ok.
        * cbn [wdepth]. fold (mxd fs). rewrite vdepth_VList. lia.
    - (* array *)
      rewrite enc_var_arr. destruct (negb req && match xs with [] => true | _ :: _ => false end) eqn:Eo.
      + left. split; [|reflexivity]. destruct req; [discriminate|reflexivity].
      + right. cbn [small] in Hsm. destruct Hsm as [Hlen' Hsm]. apply small_list_go in Hsm. rewrite need_VList in Hn.
        destruct (elems_fields n x IH xs) as (fs & E & L & Ok & D).
        { apply elems_premise; [lia|assumption|assumption]. }
        exists (WList fs). split; [|split].
        * unfold ser_field. cbn [fst snd ty_of ser_body]. rewrite ser_list_go, L, len_count_nat by lia. rewrite E, <- ?app_assoc; reflexivity.
        * cbn [wf_ok]. split; [rewrite L; exact Hlen'|]. apply wf_ok_fields. exact Ok.
        * cbn [wdepth]. fold (mxd fs). rewrite vdepth_VList. lia.
    - (* map *)
      rewrite enc_var_map. destruct (negb req && match kvs with [] => true | _ :: _ => false end) eqn:Eo.
      + left. split; [|reflexivity]. destruct req; [discriminate|reflexivity].
      + right. cbn [small] in Hsm. destruct Hsm as [Hlen Hsm]. apply small_entries_go in Hsm. rewrite need_VMap in Hn.
        destruct (entries_fields n kt vt IH kvs) as (ps & E & L & Ok & D).
        { apply entries_premise; [lia|assumption|assumption]. }
        exists (WMap ps). split; [|split].
        * unfold ser_field. cbn [fst snd ty_of ser_body]. rewrite ser_map_go, L, len_count_nat by lia. rewrite E, <- ?app_assoc; reflexivity.
        * cbn [wf_ok]. split; [rewrite L; exact Hlen|exact Ok].
        * cbn [wdepth]. rewrite mxd_flat, vdepth_VMap. lia.
    - (* struct *)
      right. rewrite enc_var_struct. cbn [small] in Hsm. apply small_list_go in Hsm. rewrite need_VStruct in Hn.
      destruct (members_fields n IH (fields_of e sid) vs) as (fs & E & Ok & D).
      { apply (members_premise (fun fd y => has_type e (fty fd) y)); [lia|assumption|assumption]. }
      { apply Forall_forall. intros fd Hin. now apply (Htags sid). }
      exists (WStruct fs). split; [|split].
      * unfold ser_field. cbn [fst snd ty_of ser_body]. rewrite ser_list_go. rewrite E, <- ?app_assoc; reflexivity.
      * cbn [wf_ok]. apply wf_ok_fields. exact Ok.
      * cbn [wdepth]. fold (mxd fs). rewrite vdepth_VStruct. lia.
  Qed.
End VW.

(* ---------- the nesting depth of a value of a finite (non-recursive) type is bounded by the type ---------- *)
Lemma vdepth_list_le B xs : Forall (fun y => vdepth y <= B) xs -> vdepth_list xs <= B.
Proof. induction 1 as [|y r Hy _ IH]; cbn [vdepth_list]; lia. Qed.
Lemma tmax_ge g fds fd : In fd fds -> (g (fty fd) <= tmax g fds)%nat.
Proof.
  induction fds as [|x r IH]; intros H; [contradiction|]. cbn [tmax fold_right]. fold (tmax g r).
  destruct H as [->|H]; [lia|]. specialize (IH H). lia.
Qed.

Theorem vdepth_bound e : forall n t v, tfin n e t = true -> has_type e t v -> vdepth v <= N.of_nat (tneed n e t).
Proof.
  induction n as [|n IH]; intros t v Hfin Hty; [discriminate|].
  inversion Hty as [t' v' Hsc Hst | s Hl | x xs Hx Hl Hall | len x xs Hlen Hpos Hl Hall | kt vt kvs Hl Hall | sid vs Hall]; subst;
    cbn [tfin] in Hfin.
  - destruct t; try discriminate; destruct v; cbn [sc_typed] in Hst; try contradiction; cbn [vdepth]; lia.
  - cbn [vdepth]. lia.
  - rewrite vdepth_VList. cbn [tneed].
    assert (vdepth_list xs <= N.of_nat (tneed n e x)).
    { apply vdepth_list_le. eapply Forall_impl; [|exact Hall]. intros y Hy. now apply IH. }
    lia.
  - rewrite vdepth_VList. cbn [tneed].
    assert (vdepth_list xs <= N.of_nat (tneed n e x)).
    { apply vdepth_list_le. eapply Forall_impl; [|exact Hall]. intros y Hy. now apply IH. }
    lia.
  - rewrite vdepth_VMap. cbn [tneed]. apply andb_true_iff in Hfin. destruct Hfin as [Hf1 Hf2].
    assert (vdepth_entries kvs <= N.of_nat (Nat.max (tneed n e kt) (tneed n e vt))).
    { clear - IH Hall Hf1 Hf2. induction Hall as [|[a b] r [Ha Hb] _ IHr]; cbn [vdepth_entries fst snd] in *; [lia|].
      pose proof (IH kt a Hf1 Ha). pose proof (IH vt b Hf2 Hb). lia. }
    lia.
  - rewrite vdepth_VStruct. cbn [tneed]. rewrite forallb_forall in Hfin. clear Hty.
    set (fds := fields_of e sid) in *. clearbody fds.
    assert (vdepth_list vs <= N.of_nat (tmax (tneed n e) fds)).
    { assert (Hin : forall fd, In fd fds -> (tneed n e (fty fd) <= tmax (tneed n e) fds)%nat) by (intros; now apply tmax_ge).
      revert Hin. generalize (tmax (tneed n e) fds). intros B Hin.
      induction Hall as [|fd y fds vs Hy _ IHr]; cbn [vdepth_list]; [lia|].
      pose proof (IH (fty fd) y (Hfin fd (or_introl eq_refl)) Hy). pose proof (Hin fd (or_introl eq_refl)).
      assert (vdepth_list vs <= N.of_nat B). { apply IHr; intros; [apply Hfin|apply Hin]; now right. }
      lia. }
    lia.
Qed.
