(* C16: the generator's per-type tables regenerated from the tree (Gen/C16Tables.v, through the verif hook
   gencode.VerifGenType / VerifTypeDef and utils.UpperFirstLetter) are what Idl/Schema.v assumes: the Go type of every
   scalar IDL type is the one [ty_of] maps it to (the names are those the driver's reflection maps back: int32 <-> TI32
   ...), the text an optional member without a default is compared with is the zero [scalar_is_default] uses, user type
   names and enum constants are capitalised as [upper_first] does.  An edit of genType / typeDef / UpperFirstLetter
   that changes one of these breaks L1. *)
From Coq Require Import String.
From Coq Require Import List NArith ZArith Bool.
From TarsV Require Import Gen.C16Tables Base.Hex Idl.Lexer Idl.Parser Idl.Schema Idl.TablesProofs Codec.GenCodec.
Import ListNotations.
Open Scope N_scope.

Definition ty_go_name (t : ty) : bytes :=
  match t with
  | TBool => bs "bool" | TI8 => bs "int8" | TU8 => bs "uint8" | TI16 => bs "int16" | TU16 => bs "uint16"
  | TI32 => bs "int32" | TU32 => bs "uint32" | TI64 => bs "int64" | TF32 => bs "float32" | TF64 => bs "float64"
  | TStr => bs "string" | _ => []
  end.
(* what "the member holds its zero value" is compared with when no default is declared *)
Definition zero_text (t : ty) : bytes := match t with TBool => bs "false" | TStr => [34; 34] | _ => bs "0" end.

Fixpoint lookup_gt (c : N) (u : bool) (l : list (N * bool * list N * bool)) : option (list N * bool) :=
  match l with
  | [] => None
  | (c', u', s, ok) :: r => if (c =? c') && Bool.eqb u u' then Some (s, ok) else lookup_gt c u r
  end.
Fixpoint lookup_td (c : N) (l : list (N * list N * bool)) : option (list N * bool) :=
  match l with
  | [] => None
  | (c', s, ok) :: r => if c =? c' then Some (s, ok) else lookup_td c r
  end.

Theorem gentype_scalars : forall m b u t, ty_of m (VBase b u) = Some t ->
  lookup_gt (bty_code b) u c16_gentype = Some (ty_go_name t, true).
Proof.
  intros m b u t H. destruct b, u; cbn [ty_of] in H; inversion H; subst; vm_compute; reflexivity.
Qed.

Theorem gentype_containers :
  lookup_gt (bty_code BVector) false c16_gentype = Some (bs "[]int32", true) /\
  lookup_gt (bty_code BMap) false c16_gentype = Some (bs "map[int32]string", true) /\
  lookup_gt (bty_code BArray) false c16_gentype = Some (bs "[3]int32", true).
Proof. repeat split; vm_compute; reflexivity. Qed.

Theorem typedef_scalars : forall m b t, ty_of m (VBase b false) = Some t ->
  lookup_td (bty_code b) c16_typedef = Some (zero_text t, true).
Proof.
  intros m b t H. destruct b; cbn [ty_of] in H; inversion H; subst; vm_compute; reflexivity.
Qed.

(* user type names: "::" becomes ".", the last component is capitalised *)
Fixpoint before_cc (l : bytes) : bytes :=
  match l with
  | [] => []
  | a :: r => match r with
              | [] => [a]
              | b :: _ => if (a =? 58) && (b =? 58) then [] else a :: before_cc r
              end
  end.
Definition go_user_name (s : bytes) : bytes :=
  if (count_cc s =? 0)%nat then upper_first s else before_cc s ++ [46] ++ upper_first (after_cc s).
Theorem gentype_names : map (fun p => go_user_name (fst p)) c16_gentype_names = map snd c16_gentype_names.
Proof. vm_compute. reflexivity. Qed.

Definition ascii : list N := map N.of_nat (seq 0 128).
Theorem upper_first_regenerated :
  map (fun b => upper_first [b]) ascii = c16_upper_first_1 /\ map (fun b => upper_first [b; 120]) ascii = c16_upper_first_2 /\
  upper_first [] = c16_upper_first_empty.
Proof. repeat split; vm_compute; reflexivity. Qed.
