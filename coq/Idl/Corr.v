(* C16 correspondence: canonical serialisation of the analysed AST (mirrored by harness/c16.go on
   ast.TarsFile) and the per-case check evaluated by the driver. *)
From Coq Require Import String.
From Coq Require Import List NArith ZArith Bool.
From TarsV Require Import Base.Hex Idl.Lexer Idl.Parser Idl.Include.
Import ListNotations.
Open Scope N_scope.

Fixpoint dec_aux (fuel : nat) (n : N) (acc : bytes) : bytes :=
  match fuel with
  | O => acc
  | S f => let acc' := (48 + n mod 10) :: acc in
           if n / 10 =? 0 then acc' else dec_aux f (n / 10) acc'
  end.
Definition dec (n : N) : bytes := dec_aux 400 n [].
Definition ser_Z (z : Z) : bytes :=
  (match z with Zneg p => 45 :: dec (Npos p) | _ => dec (Z.to_N z) end) ++ [59].
Definition ser_str (s : bytes) : bytes := dec (N.of_nat (length s)) ++ [58] ++ s.
Definition ser_bool (b : bool) : bytes := if b then [84] else [70].
Definition ser_list {A} (f : A -> bytes) (l : list A) : bytes := [91] ++ concat (map f l) ++ [93].

Definition bty_code (b : bty) : N :=
  match b with
  | BInt => 105 | BBool => 111 | BShort => 115 | BByte => 121 | BLong => 108 | BFloat => 102 | BDouble => 100
  | BString => 103 | BVector => 86 | BMap => 77 | BArray => 65
  end.

Fixpoint ser_ty (v : vty) : bytes :=
  match v with
  | VBase b u => [98; bty_code b] ++ ser_bool u
  | VName s c => [110] ++ ser_str s ++ [match c with CNone => 45 | CEnum => 69 | CStruct => 83 end]
  | VVec k => [118] ++ ser_ty k
  | VMap k w => [109] ++ ser_ty k ++ ser_ty w
  | VArr k len => [97] ++ ser_ty k ++ ser_Z len
  end.

Definition ser_enum_mb (m : enum_mb) : bytes :=
  ser_str (em_key m) ++ ser_Z (Z.of_N (em_kind m)) ++ ser_Z (em_val m) ++ ser_str (em_name m).
Definition ser_enum (e : enum) : bytes := ser_str (en_name e) ++ ser_list ser_enum_mb (en_mb e).
Definition deft_code (d : deft) : N :=
  match d with DNone => 45 | DInt => 105 | DFloat => 102 | DStr => 115 | DTrue => 116 | DFalse => 117 | DName => 110 end.
Definition ser_member (m : smember) : bytes :=
  ser_Z (sm_tag m) ++ ser_bool (sm_req m) ++ ser_ty (sm_ty m) ++ ser_str (sm_key m) ++ ser_str (sm_def m) ++ [deft_code (sm_deft m)].
Definition ser_struct (s : struct) : bytes := ser_str (st_name s) ++ ser_list ser_member (st_mb s).
Definition ser_arg (a : arg) : bytes := ser_str (a_name a) ++ ser_bool (a_out a) ++ ser_ty (a_ty a).
Definition ser_func (f : func) : bytes :=
  ser_str (f_name f) ++ (match f_ret f with None => [45] | Some t => [43] ++ ser_ty t end) ++ ser_list ser_arg (f_args f).
Definition ser_iface (i : iface) : bytes := ser_str (if_name i) ++ ser_list ser_func (if_funcs i).
Definition ser_const (c : const) : bytes := ser_ty (c_ty c) ++ ser_str (c_name c) ++ ser_str (c_val c).
Definition ser_hashkey (h : hashkey) : bytes := ser_str (hk_name h) ++ ser_list ser_str (hk_mb h).
Definition ser_module (m : module) : bytes :=
  ser_str (m_name m) ++ ser_list ser_struct (m_structs m) ++ ser_list ser_hashkey (m_hashkeys m) ++
  ser_list ser_enum (m_enums m) ++ ser_list ser_const (m_consts m) ++ ser_list ser_iface (m_ifaces m).

(* what the harness observed of parse.NewParse on the input *)
Inductive c16obs := COk (ast : hexs) | CMulti | CErr | CHang.

Definition c16case := (hexs * c16obs)%type.

Definition c16_check (c : c16case) : bool :=
  let '(input, obs) := c in
  match parse_bytes (unhex input), obs with
  | OOk m, COk h => beq (ser_module m) (unhex h)
  | OMulti, (CMulti | CErr) => true
  | OErr, CErr => true
  | OFuel, CHang => true
  | _, _ => false
  end.

(* the model's own view of one input, for diagnostics in replays *)
Definition c16_model (input : hexs) : N * bytes :=
  match parse_bytes (unhex input) with
  | OOk m => (0, ser_module m) | OMulti => (1, []) | OErr => (2, []) | OFuel => (3, [])
  end.

(* several files: the main file and the files beside it *)
(* [deps]: the observed Struct.DependModule / Interface.DependModule (the generated imports), per struct then interface *)
Definition c16fcase := (hexs * list (hexs * hexs) * c16obs * list (list hexs))%type.
Definition c16_check_fs (c : c16fcase) : bool :=
  let '(input, files, obs, deps) := c in
  match parse_fs (unhex input) (map (fun p => (unhex (fst p), unhex (snd p))) files), obs with
  | FOk t, COk h => beq (ser_module (pt_mod t)) (unhex h) && deps_eqb (model_deps (pt_mod t)) (map (map unhex) deps)
  | FMulti, (CMulti | CErr) => true
  | FErr, CErr => true
  | FFuel, CHang => true
  | _, _ => false
  end.
