(* C16: the include graph the parser builds for a file with several modules is acyclic - every edge goes to a node
   created earlier - and that is what the termination of FindTNameType / FindEnumName rests on: on an acyclic graph the
   walk ends for every name, found or not; handing the sub-parser the live first-module node instead of a copy makes a
   cycle, and then the walk for a name that is nowhere never ends. *)
From Coq Require Import List Arith Bool Lia.
From TarsV Require Import Idl.IncGraph.
Import ListNotations.

(* ---------------- copy: every edge goes down ---------------- *)
Lemma in_map_idN : forall ninc n v, In v (map (id_N ninc) (seq 1 n)) -> exists j, 1 <= j <= n /\ v = id_N ninc j.
Proof.
  intros ninc n v H. apply in_map_iff in H. destruct H as [j [E Hj]]. apply in_seq in Hj. exists j. split; [lia | symmetry; exact E].
Qed.

Theorem copy_edges_descend : forall k ninc u v, u <= id_P k ninc -> In v (children false k ninc u) -> v < u.
Proof.
  intros k ninc u v Hu H. unfold children in H.
  destruct (u <? ninc) eqn:E1; [destruct H|]. apply Nat.ltb_ge in E1.
  destruct (u =? id_P k ninc) eqn:E2.
  - apply Nat.eqb_eq in E2. subst u. apply in_app_or in H. destruct H as [H|H].
    + destruct (in_map_idN _ _ _ H) as [j [Hj ->]]. unfold id_N, id_P. lia.
    + apply in_seq in H. unfold id_P. lia.
  - apply Nat.eqb_neq in E2.
    destruct (Nat.even (u - ninc)) eqn:Ev.
    + (* S_j: the further modules recorded before *)
      destruct (in_map_idN _ _ _ H) as [j [Hj ->]]. unfold id_N.
      apply Nat.even_spec in Ev. destruct Ev as [q Hq].
      assert (Hd : (u - ninc) / 2 = q) by (rewrite Hq, Nat.mul_comm; apply Nat.div_mul; lia).
      rewrite Hd in Hj. lia.
    + (* N_j: its snapshot and the included files *)
      assert (Ho : Nat.odd (u - ninc) = true) by (rewrite <- Nat.negb_even, Ev; reflexivity).
      apply Nat.odd_spec in Ho. destruct Ho as [q Hq].
      assert (Hd : (u - ninc) / 2 = q).
      { rewrite Hq. replace (2 * q + 1) with (1 + q * 2) by lia. rewrite Nat.div_add by lia. reflexivity. }
      cbn [In] in H. destruct H as [<-|H].
      * unfold id_S. rewrite Hd. lia.
      * apply in_seq in H. lia.
Qed.

(* ---------------- on a graph whose edges descend the walk ends ---------------- *)
Theorem lookup_terminates : forall (g : nat -> list nat) has,
  (forall u v, In v (g u) -> v < u) -> forall fuel u, u < fuel -> lookup fuel g has u <> None.
Proof.
  intros g has Hg. induction fuel as [|f IH]; intros u Hu; [lia|]. cbn [lookup].
  destruct (has u); [discriminate|].
  assert (G : forall l, (forall v, In v l -> v < u) ->
              (fix go (l : list nat) : option (option nat) :=
                 match l with [] => Some None | v :: r => match lookup f g has v with None => None | Some (Some h) => Some (Some h) | Some None => go r end end) l <> None).
  { induction l as [|v r IHr]; intros Hl; [discriminate|].
    assert (Hv : v < f) by (specialize (Hl v (or_introl eq_refl)); lia).
    specialize (IH v Hv). destruct (lookup f g has v) as [[h|]|]; [discriminate | | congruence].
    apply IHr. intros w Hw. apply Hl. right. exact Hw. }
  apply G. intros v Hv. apply (Hg u v Hv).
Qed.

(* the parser's graph (copy): every lookup from the first module's node ends, whatever is declared where *)
Theorem copy_lookup_terminates : forall k ninc has u, u <= id_P k ninc ->
  lookup (S (id_P k ninc)) (fun w => if w <=? id_P k ninc then children false k ninc w else []) has u <> None.
Proof.
  intros k ninc has u Hu. apply lookup_terminates; [|lia].
  intros w v H. destruct (w <=? id_P k ninc) eqn:E; [|destruct H]. apply Nat.leb_le in E. eapply copy_edges_descend; eauto.
Qed.

(* ---------------- alias: a cycle, and a walk that never ends ---------------- *)
Theorem alias_cycle : forall k ninc, 1 <= k ->
  In (id_N ninc 1) (children true k ninc (id_P k ninc)) /\ In (id_P k ninc) (children true k ninc (id_N ninc 1)).
Proof.
  intros k ninc Hk. split.
  - unfold children. replace (id_P k ninc <? ninc) with false by (symmetry; apply Nat.ltb_ge; unfold id_P; lia).
    rewrite Nat.eqb_refl. apply in_or_app. left. apply in_map. apply in_seq. lia.
  - unfold children, id_N. cbn [Nat.sub]. rewrite Nat.mul_0_r, Nat.add_0_r.
    replace (ninc + 1 <? ninc) with false by (symmetry; apply Nat.ltb_ge; lia).
    replace (ninc + 1 =? id_P k ninc) with false by (symmetry; apply Nat.eqb_neq; unfold id_P; lia).
    replace (ninc + 1 - ninc) with 1 by lia. cbn [Nat.even]. left. reflexivity.
Qed.

(* a name that is declared nowhere, looked up from the first module's node: no bound on the depth suffices *)
Theorem alias_lookup_diverges : forall k ninc fuel, 1 <= k ->
  lookup fuel (children true k ninc) (fun _ => false) (id_P k ninc) = None.
Proof.
  intros k ninc fuel Hk. induction fuel as [fuel IH] using lt_wf_ind.
  destruct fuel as [|f]; [reflexivity|]. cbn [lookup].
  (* the first child of P is N_1, whose first child is P *)
  assert (EP : children true k ninc (id_P k ninc) = id_N ninc 1 :: map (id_N ninc) (seq 2 (k - 1)) ++ incs ninc).
  { unfold children. replace (id_P k ninc <? ninc) with false by (symmetry; apply Nat.ltb_ge; unfold id_P; lia).
    rewrite Nat.eqb_refl. destruct k as [|k']; [lia|]. cbn [seq map app]. replace (S k' - 1) with k' by lia. reflexivity. }
  assert (EN : children true k ninc (id_N ninc 1) = id_P k ninc :: incs ninc).
  { unfold children, id_N. cbn [Nat.sub]. rewrite Nat.mul_0_r, Nat.add_0_r.
    replace (ninc + 1 <? ninc) with false by (symmetry; apply Nat.ltb_ge; lia).
    replace (ninc + 1 =? id_P k ninc) with false by (symmetry; apply Nat.eqb_neq; unfold id_P; lia).
    replace (ninc + 1 - ninc) with 1 by lia. reflexivity. }
  rewrite EP. destruct f as [|f']; [reflexivity|].
  cbn [lookup]. rewrite EN. rewrite (IH f') by lia. reflexivity.
Qed.

(* the hypotheses are satisfiable: two further modules, one included file; the copy graph, and a lookup that ends *)
Example copy_instance :
  map (children false 2 1) [0; 1; 2; 3; 4; 5] = [[]; []; [1; 0]; [2]; [3; 0]; [2; 4; 0]] /\
  lookup 6 (children false 2 1) (fun u => Nat.eqb u 0) 5 = Some (Some 0) /\
  lookup 6 (children false 2 1) (fun _ => false) 5 = Some None.
Proof. repeat split; vm_compute; reflexivity. Qed.
