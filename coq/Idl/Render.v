(* C16 model, part 5: renderings of a token sequence as text - the spelling of every token and the blanks and
   comments between tokens - for the theorem that the lexer maps every rendering back to the tokens
   (Idl/RenderProofs.v).  The conditions on spellings are stated with the lexer's own conversion functions
   (parse_int, parse_float_ok, qualify, lookup_kw): a number token is any text readNumber collects that
   strconv accepts, a word any text readIdent collects. *)
From Coq Require Import String.
From Coq Require Import List NArith ZArith Bool.
From TarsV Require Import Idl.Lexer.
Import ListNotations.
Open Scope N_scope.

(* a byte that ends the scan of a word or a number: anything readIdent / readNumber do not collect (blanks, line
   breaks, the '/' of a comment, punctuation, quotes, '#', ...) *)
Definition stops (c : N) : bool := negb (is_letter c || is_number c || (c =? 58) || (c =? 46)).

(* the bytes readIdent / readNumber keep collecting *)
Fixpoint ident_scan (s : bytes) (last : N) : bool :=
  match s with
  | [] => true
  | c :: r => (is_letter c || is_number c || (c =? 58)) && negb (is_number c && (last =? 58)) && ident_scan r c
  end.
Fixpoint num_scan (s : bytes) (is_hex : bool) : bool :=
  match s with
  | [] => true
  | c :: r => (is_number c || (c =? 46) || is_x c || (is_hex && is_hexl c)) && num_scan r (is_hex || is_x c)
  end.
Definition has_dot (s : bytes) : bool := existsb (fun c => c =? 46) s.

Inductive tok_text : tok -> bytes -> Prop :=
| TT_punct : forall c p, punct_of c = Some p -> tok_text (TPunct p) [c]
| TT_include : tok_text TInclude (bs "#include")
| TT_word : forall c s s' t, is_letter c = true -> ident_scan (c :: s) 0 = true ->
    qualify (c :: s) = Some s' -> lookup_kw s' keywords = t -> tok_text t (c :: s)   (* keywords, type names, names *)
| TT_int : forall c s v, is_number c = true -> num_scan (c :: s) false = true -> has_dot (c :: s) = false ->
    parse_int (c :: s) = Some v -> tok_text (TInt (c :: s) v) (c :: s)
| TT_float : forall c s, is_number c = true -> num_scan (c :: s) false = true -> has_dot (c :: s) = true ->
    parse_float_ok (c :: s) = true -> tok_text (TFloat (c :: s)) (c :: s)
| TT_str : forall s, forallb (fun c => negb (c =? 0) && negb (c =? 34)) s = true -> tok_text (TStr s) (34 :: s ++ [34]).

(* what may stand between two tokens *)
Inductive gap_item := GBlank (c : N) | GLine (body : bytes) | GLong (body : bytes).
Fixpoint no_close (b : bytes) : bool :=
  match b with
  | c :: r => match r with
              | d :: _ => negb ((c =? 42) && (d =? 47)) && no_close r
              | [] => true
              end
  | [] => true
  end.
Definition wf_gap_item (g : gap_item) : bool :=
  match g with
  | GBlank c => is_blank c || is_newline c
  | GLine b => forallb (fun c => negb (is_newline c) && negb (c =? 0)) b          (* // body <newline> *)
  | GLong b => forallb (fun c => negb (c =? 0)) b && no_close b                   (* /* body */, no "*/" inside the body *)
  end.
Definition gap_bytes (g : gap_item) : bytes :=
  match g with
  | GBlank c => [c]
  | GLine b => 47 :: 47 :: b ++ [10]
  | GLong b => 47 :: 42 :: b ++ [42; 47]
  end.
Definition gaps_bytes (l : list gap_item) : bytes := concat (map gap_bytes l).

(* a token, its spelling, and the gap after it; the gap may be empty where the token delimits itself (punctuation,
   strings) or the next token starts with a byte that ends the scan (punctuation, a quote) *)
Record piece := { p_tok : tok; p_txt : bytes; p_gap : list gap_item }.
Definition self_delimiting (t : tok) : bool := match t with TPunct _ | TStr _ => true | _ => false end.
Definition starts_stop (ps : list piece) : bool :=
  match ps with
  | [] => true
  | q :: _ => match p_txt q with c :: _ => stops c | [] => false end
  end.
Fixpoint wf_pieces (ps : list piece) : Prop :=
  match ps with
  | [] => True
  | p :: r => tok_text (p_tok p) (p_txt p) /\ forallb wf_gap_item (p_gap p) = true /\
              (p_gap p <> [] \/ self_delimiting (p_tok p) = true \/ starts_stop r = true) /\ wf_pieces r
  end.
Definition render (lead : list gap_item) (ps : list piece) : bytes :=
  gaps_bytes lead ++ concat (map (fun p => p_txt p ++ gaps_bytes (p_gap p)) ps).
