(* C16: the hand-written lexer model computes exactly the tables regenerated from the tree on every run
   (Gen/C16Tables.v: token codes, the keyword table in readIdent's scan order, the compiled lexer's outcome on the
   probe inputs b, a.b, 1.b, 0x.b for every byte b, the range of integer literals, the token type predicates), and
   the lexer's character classes and the token package's predicates as translated from their Go source
   (Gen/C16Translated.v) are the model's.  An edit of lexer.go / token.go that changes a character class, the
   punctuation switch, a keyword, the scan order, the width of integer literals or a type predicate changes a
   regenerated file and breaks one of these proofs (layer L1 of C16). *)
From Coq Require Import String.
From Coq Require Import List NArith ZArith Bool Lia.
From TarsV Require Import Gen.C16Tables Gen.C16Translated Xlate.GoSem Idl.Lexer Idl.Parser.
Import ListNotations.
Open Scope N_scope.

Definition pk_code (p : pk) : N :=
  match p with
  | PBraceL => c16_tk_BraceLeft | PBraceR => c16_tk_BraceRight | PSemi => c16_tk_Semi | PEq => c16_tk_Eq
  | PShl => c16_tk_Shl | PShr => c16_tk_Shr | PComma => c16_tk_Comma | PPtl => c16_tk_Ptl | PPtr => c16_tk_Ptr
  | PSqL => c16_tk_SquareLeft | PSqR => c16_tk_SquarerRight
  end.
Definition kw_code (k : kw) : N :=
  match k with
  | KModule => c16_tk_Module | KEnum => c16_tk_Enum | KStruct => c16_tk_Struct | KInterface => c16_tk_Interface
  | KRequire => c16_tk_Require | KOptional => c16_tk_Optional | KConst => c16_tk_Const | KUnsigned => c16_tk_Unsigned
  | KVoid => c16_tk_Void | KOut => c16_tk_Out | KKey => c16_tk_Key | KTrue => c16_tk_True | KFalse => c16_tk_False
  end.
Definition bty_code (b : bty) : N :=
  match b with
  | BInt => c16_tk_TInt | BBool => c16_tk_TBool | BShort => c16_tk_TShort | BByte => c16_tk_TByte | BLong => c16_tk_TLong
  | BFloat => c16_tk_TFloat | BDouble => c16_tk_TDouble | BString => c16_tk_TString | BVector => c16_tk_TVector
  | BMap => c16_tk_TMap | BArray => c16_tk_TArray
  end.
(* the Go token.Type of a model token; 255 stands for a lexer panic *)
Definition tok_code (t : tok) : N :=
  match t with
  | TEof => c16_tk_Eof | TPunct p => pk_code p | TInclude => c16_tk_Include | TKw k => kw_code k | TTy b => bty_code b
  | TName _ => c16_tk_Name | TStr _ => c16_tk_String | TInt _ _ => c16_tk_Integer | TFloat _ => c16_tk_Float | TLexErr => 255
  end.

(* ---------------- keyword table ---------------- *)
Theorem keywords_regenerated : map (fun p => (fst p, tok_code (snd p))) keywords = c16_kw_table.
Proof. vm_compute. reflexivity. Qed.

(* ---------------- probes: one NextToken of the model against the compiled lexer ---------------- *)
Definition probe_model (pre : bytes) (b : N) : N * list N * Z :=
  match next_token 16 (init_state (pre ++ [b; 32])) with
  | Ok (t, _) => (tok_code t,
                  match t with TName s | TStr s | TInt s _ | TFloat s => s | _ => [] end,
                  match t with TInt _ v => v | _ => 0%Z end)
  | _ => (255, [], 0%Z)
  end.
Definition all_bytes : list N := map N.of_nat (seq 0 256).

Theorem probe_first_byte : map (probe_model []) all_bytes = c16_probe_b.
Proof. vm_compute. reflexivity. Qed.
Theorem probe_ident_continuation : map (probe_model [97]) all_bytes = c16_probe_ab.
Proof. vm_compute. reflexivity. Qed.
Theorem probe_number_continuation : map (probe_model [49]) all_bytes = c16_probe_1b.
Proof. vm_compute. reflexivity. Qed.
Theorem probe_hex_continuation : map (probe_model [48; 120]) all_bytes = c16_probe_0xb.
Proof. vm_compute. reflexivity. Qed.

(* further families pre.b.suf (string contents, comment starts and bodies, qualified names, signs, fractions, #include) *)
Definition probe_model2 (pre suf : bytes) (b : N) : N * list N * Z :=
  match next_token 32 (init_state (pre ++ b :: suf)) with
  | Ok (t, _) => (tok_code t,
                  match t with TName s | TStr s | TInt s _ | TFloat s => s | _ => [] end,
                  match t with TInt _ v => v | _ => 0%Z end)
  | _ => (255, [], 0%Z)
  end.
Theorem probe_more : map (fun f => map (probe_model2 (fst (fst f)) (snd (fst f))) all_bytes) c16_probe_more = map snd c16_probe_more.
Proof. vm_compute. reflexivity. Qed.

(* ---------------- integer literals: exactly the regenerated range ---------------- *)
Theorem int_literal_range : (Z.of_N two63 - 1 = c16_int_lit_max /\ - Z.of_N two63 = c16_int_lit_min)%Z.
Proof. split; vm_compute; reflexivity. Qed.

Theorem parse_int_range_pos : forall s u, uint_of s = Some u -> (forall c r, s = c :: r -> c <> 45 /\ c <> 43) ->
  parse_int s = if (Z.of_N u <=? c16_int_lit_max)%Z then Some (Z.of_N u) else None.
Proof.
  intros s u H Hc. destruct s as [|c r]; [discriminate|]. destruct (Hc c r eq_refl) as [A B].
  unfold parse_int. apply N.eqb_neq in A. apply N.eqb_neq in B. rewrite A, B. unfold pos_int. rewrite H.
  destruct int_literal_range as [E _]. rewrite <- E.
  destruct (u <? two63) eqn:L; [apply N.ltb_lt in L | apply N.ltb_ge in L].
  - destruct (Z.leb_spec (Z.of_N u) (Z.of_N two63 - 1)%Z); [reflexivity | lia].
  - destruct (Z.leb_spec (Z.of_N u) (Z.of_N two63 - 1)%Z); [lia | reflexivity].
Qed.
Theorem parse_int_range_neg : forall r u, uint_of r = Some u ->
  parse_int (45 :: r) = if (c16_int_lit_min <=? - Z.of_N u)%Z then Some (- Z.of_N u)%Z else None.
Proof.
  intros r u H. unfold parse_int. change (45 =? 45) with true. cbv iota. rewrite H.
  destruct int_literal_range as [_ E]. rewrite <- E.
  destruct (u <=? two63) eqn:L; [apply N.leb_le in L | apply N.leb_gt in L].
  - destruct (Z.leb_spec (- Z.of_N two63)%Z (- Z.of_N u)%Z); [reflexivity | lia].
  - destruct (Z.leb_spec (- Z.of_N two63)%Z (- Z.of_N u)%Z); [lia | reflexivity].
Qed.

(* ---------------- token type predicates ---------------- *)
Definition all_toks : list tok :=
  [TEof; TInclude; TName []; TStr []; TInt [] 0; TFloat []] ++
  map TPunct [PBraceL; PBraceR; PSemi; PEq; PShl; PShr; PComma; PPtl; PPtr; PSqL; PSqR] ++
  map TKw [KModule; KEnum; KStruct; KInterface; KRequire; KOptional; KConst; KUnsigned; KVoid; KOut; KKey; KTrue; KFalse] ++
  map TTy [BInt; BBool; BShort; BByte; BLong; BFloat; BDouble; BString; BVector; BMap; BArray].
Definition mem (x : N) (l : list N) : bool := existsb (N.eqb x) l.

Theorem is_type_regenerated : forallb (fun t => Bool.eqb (is_type_tok t) (mem (tok_code t) c16_is_type_codes)) all_toks = true.
Proof. vm_compute. reflexivity. Qed.
Theorem is_number_type_regenerated :
  forallb (fun t => Bool.eqb (match t with TTy b => num_bty b | _ => false end) (mem (tok_code t) c16_is_number_type_codes)) all_toks = true.
Proof. vm_compute. reflexivity. Qed.

(* ---------------- translated from the Go source ---------------- *)
Definition ret_is (c : ctl unit bool) (b : bool) : bool := match c with Return x => Bool.eqb x b | _ => false end.
Lemma ret_is_eq : forall c b, ret_is c b = true -> c = Return b.
Proof. intros c b H. destruct c; try discriminate. cbn in H. apply Bool.eqb_prop in H. subst. reflexivity. Qed.

Lemma all_bytes_spec : forall (P : N -> bool), forallb P all_bytes = true -> forall b, b < 256 -> P b = true.
Proof.
  intros P H b Hb. rewrite forallb_forall in H. apply H. unfold all_bytes. apply in_map_iff.
  exists (N.to_nat b). split; [apply N2Nat.id|]. apply in_seq. lia.
Qed.

Theorem tr_isNewLine_equiv : forall b, (0 <= b < 256)%Z -> tr_c16_isNewLine b = Return (is_newline (Z.to_N b)).
Proof.
  intros b Hb. apply ret_is_eq. replace b with (Z.of_N (Z.to_N b)) at 1 by lia.
  apply (all_bytes_spec (fun n => ret_is (tr_c16_isNewLine (Z.of_N n)) (is_newline n))); [vm_compute; reflexivity | lia].
Qed.
Theorem tr_isNumber_equiv : forall b, (0 <= b < 256)%Z -> tr_c16_isNumber b = Return (is_number (Z.to_N b)).
Proof.
  intros b Hb. apply ret_is_eq. replace b with (Z.of_N (Z.to_N b)) at 1 by lia.
  apply (all_bytes_spec (fun n => ret_is (tr_c16_isNumber (Z.of_N n)) (is_number n))); [vm_compute; reflexivity | lia].
Qed.
Theorem tr_isHexNumber_equiv : forall b, (0 <= b < 256)%Z -> tr_c16_isHexNumber b = Return (is_hexl (Z.to_N b)).
Proof.
  intros b Hb. apply ret_is_eq. replace b with (Z.of_N (Z.to_N b)) at 1 by lia.
  apply (all_bytes_spec (fun n => ret_is (tr_c16_isHexNumber (Z.of_N n)) (is_hexl n))); [vm_compute; reflexivity | lia].
Qed.
Theorem tr_isLetter_equiv : forall b, (0 <= b < 256)%Z -> tr_c16_isLetter b = Return (is_letter (Z.to_N b)).
Proof.
  intros b Hb. apply ret_is_eq. replace b with (Z.of_N (Z.to_N b)) at 1 by lia.
  apply (all_bytes_spec (fun n => ret_is (tr_c16_isLetter (Z.of_N n)) (is_letter n))); [vm_compute; reflexivity | lia].
Qed.

Theorem tr_IsType_equiv : forall t, In t all_toks -> tr_c16_IsType (Z.of_N (tok_code t)) = Return (is_type_tok t).
Proof.
  intros t H. apply ret_is_eq. revert t H. apply forallb_forall. vm_compute. reflexivity.
Qed.
Theorem tr_IsNumberType_equiv : forall t, In t all_toks ->
  tr_c16_IsNumberType (Z.of_N (tok_code t)) = Return (match t with TTy b => num_bty b | _ => false end).
Proof.
  intros t H. apply ret_is_eq. revert t H. apply forallb_forall. vm_compute. reflexivity.
Qed.
