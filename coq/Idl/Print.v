(* C16 model, part 4: the grammar of the supported language as source-level declarations, their printer to
   token sequences, and the AST each declaration denotes.  [Idl/PrintProofs.v] proves that the parser model
   accepts every printed program and returns exactly the denoted AST (struct members sorted by tag).

   Tokens are those of Idl/Lexer.v: names are [TName s] for any byte string [s], integer literals [TInt s v]
   carry their source text and value independently - the theorem is about token sequences, so it covers every
   spelling, spacing and comment the lexer maps to them. *)
From Coq Require Import String.
From Coq Require Import List NArith ZArith Bool.
From TarsV Require Import Idl.Lexer Idl.Parser.
Import ListNotations.
Open Scope N_scope.

(* ---------------- types ---------------- *)
Fixpoint wf_ty (t : vty) : bool :=
  match t with
  | VBase b u => match b with
                 | BVector | BMap | BArray => false
                 | BInt | BShort | BByte => true
                 | _ => negb u
                 end
  | VName _ c => match c with CNone => true | _ => false end
  | VVec k => wf_ty k
  | VMap k w => wf_ty k && wf_ty w
  | VArr _ _ => false
  end.

Fixpoint print_ty (t : vty) : list tok :=
  match t with
  | VBase b u => if u then [TKw KUnsigned; TTy b] else [TTy b]
  | VName s _ => [TName s]
  | VVec k => TTy BVector :: TPunct PShl :: print_ty k ++ [TPunct PShr]
  | VMap k w => TTy BMap :: TPunct PShl :: print_ty k ++ TPunct PComma :: print_ty w ++ [TPunct PShr]
  | VArr k _ => print_ty k
  end.

(* ---------------- literals ---------------- *)
Inductive sdef := SDInt (s : bytes) (v : Z) | SDFloat (s : bytes) | SDStr (s : bytes) | SDTrue | SDFalse | SDName (s : bytes).
Definition print_def (d : sdef) : tok :=
  match d with
  | SDInt s v => TInt s v | SDFloat s => TFloat s | SDStr s => TStr s
  | SDTrue => TKw KTrue | SDFalse => TKw KFalse | SDName s => TName s
  end.
Definition def_text (d : sdef) : bytes * deft :=
  match d with
  | SDInt s _ => (s, DInt) | SDFloat s => (s, DFloat) | SDStr s => (34 :: s ++ [34], DStr)
  | SDTrue => (bs "true", DTrue) | SDFalse => (bs "false", DFalse) | SDName s => (s, DName)
  end.
(* the type accepts the literal (parseStructMemberDefault) *)
Definition wf_def (ty : vty) (d : sdef) : bool :=
  match d with
  | SDInt _ _ => is_number_type ty || is_name_type ty
  | SDFloat _ => is_number_type ty
  | SDStr _ => negb (is_number_type ty)
  | SDTrue | SDFalse => is_bool_type ty
  | SDName _ => true
  end.

(* ---------------- struct members ---------------- *)
Inductive stail := STNone | STArr (s : bytes) (len : Z) | STDef (d : sdef).
Record smem := { s_tagtxt : bytes; s_tag : Z; s_req : bool; s_ty : vty; s_key : bytes; s_tail : stail }.

Definition print_tail (t : stail) : list tok :=
  match t with
  | STNone => [TPunct PSemi]
  | STArr s len => [TPunct PSqL; TInt s len; TPunct PSqR; TPunct PSemi]
  | STDef d => [TPunct PEq; print_def d; TPunct PSemi]
  end.
Definition print_mem (m : smem) : list tok :=
  TInt (s_tagtxt m) (s_tag m) :: TKw (if s_req m then KRequire else KOptional) :: print_ty (s_ty m) ++ TName (s_key m) :: print_tail (s_tail m).

Definition wf_mem (m : smem) : bool :=
  wf_ty (s_ty m) && match s_tail m with STDef d => wf_def (s_ty m) d | _ => true end.

Definition member_of (m : smem) : smember :=
  match s_tail m with
  | STNone => {| sm_tag := wrap32 (s_tag m); sm_req := s_req m; sm_ty := s_ty m; sm_key := s_key m; sm_def := []; sm_deft := DNone |}
  | STArr _ len => {| sm_tag := wrap32 (s_tag m); sm_req := s_req m; sm_ty := VArr (s_ty m) len; sm_key := s_key m; sm_def := []; sm_deft := DNone |}
  | STDef d => {| sm_tag := wrap32 (s_tag m); sm_req := s_req m; sm_ty := s_ty m; sm_key := s_key m; sm_def := fst (def_text d); sm_deft := snd (def_text d) |}
  end.

(* ---------------- enum members ---------------- *)
Inductive semb := SEAuto (k : bytes) | SEVal (k : bytes) (s : bytes) (v : Z) | SERef (k n : bytes).
Definition print_emb (x : semb) : list tok :=
  match x with
  | SEAuto k => [TName k]
  | SEVal k s v => [TName k; TPunct PEq; TInt s v]
  | SERef k n => [TName k; TPunct PEq; TName n]
  end.
Fixpoint print_embs (l : list semb) : list tok :=
  match l with
  | [] => []
  | x :: r => match r with
              | [] => print_emb x
              | _ :: _ => print_emb x ++ TPunct PComma :: print_embs r
              end
  end.
Definition emb_of (x : semb) : enum_mb :=
  match x with
  | SEAuto k => mk_mb k 2 0 []
  | SEVal k _ v => mk_mb k 0 (wrap32 v) []
  | SERef k n => mk_mb k 1 0 n
  end.

(* ---------------- interface functions ---------------- *)
Definition print_arg (a : arg) : list tok :=
  (if a_out a then [TKw KOut] else []) ++ print_ty (a_ty a) ++ [TName (a_name a)].
Fixpoint print_args (l : list arg) : list tok :=
  match l with
  | [] => []
  | x :: r => match r with
              | [] => print_arg x
              | _ :: _ => print_arg x ++ TPunct PComma :: print_args r
              end
  end.
Definition print_fun (f : func) : list tok :=
  (match f_ret f with None => [TKw KVoid] | Some t => print_ty t end) ++
  TName (f_name f) :: TPunct PPtl :: print_args (f_args f) ++ [TPunct PPtr; TPunct PSemi].
Definition wf_fun (f : func) : bool :=
  (match f_ret f with None => true | Some t => wf_ty t end) && forallb (fun a => wf_ty (a_ty a)) (f_args f).

(* ---------------- declarations ---------------- *)
Fixpoint print_names (first : bytes) (more : list bytes) : list tok :=
  match more with
  | [] => [TName first]
  | n :: r => TName first :: TPunct PComma :: print_names n r
  end.

Inductive sdecl :=
| DEnum (name : bytes) (l : list semb)
| DConst (ty : vty) (name : bytes) (v : sdef)
| DStruct (name : bytes) (ms : list smem)
| DIface (name : bytes) (fs : list func)
| DKey (name : bytes) (first : bytes) (more : list bytes).

Definition print_decl (d : sdecl) : list tok :=
  match d with
  | DEnum name l => TKw KEnum :: TName name :: TPunct PBraceL :: print_embs l ++ [TPunct PBraceR; TPunct PSemi]
  | DConst ty name v => TKw KConst :: print_ty ty ++ [TName name; TPunct PEq; print_def v; TPunct PSemi]
  | DStruct name ms => TKw KStruct :: TName name :: TPunct PBraceL :: concat (map print_mem ms) ++ [TPunct PBraceR; TPunct PSemi]
  | DIface name fs => TKw KInterface :: TName name :: TPunct PBraceL :: concat (map print_fun fs) ++ [TPunct PBraceR; TPunct PSemi]
  | DKey name first more => TKw KKey :: TPunct PSqL :: TName name :: TPunct PComma :: print_names first more ++ [TPunct PSqR; TPunct PSemi]
  end.

(* a constant: scalar type; number literal for a number type, string for string, true/false for bool *)
Definition wf_const (ty : vty) (v : sdef) : bool :=
  match ty with
  | VBase _ _ =>
      wf_ty ty && match v with
                  | SDInt _ _ | SDFloat _ => is_number_type ty
                  | SDStr _ => negb (is_number_type ty)
                  | SDTrue | SDFalse => is_bool_type ty
                  | SDName _ => false
                  end
  | _ => false
  end.

(* the AST a declaration adds to the module (parse.go appends; struct members sorted by tag) *)
Definition add_decl (m : module) (d : sdecl) : module :=
  match d with
  | DEnum name l =>
      {| m_name := m_name m; m_structs := m_structs m; m_hashkeys := m_hashkeys m;
         m_enums := m_enums m ++ [ {| en_name := name; en_mb := map emb_of l |} ];
         m_consts := m_consts m; m_ifaces := m_ifaces m |}
  | DConst ty name v =>
      {| m_name := m_name m; m_structs := m_structs m; m_hashkeys := m_hashkeys m; m_enums := m_enums m;
         m_consts := m_consts m ++ [ {| c_ty := ty; c_name := name; c_val := fst (def_text v) |} ]; m_ifaces := m_ifaces m |}
  | DStruct name ms =>
      {| m_name := m_name m; m_structs := m_structs m ++ [ {| st_name := name; st_mb := sort_tags (map member_of ms) |} ];
         m_hashkeys := m_hashkeys m; m_enums := m_enums m; m_consts := m_consts m; m_ifaces := m_ifaces m |}
  | DIface name fs =>
      {| m_name := m_name m; m_structs := m_structs m; m_hashkeys := m_hashkeys m; m_enums := m_enums m;
         m_consts := m_consts m; m_ifaces := m_ifaces m ++ [ {| if_name := name; if_funcs := fs |} ] |}
  | DKey name first more =>
      {| m_name := m_name m; m_structs := m_structs m; m_hashkeys := m_hashkeys m ++ [ {| hk_name := name; hk_mb := first :: more |} ];
         m_enums := m_enums m; m_consts := m_consts m; m_ifaces := m_ifaces m |}
  end.

(* well-formed in the context of the declarations before it: no redefinition, distinct tags, literals fit *)
Definition wf_decl (m : module) (d : sdecl) : bool :=
  match d with
  | DEnum name _ => negb (existsb (fun e => beq (en_name e) name) (m_enums m))
  | DConst ty _ v => wf_const ty v
  | DStruct name ms => negb (existsb (fun s => beq (st_name s) name) (m_structs m)) && forallb wf_mem ms && tags_nodup (map member_of ms)
  | DIface name fs => negb (existsb (fun i => beq (if_name i) name) (m_ifaces m)) && forallb wf_fun fs
  | DKey _ _ _ => true
  end.

Fixpoint wf_decls (m : module) (ds : list sdecl) : bool :=
  match ds with
  | [] => true
  | d :: r => wf_decl m d && wf_decls (add_decl m d) r
  end.

Definition module_of (name : bytes) (ds : list sdecl) : module := fold_left add_decl ds (empty_module name).

Definition print_prog (name : bytes) (ds : list sdecl) : list tok :=
  TKw KModule :: TName name :: TPunct PBraceL :: concat (map print_decl ds) ++ [TPunct PBraceR; TPunct PSemi].

Definition parse_tokens (ts : list tok) : outcome := parse_tokens_gen true (parse_fuel ts) ts.
