(* C16 model, part 3: what the generated Go code of an analysed module is, at the level the codec properties
   speak about it: the schema environment (Codec/GenCodec.v [env]) of its structs - tags, require flags, Go
   types, declared defaults (gen_go.go: genStructDefine, genType, genFunResetDefault) - and the values of its
   enum constants (genEnum).

   [env_of_module m = Some e] also *defines* the fragment of the language whose generated code is claimed to
   compile: it is [None] where the generator is known to emit Go that the compiler rejects (tags outside
   0..255 - the tag parameter of the codec calls is a byte; an array of
   non-positive length; a default literal that does not fit the member's Go type; a map key that is a
   vector, map or struct) and where the codec model does not reach: a fixed array of bytes (SimpleList on the wire
   since d066d98; Codec/GenCodec.v has LIST arrays only) and a type of another module - such programs are validated
   by the harness's monitors only. *)
From Coq Require Import String.
From Coq Require Import List NArith ZArith Bool Lia.
From TarsV Require Import Base.Hex Idl.Lexer Idl.Parser Codec.GenCodec Codec.Corr.
Import ListNotations.
Open Scope N_scope.

(* ---------------- enum constants (genEnum) ---------------- *)
Fixpoint lookup_key (k : bytes) (done : list (bytes * Z)) : option Z :=
  match done with
  | [] => None
  | (k', v) :: r => if beq k' k then Some v else lookup_key k r
  end.

(* [done]: the members before this one, in declaration order; [next]: the value an unvalued member gets *)
Fixpoint enum_vals_aux (mbs : list enum_mb) (done : list (bytes * Z)) (next : Z) : option (list (bytes * Z)) :=
  match mbs with
  | [] => Some done
  | mb :: r =>
      let ov := if em_kind mb =? 0 then Some (em_val mb)
                else if em_kind mb =? 1 then lookup_key (em_name mb) done   (* "not define before use" otherwise *)
                else Some next in
      match ov with
      | Some v => enum_vals_aux r (done ++ [(em_key mb, v)]) (wrap32 (v + 1))
      | None => None
      end
  end.
Definition enum_vals (e : enum) : option (list (bytes * Z)) := enum_vals_aux (en_mb e) [] 0%Z.

Fixpoint all_some {A} (l : list (option A)) : option (list A) :=
  match l with
  | [] => Some []
  | Some x :: r => match all_some r with Some xs => Some (x :: xs) | None => None end
  | None :: _ => None
  end.

Definition enums_of_module (m : module) : option (list (list Z)) :=
  all_some (map (fun e => match enum_vals e with Some l => Some (map snd l) | None => None end) (m_enums m)).

(* ---------------- Go types (genType) ---------------- *)
Fixpoint index_of_struct (n : bytes) (l : list struct) (i : nat) : option nat :=
  match l with
  | [] => None
  | s :: r => if beq (st_name s) n then Some i else index_of_struct n r (S i)
  end.
Definition find_enum (m : module) (n : bytes) : option enum := find (fun e => beq (en_name e) n) (m_enums m).

Definition key_ok (t : ty) : bool :=
  match t with TVec _ | TMap _ _ | TArr _ _ | TStruct _ => false | _ => true end.

Fixpoint ty_of (m : module) (v : vty) : option ty :=
  match v with
  | VBase BInt u => Some (if u then TU32 else TI32)
  | VBase BShort u => Some (if u then TU16 else TI16)
  | VBase BByte u => Some (if u then TU8 else TI8)
  | VBase BLong u => if u then None else Some TI64
  | VBase BBool _ => Some TBool
  | VBase BFloat _ => Some TF32
  | VBase BDouble _ => Some TF64
  | VBase BString _ => Some TStr
  | VBase _ _ => None
  | VName s CEnum => match find_enum m s with
                     | Some e => match en_mb e with [] => None | _ => Some TEnum end   (* no Go type is emitted for an empty enum *)
                     | None => None
                     end
  | VName s CStruct => match index_of_struct s (m_structs m) 0 with Some i => Some (TStruct i) | None => None end
  | VName _ CNone => None
  | VVec k => match ty_of m k with Some t => Some (TVec t) | None => None end
  | Parser.VMap k w => match ty_of m k, ty_of m w with
                | Some a, Some b => if key_ok a then Some (TMap a b) else None
                | _, _ => None
                end
  | VArr k len => match ty_of m k with
                  | Some t => if (0 <? len)%Z && negb (is_byte t) then Some (TArr (Z.to_nat len) t) else None
                  | None => None
                  end
  end.

(* ---------------- default literals ---------------- *)
(* a decimal literal [-]digits[.digits] as (negative, all digits as a number, number of fraction digits) *)
Fixpoint dec_digits (s : bytes) (acc : N) (frac : nat) (sawdot : bool) : option (N * nat) :=
  match s with
  | [] => Some (acc, frac)
  | c :: r => if c =? 46 then (if sawdot then None else dec_digits r acc frac true)
              else if is_digit c then dec_digits r (acc * 10 + (c - 48)) (if sawdot then S frac else frac) sawdot
              else None
  end.
Definition dec_parts (s : bytes) : option (bool * N * nat) :=
  match s with
  | c :: r => if c =? 45 then match dec_digits r 0 O false with Some (n, k) => Some (true, n, k) | None => None end
              else match dec_digits s 0 O false with Some (n, k) => Some (false, n, k) | None => None end
  | [] => None
  end.

(* IEEE bits of (-1)^neg * n / 10^k when that number is exactly a normal float of the format (a Go constant
   conversion is exact then); zero is +0 whatever the sign (Go constants have no negative zero); otherwise None *)
Definition float_bits (mant exp : N) (neg : bool) (n : N) (k : nat) : option N :=
  if n =? 0 then Some 0 else
  let p5 := 5 ^ N.of_nat k in
  if negb (n mod p5 =? 0) then None else
  let q := n / p5 in
  let nb := N.log2 q in
  let e := (Z.of_N nb - Z.of_nat k)%Z in
  let bias := (2 ^ (Z.of_N exp - 1) - 1)%Z in
  if (e <? 1 - bias)%Z || (bias <? e)%Z then None else
  let frac := q - 2 ^ nb in
  let sign := if neg then 2 ^ (mant + exp) else 0 in
  let hi := sign + Z.to_N (e + bias) * 2 ^ mant in
  if nb <=? mant then Some (hi + frac * 2 ^ (mant - nb))
  else let sh := nb - mant in
       if frac mod 2 ^ sh =? 0 then Some (hi + frac / 2 ^ sh) else None.

Definition float_lit (t : ty) (s : bytes) : option val :=
  match dec_parts s with
  | Some (neg, n, k) =>
      match t with
      | TF32 => match float_bits 23 8 neg n k with Some b => Some (VFlt b) | None => None end
      | TF64 => match float_bits 52 11 neg n k with Some b => Some (VFlt b) | None => None end
      | _ => None
      end
  | None => None
  end.

Definition int_range (t : ty) : option (Z * Z) :=
  match t with
  | TI8 => Some (-128, 127) | TU8 => Some (0, 255)
  | TI16 => Some (-32768, 32767) | TU16 => Some (0, 65535)
  | TI32 | TEnum => Some (-2147483648, 2147483647) | TU32 => Some (0, 4294967295)
  | TI64 => Some (-9223372036854775808, 9223372036854775807)
  | _ => None
  end%Z.

Definition int_lit (t : ty) (s : bytes) : option val :=
  match parse_int s, int_range t with
  | Some z, Some (lo, hi) => if (lo <=? z)%Z && (z <=? hi)%Z then Some (VInt z) else None
  | Some z, None => match t with TF32 | TF64 => float_lit t s | _ => None end
  | None, _ => None
  end.

(* the text between the quotes of [34 :: s ++ [34]]; no backslash, quote or line break (Go would read those differently) *)
Definition plain_char (c : N) : bool := negb ((c =? 92) || (c =? 34) || (c =? 10) || (c =? 13)).
Definition str_lit (d : bytes) : option val :=
  match d with
  | q :: r => match rev r with
              | q' :: body => if (q =? 34) && (q' =? 34) && forallb plain_char body then Some (VStr (rev body)) else None
              | [] => None
              end
  | [] => None
  end.

(* the enum constant a resolved default names: (enum name, value) *)
Definition enum_const (m : module) (d : bytes) : option (bytes * Z) :=
  let hit e := match enum_vals e with
               | Some kvs => match find (fun kv => beq (upper_first (en_name e) ++ [95] ++ upper_first (fst kv)) d) kvs with
                             | Some kv => Some (en_name e, snd kv)
                             | None => None
                             end
               | None => None
               end in
  (fix go (l : list enum) : option (bytes * Z) :=
     match l with
     | [] => None
     | e :: r => match hit e with Some x => Some x | None => go r end
     end) (m_enums m).

(* None = the generated Go does not compile; Some None = no declared default *)
Definition def_of (m : module) (t : ty) (sm : smember) : option (option val) :=
  match sm_deft sm with
  | DNone => Some None
  | DInt => match int_lit t (sm_def sm) with Some v => Some (Some v) | None => None end
  | DFloat => match float_lit t (sm_def sm) with Some v => Some (Some v) | None => None end
  | DStr => match t with TStr => match str_lit (sm_def sm) with Some v => Some (Some v) | None => None end | _ => None end
  | DTrue => match t with TBool => Some (Some (VBool true)) | _ => None end
  | DFalse => match t with TBool => Some (Some (VBool false)) | _ => None end
  | DName => match t, sm_ty sm, enum_const m (sm_def sm) with
             | TEnum, VName en _, Some (en', v) => if beq en en' then Some (Some (VInt v)) else None
             | _, _, _ => None
             end
  end.

Definition field_of (m : module) (sm : smember) : option field :=
  if (0 <=? sm_tag sm)%Z && (sm_tag sm <? 256)%Z then
    match ty_of m (sm_ty sm) with
    | Some t => match def_of m t sm with
                | Some d => Some {| ftag := Z.to_N (sm_tag sm); freq := sm_req sm; fty := t; fdef := d |}
                | None => None
                end
    | None => None
    end
  else None.

Definition schema_of_struct (m : module) (s : struct) : option schema := all_some (map (field_of m) (st_mb s)).
Definition env_of_module (m : module) : option env := all_some (map (schema_of_struct m) (m_structs m)).

(* ---------------- correspondence of one generated program ---------------- *)
Fixpoint ty_eqb (a b : ty) : bool :=
  match a, b with
  | TBool, TBool | TI8, TI8 | TU8, TU8 | TI16, TI16 | TU16, TU16 | TI32, TI32 | TU32, TU32 | TI64, TI64
  | TF32, TF32 | TF64, TF64 | TStr, TStr | TEnum, TEnum => true
  | TVec x, TVec y => ty_eqb x y
  | TMap k v, TMap k' v' => ty_eqb k k' && ty_eqb v v'
  | TArr n x, TArr n' y => (n =? n')%nat && ty_eqb x y
  | TStruct i, TStruct j => (i =? j)%nat
  | _, _ => false
  end.
(* [a] is the model's field (from the IDL text), [b] the one reflected from the generated code. The reflection reads
   a member's default off what ResetDefault assigns; since the repaired ResetDefault assigns EVERY member (declared
   default, else the zero value) a declared default equal to the zero value of the type cannot be told from no
   default there - and makes no difference to anything the generated code does - so it is reflected as None *)
Definition field_eqb (a b : field) : bool :=
  (ftag a =? ftag b) && Bool.eqb (freq a) (freq b) && ty_eqb (fty a) (fty b) &&
  match fdef a, fdef b with
  | None, None => true
  | Some x, Some y => val_eqb x y
  | Some x, None => val_eqb x (zero_of 1 [] (fty a))
  | _, _ => false
  end.
Definition env_eqb (a b : env) : bool := list_eqb (list_eqb field_eqb) a b.

Definition env_of_idl (input : bytes) : option (env * list (list Z)) :=
  match parse_bytes input with
  | OOk m => match env_of_module m, enums_of_module m with
             | Some e, Some vs => Some (e, vs)
             | _, _ => None
             end
  | _ => None
  end.

(* case [off]: the program's declarations (schema environment and enum constants the model derives from the IDL
   text = what the harness reflected from the generated Go); cases [off+1 ...]: encodings / decodings observed on
   the generated code against the generated-codec model instantiated at the *model's* schema *)
Definition tv_failing (idl : hexs) (genv : env) (genums : list (list Z)) (off : N) (cases : list gcase) : list N :=
  match env_of_idl (unhex idl) with
  | Some (e, vs) =>
      (if env_eqb e genv && list_eqb (list_eqb Z.eqb) vs genums then [] else [off]) ++
      failing_from (gcase_check e) (off + 1) cases
  | None => off :: failing_from (fun _ => false) (off + 1) cases
  end.

(* what the model makes of a program, for diagnostics in replays *)
Definition tv_model (idl : hexs) : option (env * list (list Z)) := env_of_idl (unhex idl).
