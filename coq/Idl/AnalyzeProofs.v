(* C16: the analysis (type-name resolution, named defaults) succeeds on every module whose user type names are
   unqualified names of structs or enums declared in the module and whose named defaults name exactly one enum
   member - so such programs are accepted, not just parsed. *)
From Coq Require Import String.
From Coq Require Import List NArith ZArith Bool Lia.
From TarsV Require Import Idl.Lexer Idl.Parser.
Import ListNotations.
Open Scope N_scope.

Definition declared (m : module) (s : bytes) : bool :=
  existsb (fun x => beq (st_name x) s) (m_structs m) || existsb (fun e => beq (en_name e) s) (m_enums m).

Fixpoint names_ok (m : module) (v : vty) : bool :=
  match v with
  | VBase _ _ => true
  | VName s _ => (count_cc s =? 0)%nat && declared m s
  | VVec k => names_ok m k
  | VMap k w => names_ok m k && names_ok m w
  | VArr k _ => names_ok m k
  end.

Definition default_ok (m : module) (sm : smember) : bool :=
  match sm_deft sm with
  | DName => match sm_def sm with
             | [] => true
             | _ => (count_cc (sm_def sm) =? 0)%nat && (length (enum_hits m (sm_def sm)) =? 1)%nat
             end
  | _ => true
  end.

Definition fun_names_ok (m : module) (f : func) : bool :=
  forallb (fun a => names_ok m (a_ty a)) (f_args f) && match f_ret f with None => true | Some t => names_ok m t end.

Definition module_names_ok (m : module) : bool :=
  forallb (fun s => forallb (fun mb => names_ok m (sm_ty mb) && default_ok m mb) (st_mb s)) (m_structs m) &&
  forallb (fun i => forallb (fun_names_ok m) (if_funcs i)) (m_ifaces m).

Lemma beq_cons : forall x y a b, beq (x :: a) (y :: b) = (x =? y) && beq a b.
Proof. reflexivity. Qed.
Lemma beq_app : forall a b c, beq (a ++ b) (a ++ c) = beq b c.
Proof. induction a as [|x a IH]; intros b c; [reflexivity|]. cbn [app]. rewrite beq_cons, N.eqb_refl, IH. reflexivity. Qed.

Lemma existsb_ext' : forall {A} (f g : A -> bool) l, (forall x, f x = g x) -> existsb f l = existsb g l.
Proof. intros A f g l H. induction l as [|x r IH]; [reflexivity|]. cbn [existsb]. rewrite H, IH. reflexivity. Qed.

Lemma find_tname_declared : forall m s, declared m s = true -> find_tname m (m_name m ++ colons ++ s) <> CNone.
Proof.
  intros m s H. unfold find_tname, declared in *.
  assert (E1 : existsb (fun s0 => beq (m_name m ++ colons ++ st_name s0) (m_name m ++ colons ++ s)) (m_structs m) = existsb (fun x => beq (st_name x) s) (m_structs m)).
  { apply existsb_ext'. intros x. rewrite !beq_app. reflexivity. }
  assert (E2 : existsb (fun e => beq (m_name m ++ colons ++ en_name e) (m_name m ++ colons ++ s)) (m_enums m) = existsb (fun e => beq (en_name e) s) (m_enums m)).
  { apply existsb_ext'. intros x. rewrite !beq_app. reflexivity. }
  rewrite E1, E2. destruct (existsb _ (m_structs m)); [discriminate|]. cbn [orb] in H. rewrite H. discriminate.
Qed.

Lemma check_tname_ok : forall m v, names_ok m v = true -> exists v', check_tname m v = Ok v'.
Proof.
  intros m. induction v as [b u | s c | k IHk | k IHk w IHw | k IHk l]; intros H; cbn [names_ok check_tname] in *.
  - eauto.
  - apply andb_true_iff in H. destruct H as [H1 H2]. rewrite H1.
    pose proof (find_tname_declared m s H2) as K. destruct (find_tname m (m_name m ++ colons ++ s)); [congruence | eauto | eauto].
  - destruct (IHk H) as [k' E]. rewrite E. cbn [bind]. eauto.
  - apply andb_true_iff in H. destruct H as [H1 H2]. destruct (IHk H1) as [k' E]. destruct (IHw H2) as [w' E2].
    rewrite E, E2. cbn [bind]. eauto.
  - destruct (IHk H) as [k' E]. rewrite E. cbn [bind]. eauto.
Qed.

Lemma map_res_ok : forall {A B} (f : A -> res B) l, (forall x, In x l -> exists y, f x = Ok y) -> exists l', map_res f l = Ok l'.
Proof.
  intros A B f. induction l as [|x r IH]; intros H; cbn [map_res]; [eauto|].
  destruct (H x (or_introl eq_refl)) as [y E]. rewrite E. cbn [bind].
  destruct IH as [ys E2]; [intros z Hz; apply H; right; exact Hz|]. rewrite E2. cbn [bind]. eauto.
Qed.

Lemma map_res_in : forall {A B} (f : A -> res B) l l', map_res f l = Ok l' -> forall y, In y l' -> exists x, In x l /\ f x = Ok y.
Proof.
  intros A B f. induction l as [|x r IH]; intros l' H y Hy; cbn [map_res] in H.
  - inversion H; subst. destruct Hy.
  - destruct (f x) as [y0| |] eqn:E; cbn [bind] in H; try discriminate.
    destruct (map_res f r) as [ys| |] eqn:E2; cbn [bind] in H; try discriminate.
    inversion H; subst. destruct Hy as [->|Hy]; [exists x; split; [left; reflexivity | exact E]|].
    destruct (IH _ eq_refl y Hy) as [x0 [I0 F0]]. exists x0. split; [right; exact I0 | exact F0].
Qed.

Lemma analyze_default_ok : forall m sm, default_ok m sm = true -> exists sm', analyze_default m sm = Ok sm' /\ sm_ty sm' = sm_ty sm.
Proof.
  intros m sm H. unfold default_ok, analyze_default in *. destruct (sm_deft sm); eauto.
  destruct (sm_def sm) as [|c r]; [eauto|].
  apply andb_true_iff in H. destruct H as [H1 H2]. rewrite H1. apply Nat.eqb_eq in H2.
  destruct (enum_hits m (c :: r)) as [|[e mb] [|? ?]]; cbn [length] in H2; try discriminate. eexists. split; reflexivity.
Qed.

Theorem analyze_succeeds : forall m, module_names_ok m = true -> exists m', analyze m = Ok m'.
Proof.
  intros m H. unfold module_names_ok in H. apply andb_true_iff in H. destruct H as [Hs Hi].
  rewrite forallb_forall in Hs. rewrite forallb_forall in Hi. unfold analyze.
  (* defaults *)
  destruct (map_res_ok (fun s => bind (map_res (analyze_default m) (st_mb s)) (fun mbs => Ok {| st_name := st_name s; st_mb := mbs |})) (m_structs m)) as [sts1 E1].
  { intros s Hin. specialize (Hs s Hin). rewrite forallb_forall in Hs.
    destruct (map_res_ok (analyze_default m) (st_mb s)) as [mbs E].
    { intros mb Hmb. specialize (Hs mb Hmb). apply andb_true_iff in Hs. destruct Hs as [_ Hd].
      destruct (analyze_default_ok m mb Hd) as [mb' [E _]]. eauto. }
    rewrite E. cbn [bind]. eauto. }
  rewrite E1. cbn [bind].
  (* types of the members: unchanged by the first pass *)
  destruct (map_res_ok (fun s => bind (map_res (analyze_member m) (st_mb s)) (fun mbs => Ok {| st_name := st_name s; st_mb := mbs |})) sts1) as [sts2 E2].
  { intros s1 Hin. destruct (map_res_in _ _ _ E1 s1 Hin) as [s [Hs0 Fs]]. cbv beta in Fs.
    destruct (map_res (analyze_default m) (st_mb s)) as [mbs| |] eqn:Em; cbn [bind] in Fs; try discriminate. inversion Fs; subst. cbn [st_mb].
    specialize (Hs s Hs0). rewrite forallb_forall in Hs.
    destruct (map_res_ok (analyze_member m) mbs) as [mbs2 E].
    { intros mb1 Hmb1. destruct (map_res_in _ _ _ Em mb1 Hmb1) as [mb [Hmb Fmb]].
      specialize (Hs mb Hmb). apply andb_true_iff in Hs. destruct Hs as [Hn Hd].
      destruct (analyze_default_ok m mb Hd) as [mb' [E' Ety]]. rewrite E' in Fmb. inversion Fmb; subst.
      unfold analyze_member. rewrite Ety. destruct (check_tname_ok m (sm_ty mb) Hn) as [v' Ev]. rewrite Ev. cbn [bind]. eauto. }
    rewrite E. cbn [bind]. eauto. }
  rewrite E2. cbn [bind].
  (* interfaces *)
  destruct (map_res_ok (fun i => bind (map_res (analyze_fun m) (if_funcs i)) (fun fs => Ok {| if_name := if_name i; if_funcs := fs |})) (m_ifaces m)) as [ifs E3].
  { intros i Hin. specialize (Hi i Hin). rewrite forallb_forall in Hi.
    destruct (map_res_ok (analyze_fun m) (if_funcs i)) as [fs E].
    { intros f Hf. specialize (Hi f Hf). unfold fun_names_ok in Hi. apply andb_true_iff in Hi. destruct Hi as [Ha Hr].
      rewrite forallb_forall in Ha. unfold analyze_fun.
      destruct (map_res_ok (analyze_arg m) (f_args f)) as [args Ea].
      { intros a Hin'. unfold analyze_arg. destruct (check_tname_ok m (a_ty a) (Ha a Hin')) as [v' Ev]. rewrite Ev. cbn [bind]. eauto. }
      rewrite Ea. cbn [bind]. destruct (f_ret f) as [t|]; [|cbn [bind]; eauto].
      destruct (check_tname_ok m t Hr) as [t' Et]. rewrite Et. cbn [bind]. eauto. }
    rewrite E. cbn [bind]. eauto. }
  rewrite E3. cbn [bind]. eauto.
Qed.

(* ---------------- what a successful analysis guarantees: no unresolved user type at any depth ---------------- *)
(* the generator chooses between enum and struct code by the resolved kind of a user type (CType), for members,
   vector elements, map keys AND values, array elements, parameters and results *)
Fixpoint resolved (v : vty) : bool :=
  match v with
  | VBase _ _ => true
  | VName _ c => match c with CNone => false | _ => true end
  | VVec k => resolved k
  | VMap k w => resolved k && resolved w
  | VArr k _ => resolved k
  end.

Definition fun_resolved (f : func) : bool :=
  forallb (fun a => resolved (a_ty a)) (f_args f) && match f_ret f with None => true | Some t => resolved t end.
Definition module_resolved (m : module) : bool :=
  forallb (fun s => forallb (fun mb => resolved (sm_ty mb)) (st_mb s)) (m_structs m) &&
  forallb (fun i => forallb fun_resolved (if_funcs i)) (m_ifaces m).

Lemma check_tname_resolved : forall m v v', check_tname m v = Ok v' -> resolved v' = true.
Proof.
  intros m. induction v as [b u | s c | k IHk | k IHk w IHw | k IHk l]; intros v' H; cbn [check_tname] in H.
  - inversion H; reflexivity.
  - destruct (find_tname m _); inversion H; reflexivity.
  - destruct (check_tname m k) as [k'| |] eqn:E; cbn [bind] in H; try discriminate. inversion H; subst. cbn [resolved]. eauto.
  - destruct (check_tname m k) as [k'| |] eqn:E; cbn [bind] in H; try discriminate.
    destruct (check_tname m w) as [w'| |] eqn:E2; cbn [bind] in H; try discriminate. inversion H; subst.
    cbn [resolved]. rewrite (IHk _ eq_refl), (IHw _ eq_refl). reflexivity.
  - destruct (check_tname m k) as [k'| |] eqn:E; cbn [bind] in H; try discriminate. inversion H; subst. cbn [resolved]. eauto.
Qed.

Lemma map_res_forallb : forall {A B} (f : A -> res B) (P : B -> bool), (forall x y, f x = Ok y -> P y = true) ->
  forall l l', map_res f l = Ok l' -> forallb P l' = true.
Proof.
  intros A B f P Hf l l' H. apply forallb_forall. intros y Hy.
  destruct (map_res_in f l l' H y Hy) as [x [_ E]]. eapply Hf; eauto.
Qed.

Theorem analyze_resolves : forall m m', analyze m = Ok m' -> module_resolved m' = true.
Proof.
  intros m m' H. unfold analyze in H.
  destruct (map_res _ (m_structs m)) as [sts1| |] eqn:E1; cbn [bind] in H; try discriminate.
  destruct (map_res _ sts1) as [sts2| |] eqn:E2; cbn [bind] in H; try discriminate.
  destruct (map_res _ (m_ifaces m)) as [ifs| |] eqn:E3; cbn [bind] in H; try discriminate.
  inversion H; subst; clear H. unfold module_resolved. cbn [m_structs m_ifaces]. apply andb_true_iff; split.
  - eapply map_res_forallb; [|exact E2]. intros s s' K. cbv beta in K.
    destruct (map_res (analyze_member m) (st_mb s)) as [mbs| |] eqn:K1; cbn [bind] in K; try discriminate. inversion K; subst. cbn [st_mb].
    eapply map_res_forallb; [|exact K1]. intros x y Q. unfold analyze_member in Q.
    destruct (check_tname m (sm_ty x)) as [ty| |] eqn:Et; cbn [bind] in Q; try discriminate. inversion Q; subst. cbn [sm_ty].
    eapply check_tname_resolved; eauto.
  - eapply map_res_forallb; [|exact E3]. intros i i' K. cbv beta in K.
    destruct (map_res (analyze_fun m) (if_funcs i)) as [fs| |] eqn:K1; cbn [bind] in K; try discriminate. inversion K; subst. cbn [if_funcs].
    eapply map_res_forallb; [|exact K1]. intros f f' Q. unfold analyze_fun in Q.
    destruct (map_res (analyze_arg m) (f_args f)) as [args| |] eqn:Ea; cbn [bind] in Q; try discriminate.
    unfold fun_resolved.
    assert (Ha : forallb (fun a => resolved (a_ty a)) args = true).
    { eapply map_res_forallb; [|exact Ea]. intros a a' R. unfold analyze_arg in R.
      destruct (check_tname m (a_ty a)) as [ty| |] eqn:Et; cbn [bind] in R; try discriminate. inversion R; subst. cbn [a_ty].
      eapply check_tname_resolved; eauto. }
    destruct (f_ret f) as [t|].
    + destruct (check_tname m t) as [t'| |] eqn:Et; cbn [bind] in Q; try discriminate. inversion Q; subst. cbn [f_args f_ret].
      rewrite Ha. eapply check_tname_resolved; eauto.
    + cbn [bind] in Q. inversion Q; subst. cbn [f_args f_ret]. rewrite Ha. reflexivity.
Qed.

Theorem parse_bytes_resolved : forall input m, parse_bytes input = OOk m -> module_resolved m = true.
Proof.
  intros input m H. unfold parse_bytes, parse_bytes_gen in H.
  destruct (tokens_of input) as [ts| |]; try discriminate.
  unfold parse_tokens_gen in H.
  destruct (file_loop true (parse_fuel ts) empty_file ts) as [fl| |]; try discriminate.
  destruct (fl_includes fl); try discriminate. destruct (fl_more fl); try discriminate.
  destruct (fl_primary fl) as [m0|].
  - destruct (analyze m0) as [m1| |] eqn:E; try discriminate. inversion H; subst. eapply analyze_resolves; eauto.
  - inversion H; subst. reflexivity.
Qed.

(* the witness the statement needs: a map whose VALUE is an enum, a vector of a struct, an array of an enum *)
Example resolved_instance :
  match parse_bytes (bs "module M { enum Color { RED }; struct In { 0 require int x; }; struct S { 0 require map<string, Color> m; 1 optional vector<In> v; 2 optional Color a[2]; 3 optional map<Color, vector<In>> d; }; interface I { Color f(map<int, Color> a, out vector<Color> b); }; };") with
  | OOk m => Some (map (fun mb => sm_ty mb) (st_mb (nth 1 (m_structs m) {| st_name := []; st_mb := [] |})))
  | _ => None
  end = Some [ VMap (VBase BString false) (VName (bs "Color") CEnum); VVec (VName (bs "In") CStruct);
               VArr (VName (bs "Color") CEnum) 2; VMap (VName (bs "Color") CEnum) (VVec (VName (bs "In") CStruct)) ].
Proof. vm_compute. reflexivity. Qed.
