(* C16: several files (Idl/Include.v).  NewParse terminates on every finite file system - the chain of including
   files never repeats a name (newParse's circular-reference diagnostic) and every name on it is a file, so it is no
   longer than the number of files; without included files the multi-file front end is the single-file one; a
   successful analysis leaves no user type unresolved, also across files. *)
From Coq Require Import String.
From Coq Require Import List NArith ZArith Bool Lia.
From TarsV Require Import Idl.Lexer Idl.LexerProofs Idl.Parser Idl.ParserProofs Idl.Include Idl.AnalyzeProofs.
Import ListNotations.
Open Scope N_scope.

Lemma beq_true : forall a b, beq a b = true -> a = b.
Proof.
  induction a as [|x a IH]; destruct b as [|y b]; intros H; try reflexivity; try discriminate.
  rewrite beq_cons in H. apply andb_true_iff in H. destruct H as [H1 H2]. apply N.eqb_eq in H1. subst. f_equal. apply IH. exact H2.
Qed.
Lemma beq_refl : forall a, beq a a = true.
Proof. induction a as [|x a IH]; [reflexivity|]. rewrite beq_cons, N.eqb_refl, IH. reflexivity. Qed.

Lemma existsb_beq_false : forall name chain, existsb (beq name) chain = false -> ~ In name chain.
Proof.
  intros name chain H Hin. assert (K : existsb (beq name) chain = true).
  { apply existsb_exists. exists name. split; [exact Hin | apply beq_refl]. }
  congruence.
Qed.

Lemma fs_of_in : forall files name d, fs_of files name = Some d -> In name (map fst files).
Proof.
  induction files as [|[n x] r IH]; intros name d H; cbn [fs_of] in H; [discriminate|].
  destruct (beq n name) eqn:E; cbn [map fst In].
  - left. apply beq_true. exact E.
  - right. eapply IH; eauto.
Qed.

Lemma NoDup_app_one : forall {A} (l : list A) x, NoDup l -> ~ In x l -> NoDup (l ++ [x]).
Proof.
  intros A l x H. induction H as [|y l Hy Hl IH]; intros Hx; cbn [app].
  - constructor; [intros [] | constructor].
  - constructor.
    + intros K. apply in_app_or in K. destruct K as [K|[K|[]]]; [exact (Hy K) | subst; apply Hx; left; reflexivity].
    + apply IH. intros K. apply Hx. right. exact K.
Qed.

(* ---------------- termination ---------------- *)
Lemma parse_incs_not_fuel : forall (pf : bytes -> fres) names, (forall n, pf n <> FFuel) -> parse_incs pf names <> inl FFuel.
Proof.
  intros pf. induction names as [|n r IH]; intros H; cbn [parse_incs]; [discriminate|].
  specialize (H n) as Hn. destruct (pf n) eqn:E; try (intros K; inversion K; congruence).
  specialize (IH H). destruct (parse_incs pf r) as [e|ts]; [intros K; inversion K; congruence | discriminate].
Qed.

Lemma parse_file_terminates : forall files fuel name chain,
  NoDup chain -> incl chain (map fst files) -> (length (map fst files) < fuel + length chain)%nat ->
  parse_file (fs_of files) fuel name chain <> FFuel.
Proof.
  intros files. induction fuel as [|f IH]; intros name chain Hnd Hincl Hlen.
  - exfalso. pose proof (NoDup_incl_length Hnd Hincl). lia.
  - cbn [parse_file]. destruct (existsb (beq name) chain) eqn:Ex; [discriminate|].
    destruct (fs_of files name) as [data|] eqn:Ef; [|discriminate].
    destruct (tokens_of_ok data) as [ts [Et _]]. rewrite Et.
    pose proof (file_loop_wp (parse_fuel ts) empty_file ts ltac:(unfold parse_fuel; lia)) as W.
    destruct (file_loop true (parse_fuel ts) empty_file ts) as [fl| |]; [|discriminate|contradiction].
    destruct (fl_more fl); [|discriminate].
    assert (G : parse_incs (fun n => parse_file (fs_of files) f n (chain ++ [name])) (fl_includes fl) <> inl FFuel).
    { apply parse_incs_not_fuel. intros n. apply IH.
      - apply NoDup_app_one; [exact Hnd | apply existsb_beq_false; exact Ex].
      - intros x Hx. apply in_app_or in Hx. destruct Hx as [Hx|[<-|[]]]; [apply Hincl; exact Hx | eapply fs_of_in; eauto].
      - rewrite app_length. cbn [length]. lia. }
    destruct (parse_incs _ (fl_includes fl)) as [e|incs]; [intros K; apply G; congruence|].
    destruct (analyze_t _ incs); discriminate.
Qed.

Theorem parse_fs_terminates : forall input files, parse_fs input files <> FFuel.
Proof.
  intros input files. unfold parse_fs. apply parse_file_terminates.
  - constructor.
  - intros x [].
  - cbn [map fst length]. rewrite map_length. lia.
Qed.

(* ---------------- without included files: the single-file front end ---------------- *)
Lemma find_tname_t_nil : forall m full,
  find_tname_t (PT m []) full = match find_tname m full with CNone => None | c => Some (c, m_name m) end.
Proof. intros. cbn [find_tname_t]. destruct (find_tname m full); reflexivity. Qed.

Lemma check_tname_t_nil : forall m v, check_tname_t m [] v = check_tname m v.
Proof.
  intros m. induction v as [b u | s c | k IHk | k IHk w IHw | k IHk l]; cbn [check_tname_t check_tname].
  - reflexivity.
  - rewrite find_tname_t_nil. destruct (find_tname m _); [reflexivity | rewrite beq_refl; reflexivity | rewrite beq_refl; reflexivity].
  - rewrite IHk. reflexivity.
  - rewrite IHk, IHw. reflexivity.
  - rewrite IHk. reflexivity.
Qed.

Lemma analyze_default_t_nil : forall m sm, analyze_default_t m [] sm = analyze_default m sm.
Proof.
  intros m sm. unfold analyze_default_t, analyze_default. destruct (sm_deft sm); try reflexivity.
  destruct (sm_def sm) as [|c r]; [reflexivity|]. cbn [find_enum_t].
  destruct (enum_hits m _) as [|[e mb] [|? ?]]; try reflexivity.
  rewrite beq_refl. cbn [negb andb]. rewrite andb_false_r. reflexivity.
Qed.

Lemma map_res_ext : forall {A B} (f g : A -> res B) l, (forall x, f x = g x) -> map_res f l = map_res g l.
Proof. intros A B f g l H. induction l as [|x r IH]; [reflexivity|]. cbn [map_res]. rewrite H, IH. reflexivity. Qed.

Lemma analyze_t_nil : forall m, analyze_t m [] = analyze m.
Proof.
  intros m. unfold analyze_t, analyze.
  rewrite (map_res_ext _ (fun s => mbs <- map_res (analyze_default m) (st_mb s) ;; Ok {| st_name := st_name s; st_mb := mbs |})).
  2:{ intros s. rewrite (map_res_ext _ (analyze_default m)); [reflexivity | apply analyze_default_t_nil]. }
  destruct (map_res _ (m_structs m)) as [sts1| |]; cbn [bind]; try reflexivity.
  rewrite (map_res_ext _ (fun s => mbs <- map_res (analyze_member m) (st_mb s) ;; Ok {| st_name := st_name s; st_mb := mbs |})).
  2:{ intros s. rewrite (map_res_ext _ (analyze_member m)); [reflexivity|]. intros x. unfold analyze_member_t, analyze_member. rewrite check_tname_t_nil. reflexivity. }
  destruct (map_res _ sts1) as [sts2| |]; cbn [bind]; try reflexivity.
  rewrite (map_res_ext _ (fun i => fs <- map_res (analyze_fun m) (if_funcs i) ;; Ok {| if_name := if_name i; if_funcs := fs |})).
  2:{ intros i. rewrite (map_res_ext _ (analyze_fun m)); [reflexivity|]. intros f. unfold analyze_fun_t, analyze_fun.
      rewrite (map_res_ext _ (analyze_arg m)).
      2:{ intros a. unfold analyze_arg_t, analyze_arg. rewrite check_tname_t_nil. reflexivity. }
      destruct (f_ret f); [rewrite check_tname_t_nil|]; reflexivity. }
  reflexivity.
Qed.

Theorem parse_fs_single_file : forall input m, parse_bytes input = OOk m -> parse_fs input [] = FOk (PT m []).
Proof.
  intros input m H. unfold parse_fs. cbn [length parse_file existsb fs_of]. unfold main_name at 1. rewrite beq_refl.
  unfold parse_bytes, parse_bytes_gen in H. destruct (tokens_of input) as [ts| |]; try discriminate.
  unfold parse_tokens_gen in H. destruct (file_loop true (parse_fuel ts) empty_file ts) as [fl| |]; try discriminate.
  destruct (fl_includes fl); try discriminate. destruct (fl_more fl); try discriminate. cbn [parse_incs].
  rewrite analyze_t_nil. destruct (fl_primary fl) as [m0|].
  - destruct (analyze m0) as [m1| |]; try discriminate. inversion H; subst. reflexivity.
  - inversion H; subst. reflexivity.
Qed.

(* ---------------- no unresolved user type, also across files ---------------- *)
Lemma check_tname_t_resolved : forall m incs v v', check_tname_t m incs v = Ok v' -> resolved v' = true.
Proof.
  intros m incs. induction v as [b u | s c | k IHk | k IHk w IHw | k IHk l]; intros v' H; cbn [check_tname_t] in H.
  - inversion H; reflexivity.
  - destruct (find_tname_t (PT m incs) _) as [[c0 modn]|] eqn:E; try discriminate.
    assert (Hc : c0 <> CNone).
    { clear -E. revert E. generalize (if (count_cc s =? 0)%nat then m_name m ++ colons ++ s else s). intros full.
      assert (G : forall t c modn, find_tname_t t full = Some (c, modn) -> c <> CNone).
      { fix IH 1. intros [m0 l0] c1 modn1 K. cbn [find_tname_t] in K.
        destruct (find_tname m0 full) eqn:Ef; [|inversion K; subst; discriminate | inversion K; subst; discriminate].
        induction l0 as [|x r IHr]; [discriminate|].
        destruct (find_tname_t x full) as [[c2 m2]|] eqn:Ex; [inversion K; subst; eapply IH; exact Ex | apply IHr; exact K]. }
      apply G. }
    destruct (beq modn (m_name m)); inversion H; subst; cbn [resolved]; destruct c0; try reflexivity; congruence.
  - destruct (check_tname_t m incs k) as [k'| |] eqn:E; cbn [bind] in H; try discriminate. inversion H; subst. cbn [resolved]. eauto.
  - destruct (check_tname_t m incs k) as [k'| |] eqn:E; cbn [bind] in H; try discriminate.
    destruct (check_tname_t m incs w) as [w'| |] eqn:E2; cbn [bind] in H; try discriminate. inversion H; subst.
    cbn [resolved]. rewrite (IHk _ eq_refl), (IHw _ eq_refl). reflexivity.
  - destruct (check_tname_t m incs k) as [k'| |] eqn:E; cbn [bind] in H; try discriminate. inversion H; subst. cbn [resolved]. eauto.
Qed.

Theorem analyze_t_resolves : forall m incs m', analyze_t m incs = Ok m' -> module_resolved m' = true.
Proof.
  intros m incs m' H. unfold analyze_t in H.
  destruct (map_res _ (m_structs m)) as [sts1| |] eqn:E1; cbn [bind] in H; try discriminate.
  destruct (map_res _ sts1) as [sts2| |] eqn:E2; cbn [bind] in H; try discriminate.
  destruct (map_res _ (m_ifaces m)) as [ifs| |] eqn:E3; cbn [bind] in H; try discriminate.
  inversion H; subst; clear H. unfold module_resolved. cbn [m_structs m_ifaces]. apply andb_true_iff; split.
  - eapply map_res_forallb; [|exact E2]. intros s s' K. cbv beta in K.
    destruct (map_res (analyze_member_t m incs) (st_mb s)) as [mbs| |] eqn:K1; cbn [bind] in K; try discriminate. inversion K; subst. cbn [st_mb].
    eapply map_res_forallb; [|exact K1]. intros x y Q. unfold analyze_member_t in Q.
    destruct (check_tname_t m incs (sm_ty x)) as [ty| |] eqn:Et; cbn [bind] in Q; try discriminate. inversion Q; subst. cbn [sm_ty].
    eapply check_tname_t_resolved; eauto.
  - eapply map_res_forallb; [|exact E3]. intros i i' K. cbv beta in K.
    destruct (map_res (analyze_fun_t m incs) (if_funcs i)) as [fs| |] eqn:K1; cbn [bind] in K; try discriminate. inversion K; subst. cbn [if_funcs].
    eapply map_res_forallb; [|exact K1]. intros f f' Q. unfold analyze_fun_t in Q.
    destruct (map_res (analyze_arg_t m incs) (f_args f)) as [args| |] eqn:Ea; cbn [bind] in Q; try discriminate.
    unfold fun_resolved.
    assert (Ha : forallb (fun a => resolved (a_ty a)) args = true).
    { eapply map_res_forallb; [|exact Ea]. intros a a' R. unfold analyze_arg_t in R.
      destruct (check_tname_t m incs (a_ty a)) as [ty| |] eqn:Et; cbn [bind] in R; try discriminate. inversion R; subst. cbn [a_ty].
      eapply check_tname_t_resolved; eauto. }
    destruct (f_ret f) as [t|].
    + destruct (check_tname_t m incs t) as [t'| |] eqn:Et; cbn [bind] in Q; try discriminate. inversion Q; subst. cbn [f_args f_ret].
      rewrite Ha. eapply check_tname_t_resolved; eauto.
    + cbn [bind] in Q. inversion Q; subst. cbn [f_args f_ret]. rewrite Ha. reflexivity.
Qed.

Lemma parse_incs_inl_not_ok : forall (pf : bytes -> fres) names t, parse_incs pf names <> inl (FOk t).
Proof.
  intros pf. induction names as [|n r IH]; intros t; cbn [parse_incs]; [discriminate|].
  destruct (pf n); try discriminate. specialize (IH t). destruct (parse_incs pf r); [|discriminate].
  intros K. apply IH. exact K.
Qed.

Lemma parse_file_resolved : forall fs fuel name chain t, parse_file fs fuel name chain = FOk t -> module_resolved (pt_mod t) = true.
Proof.
  intros fs fuel name chain t H. destruct fuel as [|f]; [discriminate|]. cbn [parse_file] in H.
  destruct (existsb (beq name) chain); try discriminate. destruct (fs name); try discriminate.
  destruct (tokens_of b) as [ts| |]; try discriminate.
  destruct (file_loop true (parse_fuel ts) empty_file ts) as [fl| |]; try discriminate.
  destruct (fl_more fl); try discriminate.
  destruct (parse_incs _ (fl_includes fl)) as [e|incs] eqn:Ei.
  - exfalso. subst e. eapply parse_incs_inl_not_ok; eauto.
  - destruct (analyze_t _ incs) as [m'| |] eqn:E; try discriminate. inversion H; subst. cbn [pt_mod]. eapply analyze_t_resolves; eauto.
Qed.

Theorem parse_fs_resolved : forall input files t, parse_fs input files = FOk t -> module_resolved (pt_mod t) = true.
Proof. intros input files t H. eapply parse_file_resolved; exact H. Qed.

(* a concrete file system: two levels of includes, a type and an enum default of an included module *)
Example parse_fs_instance :
  match parse_fs (bs "#include ""d.tars"" module M { struct S { 0 require E::T t; 1 optional D::F f = X; 2 optional map<string, E::T> m; }; };")
          [ (bs "d.tars", bs "#include ""e.tars"" module D { enum F { A, X }; };"); (bs "e.tars", bs "module E { struct T { 0 require int x; }; };") ] with
  | FOk (PT m _) => Some (map (fun mb => (sm_ty mb, sm_def mb)) (st_mb (nth 0 (m_structs m) {| st_name := []; st_mb := [] |})))
  | _ => None
  end = Some [ (VName (bs "E::T") CStruct, []); (VName (bs "D::F") CEnum, bs "D.F_X"); (VMap (VBase BString false) (VName (bs "E::T") CStruct), []) ].
Proof. vm_compute. reflexivity. Qed.
Example parse_fs_circular : parse_fs (bs "#include ""d.tars"" module M { };") [ (bs "d.tars", bs "#include ""in.tars"" module D { };") ] = FErr.
Proof. vm_compute. reflexivity. Qed.

(* ---------------- every user type named in a file's generated code has its defining module imported ---------------- *)
(* FindTNameType reports the module that DEFINES the type: the name looked up is that module's name, "::", and the
   name of one of its structs or enums - however deep in the include tree the module sits *)
Lemma beq_sym_true : forall a b, beq a b = true -> beq b a = true.
Proof. intros a b H. apply beq_true in H. subst. apply beq_refl. Qed.

Lemma find_tname_owner : forall m full, find_tname m full <> CNone ->
  exists n, full = m_name m ++ colons ++ n /\
            (existsb (fun s => beq (st_name s) n) (m_structs m) || existsb (fun e => beq (en_name e) n) (m_enums m)) = true.
Proof.
  intros m full H. unfold find_tname in H.
  destruct (existsb (fun s => beq (m_name m ++ colons ++ st_name s) full) (m_structs m)) eqn:E1.
  - apply existsb_exists in E1. destruct E1 as [s [Hin Hb]]. apply beq_true in Hb. exists (st_name s). split; [symmetry; exact Hb|].
    apply orb_true_iff. left. apply existsb_exists. exists s. split; [exact Hin | apply beq_refl].
  - destruct (existsb (fun e => beq (m_name m ++ colons ++ en_name e) full) (m_enums m)) eqn:E2; [|congruence].
    apply existsb_exists in E2. destruct E2 as [e [Hin Hb]]. apply beq_true in Hb. exists (en_name e). split; [symmetry; exact Hb|].
    apply orb_true_iff. right. apply existsb_exists. exists e. split; [exact Hin | apply beq_refl].
Qed.

(* the modules of a tree of parsed files *)
Fixpoint tree_modules (t : ptree) : list module :=
  match t with PT m incs => m :: flat_map tree_modules incs end.

Theorem find_tname_t_owner : forall t full c modn, find_tname_t t full = Some (c, modn) ->
  exists m n, In m (tree_modules t) /\ m_name m = modn /\ full = modn ++ colons ++ n /\
              (existsb (fun s => beq (st_name s) n) (m_structs m) || existsb (fun e => beq (en_name e) n) (m_enums m)) = true.
Proof.
  fix IH 1. intros [m0 l0] full c modn H. cbn [find_tname_t] in H.
  destruct (find_tname m0 full) eqn:Ef.
  - (* not in this file's module: the included files, in order *)
    assert (G : forall l, (fix go (l : list ptree) : option (ctype * bytes) :=
                             match l with [] => None | x :: r => match find_tname_t x full with Some h => Some h | None => go r end end) l = Some (c, modn) ->
                exists m n, In m (flat_map tree_modules l) /\ m_name m = modn /\ full = modn ++ colons ++ n /\
                  (existsb (fun s => beq (st_name s) n) (m_structs m) || existsb (fun e => beq (en_name e) n) (m_enums m)) = true).
    { induction l as [|x r IHr]; intros K; [discriminate|].
      destruct (find_tname_t x full) as [[c1 m1]|] eqn:Ex.
      - inversion K; subst. destruct (IH x full c modn Ex) as [m [n [Hin Hr]]]. exists m, n. split; [|exact Hr].
        cbn [flat_map]. apply in_or_app. left. exact Hin.
      - destruct (IHr K) as [m [n [Hin Hr]]]. exists m, n. split; [|exact Hr]. cbn [flat_map]. apply in_or_app. right. exact Hin. }
    destruct (G l0 H) as [m [n [Hin Hr]]]. exists m, n. split; [|exact Hr]. cbn [tree_modules]. right. exact Hin.
  - inversion H; subst. destruct (find_tname_owner m0 full) as [n [E Hd]]; [congruence|].
    exists m0, n. split; [cbn [tree_modules]; left; reflexivity|]. split; [reflexivity|]. split; assumption.
  - inversion H; subst. destruct (find_tname_owner m0 full) as [n [E Hd]]; [congruence|].
    exists m0, n. split; [cbn [tree_modules]; left; reflexivity|]. split; [reflexivity|]. split; assumption.
Qed.

(* names without ':' (what the IDL files of practice use; the lexer also lets one "::" through in a declared name) *)
Definition no_colon (s : bytes) : bool := forallb (fun c => negb (c =? 58)) s.
Definition module_plain (m : module) : bool :=
  no_colon (m_name m) && forallb (fun s => no_colon (st_name s)) (m_structs m) && forallb (fun e => no_colon (en_name e)) (m_enums m).

Lemma mod_prefix_app : forall a r, no_colon a = true -> mod_prefix (a ++ colons ++ r) = a.
Proof.
  induction a as [|x a IH]; intros r H.
  - reflexivity.
  - cbn [no_colon forallb] in H. apply andb_true_iff in H. destruct H as [Hx Ha]. apply negb_true_iff in Hx.
    cbn [app mod_prefix]. destruct (a ++ colons ++ r) as [|b q] eqn:E.
    + destruct a; discriminate.
    + rewrite Hx. cbn [andb]. rewrite <- E. rewrite (IH r Ha). reflexivity.
Qed.

Lemma count_cc_cons2 : forall a b r, count_cc (a :: b :: r) = if (a =? 58) && (b =? 58) then S (count_cc r) else count_cc (b :: r).
Proof. reflexivity. Qed.
Lemma count_cc_no_colon : forall s, no_colon s = true -> count_cc s = O.
Proof.
  induction s as [|a s IH]; intros H; [reflexivity|]. destruct s as [|b r]; [reflexivity|].
  cbn [no_colon forallb] in H. apply andb_true_iff in H. destruct H as [Ha Hr]. apply negb_true_iff in Ha.
  rewrite count_cc_cons2, Ha. cbn [andb]. apply IH. exact Hr.
Qed.

Lemma has_prefix_cc : forall p s, has_prefix (p ++ colons) s = true -> count_cc s <> O.
Proof.
  induction p as [|a p IH]; intros s H.
  - destruct s as [|x [|y r]]; cbn [app colons has_prefix] in H.
    + discriminate.
    + apply andb_true_iff in H. destruct H as [_ H]. discriminate.
    + apply andb_true_iff in H. destruct H as [H1 H2]. apply andb_true_iff in H2. destruct H2 as [H2 _].
      apply N.eqb_eq in H1. apply N.eqb_eq in H2. subst. rewrite count_cc_cons2. change (58 =? 58) with true. cbn [andb]. discriminate.
  - destruct s as [|x s']; [discriminate|]. cbn [app has_prefix] in H. apply andb_true_iff in H. destruct H as [_ H].
    specialize (IH s' H). destruct s' as [|y r]; [exfalso; apply IH; reflexivity|].
    rewrite count_cc_cons2. destruct ((x =? 58) && (y =? 58)); [discriminate | exact IH].
Qed.

Lemma remove_first_none : forall p s, count_cc s = O -> remove_first (p ++ colons) s = s.
Proof.
  intros p. induction s as [|c r IH]; intros H; [reflexivity|]. cbn [remove_first].
  destruct (has_prefix (p ++ colons) (c :: r)) eqn:E; [exfalso; exact (has_prefix_cc _ _ E H)|].
  f_equal. apply IH. destruct r as [|b q]; [reflexivity|]. rewrite count_cc_cons2 in H. destruct ((c =? 58) && (b =? 58)); [discriminate | exact H].
Qed.

Lemma has_prefix_app : forall p r, has_prefix p (p ++ r) = true.
Proof. induction p as [|a p IH]; intros r; [reflexivity|]. cbn [app has_prefix]. rewrite N.eqb_refl, IH. reflexivity. Qed.
Lemma skipn_app_len : forall (p r : bytes), skipn (length p) (p ++ r) = r.
Proof. induction p as [|a p IH]; intros r; [reflexivity|]. cbn [length app skipn]. apply IH. Qed.
Lemma remove_first_prefix : forall p r, p <> [] -> remove_first p (p ++ r) = r.
Proof.
  intros p r Hp. destruct p as [|a p]; [congruence|]. cbn [app remove_first].
  change (a :: p ++ r) with ((a :: p) ++ r). rewrite has_prefix_app. apply (skipn_app_len (a :: p) r).
Qed.

(* the statement: in a tree of files whose declared names contain no ':', every module that the analysed type names
   (and so the generated code: Mod::T -> Mod.T) is among the modules checkDepTName records for the imports *)
Theorem imports_cover : forall m incs v v', forallb module_plain (tree_modules (PT m incs)) = true ->
  check_tname_t m incs v = Ok v' -> incl (used_modules v') (recorded_deps m incs v).
Proof.
  intros m incs v. induction v as [b u | s c | k IHk | k IHk w IHw | k IHk l]; intros v' Hp H; cbn [check_tname_t] in H.
  - inversion H; subst. intros x [].
  - cbn [recorded_deps]. destruct (find_tname_t (PT m incs) _) as [[c0 modn]|] eqn:E; try discriminate.
    destruct (find_tname_t_owner _ _ _ _ E) as [m1 [n [Hin [Hname [Hfull Hdecl]]]]].
    rewrite forallb_forall in Hp. pose proof (Hp m1 Hin) as Hm1. unfold module_plain in Hm1.
    apply andb_true_iff in Hm1. destruct Hm1 as [Hm1 He]. apply andb_true_iff in Hm1. destruct Hm1 as [Hmn Hs].
    assert (Hn : no_colon n = true).
    { apply orb_true_iff in Hdecl. destruct Hdecl as [D|D]; apply existsb_exists in D; destruct D as [x [Hx Hb]]; apply beq_true in Hb; subst n.
      - rewrite forallb_forall in Hs. apply Hs. exact Hx.
      - rewrite forallb_forall in He. apply He. exact Hx. }
    subst modn. set (mn := m_name m1) in *.
    destruct (count_cc s =? 0)%nat eqn:Ec.
    + (* unqualified in the source: never names a module *)
      pose proof Ec as Ec'. apply Nat.eqb_eq in Ec'.
      destruct (beq mn (m_name m)); inversion H; cbn [used_modules].
      * rewrite (remove_first_none mn s Ec'). rewrite Ec. intros x [].
      * rewrite Ec. intros x [].
    + (* qualified: s = mn :: n *)
      rewrite Hfull in *. destruct (beq mn (m_name m)) eqn:Eb; inversion H; cbn [used_modules].
      * replace (mn ++ 58 :: 58 :: n) with ((mn ++ colons) ++ n) by (rewrite <- app_assoc; reflexivity).
        rewrite remove_first_prefix by (destruct mn; discriminate).
        rewrite (count_cc_no_colon n Hn). intros x [].
      * change (mn ++ 58 :: 58 :: n) with (mn ++ colons ++ n). rewrite Ec. rewrite (mod_prefix_app mn n Hmn). intros x [<-|[]]. left. reflexivity.
  - destruct (check_tname_t m incs k) as [k'| |] eqn:E; cbn [bind] in H; try discriminate. inversion H; subst. cbn [used_modules recorded_deps]. eauto.
  - destruct (check_tname_t m incs k) as [k'| |] eqn:E; cbn [bind] in H; try discriminate.
    destruct (check_tname_t m incs w) as [w'| |] eqn:E2; cbn [bind] in H; try discriminate. inversion H; subst.
    cbn [used_modules recorded_deps]. apply incl_app; [apply incl_appl | apply incl_appr]; eauto.
  - destruct (check_tname_t m incs k) as [k'| |] eqn:E; cbn [bind] in H; try discriminate. inversion H; subst. cbn [used_modules recorded_deps]. eauto.
Qed.

(* the hypotheses are satisfiable on a chain Top -> Mid -> Leaf where Top names a type of Leaf without including it *)
Example imports_cover_instance :
  let leaf := {| m_name := bs "Leaf"; m_structs := [ {| st_name := bs "Item"; st_mb := [] |} ]; m_hashkeys := []; m_enums := []; m_consts := []; m_ifaces := [] |} in
  let mid := empty_module (bs "Mid") in
  let top := empty_module (bs "Top") in
  forallb module_plain (tree_modules (PT top [PT mid [PT leaf []]])) = true /\
  check_tname_t top [PT mid [PT leaf []]] (VVec (VName (bs "Leaf::Item") CNone)) = Ok (VVec (VName (bs "Leaf::Item") CStruct)) /\
  recorded_deps top [PT mid [PT leaf []]] (VVec (VName (bs "Leaf::Item") CNone)) = [bs "Leaf"].
Proof. cbv zeta. repeat split; vm_compute; reflexivity. Qed.
