(* C16 model, part 1: tars2go's lexer (tars/tools/tars2go/lexer/lexer.go).

   The lexer state is the unread input *including* the current byte: [cur st = hd 0 st], [ls.next()] is
   [tl].  [NewLexState] starts with current = ' ', i.e. the state [32 :: input].  A NUL byte is the
   lexer's end-of-file mark (token.EOF = 0): [lLex] returns Eof on it without advancing, and no path of
   the lexer calls [next()] while the current byte is NUL, so a NUL inside the file ends the token
   stream there.  Line numbers only appear in diagnostics and are not modelled; '\r' and '\n' are then
   plain blanks ([incLine] only ever skips further newline bytes, which the main loop skips anyway).

   [lex_step] is one iteration of [lLex]'s for-loop (non-recursive; the comment / number / identifier /
   string sub-loops are structural recursions over the input).  [next_token] iterates it to the next
   token, [tokenize] to the end of the input.  A lexer panic ([lexErr]) ends the token list with the
   marker [TLexErr]: the parser's [next()] propagates the panic, so every parser function fails on it. *)
From Coq Require Import String Ascii.
From Coq Require Import List NArith ZArith Bool Lia.
Import ListNotations.
Open Scope N_scope.

Definition bytes := list N.

Inductive res (A : Type) := Ok (a : A) | Err | Fuel.
Arguments Ok {A} a. Arguments Err {A}. Arguments Fuel {A}.

(* byte string of a Coq string literal (model-internal tables only) *)
Definition bs (s : string) : bytes := map (fun a => N.of_nat (nat_of_ascii a)) (list_ascii_of_string s).

Definition beq (a b : bytes) : bool :=
  (fix go (a b : bytes) : bool :=
     match a, b with
     | [], [] => true
     | x :: a', y :: b' => (x =? y) && go a' b'
     | _, _ => false
     end) a b.

Inductive kw := KModule | KEnum | KStruct | KInterface | KRequire | KOptional | KConst | KUnsigned | KVoid | KOut | KKey | KTrue | KFalse.
Inductive bty := BInt | BBool | BShort | BByte | BLong | BFloat | BDouble | BString | BVector | BMap | BArray.

Inductive pk := PBraceL | PBraceR | PSemi | PEq | PShl | PShr | PComma | PPtl | PPtr | PSqL | PSqR.

Inductive tok :=
| TEof
| TPunct (p : pk)
| TInclude
| TKw (k : kw)
| TTy (b : bty)
| TName (s : bytes)
| TStr (s : bytes)
| TInt (s : bytes) (v : Z)  (* source text and value *)
| TFloat (s : bytes)
| TLexErr.

(* ---- character classes (lexer.go:22-36) ---- *)
Definition is_newline (b : N) : bool := (b =? 13) || (b =? 10).
Definition is_blank (b : N) : bool := (b =? 32) || (b =? 9) || (b =? 12) || (b =? 11).
Definition is_digit (b : N) : bool := (48 <=? b) && (b <=? 57).
Definition is_number (b : N) : bool := is_digit b || (b =? 45).
Definition is_hexl (b : N) : bool := ((97 <=? b) && (b <=? 102)) || ((65 <=? b) && (b <=? 70)).
Definition is_letter (b : N) : bool := ((97 <=? b) && (b <=? 122)) || ((65 <=? b) && (b <=? 90)) || (b =? 95).
Definition is_x (b : N) : bool := (b =? 120) || (b =? 88).
Definition punct_of (b : N) : option pk :=
  if b =? 123 then Some PBraceL else if b =? 125 then Some PBraceR else if b =? 59 then Some PSemi
  else if b =? 61 then Some PEq else if b =? 60 then Some PShl else if b =? 62 then Some PShr
  else if b =? 44 then Some PComma else if b =? 40 then Some PPtl else if b =? 41 then Some PPtr
  else if b =? 91 then Some PSqL else if b =? 93 then Some PSqR else None.

(* ---- strconv.ParseInt(s, 0, 64) on the bytes readNumber can collect ---- *)
Definition digit_val (c : N) : option N :=
  if is_digit c then Some (c - 48)
  else if (97 <=? c) && (c <=? 122) then Some (c - 87)
  else if (65 <=? c) && (c <=? 90) then Some (c - 55)
  else None.

Fixpoint digits_val (base : N) (acc : N) (s : bytes) : option N :=
  match s with
  | [] => Some acc
  | c :: r => match digit_val c with
              | Some d => if d <? base then digits_val base (acc * base + d) r else None
              | None => None
              end
  end.

Definition lower (c : N) : N := if (65 <=? c) && (c <=? 90) then c + 32 else c.

(* base-0 prefix detection of strconv.ParseUint *)
Definition uint_of (s : bytes) : option N :=
  match s with
  | [] => None
  | c :: r =>
      if c =? 48 then
        match r with
        | p :: _ :: _ =>
            if lower p =? 120 then digits_val 16 0 (tl r)
            else if lower p =? 98 then digits_val 2 0 (tl r)
            else if lower p =? 111 then digits_val 8 0 (tl r)
            else digits_val 8 0 r
        | _ => digits_val 8 0 r
        end
      else digits_val 10 0 s
  end.

Definition two63 : N := 9223372036854775808.

Definition pos_int (s : bytes) : option Z :=
  match uint_of s with
  | Some u => if u <? two63 then Some (Z.of_N u) else None
  | None => None
  end.
Definition parse_int (s : bytes) : option Z :=
  match s with
  | [] => None
  | c :: r =>
      if c =? 45 then match uint_of r with
                      | Some u => if u <=? two63 then Some (- Z.of_N u)%Z else None
                      | None => None
                      end
      else if c =? 43 then pos_int r
      else pos_int s
  end.

(* ---- strconv.ParseFloat(s, 64) succeeds?  On readNumber's alphabet: an 'x' or a hex letter is always a
   syntax error (a hexadecimal mantissa needs a 'p' exponent, which readNumber never collects); otherwise
   [-]digits[.digits] with exactly one '.', at least one digit; the value must not round to +-Inf, i.e.
   the integer part must be below 2^1024 - 2^970 (the midpoint rounds to even = overflow). ---- *)
Fixpoint float_body (s : bytes) (sawdot sawdigit : bool) (ip : N) : option N :=
  match s with
  | [] => if sawdigit then Some ip else None
  | c :: r => if c =? 46 then (if sawdot then None else float_body r true sawdigit ip)
              else if is_digit c then float_body r sawdot true (if sawdot then ip else ip * 10 + (c - 48))
              else None
  end.
Definition float_limit : N := 2 ^ 1024 - 2 ^ 970.
Definition parse_float_ok (s : bytes) : bool :=
  let body := match s with c :: r => if (c =? 45) || (c =? 43) then r else s | [] => s end in
  match float_body body false false 0 with
  | Some ip => ip <? float_limit
  | None => false
  end.

(* ---- readNumber (lexer.go:52-82): collects the text; the caller converts ---- *)
Fixpoint read_number (l : bytes) (is_hex has_dot : bool) (acc : bytes) : bytes * bool * bytes :=
  match l with
  | c :: r => if is_number c || (c =? 46) || is_x c || (is_hex && is_hexl c)
              then read_number r (is_hex || is_x c) (has_dot || (c =? 46)) (c :: acc)
              else (rev acc, has_dot, l)
  | [] => (rev acc, has_dot, [])
  end.

(* ---- readIdent (lexer.go:84-119) ---- *)
Fixpoint read_ident (l : bytes) (last : N) (acc : bytes) : option (bytes * bytes) :=
  match l with
  | c :: r => if is_letter c || is_number c || (c =? 58)
              then (if is_number c && (last =? 58) then None else read_ident r c (c :: acc))
              else Some (rev acc, l)
  | [] => Some (rev acc, [])
  end.

Fixpoint count_colon (l : bytes) : nat :=
  match l with [] => O | c :: r => if c =? 58 then S (count_colon r) else count_colon r end.
(* strings.Count(s, "::"): non-overlapping *)
Fixpoint count_cc (l : bytes) : nat :=
  match l with
  | [] => O
  | a :: r => match r with
              | [] => O
              | b :: r' => if (a =? 58) && (b =? 58) then S (count_cc r') else count_cc r
              end
  end.
(* s[strings.Index(s, "::")+2:] *)
Fixpoint after_cc (l : bytes) : bytes :=
  match l with
  | [] => []
  | a :: r => match r with
              | [] => []
              | b :: r' => if (a =? 58) && (b =? 58) then r' else after_cc r
              end
  end.

Definition qualify (s : bytes) : option bytes :=
  if (count_colon s =? 0)%nat then Some s
  else
    let s' := if ((count_cc s =? 2) && (count_colon s =? 4))%nat then after_cc s else s in
    if ((count_cc s' =? 1) && (count_colon s' =? 2))%nat then Some s' else None.

Definition keywords : list (bytes * tok) :=
  [ (bs "module", TKw KModule); (bs "enum", TKw KEnum); (bs "struct", TKw KStruct); (bs "interface", TKw KInterface);
    (bs "require", TKw KRequire); (bs "optional", TKw KOptional); (bs "const", TKw KConst); (bs "unsigned", TKw KUnsigned);
    (bs "void", TKw KVoid); (bs "out", TKw KOut); (bs "key", TKw KKey); (bs "true", TKw KTrue); (bs "false", TKw KFalse);
    (bs "int", TTy BInt); (bs "bool", TTy BBool); (bs "short", TTy BShort); (bs "byte", TTy BByte); (bs "long", TTy BLong);
    (bs "float", TTy BFloat); (bs "double", TTy BDouble); (bs "string", TTy BString); (bs "vector", TTy BVector);
    (bs "map", TTy BMap); (bs "array", TTy BArray) ].

Fixpoint lookup_kw (s : bytes) (l : list (bytes * tok)) : tok :=
  match l with
  | [] => TName s
  | (k, t) :: r => if beq k s then t else lookup_kw s r
  end.

(* ---- readString (lexer.go:134-151): after the opening quote ---- *)
Fixpoint read_string (l : bytes) (acc : bytes) : option (bytes * bytes) :=
  match l with
  | [] => None
  | c :: r => if c =? 0 then None
              else if c =? 34 then Some (rev acc, r)
              else read_string r (c :: acc)
  end.

(* ---- readSharp (lexer.go:121-132): after '#' ---- *)
Fixpoint read_letters (l : bytes) (acc : bytes) : bytes * bytes :=
  match l with
  | c :: r => if is_letter c then read_letters r (c :: acc) else (rev acc, l)
  | [] => (rev acc, [])
  end.

(* ---- comments ---- *)
Fixpoint skip_line (l : bytes) : bytes :=
  match l with
  | [] => []
  | c :: r => if is_newline c || (c =? 0) then l else skip_line r
  end.

(* readLongComment (lexer.go:153-173), after "/*"; None = lexErr "respect */".
   '*' followed by end of input returns silently (the code's own behaviour). *)
Fixpoint long_comment (l : bytes) : option bytes :=
  match l with
  | [] => None
  | c :: r => if c =? 0 then None
              else if c =? 42 then
                match r with
                | [] => Some []
                | d :: r2 => if d =? 0 then Some r else if d =? 47 then Some r2 else long_comment r
                end
              else long_comment r
  end.

(* ---- one iteration of lLex's loop ---- *)
Inductive lstep := LSkip (st' : bytes) | LTok (t : tok) (st' : bytes) | LEof | LErr.

Definition lex_step (st : bytes) : lstep :=
  match st with
  | [] => LEof
  | c :: r =>
    if c =? 0 then LEof
    else if is_blank c || is_newline c then LSkip r
    else if c =? 47 then
      match r with
      | [] => LErr
      | d :: r2 => if d =? 47 then LSkip (skip_line r)
                   else if d =? 42 then match long_comment r2 with Some r3 => LSkip r3 | None => LErr end
                   else LErr
      end
    else match punct_of c with Some p => LTok (TPunct p) r | None =>
    if c =? 34 then match read_string r [] with Some (s, r') => LTok (TStr s) r' | None => LErr end
    else if c =? 35 then let '(w, r') := read_letters r [] in
                         if beq w (bs "include") then LTok TInclude r' else LErr
    else if is_number c then
      let '(s, dot, r') := read_number st false false [] in
      if dot then (if parse_float_ok s then LTok (TFloat s) r' else LErr)
      else match parse_int s with Some v => LTok (TInt s v) r' | None => LErr end
    else if is_letter c then
      match read_ident st 0 [] with
      | Some (s, r') => match qualify s with Some s' => LTok (lookup_kw s' keywords) r' | None => LErr end
      | None => LErr
      end
    else LErr
    end
  end.

(* lLex: to the next token.  Result state: the input still unread (Eof does not advance). *)
Fixpoint next_token (fuel : nat) (st : bytes) : res (tok * bytes) :=
  match fuel with
  | O => Fuel
  | S f => match lex_step st with
           | LSkip st' => next_token f st'
           | LTok t st' => Ok (t, st')
           | LEof => Ok (TEof, st)
           | LErr => Err
           end
  end.

(* the whole token stream the parser can ever see *)
Fixpoint tokenize (fuel : nat) (st : bytes) : res (list tok) :=
  match fuel with
  | O => Fuel
  | S f => match lex_step st with
           | LSkip st' => tokenize f st'
           | LTok t st' => match tokenize f st' with Ok l => Ok (t :: l) | e => e end
           | LEof => Ok []
           | LErr => Ok [TLexErr]
           end
  end.

Definition init_state (input : bytes) : bytes := 32 :: input.
Definition lex_fuel (input : bytes) : nat := S (S (length input)).
Definition tokens_of (input : bytes) : res (list tok) := tokenize (lex_fuel input) (init_state input).
