(* C16: the schema environment of every accepted program is well formed (Codec/Corr.v [wf_env]): the parser
   leaves the members of every struct strictly ascending by tag (checkTag + sortTag), the analysis keeps the
   tags, [env_of_module] keeps them below 256, resolves struct references inside the module and gives fixed
   arrays a positive length.  Hence the generated-codec theorems (C03-C06), stated for well-formed
   environments, apply to the schema of every program the front end accepts and [env_of_module] supports. *)
From Coq Require Import String.
From Coq Require Import List NArith ZArith Bool Lia Sorted.
From TarsV Require Import Base.Hex Idl.Lexer Idl.Parser Idl.Schema Codec.GenCodec Codec.Corr.
Import ListNotations.
Open Scope N_scope.

(* partial-correctness weakest precondition on [res] *)
Definition wpp {A} (m : res A) (Q : A -> Prop) : Prop := match m with Ok a => Q a | _ => True end.
Lemma wpp_bind {A B} (m : res A) (k : A -> res B) (Q : B -> Prop) :
  wpp m (fun a => wpp (k a) Q) -> wpp (bind m k) Q.
Proof. destruct m; cbn; auto. Qed.
Lemma wpp_mono {A} (m : res A) (P Q : A -> Prop) : wpp m P -> (forall a, P a -> Q a) -> wpp m Q.
Proof. destruct m; cbn; auto. Qed.
Lemma wpp_true {A} (m : res A) : wpp m (fun _ => True).
Proof. destruct m; cbn; auto. Qed.
Lemma wpp_ok {A} (m : res A) (Q : A -> Prop) a : wpp m Q -> m = Ok a -> Q a.
Proof. intros H E. subst m. exact H. Qed.

(* ---------------- sortTag after checkTag ---------------- *)
Definition tags_sorted (l : list smember) : Prop := StronglySorted Z.lt (map sm_tag l).

Lemma insert_tags_in : forall m l z, In z (map sm_tag (insert_tag m l)) <-> z = sm_tag m \/ In z (map sm_tag l).
Proof.
  intros m l z. induction l as [|x r IH]; cbn [insert_tag map In].
  - intuition.
  - destruct (sm_tag m <? sm_tag x)%Z; cbn [map In]; [intuition|]. rewrite IH. intuition.
Qed.

Lemma insert_sorted : forall m l, tags_sorted l -> ~ In (sm_tag m) (map sm_tag l) -> tags_sorted (insert_tag m l).
Proof.
  unfold tags_sorted. intros m l. induction l as [|x r IH]; intros Hs Hn; cbn [insert_tag map].
  - constructor; [constructor | constructor].
  - destruct (sm_tag m <? sm_tag x)%Z eqn:E; cbn [map].
    + apply Z.ltb_lt in E. constructor; [exact Hs|].
      cbn [map] in Hs. inversion Hs as [|? ? Hr Hall]; subst.
      constructor; [exact E|]. eapply Forall_impl; [|exact Hall]. intros; lia.
    + apply Z.ltb_ge in E. cbn [map] in Hs, Hn. inversion Hs as [|? ? Hr Hall]; subst.
      assert (Hne : sm_tag x <> sm_tag m) by (intro K; apply Hn; left; exact K).
      constructor.
      * apply IH; [exact Hr | intro K; apply Hn; right; exact K].
      * apply Forall_forall. intros z Hz. apply insert_tags_in in Hz. destruct Hz as [-> | Hz]; [lia|].
        rewrite Forall_forall in Hall. apply Hall; exact Hz.
Qed.

Lemma sort_tags_in : forall l z, In z (map sm_tag (sort_tags l)) <-> In z (map sm_tag l).
Proof.
  induction l as [|m r IH]; intros z; cbn [sort_tags fold_right map In]; [tauto|].
  change (fold_right insert_tag [] r) with (sort_tags r). rewrite insert_tags_in, IH. intuition.
Qed.

Lemma existsb_tag_false : forall (r : list smember) t,
  existsb (fun m' => (sm_tag m' =? t)%Z) r = false -> ~ In t (map sm_tag r).
Proof.
  induction r as [|x r IH]; intros t H; cbn [map In existsb] in *; [tauto|].
  apply orb_false_iff in H. destruct H as [H1 H2]. apply Z.eqb_neq in H1. intros [K|K]; [congruence | exact (IH _ H2 K)].
Qed.

Lemma sort_tags_sorted : forall l, tags_nodup l = true -> tags_sorted (sort_tags l).
Proof.
  induction l as [|m r IH]; intros H; cbn [sort_tags fold_right].
  - constructor.
  - change (fold_right insert_tag [] r) with (sort_tags r).
    cbn [tags_nodup] in H. apply andb_true_iff in H. destruct H as [H1 H2]. apply negb_true_iff in H1.
    apply insert_sorted; [apply IH; exact H2|]. rewrite sort_tags_in. apply existsb_tag_false. exact H1.
Qed.

(* ---------------- the parser: every struct of the module it returns has sorted tags ---------------- *)
Definition structs_ok (m : module) : Prop := Forall (fun s => tags_sorted (st_mb s)) (m_structs m).

Lemma parse_struct_ok : forall fuel m ts, structs_ok m ->
  wpp (parse_struct fuel m ts) (fun p => structs_ok (fst p)).
Proof.
  intros fuel m ts Hm. unfold parse_struct.
  apply wpp_bind. destruct (expect_name ts) as [[name ts1]| |]; cbn [wpp]; auto.
  destruct (existsb _ _); cbn [wpp]; auto.
  apply wpp_bind. destruct (expect_p PBraceL ts1) as [ts2| |]; cbn [wpp]; auto.
  apply wpp_bind. destruct (member_loop fuel ts2 []) as [[mbs ts3]| |]; cbn [wpp]; auto.
  apply wpp_bind. destruct (expect_p PSemi ts3) as [ts4| |]; cbn [wpp]; auto.
  destruct (tags_nodup mbs) eqn:E; cbn [negb wpp fst]; auto.
  unfold structs_ok in *. cbn [m_structs]. apply Forall_app. split; [exact Hm|].
  constructor; [|constructor]. cbn [st_mb]. apply sort_tags_sorted. exact E.
Qed.

Lemma parse_enum_structs : forall r fuel m ts, wpp (parse_enum r fuel m ts) (fun p => m_structs (fst p) = m_structs m).
Proof.
  intros r fuel m ts. unfold parse_enum.
  apply wpp_bind. destruct (expect_name ts) as [[name ts1]| |]; cbn [wpp]; auto.
  destruct (existsb _ _); cbn [wpp]; auto.
  apply wpp_bind. destruct (expect_p PBraceL ts1) as [ts2| |]; cbn [wpp]; auto.
  apply wpp_bind. destruct (enum_loop r fuel ts2 []) as [[mbs ts3]| |]; cbn [wpp]; auto.
  apply wpp_bind. destruct (expect_p PSemi ts3) as [ts4| |]; cbn [wpp]; auto.
Qed.

Lemma parse_iface_structs : forall fuel m ts, wpp (parse_iface fuel m ts) (fun p => m_structs (fst p) = m_structs m).
Proof.
  intros fuel m ts. unfold parse_iface.
  apply wpp_bind. destruct (expect_name ts) as [[name ts1]| |]; cbn [wpp]; auto.
  destruct (existsb _ _); cbn [wpp]; auto.
  apply wpp_bind. destruct (expect_p PBraceL ts1) as [ts2| |]; cbn [wpp]; auto.
  apply wpp_bind. destruct (fun_loop fuel ts2 []) as [[fs ts3]| |]; cbn [wpp]; auto.
  apply wpp_bind. destruct (expect_p PSemi ts3) as [ts4| |]; cbn [wpp]; auto.
Qed.

Lemma parse_const_structs : forall fuel m ts, wpp (parse_const fuel m ts) (fun p => m_structs (fst p) = m_structs m).
Proof.
  intros fuel m ts. unfold parse_const.
  apply wpp_bind. destruct (nx ts) as [[t ts1]| |]; cbn [wpp]; auto.
  destruct (negb (const_type_start t)); cbn [wpp]; auto.
  apply wpp_bind. destruct (parse_type fuel t ts1) as [[ty ts2]| |]; cbn [wpp]; auto.
  apply wpp_bind. destruct (expect_name ts2) as [[name ts3]| |]; cbn [wpp]; auto.
  apply wpp_bind. destruct (expect_p PEq ts3) as [ts4| |]; cbn [wpp]; auto.
  apply wpp_bind. destruct (nx ts4) as [[t5 ts5]| |]; cbn [wpp]; auto.
  apply wpp_bind. match goal with |- wpp ?v _ => destruct v as [v0| |] end; cbn [wpp]; auto.
  apply wpp_bind. destruct (expect_p PSemi ts5) as [ts6| |]; cbn [wpp]; auto.
Qed.

Lemma parse_hashkey_structs : forall fuel m ts, wpp (parse_hashkey fuel m ts) (fun p => m_structs (fst p) = m_structs m).
Proof.
  intros fuel m ts. unfold parse_hashkey.
  apply wpp_bind. destruct (expect_p PSqL ts) as [ts1| |]; cbn [wpp]; auto.
  apply wpp_bind. destruct (expect_name ts1) as [[name ts2]| |]; cbn [wpp]; auto.
  apply wpp_bind. destruct (expect_p PComma ts2) as [ts3| |]; cbn [wpp]; auto.
  apply wpp_bind. destruct (hashkey_loop fuel ts3 []) as [[mbs ts4]| |]; cbn [wpp]; auto.
Qed.

Lemma structs_ok_eq : forall m m', m_structs m' = m_structs m -> structs_ok m -> structs_ok m'.
Proof. unfold structs_ok. intros m m' E H. rewrite E. exact H. Qed.

Lemma segment_loop_ok : forall r fuel m ts, structs_ok m -> wpp (segment_loop r fuel m ts) (fun p => structs_ok (fst p)).
Proof.
  intros r. induction fuel as [|f IH]; intros m ts Hm; cbn [segment_loop]; [exact I|].
  apply wpp_bind. destruct (nx ts) as [[t ts1]| |]; cbn [wpp]; auto.
  destruct t as [ | p | | k | | | | | | ]; cbn [wpp]; auto.
  - destruct p; cbn [wpp]; auto.
    apply wpp_bind. destruct (expect_p PSemi ts1); cbn [wpp fst]; auto.
  - destruct k; cbn [wpp]; auto.
    + apply wpp_bind. eapply wpp_mono; [apply (parse_enum_structs r (S f) m ts1)|].
      intros [m' ts2] E. cbn [fst] in E. apply IH. eapply structs_ok_eq; eauto.
    + apply wpp_bind. eapply wpp_mono; [apply (parse_struct_ok (S f) m ts1 Hm)|].
      intros [m' ts2] E. cbn [fst] in E. apply IH. exact E.
    + apply wpp_bind. eapply wpp_mono; [apply (parse_iface_structs (S f) m ts1)|].
      intros [m' ts2] E. cbn [fst] in E. apply IH. eapply structs_ok_eq; eauto.
    + apply wpp_bind. eapply wpp_mono; [apply (parse_const_structs (S f) m ts1)|].
      intros [m' ts2] E. cbn [fst] in E. apply IH. eapply structs_ok_eq; eauto.
    + apply wpp_bind. eapply wpp_mono; [apply (parse_hashkey_structs (S f) m ts1)|].
      intros [m' ts2] E. cbn [fst] in E. apply IH. eapply structs_ok_eq; eauto.
Qed.

Definition file_ok (fl : file) : Prop := match fl_primary fl with Some m => structs_ok m | None => True end.

Lemma parse_module_ok : forall r fuel fl ts, file_ok fl -> wpp (parse_module r fuel fl ts) (fun p => file_ok (fst p)).
Proof.
  intros r fuel fl ts Hf. unfold parse_module.
  apply wpp_bind. destruct (expect_name ts) as [[name ts1]| |]; cbn [wpp]; auto.
  apply wpp_bind. unfold parse_segment.
  assert (G : wpp (bind (expect_p PBraceL ts1) (fun ts0 => segment_loop r fuel (empty_module name) ts0)) (fun p => structs_ok (fst p))).
  { apply wpp_bind. destruct (expect_p PBraceL ts1) as [ts2| |]; cbn [wpp]; auto.
    apply segment_loop_ok. constructor. }
  eapply wpp_mono; [exact G|]. intros [m ts2] Hm. cbn [fst] in Hm.
  unfold file_ok in *. destruct (fl_primary fl) eqn:E; cbn [wpp fst fl_primary]; [exact Hf | exact Hm].
Qed.

Lemma file_loop_ok : forall r fuel fl ts, file_ok fl -> wpp (file_loop r fuel fl ts) file_ok.
Proof.
  intros r. induction fuel as [|f IH]; intros fl ts Hf; cbn [file_loop]; [exact I|].
  apply wpp_bind. destruct (nx ts) as [[t ts1]| |]; cbn [wpp]; auto.
  destruct t as [ | p | | k | | | | | | ]; cbn [wpp]; auto.
  - apply wpp_bind. destruct (nx ts1) as [[t2 ts2]| |]; cbn [wpp]; auto.
    destruct t2; cbn [wpp]; auto; try (apply IH; exact Hf).
  - destruct k; cbn [wpp]; auto.
    apply wpp_bind. eapply wpp_mono; [apply (parse_module_ok r (S f) fl ts1 Hf)|].
    intros [fl' ts2] H. cbn [fst] in H. apply IH. exact H.
Qed.

(* ---------------- the analysis keeps the tags ---------------- *)
Lemma map_res_tags : forall (f : smember -> res smember), (forall x y, f x = Ok y -> sm_tag y = sm_tag x) ->
  forall l l', map_res f l = Ok l' -> map sm_tag l' = map sm_tag l.
Proof.
  intros f Hf. induction l as [|x r IH]; intros l' H; cbn [map_res] in H.
  - inversion H; reflexivity.
  - destruct (f x) as [y| |] eqn:E; cbn [bind] in H; try discriminate.
    destruct (map_res f r) as [ys| |] eqn:E2; cbn [bind] in H; try discriminate.
    inversion H; subst. cbn [map]. rewrite (Hf _ _ E), (IH _ eq_refl). reflexivity.
Qed.

Lemma analyze_default_tag : forall m x y, analyze_default m x = Ok y -> sm_tag y = sm_tag x.
Proof.
  intros m x y. unfold analyze_default. destruct (sm_deft x); try (intros H; inversion H; reflexivity).
  destruct (sm_def x); [intros H; inversion H; reflexivity|].
  destruct (enum_hits m _) as [|[e mb] [|? ?]]; try discriminate. intros H; inversion H; reflexivity.
Qed.
Lemma analyze_member_tag : forall m x y, analyze_member m x = Ok y -> sm_tag y = sm_tag x.
Proof.
  intros m x y. unfold analyze_member. destruct (check_tname m (sm_ty x)); cbn [bind]; try discriminate.
  intros H; inversion H; reflexivity.
Qed.

Lemma map_res_forall2 : forall {A B} (f : A -> res B) (P : A -> B -> Prop), (forall x y, f x = Ok y -> P x y) ->
  forall l l', map_res f l = Ok l' -> Forall2 P l l'.
Proof.
  intros A B f P Hf. induction l as [|x r IH]; intros l' H; cbn [map_res] in H.
  - inversion H; constructor.
  - destruct (f x) as [y| |] eqn:E; cbn [bind] in H; try discriminate.
    destruct (map_res f r) as [ys| |] eqn:E2; cbn [bind] in H; try discriminate.
    inversion H; subst. constructor; [apply Hf; exact E | apply IH; reflexivity].
Qed.

Lemma analyze_ok : forall m m', structs_ok m -> analyze m = Ok m' -> structs_ok m'.
Proof.
  intros m m' Hm H. unfold analyze in H.
  destruct (map_res _ (m_structs m)) as [sts1| |] eqn:E1; cbn [bind] in H; try discriminate.
  destruct (map_res _ sts1) as [sts2| |] eqn:E2; cbn [bind] in H; try discriminate.
  destruct (map_res _ (m_ifaces m)) as [ifs| |] eqn:E3; cbn [bind] in H; try discriminate.
  inversion H; subst; clear H. unfold structs_ok in *. cbn [m_structs].
  assert (F1 : Forall2 (fun s s' => map sm_tag (st_mb s') = map sm_tag (st_mb s)) (m_structs m) sts1).
  { eapply map_res_forall2; [|exact E1]. intros s s' K. cbv beta in K.
    destruct (map_res (analyze_default m) (st_mb s)) as [mbs| |] eqn:K1; cbn [bind] in K; try discriminate.
    inversion K; subst. cbn [st_mb]. eapply map_res_tags; [|exact K1]. apply analyze_default_tag. }
  assert (F2 : Forall2 (fun s s' => map sm_tag (st_mb s') = map sm_tag (st_mb s)) sts1 sts2).
  { eapply map_res_forall2; [|exact E2]. intros s s' K. cbv beta in K.
    destruct (map_res (analyze_member m) (st_mb s)) as [mbs| |] eqn:K1; cbn [bind] in K; try discriminate.
    inversion K; subst. cbn [st_mb]. eapply map_res_tags; [|exact K1]. apply analyze_member_tag. }
  clear E1 E2 E3. revert sts1 sts2 F1 F2. induction Hm as [|s r Hs Hr IH]; intros sts1 sts2 F1 F2.
  - inversion F1; subst. inversion F2; subst. constructor.
  - inversion F1 as [|? s1 ? r1 Q1 R1]; subst. inversion F2 as [|? s2 ? r2 Q2 R2]; subst.
    constructor; [|eapply IH; eauto]. unfold tags_sorted in *. rewrite Q2, Q1. exact Hs.
Qed.

Lemma parse_bytes_structs_ok : forall input m, parse_bytes input = OOk m -> structs_ok m.
Proof.
  intros input m H. unfold parse_bytes, parse_bytes_gen in H.
  destruct (tokens_of input) as [ts| |]; try discriminate.
  unfold parse_tokens_gen in H.
  pose proof (file_loop_ok true (parse_fuel ts) empty_file ts I) as G.
  destruct (file_loop true (parse_fuel ts) empty_file ts) as [fl| |]; try discriminate. cbn [wpp] in G.
  destruct (fl_includes fl); try discriminate. destruct (fl_more fl); try discriminate.
  unfold file_ok in G. destruct (fl_primary fl) as [m0|].
  - destruct (analyze m0) as [m1| |] eqn:E; try discriminate. inversion H; subst. eapply analyze_ok; eauto.
  - inversion H; subst. constructor.
Qed.

(* ---------------- env_of_module ---------------- *)
Lemma all_some_forall2 : forall {A B} (f : A -> option B) l l', all_some (map f l) = Some l' -> Forall2 (fun x y => f x = Some y) l l'.
Proof.
  intros A B f. induction l as [|x r IH]; intros l' H; cbn [map all_some] in H.
  - inversion H; constructor.
  - destruct (f x) as [y|] eqn:E; try discriminate. destruct (all_some (map f r)) as [ys|] eqn:E2; try discriminate.
    inversion H; subst. constructor; [exact E | apply IH; reflexivity].
Qed.

Lemma index_of_struct_lt : forall n l i j, index_of_struct n l i = Some j -> (j < i + length l)%nat.
Proof.
  intros n. induction l as [|s r IH]; intros i j H; cbn [index_of_struct] in H; [discriminate|].
  destruct (beq (st_name s) n).
  - inversion H; subst. cbn [length]. lia.
  - apply IH in H. cbn [length]. lia.
Qed.

Lemma ty_of_ok : forall m v t, ty_of m v = Some t -> ty_ok (length (m_structs m)) t = true.
Proof.
  intros m. induction v as [b u | s c | k IHk | k IHk w IHw | k IHk len]; intros t H; cbn [ty_of] in H.
  - destruct b; try destruct u; inversion H; subst; reflexivity.
  - destruct c; try discriminate.
    + destruct (find_enum m s) as [e|]; try discriminate. destruct (en_mb e); inversion H; subst; reflexivity.
    + destruct (index_of_struct s (m_structs m) 0) as [i|] eqn:E; try discriminate. inversion H; subst.
      cbn [ty_ok]. apply index_of_struct_lt in E. apply Nat.ltb_lt. lia.
  - destruct (ty_of m k) as [t0|]; try discriminate. inversion H; subst. cbn [ty_ok]. apply IHk. reflexivity.
  - destruct (ty_of m k) as [a|]; try discriminate. destruct (ty_of m w) as [b|]; try discriminate.
    destruct (key_ok a); inversion H; subst. cbn [ty_ok]. rewrite (IHk _ eq_refl), (IHw _ eq_refl). reflexivity.
  - destruct (ty_of m k) as [t0|]; try discriminate.
    destruct ((0 <? len)%Z && negb (is_byte t0)) eqn:E; inversion H; subst. cbn [ty_ok].
    apply andb_true_iff in E. destruct E as [E _]. apply Z.ltb_lt in E. rewrite (IHk _ eq_refl).
    rewrite andb_true_r. apply Nat.ltb_lt. lia.
Qed.

Lemma field_of_spec : forall m sm f, field_of m sm = Some f ->
  (0 <= sm_tag sm < 256)%Z /\ ftag f = Z.to_N (sm_tag sm) /\ ty_ok (length (m_structs m)) (fty f) = true.
Proof.
  intros m sm f H. unfold field_of in H.
  destruct ((0 <=? sm_tag sm)%Z && (sm_tag sm <? 256)%Z) eqn:E; try discriminate.
  apply andb_true_iff in E. destruct E as [E1 E2]. apply Z.leb_le in E1. apply Z.ltb_lt in E2.
  destruct (ty_of m (sm_ty sm)) as [t|] eqn:Et; try discriminate.
  destruct (def_of m t sm) as [d|]; try discriminate. inversion H; subst. cbn [ftag fty].
  split; [lia|]. split; [reflexivity|]. eapply ty_of_ok; eauto.
Qed.

Lemma schema_ascending : forall m mbs sc prev,
  Forall2 (fun x y => field_of m x = Some y) mbs sc -> StronglySorted Z.lt (map sm_tag mbs) ->
  (match prev with None => True | Some p => forall z, In z (map sm_tag mbs) -> (Z.of_N p < z)%Z end) ->
  tags_ascending prev sc = true.
Proof.
  intros m mbs sc prev F. revert prev. induction F as [|x y r r' Hxy Hr IH]; intros prev Hs Hp; cbn [tags_ascending]; [reflexivity|].
  apply field_of_spec in Hxy. destruct Hxy as [Hrange [Htag _]].
  cbn [map] in Hs. inversion Hs as [|? ? Hs' Hall]; subst.
  apply andb_true_iff; split; [apply andb_true_iff; split|].
  - apply N.ltb_lt. rewrite Htag. lia.
  - destruct prev as [p|]; [|reflexivity]. apply N.ltb_lt. rewrite Htag.
    specialize (Hp (sm_tag x) (or_introl eq_refl)). lia.
  - apply IH; [exact Hs'|]. intros z Hz. rewrite Forall_forall in Hall. specialize (Hall z Hz). rewrite Htag. lia.
Qed.

Lemma forall2_length : forall {A B} (P : A -> B -> Prop) l l', Forall2 P l l' -> length l = length l'.
Proof. intros A B P l l' H. induction H; cbn [length]; congruence. Qed.

Lemma env_of_module_wf : forall m e, structs_ok m -> env_of_module m = Some e -> wf_env e = true.
Proof.
  intros m e Hm H. unfold env_of_module in H. apply all_some_forall2 in H.
  assert (L : length e = length (m_structs m)) by (symmetry; eapply forall2_length; eauto).
  unfold wf_env. rewrite L. clear L. unfold structs_ok in Hm.
  assert (Hty : forall sm f, field_of m sm = Some f -> ty_ok (length (m_structs m)) (fty f) = true)
    by (intros sm f K; apply (field_of_spec _ _ _ K)).
  revert Hty. generalize (length (m_structs m)) as n. intros n Hty.
  revert Hm. induction H as [|s sc r r' Hs Hr IH]; intros Hm; cbn [forallb]; [reflexivity|].
  inversion Hm as [|? ? Hs0 Hr0]; subst. rewrite (IH Hr0), andb_true_r.
  unfold schema_of_struct in Hs. apply all_some_forall2 in Hs.
  apply andb_true_iff; split.
  - eapply schema_ascending; eauto.
  - clear Hs0. induction Hs as [|x y q q' Hxy Hq IHq]; cbn [forallb]; [reflexivity|].
    rewrite (Hty _ _ Hxy), IHq. reflexivity.
Qed.

Theorem schema_wf : forall input m e, parse_bytes input = OOk m -> env_of_module m = Some e -> wf_env e = true.
Proof. intros input m e Hp He. eapply env_of_module_wf; eauto. eapply parse_bytes_structs_ok; eauto. Qed.

(* a concrete program satisfies the hypotheses of [schema_wf], with a non-trivial environment *)
Definition example_idl : bytes :=
  bs "module M { enum E { A, B = 5, C = B, D }; struct In { 0 require int x; }; struct S { 7 require int a; 0 optional E e = D; 2 optional vector<S> k; 3 optional In arr[2]; 4 optional float f = 1.5; }; };".
Definition example_env : env :=
  [ [ {| ftag := 0; freq := true; fty := TI32; fdef := None |} ];
    [ {| ftag := 0; freq := false; fty := TEnum; fdef := Some (VInt 6) |};
      {| ftag := 2; freq := false; fty := TVec (TStruct 1); fdef := None |};
      {| ftag := 3; freq := false; fty := TArr 2 (TStruct 0); fdef := None |};
      {| ftag := 4; freq := false; fty := TF32; fdef := Some (VFlt 1069547520) |};
      {| ftag := 7; freq := true; fty := TI32; fdef := None |} ] ].
Example schema_wf_instance :
  match parse_bytes example_idl with OOk m => env_of_module m | _ => None end = Some example_env.
Proof. vm_compute. reflexivity. Qed.
