(* C16: every rendering (spelling of the tokens, blanks and comments between them) of every well-formed program
   of the grammar is accepted by the front end with the AST the program denotes. *)
From Coq Require Import String.
From Coq Require Import List NArith ZArith Bool.
From TarsV Require Import Idl.Lexer Idl.Parser Idl.Print Idl.PrintProofs Idl.Render Idl.RenderProofs Idl.AnalyzeProofs.
Import ListNotations.
Open Scope N_scope.

Theorem accepts_rendered : forall name ds lead ps,
  wf_decls (empty_module name) ds = true -> map p_tok ps = print_prog name ds ->
  forallb wf_gap_item lead = true -> wf_pieces ps ->
  parse_bytes (render lead ps) = match analyze (module_of name ds) with Ok m' => OOk m' | _ => OErr end.
Proof.
  intros name ds lead ps Hwf Htok Hl Hps. apply parse_bytes_print; [exact Hwf|].
  rewrite <- Htok. apply render_tokens; assumption.
Qed.

(* ... and is accepted (an AST, not a diagnostic) when its user type names are declared in the module and its named
   defaults name exactly one enum member *)
Theorem valid_accepted : forall name ds lead ps,
  wf_decls (empty_module name) ds = true -> module_names_ok (module_of name ds) = true ->
  map p_tok ps = print_prog name ds -> forallb wf_gap_item lead = true -> wf_pieces ps ->
  exists m', analyze (module_of name ds) = Ok m' /\ parse_bytes (render lead ps) = OOk m'.
Proof.
  intros name ds lead ps Hwf Hn Htok Hl Hps. destruct (analyze_succeeds _ Hn) as [m' E]. exists m'. split; [exact E|].
  rewrite (accepts_rendered name ds lead ps Hwf Htok Hl Hps), E. reflexivity.
Qed.

(* a concrete rendering with comments and with tokens that touch *)
Definition ex_decls : list sdecl :=
  [ DStruct (bs "S") [ {| s_tagtxt := bs "0"; s_tag := 0; s_req := true; s_ty := VBase BInt false; s_key := bs "a"; s_tail := STDef (SDInt (bs "-0x1f") (-31)) |} ] ].
Definition ex_pieces : list piece :=
  [ {| p_tok := TKw KModule; p_txt := bs "module"; p_gap := [GBlank 32; GLong (bs " c * d **"); GBlank 9] |};
    {| p_tok := TName (bs "m"); p_txt := bs "m"; p_gap := [] |};
    {| p_tok := TPunct PBraceL; p_txt := bs "{"; p_gap := [GLine (bs " x // y")] |};
    {| p_tok := TKw KStruct; p_txt := bs "struct"; p_gap := [GBlank 13; GBlank 10] |};
    {| p_tok := TName (bs "S"); p_txt := bs "S"; p_gap := [] |};
    {| p_tok := TPunct PBraceL; p_txt := bs "{"; p_gap := [] |};
    {| p_tok := TInt (bs "0") 0; p_txt := bs "0"; p_gap := [GBlank 32] |};
    {| p_tok := TKw KRequire; p_txt := bs "require"; p_gap := [GLong []] |};
    {| p_tok := TTy BInt; p_txt := bs "int"; p_gap := [GBlank 12] |};
    {| p_tok := TName (bs "a"); p_txt := bs "a"; p_gap := [] |};
    {| p_tok := TPunct PEq; p_txt := bs "="; p_gap := [] |};
    {| p_tok := TInt (bs "-0x1f") (-31); p_txt := bs "-0x1f"; p_gap := [] |};
    {| p_tok := TPunct PSemi; p_txt := bs ";"; p_gap := [] |};
    {| p_tok := TPunct PBraceR; p_txt := bs "}"; p_gap := [] |};
    {| p_tok := TPunct PSemi; p_txt := bs ";"; p_gap := [GBlank 10] |};
    {| p_tok := TPunct PBraceR; p_txt := bs "}"; p_gap := [] |};
    {| p_tok := TPunct PSemi; p_txt := bs ";"; p_gap := [] |} ].

Ltac tt := first [ eapply TT_punct; reflexivity | eapply TT_word; reflexivity | eapply TT_int; reflexivity
                 | eapply TT_float; reflexivity | eapply TT_str; reflexivity | exact TT_include ].

Example accepts_rendered_instance :
  render [GLine (bs "file")] ex_pieces =
    bs "//file" ++ [10] ++ bs "module /* c * d ***/" ++ [9] ++ bs "m{// x // y" ++ [10] ++ bs "struct" ++ [13; 10] ++ bs "S{0 require/**/int" ++ [12] ++ bs "a=-0x1f;};" ++ [10] ++ bs "};" /\
  wf_decls (empty_module (bs "m")) ex_decls = true /\ map p_tok ex_pieces = print_prog (bs "m") ex_decls /\
  forallb wf_gap_item [GLine (bs "file")] = true /\ wf_pieces ex_pieces /\ module_names_ok (module_of (bs "m") ex_decls) = true.
Proof.
  split; [vm_compute; reflexivity|]. split; [vm_compute; reflexivity|]. split; [vm_compute; reflexivity|]. split; [reflexivity|].
  unfold ex_pieces. cbn [wf_pieces p_tok p_txt p_gap].
  split; [|vm_compute; reflexivity].
  repeat (split; [tt|]; split; [reflexivity|]; split; [first [left; discriminate | right; left; reflexivity | right; right; reflexivity]|]).
  exact I.
Qed.
