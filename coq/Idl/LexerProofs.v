(* C16: the lexer makes progress.  Every iteration of lLex's loop that does not end the scan consumes at
   least one byte; a token other than Eof consumes at least one byte; Eof is idempotent; fuel
   |input|+1 always suffices; the token stream is no longer than the input. *)
From Coq Require Import String.
From Coq Require Import List NArith ZArith Bool Lia.
From TarsV Require Import Idl.Lexer.
Import ListNotations.
Open Scope N_scope.

Lemma skip_line_le : forall l, (length (skip_line l) <= length l)%nat.
Proof. induction l as [|c r IH]; cbn [skip_line]; [lia|]. destruct (is_newline c || (c =? 0)); cbn [length]; lia. Qed.

Lemma long_comment_le : forall l r, long_comment l = Some r -> (length r <= length l)%nat.
Proof.
  induction l as [|c l IH]; intros r H; cbn [long_comment] in H; [discriminate|].
  destruct (c =? 0); [discriminate|].
  destruct (c =? 42).
  - destruct l as [|d r2]; [inversion H; cbn; lia|].
    destruct (d =? 0); [inversion H; subst; cbn; lia|].
    destruct (d =? 47); [inversion H; subst; cbn; lia|].
    apply IH in H. cbn [length] in *. lia.
  - apply IH in H. cbn [length]. lia.
Qed.

Lemma read_string_lt : forall l acc s r, read_string l acc = Some (s, r) -> (length r < length l)%nat.
Proof.
  induction l as [|c l IH]; intros acc s r H; cbn [read_string] in H; [discriminate|].
  destruct (c =? 0); [discriminate|].
  destruct (c =? 34); [inversion H; subst; cbn; lia|].
  apply IH in H. cbn [length]. lia.
Qed.

Lemma read_letters_le : forall l acc w r, read_letters l acc = (w, r) -> (length r <= length l)%nat.
Proof.
  induction l as [|c l IH]; intros acc w r H; cbn [read_letters] in H; [inversion H; cbn; lia|].
  destruct (is_letter c); [apply IH in H; cbn [length]; lia | inversion H; subst; lia].
Qed.

Lemma read_number_le : forall l h d acc s d' r, read_number l h d acc = (s, d', r) -> (length r <= length l)%nat.
Proof.
  induction l as [|c l IH]; intros h d acc s d' r H; cbn [read_number] in H; [inversion H; cbn; lia|].
  destruct (is_number c || (c =? 46) || is_x c || (h && is_hexl c)); [apply IH in H; cbn [length]; lia | inversion H; subst; lia].
Qed.

Lemma read_ident_le : forall l last acc s r, read_ident l last acc = Some (s, r) -> (length r <= length l)%nat.
Proof.
  induction l as [|c l IH]; intros last acc s r H; cbn [read_ident] in H; [inversion H; cbn; lia|].
  destruct (is_letter c || is_number c || (c =? 58)).
  - destruct (is_number c && (last =? 58)); [discriminate|]. apply IH in H. cbn [length]. lia.
  - inversion H; subst; lia.
Qed.

(* one step: a skip or a token strictly shortens the unread input *)
Lemma lex_step_progress : forall st,
  match lex_step st with
  | LSkip st' | LTok _ st' => (length st' < length st)%nat
  | _ => True
  end.
Proof.
  intros [|c r]; cbn [lex_step]; [exact I|].
  destruct (c =? 0); [exact I|].
  destruct (is_blank c || is_newline c); [cbn; lia|].
  destruct (c =? 47).
  { destruct r as [|d r2]; [exact I|].
    destruct (d =? 47).
    - pose proof (skip_line_le (d :: r2)). cbn [length] in *. lia.
    - destruct (d =? 42); [|exact I].
      destruct (long_comment r2) as [r3|] eqn:E; [|exact I].
      apply long_comment_le in E. cbn [length]. lia. }
  destruct (punct_of c); [cbn; lia|].
  destruct (c =? 34).
  { destruct (read_string r []) as [[s r']|] eqn:E; [|exact I]. apply read_string_lt in E. cbn [length]. lia. }
  destruct (c =? 35).
  { destruct (read_letters r []) as [w r'] eqn:E. apply read_letters_le in E.
    destruct (beq w (bs "include")); [cbn [length]; lia | exact I]. }
  destruct (is_number c) eqn:Hn.
  { cbn [read_number]. rewrite Hn. cbn [orb].
    destruct (read_number r _ _ _) as [[s dot] r'] eqn:E.
    apply read_number_le in E.
    destruct dot.
    - destruct (parse_float_ok s); [cbn [length]; lia | exact I].
    - destruct (parse_int s); [cbn [length]; lia | exact I]. }
  destruct (is_letter c) eqn:Hl; [|exact I].
  cbn [read_ident]. rewrite Hl. cbn [orb].
  replace (is_number c && (0 =? 58)) with false by (rewrite andb_false_r; reflexivity).
  destruct (read_ident r c [c]) as [[s r']|] eqn:E; [|exact I].
  apply read_ident_le in E.
  destruct (qualify s); [cbn [length]; lia | exact I].
Qed.

Lemma lex_step_skip : forall st st', lex_step st = LSkip st' -> (length st' < length st)%nat.
Proof. intros st st' H. pose proof (lex_step_progress st) as P. rewrite H in P. exact P. Qed.
Lemma lex_step_tok : forall st t st', lex_step st = LTok t st' -> (length st' < length st)%nat.
Proof. intros st t st' H. pose proof (lex_step_progress st) as P. rewrite H in P. exact P. Qed.

Lemma lookup_kw_kind : forall s, lookup_kw s keywords <> TEof /\ lookup_kw s keywords <> TLexErr.
Proof.
  intros s. unfold keywords. cbn [lookup_kw].
  repeat match goal with |- context [if ?b then _ else _] => destruct b; [split; discriminate|] end.
  split; discriminate.
Qed.

(* a token of lex_step is never Eof / TLexErr *)
Lemma lex_step_tok_kind : forall st t st', lex_step st = LTok t st' -> t <> TEof /\ t <> TLexErr.
Proof.
  intros [|c r] t st' H; cbn [lex_step] in H; [discriminate|].
  destruct (c =? 0); [discriminate|].
  destruct (is_blank c || is_newline c); [discriminate|].
  destruct (c =? 47).
  { destruct r as [|d r2]; [discriminate|]. destruct (d =? 47); [discriminate|]. destruct (d =? 42); [|discriminate].
    destruct (long_comment r2); discriminate. }
  destruct (punct_of c); [inversion H; split; discriminate|].
  destruct (c =? 34). { destruct (read_string r []) as [[s r']|]; inversion H; split; discriminate. }
  destruct (c =? 35). { destruct (read_letters r []) as [w r']. destruct (beq w (bs "include")); inversion H; split; discriminate. }
  destruct (is_number c).
  { destruct (read_number (c :: r) false false []) as [[s dot] r'].
    destruct dot; [destruct (parse_float_ok s) | destruct (parse_int s)]; inversion H; split; discriminate. }
  destruct (is_letter c); [|discriminate].
  destruct (read_ident (c :: r) 0 []) as [[s r']|]; [|discriminate].
  destruct (qualify s) as [s'|]; [|discriminate].
  inversion H; subst. apply lookup_kw_kind.
Qed.

(* ---- next_token ---- *)
Theorem next_token_fuel : forall fuel st, (length st < fuel)%nat -> next_token fuel st <> Fuel.
Proof.
  induction fuel as [|f IH]; intros st H; [lia|].
  cbn [next_token]. destruct (lex_step st) as [st'| t st' | |] eqn:E; try discriminate.
  apply IH. apply lex_step_skip in E. lia.
Qed.

Theorem next_token_consumes : forall fuel st t st',
  next_token fuel st = Ok (t, st') -> t <> TEof -> (length st' < length st)%nat.
Proof.
  induction fuel as [|f IH]; intros st t st' H Ht; cbn [next_token] in H; [discriminate|].
  destruct (lex_step st) as [st1| t1 st1 | |] eqn:E; try discriminate.
  - apply IH in H; [|exact Ht]. apply lex_step_skip in E. lia.
  - inversion H; subst. apply lex_step_tok in E. exact E.
  - inversion H; subst. congruence.
Qed.

Theorem next_token_le : forall fuel st t st', next_token fuel st = Ok (t, st') -> (length st' <= length st)%nat.
Proof.
  induction fuel as [|f IH]; intros st t st' H; cbn [next_token] in H; [discriminate|].
  destruct (lex_step st) as [st1| t1 st1 | |] eqn:E; try discriminate.
  - apply IH in H. apply lex_step_skip in E. lia.
  - inversion H; subst. apply lex_step_tok in E. lia.
  - inversion H; subst. lia.
Qed.

(* Eof is idempotent: once returned, every later call returns it again and the state does not move *)
Theorem next_token_eof_idem : forall fuel st st',
  next_token fuel st = Ok (TEof, st') -> forall fuel', next_token (S fuel') st' = Ok (TEof, st').
Proof.
  induction fuel as [|f IH]; intros st st' H fuel'; cbn [next_token] in H; [discriminate|].
  destruct (lex_step st) as [st1| t1 st1 | |] eqn:E; try discriminate.
  - eapply IH; exact H.
  - inversion H; subst. apply lex_step_tok_kind in E. destruct E as [E _]. congruence.
  - inversion H; subst. cbn [next_token]. rewrite E. reflexivity.
Qed.

(* ---- tokenize ---- *)
Theorem tokenize_fuel : forall fuel st, (length st < fuel)%nat -> tokenize fuel st <> Fuel.
Proof.
  induction fuel as [|f IH]; intros st H; [lia|].
  cbn [tokenize]. destruct (lex_step st) as [st'| t st' | |] eqn:E; try discriminate.
  - apply IH. apply lex_step_skip in E. lia.
  - apply lex_step_tok in E. specialize (IH st' ltac:(lia)).
    destruct (tokenize f st'); [discriminate | discriminate | congruence].
Qed.

Theorem tokenize_not_err : forall fuel st, tokenize fuel st <> Err.
Proof.
  induction fuel as [|f IH]; intros st; cbn [tokenize]; [discriminate|].
  destruct (lex_step st) as [st'| t st' | |]; try discriminate; [apply IH|].
  specialize (IH st'). destruct (tokenize f st'); [discriminate | congruence | discriminate].
Qed.

Theorem tokenize_length : forall fuel st l, tokenize fuel st = Ok l -> (length l <= length st)%nat.
Proof.
  induction fuel as [|f IH]; intros st l H; cbn [tokenize] in H; [discriminate|].
  destruct (lex_step st) as [st'| t st' | |] eqn:E.
  - apply IH in H. apply lex_step_skip in E. lia.
  - destruct (tokenize f st') as [l'| |] eqn:T; try discriminate. inversion H; subst.
    apply IH in T. apply lex_step_tok in E. cbn [length]. lia.
  - inversion H; cbn; lia.
  - inversion H; subst. destruct st; [cbn in E; discriminate | cbn; lia].
Qed.

Theorem tokens_of_ok : forall input, exists l, tokens_of input = Ok l /\ (length l <= S (length input))%nat.
Proof.
  intros input. unfold tokens_of, lex_fuel, init_state.
  destruct (tokenize (S (S (length input))) (32 :: input)) as [l| |] eqn:E.
  - exists l. split; [reflexivity|]. apply tokenize_length in E. cbn [length] in E. exact E.
  - exfalso. eapply tokenize_not_err; exact E.
  - exfalso. eapply tokenize_fuel; [|exact E]. cbn [length]. lia.
Qed.
