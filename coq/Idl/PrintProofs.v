(* C16: the parser accepts every program of the grammar of Idl/Print.v and returns the AST it denotes. *)
From Coq Require Import String.
From Coq Require Import List NArith ZArith Bool Lia.
From TarsV Require Import Idl.Lexer Idl.Parser Idl.Print.
Import ListNotations.
Open Scope N_scope.

Notation len := (@List.length tok).

Lemma nx_ok : forall t r, t <> TLexErr -> nx (t :: r) = Ok (t, r).
Proof. intros t r H. destruct t; try reflexivity. congruence. Qed.
Lemma pk_eqb_refl : forall c, pk_eqb c c = true.
Proof. destruct c; reflexivity. Qed.
Lemma expect_p_ok : forall c r, expect_p c (TPunct c :: r) = Ok r.
Proof. intros. unfold expect_p. cbn [nx bind is_p]. rewrite pk_eqb_refl. reflexivity. Qed.
Lemma expect_name_ok : forall s r, expect_name (TName s :: r) = Ok (s, r).
Proof. reflexivity. Qed.
Lemma expect_int_ok : forall s v r, expect_int (TInt s v :: r) = Ok (v, r).
Proof. reflexivity. Qed.

Ltac nxs := rewrite nx_ok by (first [discriminate | assumption]); cbn [bind].
Ltac eps := rewrite expect_p_ok; cbn [bind].
Ltac ens := rewrite expect_name_ok; cbn [bind].
Ltac lens := repeat (rewrite app_length in * || cbn [length] in * ).

Lemma print_ty_cons : forall t, exists tk more, print_ty t = tk :: more.
Proof.
  induction t as [b u | s c | k IHk | k IHk w IHw | k IHk l]; cbn [print_ty]; eauto.
  destruct u; eauto.
Qed.

Lemma print_ty_head : forall t tk more, wf_ty t = true -> print_ty t = tk :: more -> tk <> TLexErr /\ starts_type tk = true /\ tk <> TKw KOut /\ tk <> TKw KVoid.
Proof.
  intros t tk more Hwf E. destruct t as [b u| s c | | |]; cbn [print_ty wf_ty] in *; try discriminate;
    try destruct u; inversion E; subst; cbn [starts_type]; repeat split; discriminate.
Qed.

(* parseType on a printed type: the first token is the current one *)
Lemma parse_type_print : forall t fuel tk more rest,
  wf_ty t = true -> print_ty t = tk :: more -> (len (more ++ rest) < fuel)%nat ->
  parse_type fuel tk (more ++ rest) = Ok (t, rest).
Proof.
  induction t as [b u | s c | k IHk | k IHk w IHw | k IHk l]; intros fuel tk more rest Hwf Hp Hf;
    (destruct fuel as [|f]; [lia|]); cbn [print_ty wf_ty] in Hp, Hwf.
  - destruct u.
    + inversion Hp; subst. cbn [app parse_type]. nxs.
      destruct f as [|f']; [cbn [app length] in Hf; lia|].
      destruct b; try discriminate; cbn [parse_type make_unsigned bind]; reflexivity.
    + inversion Hp; subst. cbn [app parse_type]. destruct b; try discriminate; reflexivity.
  - destruct c; try discriminate. inversion Hp; subst. reflexivity.
  - inversion Hp; subst. cbn [app parse_type]. eps.
    destruct (print_ty_cons k) as [tk' [more' E]]. rewrite E in *. rewrite <- app_assoc. cbn [app].
    destruct (print_ty_head _ _ _ Hwf E) as [Ht _]. nxs.
    rewrite (IHk f tk' more' (TPunct PShr :: rest) Hwf eq_refl).
    + cbn [bind]. eps. reflexivity.
    + lens. lia.
  - apply andb_true_iff in Hwf. destruct Hwf as [Hk Hw]. inversion Hp; subst.
    cbn [app parse_type]. eps.
    destruct (print_ty_cons k) as [tk' [more' E]]. destruct (print_ty_cons w) as [tk2 [more2 E2]].
    rewrite E, E2 in *. rewrite <- !app_assoc. cbn [app]. rewrite <- !app_assoc. cbn [app].
    destruct (print_ty_head _ _ _ Hk E) as [Ht _]. destruct (print_ty_head _ _ _ Hw E2) as [Ht2 _]. nxs.
    rewrite (IHk f tk' more' (TPunct PComma :: tk2 :: more2 ++ TPunct PShr :: rest) Hk eq_refl).
    + cbn [bind]. eps. nxs.
      rewrite (IHw f tk2 more2 (TPunct PShr :: rest) Hw eq_refl).
      * cbn [bind]. eps. reflexivity.
      * lens. lia.
    + lens. lia.
  - discriminate.
Qed.

Lemma member_default_print : forall ty d, wf_def ty d = true -> member_default ty (print_def d) = Ok (def_text d).
Proof.
  intros ty d H. destruct d; cbn [print_def member_default def_text wf_def] in *.
  - apply orb_true_iff in H. destruct (is_number_type ty), (is_name_type ty); cbn [negb andb] in *; try reflexivity. destruct H; discriminate.
  - rewrite H. reflexivity.
  - apply negb_true_iff in H. rewrite H. reflexivity.
  - rewrite H. reflexivity.
  - rewrite H. reflexivity.
  - reflexivity.
Qed.

Lemma parse_member_print : forall m fuel rest, wf_mem m = true -> (len (print_mem m ++ rest) < fuel)%nat ->
  parse_member fuel (print_mem m ++ rest) = Ok (Some (member_of m), rest).
Proof.
  intros m fuel rest Hwf Hf. unfold wf_mem in Hwf. apply andb_true_iff in Hwf. destruct Hwf as [Hty Htail].
  unfold print_mem in *. cbn [app] in *. unfold parse_member. nxs. nxs.
  assert (R : forall (k : bool -> res (option smember * list tok)),
             bind (match TKw (if s_req m then KRequire else KOptional) with TKw KRequire => Ok true | TKw KOptional => Ok false | _ => Err end) k = k (s_req m))
    by (intros; destruct (s_req m); reflexivity).
  rewrite R. clear R.
  destruct (print_ty_cons (s_ty m)) as [tk [more E]]. rewrite E in *. rewrite <- app_assoc. cbn [app].
  destruct (print_ty_head _ _ _ Hty E) as [Ht [Hst _]]. nxs. rewrite Hst. cbn [negb].
  rewrite (parse_type_print (s_ty m) fuel tk more _ Hty E) by (lens; lia).
  cbn [bind]. ens. unfold member_of.
  destruct (s_tail m) as [|s l|d]; cbn [print_tail app].
  - nxs. reflexivity.
  - nxs. rewrite expect_int_ok. cbn [bind]. eps. eps. reflexivity.
  - nxs. assert (Hd : print_def d <> TLexErr) by (destruct d; discriminate). nxs.
    rewrite (member_default_print _ _ Htail). cbn [bind]. destruct (def_text d) as [dd dt]. eps. reflexivity.
Qed.

Lemma member_loop_print : forall ms fuel rest acc, forallb wf_mem ms = true ->
  (len (concat (map print_mem ms) ++ TPunct PBraceR :: rest) < fuel)%nat ->
  member_loop fuel (concat (map print_mem ms) ++ TPunct PBraceR :: rest) acc = Ok (rev acc ++ map member_of ms, rest).
Proof.
  induction ms as [|m r IH]; intros fuel rest acc Hwf Hf; (destruct fuel as [|f]; [lia|]); cbn [map concat app member_loop].
  - unfold parse_member. nxs. cbn [bind]. rewrite app_nil_r. reflexivity.
  - cbn [forallb] in Hwf. apply andb_true_iff in Hwf. destruct Hwf as [Hm Hr].
    cbn [map concat] in Hf. rewrite <- app_assoc in *.
    rewrite (parse_member_print m (S f) _ Hm Hf). cbn [bind].
    rewrite IH; [|exact Hr|].
    + cbn [rev map]. rewrite <- app_assoc. reflexivity.
    + rewrite app_length in Hf. assert (1 <= len (print_mem m))%nat by (unfold print_mem; cbn [length]; lia). lia.
Qed.

(* ---------------- enums ---------------- *)
Lemma enum_loop_print : forall l fuel rest acc,
  (len (print_embs l ++ TPunct PBraceR :: rest) < fuel)%nat ->
  enum_loop true fuel (print_embs l ++ TPunct PBraceR :: rest) acc = Ok (rev acc ++ map emb_of l, rest).
Proof.
  induction l as [|x r IH]; intros fuel rest acc Hf; (destruct fuel as [|f]; [lia|]); cbn [print_embs].
  - cbn [app enum_loop map]. nxs. rewrite app_nil_r. reflexivity.
  - destruct r as [|y r'].
    + destruct x as [k | k s v | k n]; cbn [print_emb app enum_loop map emb_of]; nxs; nxs.
      * cbn [rev]. reflexivity.
      * nxs. nxs. cbn [rev]. reflexivity.
      * nxs. nxs. cbn [rev]. reflexivity.
    + assert (G : forall acc', (len (print_embs (y :: r') ++ TPunct PBraceR :: rest) < f)%nat ->
                  enum_loop true f (print_embs (y :: r') ++ TPunct PBraceR :: rest) (emb_of x :: acc') = Ok (rev acc' ++ map emb_of (x :: y :: r'), rest)).
      { intros acc' Hl. rewrite IH by exact Hl. cbn [rev map]. rewrite <- app_assoc. reflexivity. }
      change (print_embs (x :: y :: r')) with (print_emb x ++ TPunct PComma :: print_embs (y :: r')) in Hf.
      rewrite <- app_assoc in Hf. rewrite app_length in Hf.
      destruct x as [k | k s v | k n]; cbn [print_emb app enum_loop]; rewrite <- ?app_assoc; cbn [app]; nxs; nxs.
      * apply G. cbn [print_emb app length] in Hf. lia.
      * nxs. nxs. apply G. cbn [print_emb app length] in Hf. lia.
      * nxs. nxs. apply G. cbn [print_emb app length] in Hf. lia.
Qed.

Lemma parse_enum_print : forall name l m fuel rest,
  existsb (fun e => beq (en_name e) name) (m_enums m) = false ->
  (len (TName name :: TPunct PBraceL :: print_embs l ++ TPunct PBraceR :: TPunct PSemi :: rest) < fuel)%nat ->
  parse_enum true fuel m (TName name :: TPunct PBraceL :: print_embs l ++ TPunct PBraceR :: TPunct PSemi :: rest) =
  Ok (add_decl m (DEnum name l), rest).
Proof.
  intros name l m fuel rest Hn Hf. unfold parse_enum. ens. rewrite Hn. eps.
  rewrite enum_loop_print by (cbn [length] in Hf; lia). cbn [bind rev app]. eps. reflexivity.
Qed.

(* ---------------- structs ---------------- *)
Lemma parse_struct_print : forall name ms m fuel rest,
  existsb (fun s => beq (st_name s) name) (m_structs m) = false -> forallb wf_mem ms = true -> tags_nodup (map member_of ms) = true ->
  (len (TName name :: TPunct PBraceL :: concat (map print_mem ms) ++ TPunct PBraceR :: TPunct PSemi :: rest) < fuel)%nat ->
  parse_struct fuel m (TName name :: TPunct PBraceL :: concat (map print_mem ms) ++ TPunct PBraceR :: TPunct PSemi :: rest) =
  Ok (add_decl m (DStruct name ms), rest).
Proof.
  intros name ms m fuel rest Hn Hwf Htags Hf. unfold parse_struct. ens. rewrite Hn. eps.
  rewrite member_loop_print by (try exact Hwf; cbn [length] in Hf; lia). cbn [bind rev app]. eps.
  rewrite Htags. cbn [negb]. reflexivity.
Qed.

(* ---------------- constants ---------------- *)
Lemma parse_const_print : forall ty name v m fuel rest, wf_const ty v = true ->
  (len (print_ty ty ++ TName name :: TPunct PEq :: print_def v :: TPunct PSemi :: rest) < fuel)%nat ->
  parse_const fuel m (print_ty ty ++ TName name :: TPunct PEq :: print_def v :: TPunct PSemi :: rest) =
  Ok (add_decl m (DConst ty name v), rest).
Proof.
  intros ty name v m fuel rest Hwf Hf. unfold wf_const in Hwf.
  destruct ty as [b u| | | |]; try discriminate. apply andb_true_iff in Hwf. destruct Hwf as [Hty Hv].
  destruct (print_ty_cons (VBase b u)) as [tk [more E]]. rewrite E in *. cbn [app] in *.
  destruct (print_ty_head _ _ _ Hty E) as [Ht _]. unfold parse_const. nxs.
  assert (Hc : const_type_start tk = true).
  { cbn [print_ty wf_ty] in *. destruct u; inversion E; subst; [reflexivity|]. destruct b; try discriminate; reflexivity. }
  rewrite Hc. cbn [negb].
  rewrite (parse_type_print (VBase b u) fuel tk more _ Hty E) by (cbn [length] in Hf; lia).
  cbn [bind]. ens. eps.
  assert (Hd : print_def v <> TLexErr) by (destruct v; discriminate). nxs.
  destruct v; cbn [print_def def_text fst] in *; try discriminate.
  - rewrite Hv. cbn [bind]. eps. reflexivity.
  - rewrite Hv. cbn [bind]. eps. reflexivity.
  - apply negb_true_iff in Hv. rewrite Hv. cbn [bind]. eps. reflexivity.
  - rewrite Hv. cbn [bind]. eps. reflexivity.
  - rewrite Hv. cbn [bind]. eps. reflexivity.
Qed.

(* ---------------- key[...] ---------------- *)
Lemma hashkey_loop_print : forall more first fuel rest acc,
  (len (print_names first more ++ TPunct PSqR :: TPunct PSemi :: rest) < fuel)%nat ->
  hashkey_loop fuel (print_names first more ++ TPunct PSqR :: TPunct PSemi :: rest) acc = Ok (rev acc ++ first :: more, rest).
Proof.
  induction more as [|n r IH]; intros first fuel rest acc Hf; (destruct fuel as [|f]; [lia|]); cbn [print_names app hashkey_loop].
  - ens. nxs. eps. cbn [rev]. reflexivity.
  - ens. nxs. rewrite IH by (cbn [print_names app length] in Hf; lia). cbn [rev]. rewrite <- app_assoc. reflexivity.
Qed.

Lemma parse_hashkey_print : forall name first more m fuel rest,
  (len (TPunct PSqL :: TName name :: TPunct PComma :: print_names first more ++ TPunct PSqR :: TPunct PSemi :: rest) < fuel)%nat ->
  parse_hashkey fuel m (TPunct PSqL :: TName name :: TPunct PComma :: print_names first more ++ TPunct PSqR :: TPunct PSemi :: rest) =
  Ok (add_decl m (DKey name first more), rest).
Proof.
  intros name first more m fuel rest Hf. unfold parse_hashkey. eps. ens. eps.
  rewrite hashkey_loop_print by (cbn [length] in Hf; lia). cbn [bind rev app]. reflexivity.
Qed.

(* ---------------- interfaces ---------------- *)
Lemma print_args_unfold : forall x y r, print_args (x :: y :: r) = print_arg x ++ TPunct PComma :: print_args (y :: r).
Proof. reflexivity. Qed.

Lemma arg_eta : forall a, {| a_name := a_name a; a_out := a_out a; a_ty := a_ty a |} = a.
Proof. destruct a; reflexivity. Qed.

(* one argument, up to and including its name; [k] continues with the delimiter *)
Lemma arg_step : forall a f tk more rest acc (d : pk),
  wf_ty (a_ty a) = true -> print_arg a = tk :: more -> (S (len (more ++ TPunct d :: rest)) < S f)%nat ->
  arg_loop (S f) tk (more ++ TPunct d :: rest) acc =
  match d with
  | PComma => bind (nx rest) (fun p => let '(t5, ts5) := p in arg_loop f t5 ts5 (a :: acc))
  | PPtr => bind (expect_p PSemi rest) (fun ts5 => Ok (rev (a :: acc), ts5))
  | _ => Err
  end.
Proof.
  intros a f tk more rest acc d Hwf E Hf. unfold print_arg in E.
  destruct (print_ty_cons (a_ty a)) as [tk' [more' Et]]. rewrite Et in E.
  destruct (print_ty_head _ _ _ Hwf Et) as [Hne [_ [Hno _]]].
  cbn [arg_loop]. destruct (a_out a) eqn:Eo; cbn [app] in E; injection E as E1 E2; subst tk more.
  - cbn [app]. rewrite <- app_assoc. cbn [app]. nxs.
    rewrite (parse_type_print (a_ty a) f tk' more' _ Hwf Et) by (lens; lia).
    cbn [bind]. nxs. nxs. rewrite <- Eo. rewrite arg_eta. destruct d; reflexivity.
  - assert (M : forall (k : bool * tok * list tok -> res (list arg * list tok)) ts,
               bind (match tk' with TKw KOut => bind (nx ts) (fun p => let '(t, r) := p in Ok (true, t, r)) | _ => Ok (false, tk', ts) end) k = k (false, tk', ts)).
    { intros k ts. destruct tk' as [ | | | kw | | | | | | ]; try reflexivity. destruct kw; try reflexivity. congruence. }
    rewrite M. clear M. rewrite <- app_assoc. cbn [app].
    rewrite (parse_type_print (a_ty a) f tk' more' _ Hwf Et) by (lens; lia).
    cbn [bind]. nxs. nxs. rewrite <- Eo. rewrite arg_eta. destruct d; reflexivity.
Qed.

Lemma arg_loop_print : forall l fuel tk more rest acc,
  forallb (fun a => wf_ty (a_ty a)) l = true -> print_args l = tk :: more ->
  (S (len (more ++ TPunct PPtr :: TPunct PSemi :: rest)) < fuel)%nat ->
  arg_loop fuel tk (more ++ TPunct PPtr :: TPunct PSemi :: rest) acc = Ok (rev acc ++ l, rest).
Proof.
  induction l as [|x r IH]; intros fuel tk more rest acc Hwf E Hf; [discriminate|].
  destruct fuel as [|f]; [lia|].
  cbn [forallb] in Hwf. apply andb_true_iff in Hwf. destruct Hwf as [Hx Hr].
  destruct r as [|y r'].
  - cbn [print_args] in E. rewrite (arg_step x f tk more _ acc PPtr Hx E Hf). eps.
    cbn [rev]. reflexivity.
  - rewrite print_args_unfold in E.
    destruct (print_arg x) as [|tk0 more0] eqn:Ex.
    { unfold print_arg in Ex. destruct (print_ty_cons (a_ty x)) as [? [? Et]]. rewrite Et in Ex. destruct (a_out x); discriminate. }
    cbn [app] in E. injection E as E1 E2. subst tk0 more.
    change (match r' with [] => print_arg y | _ :: _ => print_arg y ++ TPunct PComma :: print_args r' end) with (print_args (y :: r')) in *.
    destruct (print_args (y :: r')) as [|tk1 more1] eqn:Ey.
    { cbn [print_args] in Ey. destruct r'; unfold print_arg in Ey; destruct (print_ty_cons (a_ty y)) as [? [? Et]]; rewrite Et in Ey; destruct (a_out y); discriminate. }
    rewrite <- app_assoc. cbn [app].
    rewrite (arg_step x f tk more0 _ acc PComma Hx Ex) by (rewrite <- app_assoc in Hf; cbn [app] in Hf; lia).
    assert (Hne : tk1 <> TLexErr).
    { cbn [print_args] in Ey. assert (Q : exists z, print_arg y = tk1 :: z).
      { destruct r'; [eexists; exact Ey|]. destruct (print_arg y) eqn:Eq; [|cbn [app] in Ey; inversion Ey; subst; eauto].
        unfold print_arg in Eq. destruct (print_ty_cons (a_ty y)) as [? [? Et]]. rewrite Et in Eq. destruct (a_out y); discriminate. }
      destruct Q as [z Q]. unfold print_arg in Q. cbn [forallb] in Hr. apply andb_true_iff in Hr. destruct Hr as [Hy _].
      destruct (print_ty_cons (a_ty y)) as [tky [mty Et]]. rewrite Et in Q. destruct (print_ty_head _ _ _ Hy Et) as [Hn _].
      destruct (a_out y); cbn [app] in Q; inversion Q; subst; [discriminate | exact Hn]. }
    nxs. rewrite (IH f tk1 more1 rest (x :: acc) Hr eq_refl).
    + cbn [rev]. rewrite <- app_assoc. reflexivity.
    + rewrite <- app_assoc in Hf. cbn [app] in Hf. lens. lia.
Qed.

Lemma func_eta : forall f, {| f_name := f_name f; f_ret := f_ret f; f_args := f_args f |} = f.
Proof. destruct f; reflexivity. Qed.

Lemma print_arg_head : forall a, wf_ty (a_ty a) = true -> exists tk more, print_arg a = tk :: more /\ tk <> TLexErr /\
  (forall A (x y z : A), match tk with TPunct PShr => x | TPunct PPtr => y | _ => z end = z).
Proof.
  intros a Hwf. unfold print_arg. destruct (print_ty_cons (a_ty a)) as [tk [more Et]]. rewrite Et.
  destruct (print_ty_head _ _ _ Hwf Et) as [Hne [Hst _]].
  destruct (a_out a); cbn [app].
  - do 2 eexists. split; [reflexivity|]. split; [discriminate|]. reflexivity.
  - do 2 eexists. split; [reflexivity|]. split; [exact Hne|]. intros. destruct tk as [ |p| | | | | | | | ]; try reflexivity; discriminate.
Qed.

Lemma print_args_head : forall l, l <> [] -> forallb (fun a => wf_ty (a_ty a)) l = true -> exists tk more, print_args l = tk :: more /\ tk <> TLexErr /\
  (forall A (x y z : A), match tk with TPunct PShr => x | TPunct PPtr => y | _ => z end = z).
Proof.
  intros l Hne Hwf. destruct l as [|a r]; [congruence|]. cbn [forallb] in Hwf. apply andb_true_iff in Hwf. destruct Hwf as [Ha _].
  destruct (print_arg_head a Ha) as [tk [more [E [H1 H2]]]]. cbn [print_args]. destruct r; rewrite E; cbn [app]; eauto.
Qed.

Lemma parse_fun_print : forall f fuel rest, wf_fun f = true -> (len (print_fun f ++ rest) < fuel)%nat ->
  parse_fun fuel (print_fun f ++ rest) = Ok (Some f, rest).
Proof.
  intros f fuel rest Hwf Hf. unfold wf_fun in Hwf. apply andb_true_iff in Hwf. destruct Hwf as [Hret Hargs].
  unfold print_fun in *. unfold parse_fun.
  assert (Tail : forall ret, ret = f_ret f -> forall ts, ts = TName (f_name f) :: TPunct PPtl :: print_args (f_args f) ++ [TPunct PPtr; TPunct PSemi] ++ rest ->
            (S (S (S (len (print_args (f_args f) ++ [TPunct PPtr; TPunct PSemi] ++ rest)))) < fuel)%nat ->
            bind (expect_name ts) (fun p => let '(name, ts3) := p in
              bind (expect_p PPtl ts3) (fun ts4 => bind (nx ts4) (fun q => let '(t5, ts5) := q in
                match t5 with
                | TPunct PShr => Ok (Some {| f_name := name; f_ret := ret; f_args := [] |}, ts5)
                | TPunct PPtr => bind (expect_p PSemi ts5) (fun ts6 => Ok (Some {| f_name := name; f_ret := ret; f_args := [] |}, ts6))
                | _ => bind (arg_loop fuel t5 ts5 []) (fun r => let '(args, ts6) := r in Ok (Some {| f_name := name; f_ret := ret; f_args := args |}, ts6))
                end))) = Ok (Some f, rest)).
  { intros ret -> ts -> Hl. ens. eps. destruct (f_args f) as [|a r] eqn:Ea.
    - cbn [print_args app]. nxs. eps. rewrite <- Ea. rewrite func_eta. reflexivity.
    - destruct (print_args_head (a :: r)) as [tk [more [E [H1 H2]]]]; [discriminate | exact Hargs |].
      rewrite E in *. cbn [app]. nxs. rewrite H2.
      change (more ++ TPunct PPtr :: TPunct PSemi :: rest) with (more ++ [TPunct PPtr; TPunct PSemi] ++ rest) in *.
      cbn [app] in *. rewrite (arg_loop_print (a :: r) fuel tk more rest [] Hargs E) by (cbn [length] in Hl; lia).
      cbn [bind rev app]. rewrite <- Ea. rewrite func_eta. reflexivity. }
  destruct (f_ret f) as [t|] eqn:Er.
  - destruct (print_ty_cons t) as [tk [more E]]. rewrite E in *. cbn [app] in *.
    destruct (print_ty_head _ _ _ Hret E) as [Hne [Hst [_ Hnv]]]. nxs.
    assert (M : forall A (x y : A), match tk with TPunct PBraceR => x | _ => y end = y).
    { intros. destruct tk as [ |p| | | | | | | | ]; try reflexivity; discriminate. }
    rewrite M. clear M.
    assert (M : forall A (x y : A), match tk with TKw KVoid => x | _ => y end = y).
    { intros. destruct tk as [ | | |k| | | | | | ]; try reflexivity. destruct k; try reflexivity. congruence. }
    rewrite M. clear M. rewrite Hst. cbn [negb].
    rewrite <- app_assoc. cbn [app].
    rewrite (parse_type_print t fuel tk more _ Hret E) by (rewrite <- app_assoc in Hf; cbn [app length] in Hf; lia).
    cbn [bind]. apply Tail; [reflexivity | rewrite <- app_assoc; reflexivity |].
    clear Tail. lens. lia.
  - cbn [app] in *. nxs. cbn [bind]. apply Tail; [reflexivity | rewrite <- app_assoc; reflexivity |].
    clear Tail. lens. lia.
Qed.

Lemma print_fun_len : forall f, (1 <= len (print_fun f))%nat.
Proof. intros f. unfold print_fun. destruct (f_ret f) as [t|]; [destruct (print_ty_cons t) as [? [? E]]; rewrite E|]; cbn [app length]; lia. Qed.

Lemma fun_loop_print : forall fs fuel rest acc, forallb wf_fun fs = true ->
  (len (concat (map print_fun fs) ++ TPunct PBraceR :: rest) < fuel)%nat ->
  fun_loop fuel (concat (map print_fun fs) ++ TPunct PBraceR :: rest) acc = Ok (rev acc ++ fs, rest).
Proof.
  induction fs as [|f r IH]; intros fuel rest acc Hwf Hf; (destruct fuel as [|n]; [lia|]); cbn [map concat app fun_loop].
  - unfold parse_fun. nxs. rewrite app_nil_r. reflexivity.
  - cbn [forallb] in Hwf. apply andb_true_iff in Hwf. destruct Hwf as [Hm Hr].
    cbn [map concat] in Hf. rewrite <- app_assoc in *.
    rewrite (parse_fun_print f (S n) _ Hm Hf). cbn [bind].
    rewrite IH; [|exact Hr|].
    + cbn [rev]. rewrite <- app_assoc. reflexivity.
    + rewrite app_length in Hf. pose proof (print_fun_len f). lia.
Qed.

Lemma parse_iface_print : forall name fs m fuel rest,
  existsb (fun i => beq (if_name i) name) (m_ifaces m) = false -> forallb wf_fun fs = true ->
  (len (TName name :: TPunct PBraceL :: concat (map print_fun fs) ++ TPunct PBraceR :: TPunct PSemi :: rest) < fuel)%nat ->
  parse_iface fuel m (TName name :: TPunct PBraceL :: concat (map print_fun fs) ++ TPunct PBraceR :: TPunct PSemi :: rest) =
  Ok (add_decl m (DIface name fs), rest).
Proof.
  intros name fs m fuel rest Hn Hwf Hf. unfold parse_iface. ens. rewrite Hn. eps.
  rewrite fun_loop_print by (try exact Hwf; cbn [length] in Hf; lia). cbn [bind rev app]. eps. reflexivity.
Qed.

(* ---------------- the module body ---------------- *)
Lemma print_decl_len : forall d, (1 <= len (print_decl d))%nat.
Proof. destruct d; cbn [print_decl length]; lia. Qed.

Lemma segment_loop_print : forall ds m fuel rest, wf_decls m ds = true ->
  (len (concat (map print_decl ds) ++ TPunct PBraceR :: TPunct PSemi :: rest) < fuel)%nat ->
  segment_loop true fuel m (concat (map print_decl ds) ++ TPunct PBraceR :: TPunct PSemi :: rest) = Ok (fold_left add_decl ds m, rest).
Proof.
  induction ds as [|d r IH]; intros m fuel rest Hwf Hf; (destruct fuel as [|n]; [lia|]); cbn [map concat app segment_loop fold_left].
  - nxs. eps. reflexivity.
  - cbn [wf_decls] in Hwf. apply andb_true_iff in Hwf. destruct Hwf as [Hd Hr].
    cbn [map concat] in Hf. rewrite <- app_assoc in *.
    assert (Hl : (len (concat (map print_decl r) ++ TPunct PBraceR :: TPunct PSemi :: rest) < n)%nat)
      by (rewrite app_length in Hf; pose proof (print_decl_len d); lia).
    destruct d as [name l | ty name v | name ms | name fs | name first more]; cbn [print_decl app wf_decl] in *; nxs.
    + apply negb_true_iff in Hd. rewrite <- app_assoc. cbn [app].
      rewrite parse_enum_print; [|exact Hd|rewrite <- app_assoc in Hf; cbn [app length] in *; lia].
      cbn [bind]. apply IH; assumption.
    + rewrite <- app_assoc. cbn [app].
      rewrite parse_const_print; [|exact Hd|rewrite <- app_assoc in Hf; cbn [app length] in *; lia].
      cbn [bind]. apply IH; assumption.
    + apply andb_true_iff in Hd. destruct Hd as [Hd Ht]. apply andb_true_iff in Hd. destruct Hd as [Hn Hm].
      apply negb_true_iff in Hn. rewrite <- app_assoc. cbn [app].
      rewrite parse_struct_print; [|exact Hn|exact Hm|exact Ht|rewrite <- app_assoc in Hf; cbn [app length] in *; lia].
      cbn [bind]. apply IH; assumption.
    + apply andb_true_iff in Hd. destruct Hd as [Hn Hm].
      apply negb_true_iff in Hn. rewrite <- app_assoc. cbn [app].
      rewrite parse_iface_print; [|exact Hn|exact Hm|rewrite <- app_assoc in Hf; cbn [app length] in *; lia].
      cbn [bind]. apply IH; assumption.
    + rewrite <- app_assoc. cbn [app].
      rewrite parse_hashkey_print; [|rewrite <- app_assoc in Hf; cbn [app length] in *; lia].
      cbn [bind]. apply IH; assumption.
Qed.

(* ---------------- the whole file ---------------- *)
Theorem parse_print : forall name ds, wf_decls (empty_module name) ds = true ->
  parse_tokens (print_prog name ds) = match analyze (module_of name ds) with Ok m' => OOk m' | _ => OErr end.
Proof.
  intros name ds Hwf. unfold parse_tokens, parse_tokens_gen, parse_fuel, print_prog.
  set (body := concat (map print_decl ds) ++ [TPunct PBraceR; TPunct PSemi]).
  cbn [length file_loop]. nxs. unfold parse_module. ens. unfold parse_segment. eps.
  subst body.
  replace (concat (map print_decl ds) ++ [TPunct PBraceR; TPunct PSemi]) with (concat (map print_decl ds) ++ TPunct PBraceR :: TPunct PSemi :: []) by reflexivity.
  rewrite segment_loop_print; [|exact Hwf|lia].
  cbn [bind fl_primary empty_file fl_includes fl_more nx]. cbn [bind fl_primary fl_includes fl_more].
  reflexivity.
Qed.

(* a concrete program of the grammar: every declaration form, members out of tag order, an array, defaults,
   an enum default resolved by the analysis *)
Definition example_prog : list sdecl :=
  [ DEnum (bs "E") [SEAuto (bs "A"); SEVal (bs "B") (bs "5") 5; SERef (bs "C") (bs "B"); SEAuto (bs "D")];
    DConst (VBase BInt true) (bs "c") (SDInt (bs "0x10") 16);
    DStruct (bs "In") [ {| s_tagtxt := bs "0"; s_tag := 0; s_req := true; s_ty := VBase BInt false; s_key := bs "x"; s_tail := STNone |} ];
    DStruct (bs "S") [ {| s_tagtxt := bs "7"; s_tag := 7; s_req := true; s_ty := VMap (VBase BString false) (VVec (VName (bs "In") CNone)); s_key := bs "m"; s_tail := STNone |};
                       {| s_tagtxt := bs "0"; s_tag := 0; s_req := false; s_ty := VName (bs "E") CNone; s_key := bs "e"; s_tail := STDef (SDName (bs "D")) |};
                       {| s_tagtxt := bs "3"; s_tag := 3; s_req := false; s_ty := VName (bs "In") CNone; s_key := bs "arr"; s_tail := STArr (bs "2") 2 |};
                       {| s_tagtxt := bs "4"; s_tag := 4; s_req := false; s_ty := VBase BFloat false; s_key := bs "f"; s_tail := STDef (SDFloat (bs "1.5")) |} ];
    DKey (bs "S") (bs "e") [bs "f"];
    DIface (bs "I") [ {| f_name := bs "op"; f_ret := Some (VBase BByte true);
                         f_args := [ {| a_name := bs "a"; a_out := false; a_ty := VName (bs "S") CNone |};
                                     {| a_name := bs "b"; a_out := true; a_ty := VVec (VName (bs "E") CNone) |} ] |};
                      {| f_name := bs "nop"; f_ret := None; f_args := [] |} ] ].

Example parse_print_instance :
  wf_decls (empty_module (bs "M")) example_prog = true /\
  match parse_tokens (print_prog (bs "M") example_prog) with
  | OOk m => (length (m_structs m), length (m_enums m), length (m_ifaces m), map sm_tag (st_mb (nth 1 (m_structs m) {| st_name := []; st_mb := [] |})))
  | _ => (O, O, O, [])
  end = (2%nat, 1%nat, 1%nat, [0; 3; 4; 7]%Z).
Proof. split; vm_compute; reflexivity. Qed.

(* the printed tokens are what the lexer produces from the obvious text *)
Example parse_print_instance_text :
  tokens_of (bs "module M { enum E { A, B = 5, C = B, D }; const unsigned int c = 0x10; struct In { 0 require int x; }; struct S { 7 require map<string, vector<In>> m; 0 optional E e = D; 3 optional In arr[2]; 4 optional float f = 1.5; }; key[S, e, f]; interface I { unsigned byte op(S a, out vector<E> b); void nop(); }; };")
  = Ok (print_prog (bs "M") example_prog).
Proof. vm_compute. reflexivity. Qed.

(* bytes: every input that the lexer turns into the tokens of a well-formed program is accepted with that AST *)
Theorem parse_bytes_print : forall input name ds,
  wf_decls (empty_module name) ds = true -> tokens_of input = Ok (print_prog name ds) ->
  parse_bytes input = match analyze (module_of name ds) with Ok m' => OOk m' | _ => OErr end.
Proof.
  intros input name ds Hwf Ht. unfold parse_bytes, parse_bytes_gen. rewrite Ht. apply (parse_print name ds Hwf).
Qed.
