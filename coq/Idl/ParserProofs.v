(* C16: the parser terminates on every token stream, hence on every byte string.
   Invariant of every fuelled function: [length ts < fuel] suffices, and what it returns is no longer than
   what it received (strictly shorter where the Go function always consumes a token on success): every
   loop iteration consumes a token or exits. *)
From Coq Require Import String.
From Coq Require Import List NArith ZArith Bool Lia.
From TarsV Require Import Idl.Lexer Idl.LexerProofs Idl.Parser.
Import ListNotations.
Open Scope N_scope.

Definition wp {A} (m : res A) (Q : A -> Prop) : Prop :=
  match m with Ok a => Q a | Err => True | Fuel => False end.

Lemma wp_bind {A B} (m : res A) (k : A -> res B) (Q : B -> Prop) :
  wp m (fun a => wp (k a) Q) -> wp (bind m k) Q.
Proof. destruct m; cbn; auto. Qed.
Lemma wp_mono {A} (m : res A) (P Q : A -> Prop) : wp m P -> (forall a, P a -> Q a) -> wp m Q.
Proof. destruct m; cbn; auto. Qed.
Lemma wp_not_fuel {A} (m : res A) (Q : A -> Prop) : wp m Q -> m <> Fuel.
Proof. destruct m; cbn; intros; [discriminate | discriminate | contradiction]. Qed.

Notation len := (@List.length tok).

Lemma nx_wp ts : wp (nx ts) (fun p => (len (snd p) <= len ts)%nat /\ (fst p <> TEof -> (len (snd p) < len ts)%nat)).
Proof.
  destruct ts as [|t r]; cbn [nx wp fst snd]; [split; [lia | congruence]|].
  destruct t; cbn [wp fst snd length]; try exact I; split; intros; lia.
Qed.

Lemma expect_p_wp c ts : wp (expect_p c ts) (fun r => (len r < len ts)%nat).
Proof.
  unfold expect_p. apply wp_bind. eapply wp_mono; [apply nx_wp|]. intros [t r] [H1 H2]. cbn [fst snd] in *.
  destruct t; cbn [is_p wp]; try exact I. destruct (pk_eqb p c); cbn [wp]; [|exact I]. apply H2. discriminate.
Qed.
Lemma expect_name_wp ts : wp (expect_name ts) (fun p => (len (snd p) < len ts)%nat).
Proof.
  unfold expect_name. apply wp_bind. eapply wp_mono; [apply nx_wp|]. intros [t r] [H1 H2]. cbn [fst snd] in *.
  destruct t; cbn [wp snd]; try exact I. apply H2. discriminate.
Qed.
Lemma expect_int_wp ts : wp (expect_int ts) (fun p => (len (snd p) < len ts)%nat).
Proof.
  unfold expect_int. apply wp_bind. eapply wp_mono; [apply nx_wp|]. intros [t r] [H1 H2]. cbn [fst snd] in *.
  destruct t; cbn [wp snd]; try exact I. apply H2. discriminate.
Qed.

(* discharge / drop the "fst p <> TEof -> ..." facts once the token is known *)
Ltac use_neq :=
  repeat match goal with
         | H : ?t <> TEof -> _ |- _ =>
             first [ let K := fresh in assert (K : t <> TEof) by discriminate; specialize (H K); clear K
                   | clear H ]
         end.

Ltac wp_nx := apply wp_bind; eapply wp_mono; [apply nx_wp|];
              let t := fresh "t" in let r := fresh "r" in let H1 := fresh "Hle" in let H2 := fresh "Hlt" in
              intros [t r] [H1 H2]; cbv beta in H1, H2; cbn [fst snd] in H1, H2; cbv beta iota zeta.
Tactic Notation "wp_nx" "as" ident(t) ident(r) :=
  apply wp_bind; eapply wp_mono; [apply nx_wp|];
  let H1 := fresh "Hle" in let H2 := fresh "Hlt" in
  intros [t r] [H1 H2]; cbv beta in H1, H2; cbn [fst snd] in H1, H2; cbv beta iota zeta.
Ltac wp_ep := apply wp_bind; eapply wp_mono; [apply expect_p_wp|];
              let r := fresh "r" in let H := fresh "Hlt" in intros r H; cbv beta in H; cbv beta iota zeta.
Ltac wp_en := apply wp_bind; eapply wp_mono; [apply expect_name_wp|];
              let n := fresh "n" in let r := fresh "r" in let H := fresh "Hlt" in intros [n r] H; cbv beta in H; cbn [fst snd] in H; cbv beta iota zeta.
Ltac wp_ei := apply wp_bind; eapply wp_mono; [apply expect_int_wp|];
              let n := fresh "n" in let r := fresh "r" in let H := fresh "Hlt" in intros [n r] H; cbv beta in H; cbn [fst snd] in H; cbv beta iota zeta.
Ltac wp_ok := cbn [wp fst snd]; use_neq; try lia.

(* ---------------- parseType ---------------- *)
Lemma parse_type_wp : forall fuel tk ts, (S (len ts) < fuel)%nat ->
  wp (parse_type fuel tk ts) (fun p => (len (snd p) <= len ts)%nat).
Proof.
  induction fuel as [|f IH]; intros tk ts H; [lia|].
  cbn [parse_type].
  destruct tk as [ | | | k | b | s | | | | ]; try exact I.
  - destruct k; try exact I.
    wp_nx. apply wp_bind.
    assert (G : wp (parse_type f t r) (fun p => (len (snd p) <= len r)%nat)).
    { destruct t as [ | p | | k | b | s | | | | ]; try (apply IH; use_neq; lia).
      destruct f; [lia | exact I]. }
    eapply wp_mono; [exact G|]. intros [u r2] Hu. cbn [snd] in Hu. cbv beta iota zeta.
    apply wp_bind. destruct (make_unsigned u) eqn:E; cbn [wp]; try exact I; [cbn [snd]; lia|].
    destruct u; try discriminate. destruct b; discriminate.
  - destruct b; try exact I; try (wp_ok; fail).
    + (* vector *)
      wp_ep. wp_nx. apply wp_bind. eapply wp_mono; [apply IH; lia|]. intros [k r2] Hk. cbn [snd] in Hk. cbv beta iota zeta.
      wp_ep. wp_ok.
    + (* map *)
      wp_ep. wp_nx. apply wp_bind. eapply wp_mono; [apply IH; lia|]. intros [k r2] Hk. cbn [snd] in Hk. cbv beta iota zeta.
      wp_ep. wp_nx. apply wp_bind. eapply wp_mono; [apply IH; lia|]. intros [v r5] Hv. cbn [snd] in Hv. cbv beta iota zeta.
      wp_ep. wp_ok.
  - wp_ok.
Qed.

Ltac wp_ty := apply wp_bind; eapply wp_mono; [apply parse_type_wp; use_neq; lia|];
              let v := fresh "v" in let r := fresh "r" in let H := fresh "Hle" in intros [v r] H; cbv beta in H; cbn [snd] in H; cbv beta iota zeta.

(* ---------------- enums ---------------- *)
Lemma enum_loop_wp : forall fuel ts acc, (len ts < fuel)%nat ->
  wp (enum_loop true fuel ts acc) (fun p => (len (snd p) < len ts)%nat).
Proof.
  induction fuel as [|f IH]; intros ts acc H; [lia|].
  cbn [enum_loop]. wp_nx.
  destruct t as [ | p | | k | b | s | | | | ]; try exact I;
    try (eapply wp_mono; [apply IH; use_neq; lia|]; intros [? ?] ?; cbn [snd] in *; use_neq; lia).
  - (* punct *) destruct p; try (wp_ok; fail);
      try (eapply wp_mono; [apply IH; use_neq; lia|]; intros [? ?] ?; cbn [snd] in *; use_neq; lia).
  - (* name *) use_neq. wp_nx.
    destruct t as [ | p | | k | b | s' | | | | ]; try exact I;
      try (eapply wp_mono; [apply IH; use_neq; lia|]; intros [? ?] ?; cbn [snd] in *; use_neq; lia).
    destruct p; try (wp_ok; fail);
      try (eapply wp_mono; [apply IH; use_neq; lia|]; intros [? ?] ?; cbn [snd] in *; use_neq; lia).
    (* '=' *)
    use_neq. wp_nx. apply wp_bind.
    destruct t as [ | p | | k | b | s' | | | | ]; cbn [wp]; try exact I.
    + wp_nx. destruct t as [ | p | | k | b | s2 | | | | ]; try exact I. destruct p; try exact I; try (wp_ok; fail).
      eapply wp_mono; [apply IH; use_neq; lia|]; intros [? ?] ?; cbn [snd] in *; use_neq; lia.
    + wp_nx. destruct t as [ | p | | k | b | s2 | | | | ]; try exact I. destruct p; try exact I; try (wp_ok; fail).
      eapply wp_mono; [apply IH; use_neq; lia|]; intros [? ?] ?; cbn [snd] in *; use_neq; lia.
Qed.

Lemma parse_enum_wp : forall fuel m ts, (len ts < fuel)%nat ->
  wp (parse_enum true fuel m ts) (fun p => (len (snd p) < len ts)%nat).
Proof.
  intros fuel m ts H. unfold parse_enum. wp_en.
  destruct (existsb _ _); [exact I|]. wp_ep.
  apply wp_bind. eapply wp_mono; [apply enum_loop_wp; lia|]. intros [mbs r3] H3. cbn [snd] in H3. cbv beta iota zeta.
  wp_ep. wp_ok.
Qed.

(* ---------------- structs ---------------- *)
Lemma member_default_nf : forall ty t, member_default ty t <> Fuel.
Proof.
  intros ty t. unfold member_default.
  destruct t as [ | p | | k | b | s | | | | ]; try discriminate;
    try (destruct k; try discriminate);
    repeat match goal with |- (if ?b then _ else _) <> _ => destruct b end; discriminate.
Qed.

Lemma parse_member_wp : forall fuel ts, (len ts < fuel)%nat ->
  wp (parse_member fuel ts) (fun p => (len (snd p) < len ts)%nat).
Proof.
  intros fuel ts H. unfold parse_member. wp_nx.
  destruct t as [ | p | | k | b | s | | s v | | ]; try exact I.
  - destruct p; try exact I. wp_ok.
  - use_neq. wp_nx as t2 r2. apply wp_bind.
    destruct t2 as [ | p | | k | b | s' | | | | ]; cbn [wp]; try exact I.
    destruct k; cbn [wp]; try exact I.
    all: use_neq; wp_nx as t3 r3; destruct (negb (starts_type t3)) eqn:ST; [exact I|];
      assert (t3 <> TEof) by (intros ->; cbn in ST; discriminate); use_neq;
      wp_ty; wp_en; wp_nx as t6 r6;
      (destruct t6 as [ | p | | k' | b' | s' | | | | ]; try exact I);
      (destruct p; try exact I);
      [ wp_ok
      | wp_nx as t7 r7; apply wp_bind;
        match goal with |- wp (member_default ?ty ?t) _ => destruct (member_default ty t) as [[d dt]| |] eqn:E end; cbn [wp];
        [ wp_ep; wp_ok | exact I | exact (member_default_nf _ _ E) ]
      | wp_ei; wp_ep; wp_ep; wp_ok ].
Qed.

Lemma member_loop_wp : forall fuel ts acc, (len ts < fuel)%nat ->
  wp (member_loop fuel ts acc) (fun p => (len (snd p) < len ts)%nat).
Proof.
  induction fuel as [|f IH]; intros ts acc H; [lia|].
  cbn [member_loop]. apply wp_bind. eapply wp_mono; [apply parse_member_wp; lia|].
  intros [m r] Hr. cbn [snd] in Hr. cbv beta iota zeta.
  destruct m; [|wp_ok].
  eapply wp_mono; [apply IH; lia|]. intros [? ?] ?; cbn [snd] in *; lia.
Qed.

Lemma parse_struct_wp : forall fuel m ts, (len ts < fuel)%nat ->
  wp (parse_struct fuel m ts) (fun p => (len (snd p) < len ts)%nat).
Proof.
  intros fuel m ts H. unfold parse_struct. wp_en.
  destruct (existsb _ _); [exact I|]. wp_ep.
  apply wp_bind. eapply wp_mono; [apply member_loop_wp; lia|]. intros [mbs r3] H3. cbn [snd] in H3. cbv beta iota zeta.
  wp_ep. destruct (negb (tags_nodup mbs)); [exact I|]. wp_ok.
Qed.

(* ---------------- interfaces ---------------- *)
Lemma arg_loop_wp : forall fuel tk ts acc, (S (S (len ts)) < fuel)%nat ->
  wp (arg_loop fuel tk ts acc) (fun p => (len (snd p) <= len ts)%nat).
Proof.
  induction fuel as [|f IH]; intros tk ts acc H; [lia|].
  cbn [arg_loop]. apply wp_bind.
  assert (G : wp (match tk with
                  | TKw KOut => '(t, r) <- nx ts;; Ok (true, t, r)
                  | _ => Ok (false, tk, ts)
                  end) (fun p => (len (snd p) <= len ts)%nat)).
  { destruct tk as [ | p | | k | b | s | | | | ]; try (cbn [wp snd]; lia). destruct k; try (cbn [wp snd]; lia). wp_nx. wp_ok. }
  eapply wp_mono; [exact G|]. intros [[isout tk1] ts1] H1. cbn [snd] in H1. cbv beta iota zeta.
  wp_ty. wp_nx. apply wp_bind.
  assert (G2 : wp (match t with
                   | TName s => '(t0, r1) <- nx r0;; Ok (s, t0, r1)
                   | _ => Ok ([], t, r0)
                   end) (fun p => (len (snd p) <= len r0)%nat /\ (snd (fst p) <> TEof -> (len (snd p) < len ts)%nat))).
  { destruct t as [ | p | | k | b | s | | | | ];
      try (cbn [wp fst snd]; split; [lia | intros K; try congruence; use_neq; lia]).
    wp_nx as t' r'. cbn [wp fst snd]. use_neq. split; intros; lia. }
  eapply wp_mono; [exact G2|]. intros [[name t4] ts4] [H4 H4']. cbn [fst snd] in H4, H4'. cbv beta iota zeta.
  destruct t4 as [ | p | | k | b | s | | | | ]; try exact I. destruct p; try exact I.
  - use_neq. wp_nx. eapply wp_mono; [apply IH; lia|]. intros [? ?] ?; cbn [snd] in *; lia.
  - wp_ep. wp_ok.
Qed.

Lemma parse_fun_wp : forall fuel ts, (len ts < fuel)%nat ->
  wp (parse_fun fuel ts) (fun p => (len (snd p) < len ts)%nat).
Proof.
  intros fuel ts H. unfold parse_fun. wp_nx.
  assert (G : forall (P : bool), wp
    ('(ret, ts2) <- match t with
                   | TKw KVoid => Ok (None, r)
                   | _ => if negb (starts_type t) then Err else '(ty, r0) <- parse_type fuel t r;; Ok (Some ty, r0)
                   end;;
     '(name, ts3) <- expect_name ts2;;
     ts4 <- expect_p PPtl ts3;;
     '(t5, ts5) <- nx ts4;;
     match t5 with
     | TPunct PShr => Ok (Some {| f_name := name; f_ret := ret; f_args := [] |}, ts5)
     | TPunct PPtr => ts6 <- expect_p PSemi ts5;; Ok (Some {| f_name := name; f_ret := ret; f_args := [] |}, ts6)
     | _ => '(args, ts6) <- arg_loop fuel t5 ts5 [];; Ok (Some {| f_name := name; f_ret := ret; f_args := args |}, ts6)
     end) (fun p => (len (snd p) < len ts)%nat)).
  { intros _. apply wp_bind.
    assert (G1 : wp (match t with
                     | TKw KVoid => Ok (None, r)
                     | _ => if negb (starts_type t) then Err else '(ty, r0) <- parse_type fuel t r;; Ok (Some ty, r0)
                     end) (fun p => (len (snd p) <= len r)%nat)).
    { destruct t as [ | p | | k | b | s | | | | ]; cbn [starts_type negb]; try exact I;
        try (wp_ty; wp_ok; fail).
      destruct k; cbn [starts_type negb]; try exact I; try (wp_ok; fail). wp_ty. wp_ok. }
    eapply wp_mono; [exact G1|]. intros [ret ts2] H2. cbn [snd] in H2. cbv beta iota zeta.
    wp_en. wp_ep. wp_nx.
    assert (A : wp ('(args, ts6) <- arg_loop fuel t0 r2 [];; Ok (Some {| f_name := n; f_ret := ret; f_args := args |}, ts6))
                   (fun p => (len (snd p) < len ts)%nat)).
    { apply wp_bind. eapply wp_mono; [apply arg_loop_wp; lia|]. intros [args r6] H6. cbn [snd] in H6. cbv beta iota zeta. wp_ok. }
    destruct t0 as [ | p | | k | b | s | | | | ]; try exact A.
    destruct p; try exact A.
    - wp_ok.
    - wp_ep. wp_ok. }
  destruct t as [ | p | | k | b | s | | | | ]; try (apply (G true)).
  destruct p; try (apply (G true)). wp_ok.
Qed.

Lemma fun_loop_wp : forall fuel ts acc, (len ts < fuel)%nat ->
  wp (fun_loop fuel ts acc) (fun p => (len (snd p) < len ts)%nat).
Proof.
  induction fuel as [|f IH]; intros ts acc H; [lia|].
  cbn [fun_loop]. apply wp_bind. eapply wp_mono; [apply parse_fun_wp; lia|].
  intros [m r] Hr. cbn [snd] in Hr. cbv beta iota zeta.
  destruct m; [|wp_ok].
  eapply wp_mono; [apply IH; lia|]. intros [? ?] ?; cbn [snd] in *; lia.
Qed.

Lemma parse_iface_wp : forall fuel m ts, (len ts < fuel)%nat ->
  wp (parse_iface fuel m ts) (fun p => (len (snd p) < len ts)%nat).
Proof.
  intros fuel m ts H. unfold parse_iface. wp_en.
  destruct (existsb _ _); [exact I|]. wp_ep.
  apply wp_bind. eapply wp_mono; [apply fun_loop_wp; lia|]. intros [fs r3] H3. cbn [snd] in H3. cbv beta iota zeta.
  wp_ep. wp_ok.
Qed.

(* ---------------- constants, key[...] ---------------- *)
Lemma parse_const_wp : forall fuel m ts, (len ts < fuel)%nat ->
  wp (parse_const fuel m ts) (fun p => (len (snd p) < len ts)%nat).
Proof.
  intros fuel m ts H. unfold parse_const. wp_nx.
  destruct (negb (const_type_start t)) eqn:C; [exact I|].
  assert (t <> TEof) by (intros ->; cbn in C; discriminate). specialize (Hlt H0).
  wp_ty. wp_en. wp_ep. wp_nx. apply wp_bind.
  destruct t0 as [ | p | | k | b | s | | | | ]; cbn [wp]; try exact I;
    try (destruct k; cbn [wp]; try exact I);
    repeat match goal with |- wp (if ?b then _ else _) _ => destruct b; cbn [wp]; try exact I end;
    wp_ep; wp_ok.
Qed.

Lemma hashkey_loop_wp : forall fuel ts acc, (len ts < fuel)%nat ->
  wp (hashkey_loop fuel ts acc) (fun p => (len (snd p) < len ts)%nat).
Proof.
  induction fuel as [|f IH]; intros ts acc H; [lia|].
  cbn [hashkey_loop]. wp_en. wp_nx.
  destruct t as [ | p | | k | b | s | | | | ]; try exact I. destruct p; try exact I.
  - eapply wp_mono; [apply IH; use_neq; lia|]. intros [? ?] ?; cbn [snd] in *; use_neq; lia.
  - wp_ep. wp_ok.
Qed.

Lemma parse_hashkey_wp : forall fuel m ts, (len ts < fuel)%nat ->
  wp (parse_hashkey fuel m ts) (fun p => (len (snd p) < len ts)%nat).
Proof.
  intros fuel m ts H. unfold parse_hashkey. wp_ep. wp_en. wp_ep.
  apply wp_bind. eapply wp_mono; [apply hashkey_loop_wp; lia|]. intros [mbs r3] H3. cbn [snd] in H3. cbv beta iota zeta.
  wp_ok.
Qed.

(* ---------------- module body, file ---------------- *)
Lemma segment_loop_wp : forall fuel m ts, (len ts < fuel)%nat ->
  wp (segment_loop true fuel m ts) (fun p => (len (snd p) < len ts)%nat).
Proof.
  induction fuel as [|f IH]; intros m ts H; [lia|].
  cbn [segment_loop]. wp_nx.
  destruct t as [ | p | | k | b | s | | | | ]; try exact I.
  - destruct p; try exact I. wp_ep. wp_ok.
  - use_neq. destruct k; try exact I; apply wp_bind.
    + eapply wp_mono; [apply parse_enum_wp; lia|]. intros [m' r2] H2. cbn [snd] in H2. cbv beta iota zeta.
      eapply wp_mono; [apply IH; lia|]. intros [? ?] ?; cbn [snd] in *; lia.
    + eapply wp_mono; [apply parse_struct_wp; lia|]. intros [m' r2] H2. cbn [snd] in H2. cbv beta iota zeta.
      eapply wp_mono; [apply IH; lia|]. intros [? ?] ?; cbn [snd] in *; lia.
    + eapply wp_mono; [apply parse_iface_wp; lia|]. intros [m' r2] H2. cbn [snd] in H2. cbv beta iota zeta.
      eapply wp_mono; [apply IH; lia|]. intros [? ?] ?; cbn [snd] in *; lia.
    + eapply wp_mono; [apply parse_const_wp; lia|]. intros [m' r2] H2. cbn [snd] in H2. cbv beta iota zeta.
      eapply wp_mono; [apply IH; lia|]. intros [? ?] ?; cbn [snd] in *; lia.
    + eapply wp_mono; [apply parse_hashkey_wp; lia|]. intros [m' r2] H2. cbn [snd] in H2. cbv beta iota zeta.
      eapply wp_mono; [apply IH; lia|]. intros [? ?] ?; cbn [snd] in *; lia.
Qed.

Lemma parse_module_wp : forall fuel fl ts, (len ts < fuel)%nat ->
  wp (parse_module true fuel fl ts) (fun p => (len (snd p) < len ts)%nat).
Proof.
  intros fuel fl ts H. unfold parse_module, parse_segment. wp_en.
  apply wp_bind. apply wp_bind. eapply wp_mono; [apply expect_p_wp|]. intros r1 H1. cbv beta in H1. cbv beta iota zeta.
  eapply wp_mono; [apply segment_loop_wp; lia|]. intros [m r2] H2. cbn [snd] in H2. cbv beta iota zeta.
  destruct (fl_primary fl); wp_ok.
Qed.

Lemma file_loop_wp : forall fuel fl ts, (len ts < fuel)%nat -> wp (file_loop true fuel fl ts) (fun _ => True).
Proof.
  induction fuel as [|f IH]; intros fl ts H; [lia|].
  cbn [file_loop]. wp_nx.
  destruct t as [ | p | | k | b | s | | | | ]; try exact I.
  - use_neq. wp_nx. destruct t as [ | p | | k | b | s | s | | | ]; try exact I. apply IH. use_neq. lia.
  - use_neq. destruct k; try exact I. apply wp_bind.
    eapply wp_mono; [apply parse_module_wp; lia|]. intros [fl' r2] H2. cbn [snd] in H2. cbv beta iota zeta.
    apply IH. lia.
Qed.

(* ---------------- the theorem ---------------- *)
Theorem parse_tokens_terminates : forall ts, parse_tokens_gen true (parse_fuel ts) ts <> OFuel.
Proof.
  intros ts. unfold parse_tokens_gen, parse_fuel.
  pose proof (file_loop_wp (S (S (len ts))) empty_file ts ltac:(lia)) as W.
  destruct (file_loop true (S (S (len ts))) empty_file ts) as [fl| |]; cbn [wp] in W; [|discriminate|contradiction].
  destruct (fl_includes fl); [|discriminate].
  destruct (fl_more fl); [|discriminate].
  destruct (fl_primary fl); [|discriminate].
  destruct (analyze m); discriminate.
Qed.

Theorem parse_bytes_terminates : forall input, parse_bytes input <> OFuel.
Proof.
  intros input. unfold parse_bytes, parse_bytes_gen.
  destruct (tokens_of_ok input) as [l [E _]]. rewrite E. apply parse_tokens_terminates.
Qed.

(* the total fuel is linear in the input: |input|+2 lexer steps, at most |input|+3 parser steps *)
Theorem fuel_linear : forall input l, tokens_of input = Ok l ->
  (lex_fuel input = length input + 2 /\ parse_fuel l <= length input + 3)%nat.
Proof.
  intros input l E. destruct (tokens_of_ok input) as [l' [E' L]]. rewrite E in E'. inversion E'; subst.
  unfold lex_fuel, parse_fuel. lia.
Qed.

(* the pinned snapshot's parseEnum (no case for Eof) spins on an enum left open at the end of the file:
   no amount of fuel suffices.  This is the defect repaired by e39406b; replayed on the code by the check. *)
Definition enum_open_at_eof : list tok := [TKw KModule; TName (bs "m"); TPunct PBraceL; TKw KEnum; TName (bs "E"); TPunct PBraceL].

Lemma enum_loop_unrepaired_spins : forall fuel acc, enum_loop false fuel [] acc = Fuel.
Proof. induction fuel as [|f IH]; intros acc; cbn [enum_loop nx bind]; [reflexivity | apply IH]. Qed.

Theorem unrepaired_hangs : forall fuel, parse_tokens_gen false fuel enum_open_at_eof = OFuel.
Proof.
  intros fuel. unfold parse_tokens_gen, enum_open_at_eof.
  destruct fuel as [|f]; [reflexivity|]. cbn [file_loop nx bind].
  unfold parse_module. cbn [expect_name nx bind]. unfold parse_segment. cbn [expect_p nx bind is_p pk_eqb].
  destruct f as [|f]; [reflexivity|]. cbn [segment_loop nx bind].
  unfold parse_enum. cbn [expect_name nx bind empty_module m_enums existsb expect_p is_p pk_eqb].
  rewrite enum_loop_unrepaired_spins. reflexivity.
Qed.

Example unrepaired_input : tokens_of (bs "module m { enum E {") = Ok enum_open_at_eof.
Proof. vm_compute. reflexivity. Qed.
Example repaired_diagnoses : parse_bytes (bs "module m { enum E {") = OErr.
Proof. vm_compute. reflexivity. Qed.
