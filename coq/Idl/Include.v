(* C16 model, part 6: several files.  parse.NewParse on a file that includes others (parse.go: newParse's chain of
   including files and its "circular reference" diagnostic, analyzeDepend, ast.go: FindTNameType / FindEnumName
   searching the included files depth first).

   The file system is a parameter [fs : name -> option content].  All files live in one directory and are named
   by the text between the quotes of #include (the harness keeps to that: no '/' in an include name; the search
   path of the -include option is empty), so "dir(source)/name" equality is name equality.  A file of the include
   closure that declares more than one module makes the outcome [FMulti] as before (compared by class only). *)
From Coq Require Import String.
From Coq Require Import List NArith ZArith Bool Lia.
From TarsV Require Import Idl.Lexer Idl.Parser.
Import ListNotations.
Open Scope N_scope.

(* a parsed file: its module (analysed) and the parsed files it includes, in the order of its #include lines *)
Inductive ptree := PT (m : module) (incs : list ptree).
Definition pt_mod (t : ptree) : module := match t with PT m _ => m end.

(* ---------------- ast.go: FindTNameType ---------------- *)
Fixpoint find_tname_t (t : ptree) (full : bytes) : option (ctype * bytes) :=
  match t with
  | PT m incs =>
      match find_tname m full with
      | CNone => (fix go (l : list ptree) : option (ctype * bytes) :=
                    match l with
                    | [] => None
                    | x :: r => match find_tname_t x full with Some h => Some h | None => go r end
                    end) incs
      | c => Some (c, m_name m)
      end
  end.

(* ---------------- ast.go: FindEnumName ---------------- *)
Inductive ehit := EHNone | EHErr | EHOk (e : enum) (mb : enum_mb) (modname : bytes).
Fixpoint find_enum_t (t : ptree) (ename : bytes) : ehit :=
  match t with
  | PT m incs =>
      match enum_hits m ename with
      | [] => (fix go (l : list ptree) : ehit :=
                 match l with
                 | [] => EHNone
                 | x :: r => match find_enum_t x ename with EHNone => go r | h => h end
                 end) incs
      | [(e, mb)] => EHOk e mb (m_name m)
      | _ => EHErr                           (* name conflict inside one module *)
      end
  end.

(* ---------------- parse.go: checkDepTName / analyzeDefault with included files ---------------- *)
Fixpoint check_tname_t (m : module) (incs : list ptree) (v : vty) : res vty :=
  match v with
  | VName s _ =>
      let full := if (count_cc s =? 0)%nat then m_name m ++ colons ++ s else s in
      match find_tname_t (PT m incs) full with
      | None => Err
      | Some (c, modn) => if beq modn (m_name m) then Ok (VName (remove_first (modn ++ colons) s) c)   (* the same module: no prefix *)
                          else Ok (VName s c)
      end
  | VVec k => k' <- check_tname_t m incs k ;; Ok (VVec k')
  | VMap k w => k' <- check_tname_t m incs k ;; w' <- check_tname_t m incs w ;; Ok (VMap k' w')
  | VArr k len => k' <- check_tname_t m incs k ;; Ok (VArr k' len)
  | _ => Ok v
  end.

Definition analyze_default_t (m : module) (incs : list ptree) (sm : smember) : res smember :=
  match sm_deft sm with
  | DName =>
      if match sm_def sm with [] => true | _ => false end then Ok sm else
      let ename := if (count_cc (sm_def sm) =? 0)%nat then sm_def sm else after_cc (sm_def sm) in
      match find_enum_t (PT m incs) ename with
      | EHOk e mb modn =>
          let dv := upper_first (en_name e) ++ [95] ++ upper_first (em_key mb) in
          let dv' := if negb (match modn with [] => true | _ => false end) && negb (beq (m_name m) modn) then modn ++ [46] ++ dv else dv in
          Ok {| sm_tag := sm_tag sm; sm_req := sm_req sm; sm_ty := sm_ty sm; sm_key := sm_key sm; sm_def := dv'; sm_deft := DName |}
      | _ => Err
      end
  | _ => Ok sm
  end.

Definition analyze_member_t (m : module) (incs : list ptree) (sm : smember) : res smember :=
  ty <- check_tname_t m incs (sm_ty sm) ;;
  Ok {| sm_tag := sm_tag sm; sm_req := sm_req sm; sm_ty := ty; sm_key := sm_key sm; sm_def := sm_def sm; sm_deft := sm_deft sm |}.
Definition analyze_arg_t (m : module) (incs : list ptree) (a : arg) : res arg :=
  ty <- check_tname_t m incs (a_ty a) ;; Ok {| a_name := a_name a; a_out := a_out a; a_ty := ty |}.
Definition analyze_fun_t (m : module) (incs : list ptree) (f : func) : res func :=
  args <- map_res (analyze_arg_t m incs) (f_args f) ;;
  ret <- match f_ret f with None => Ok None | Some t => t' <- check_tname_t m incs t ;; Ok (Some t') end ;;
  Ok {| f_name := f_name f; f_ret := ret; f_args := args |}.

Definition analyze_t (m : module) (incs : list ptree) : res module :=
  sts1 <- map_res (fun s => mbs <- map_res (analyze_default_t m incs) (st_mb s) ;; Ok {| st_name := st_name s; st_mb := mbs |}) (m_structs m) ;;
  sts2 <- map_res (fun s => mbs <- map_res (analyze_member_t m incs) (st_mb s) ;; Ok {| st_name := st_name s; st_mb := mbs |}) sts1 ;;
  ifs <- map_res (fun i => fs <- map_res (analyze_fun_t m incs) (if_funcs i) ;; Ok {| if_name := if_name i; if_funcs := fs |}) (m_ifaces m) ;;
  Ok {| m_name := m_name m; m_structs := sts2; m_hashkeys := m_hashkeys m; m_enums := m_enums m;
        m_consts := m_consts m; m_ifaces := ifs |}.

(* ---------------- the imports of the generated code ---------------- *)
(* checkDepTName records, for every user type of another module, the module FindTNameType found it in
   (Struct.DependModule / Interface.DependModule): gen_go.go imports exactly those.  The generated code names a user
   type by its (rewritten) TypeSt, "Mod::T" -> Mod.T: the modules it names are the prefixes of the qualified names
   left in the analysed AST.  [IncludeProofs.imports_cover]: these coincide in the model. *)
Fixpoint mod_prefix (l : bytes) : bytes :=
  match l with
  | [] => []
  | a :: r => match r with
              | [] => [a]
              | b :: _ => if (a =? 58) && (b =? 58) then [] else a :: mod_prefix r
              end
  end.
Fixpoint used_modules (v : vty) : list bytes :=
  match v with
  | VName s _ => if (count_cc s =? 0)%nat then [] else [mod_prefix s]
  | VVec k => used_modules k
  | VMap k w => used_modules k ++ used_modules w
  | VArr k _ => used_modules k
  | _ => []
  end.
(* what checkDepTName adds to DependModule for one type *)
Fixpoint recorded_deps (m : module) (incs : list ptree) (v : vty) : list bytes :=
  match v with
  | VName s _ =>
      let full := if (count_cc s =? 0)%nat then m_name m ++ colons ++ s else s in
      match find_tname_t (PT m incs) full with
      | Some (_, modn) => if beq modn (m_name m) then [] else [modn]
      | None => []
      end
  | VVec k => recorded_deps m incs k
  | VMap k w => recorded_deps m incs k ++ recorded_deps m incs w
  | VArr k _ => recorded_deps m incs k
  | _ => []
  end.
Definition struct_used (s : struct) : list bytes := flat_map (fun mb => used_modules (sm_ty mb)) (st_mb s).
Definition iface_used (i : iface) : list bytes :=
  flat_map (fun f => flat_map (fun a => used_modules (a_ty a)) (f_args f) ++ match f_ret f with Some t => used_modules t | None => [] end) (if_funcs i).
Definition model_deps (m : module) : list (list bytes) := map struct_used (m_structs m) ++ map iface_used (m_ifaces m).
Definition set_eqb (a b : list bytes) : bool :=
  forallb (fun x => existsb (beq x) b) a && forallb (fun x => existsb (beq x) a) b.
Fixpoint deps_eqb (a b : list (list bytes)) : bool :=
  match a, b with
  | [], [] => true
  | x :: a', y :: b' => set_eqb x y && deps_eqb a' b'
  | _, _ => false
  end.

(* ---------------- NewParse over the file system ---------------- *)
Inductive fres := FOk (t : ptree) | FMulti | FErr | FFuel.

Section WithFS.
Variable fs : bytes -> option bytes.

(* the included files of one file, in order; the first failure decides *)
Fixpoint parse_incs (pf : bytes -> fres) (names : list bytes) : fres + list ptree :=
  match names with
  | [] => inr []
  | n :: r => match pf n with
              | FOk t => match parse_incs pf r with inr ts => inr (t :: ts) | inl e => inl e end
              | e => inl e
              end
  end.

(* [fuel]: the depth of the include chain still allowed *)
Fixpoint parse_file (fuel : nat) (name : bytes) (chain : list bytes) : fres :=
  match fuel with
  | O => FFuel
  | S f =>
      if existsb (beq name) chain then FErr                      (* newParse: "jce circular reference" *)
      else match fs name with
      | None => FErr                                             (* log.Fatalln("file read error") *)
      | Some data =>
          match tokens_of data with
          | Fuel => FFuel
          | Err => FErr
          | Ok ts =>
              match file_loop true (parse_fuel ts) empty_file ts with
              | Fuel => FFuel
              | Err => FErr
              | Ok fl =>
                  match fl_more fl with
                  | _ :: _ => FMulti
                  | [] =>
                      match parse_incs (fun n => parse_file f n (chain ++ [name])) (fl_includes fl) with
                      | inl e => e
                      | inr incs =>
                          let m0 := match fl_primary fl with Some m => m | None => empty_module [] end in
                          match analyze_t m0 incs with
                          | Ok m' => FOk (PT m' incs)
                          | _ => FErr
                          end
                      end
                  end
              end
          end
      end
  end.
End WithFS.

(* a file system given as a finite list of (name, content); the first entry of a name counts *)
Fixpoint fs_of (files : list (bytes * bytes)) (name : bytes) : option bytes :=
  match files with
  | [] => None
  | (n, d) :: r => if beq n name then Some d else fs_of r name
  end.

Definition main_name : bytes := bs "in.tars".
(* NewParse(dir/in.tars) with the other files beside it: the chain can be as long as there are files *)
Definition parse_fs (input : bytes) (files : list (bytes * bytes)) : fres :=
  parse_file (fs_of ((main_name, input) :: files)) (S (S (length files))) main_name [].
