(* C16 model, part 2: tars2go's recursive-descent parser (tars/tools/tars2go/parse/parse.go) over the token
   stream of Idl/Lexer.v, and the AST of ast/ast.go.

   The parser state is the list of tokens not yet delivered; [nx] is [p.next()]: at the end of the list
   the lexer keeps returning Eof, on [TLexErr] the lexer's panic propagates.  Every Go loop / recursion is
   a fuelled recursion; [parseErr] panics are [Err].  Go keeps "the current token" in [p.tk]; here each
   function receives the current token where the Go function reads [p.tk] on entry, and returns the tokens
   still undelivered (so "p.tk after the call" is the last token the function consumed).

   [repaired] selects the tree's behaviour in parseEnum's loop at end of file: [true] is the tree after
   e39406b (diagnostic), [false] the pinned snapshot (no case for Eof: the loop spins). *)
From Coq Require Import String.
From Coq Require Import List NArith ZArith Bool Lia.
From TarsV Require Import Idl.Lexer.
Import ListNotations.
Open Scope N_scope.

Definition bind {A B} (m : res A) (k : A -> res B) : res B :=
  match m with Ok a => k a | Err => Err | Fuel => Fuel end.
Notation "x <- e ;; k" := (bind e (fun x => k)) (at level 61, e at next level, right associativity).
Notation "' p <- e ;; k" := (bind e (fun x => let p := x in k)) (at level 61, p pattern, e at next level, right associativity).

(* ---------------- AST (ast/ast.go) ---------------- *)
Inductive ctype := CNone | CEnum | CStruct.
Inductive vty :=
| VBase (b : bty) (unsigned : bool)   (* int bool short byte long float double string *)
| VName (s : bytes) (c : ctype)       (* user type; c is filled in by the analysis *)
| VVec (k : vty)
| VMap (k v : vty)
| VArr (k : vty) (len : Z).

Record enum_mb := { em_key : bytes; em_kind : N (* 0 value, 1 name, 2 auto *); em_val : Z; em_name : bytes }.
Record enum := { en_name : bytes; en_mb : list enum_mb }.

Inductive deft := DNone | DInt | DFloat | DStr | DTrue | DFalse | DName.
Record smember := { sm_tag : Z; sm_req : bool; sm_ty : vty; sm_key : bytes; sm_def : bytes; sm_deft : deft }.
Record struct := { st_name : bytes; st_mb : list smember }.

Record arg := { a_name : bytes; a_out : bool; a_ty : vty }.
Record func := { f_name : bytes; f_ret : option vty; f_args : list arg }.
Record iface := { if_name : bytes; if_funcs : list func }.

Record const := { c_ty : vty; c_name : bytes; c_val : bytes }.
Record hashkey := { hk_name : bytes; hk_mb : list bytes }.

Record module := { m_name : bytes; m_structs : list struct; m_hashkeys : list hashkey; m_enums : list enum;
                   m_consts : list const; m_ifaces : list iface }.
Definition empty_module (n : bytes) : module :=
  {| m_name := n; m_structs := []; m_hashkeys := []; m_enums := []; m_consts := []; m_ifaces := [] |}.

(* a parsed file: includes, the first module (None = no module yet; ast.TarsFile.Module.Name == ""), and the
   further modules of the same file (IncTarsFile entries made by parseModule) *)
Record file := { fl_includes : list bytes; fl_primary : option module; fl_more : list module }.
Definition empty_file : file := {| fl_includes := []; fl_primary := None; fl_more := [] |}.

(* ---------------- token helpers ---------------- *)
Definition nx (ts : list tok) : res (tok * list tok) :=
  match ts with
  | [] => Ok (TEof, [])
  | TLexErr :: _ => Err
  | t :: r => Ok (t, r)
  end.

Definition pk_eqb (a b : pk) : bool :=
  match a, b with
  | PBraceL, PBraceL | PBraceR, PBraceR | PSemi, PSemi | PEq, PEq | PShl, PShl | PShr, PShr | PComma, PComma
  | PPtl, PPtl | PPtr, PPtr | PSqL, PSqL | PSqR, PSqR => true
  | _, _ => false
  end.
Definition is_p (c : pk) (t : tok) : bool := match t with TPunct d => pk_eqb d c | _ => false end.

(* p.expect(punctuation) *)
Definition expect_p (c : pk) (ts : list tok) : res (list tok) :=
  '(t, r) <- nx ts ;; if is_p c t then Ok r else Err.
(* p.expect(token.Name); the name *)
Definition expect_name (ts : list tok) : res (bytes * list tok) :=
  '(t, r) <- nx ts ;; match t with TName s => Ok (s, r) | _ => Err end.
Definition expect_int (ts : list tok) : res (Z * list tok) :=
  '(t, r) <- nx ts ;; match t with TInt _ v => Ok (v, r) | _ => Err end.

Definition wrap32 (z : Z) : Z := ((z + 2147483648) mod 4294967296 - 2147483648)%Z.

(* token.IsType / IsNumberType *)
Definition is_type_tok (t : tok) : bool := match t with TTy _ => true | _ => false end.
Definition starts_type (t : tok) : bool :=
  match t with TTy _ | TName _ | TKw KUnsigned => true | _ => false end.
Definition num_bty (b : bty) : bool :=
  match b with BInt | BBool | BShort | BByte | BLong | BFloat | BDouble => true | _ => false end.
Definition is_number_type (v : vty) : bool := match v with VBase b _ => num_bty b | _ => false end.
Definition is_name_type (v : vty) : bool := match v with VName _ _ => true | _ => false end.
Definition is_bool_type (v : vty) : bool := match v with VBase BBool _ => true | _ => false end.

(* ---------------- parseType (parse.go:111-141) ---------------- *)
Definition make_unsigned (v : vty) : res vty :=
  match v with
  | VBase BInt _ => Ok (VBase BInt true)
  | VBase BShort _ => Ok (VBase BShort true)
  | VBase BByte _ => Ok (VBase BByte true)
  | _ => Err
  end.

Fixpoint parse_type (fuel : nat) (tk : tok) (ts : list tok) : res (vty * list tok) :=
  match fuel with
  | O => Fuel
  | S f =>
    match tk with
    | TName s => Ok (VName s CNone, ts)
    | TTy BVector =>
        ts1 <- expect_p PShl ts ;;
        '(t, ts2) <- nx ts1 ;;
        '(k, ts3) <- parse_type f t ts2 ;;
        ts4 <- expect_p PShr ts3 ;;
        Ok (VVec k, ts4)
    | TTy BMap =>
        ts1 <- expect_p PShl ts ;;
        '(t, ts2) <- nx ts1 ;;
        '(k, ts3) <- parse_type f t ts2 ;;
        ts4 <- expect_p PComma ts3 ;;
        '(t', ts5) <- nx ts4 ;;
        '(v, ts6) <- parse_type f t' ts5 ;;
        ts7 <- expect_p PShr ts6 ;;
        Ok (VMap k v, ts7)
    | TTy BArray => Err
    | TTy b => Ok (VBase b false, ts)
    | TKw KUnsigned =>
        '(t, ts1) <- nx ts ;;
        '(u, ts2) <- parse_type f t ts1 ;;
        u' <- make_unsigned u ;;
        Ok (u', ts2)
    | _ => Err
    end
  end.

(* ---------------- parseEnum (parse.go:143-198) ---------------- *)
Definition mk_mb (k : bytes) (kind : N) (v : Z) (n : bytes) : enum_mb :=
  {| em_key := k; em_kind := kind; em_val := v; em_name := n |}.

Section WithRepair.
Variable repaired : bool.

Fixpoint enum_loop (fuel : nat) (ts : list tok) (acc : list enum_mb) : res (list enum_mb * list tok) :=
  match fuel with
  | O => Fuel
  | S f =>
    '(t, ts1) <- nx ts ;;
    match t with
    | TPunct PBraceR => Ok (rev acc, ts1)
    | TEof => if repaired then Err else enum_loop f ts1 acc
    | TName k =>
        '(t2, ts2) <- nx ts1 ;;
        match t2 with
        | TPunct PComma => enum_loop f ts2 (mk_mb k 2 0 [] :: acc)
        | TPunct PBraceR => Ok (rev (mk_mb k 2 0 [] :: acc), ts2)
        | TPunct PEq =>
            '(t3, ts3) <- nx ts2 ;;
            m <- match t3 with
                 | TInt _ v => Ok (mk_mb k 0 (wrap32 v) [])
                 | TName n => Ok (mk_mb k 1 0 n)
                 | _ => Err
                 end ;;
            '(t4, ts4) <- nx ts3 ;;
            match t4 with
            | TPunct PBraceR => Ok (rev (m :: acc), ts4)
            | TPunct PComma => enum_loop f ts4 (m :: acc)
            | _ => Err
            end
        | _ => enum_loop f ts2 acc      (* no case in the inner switch: the name is dropped *)
        end
    | _ => enum_loop f ts1 acc          (* no case in the outer switch: the token is ignored *)
    end
  end.

Definition parse_enum (fuel : nat) (m : module) (ts : list tok) : res (module * list tok) :=
  '(name, ts1) <- expect_name ts ;;
  if existsb (fun e => beq (en_name e) name) (m_enums m) then Err else
  ts2 <- expect_p PBraceL ts1 ;;
  '(mbs, ts3) <- enum_loop fuel ts2 [] ;;
  ts4 <- expect_p PSemi ts3 ;;
  Ok ({| m_name := m_name m; m_structs := m_structs m; m_hashkeys := m_hashkeys m;
         m_enums := m_enums m ++ [ {| en_name := name; en_mb := mbs |} ];
         m_consts := m_consts m; m_ifaces := m_ifaces m |}, ts4).

(* ---------------- struct members (parse.go:200-334) ---------------- *)
(* parseStructMemberDefault on the current token *)
Definition member_default (ty : vty) (t : tok) : res (bytes * deft) :=
  match t with
  | TInt s _ => if negb (is_number_type ty) && negb (is_name_type ty) then Err else Ok (s, DInt)
  | TFloat s => if negb (is_number_type ty) then Err else Ok (s, DFloat)
  | TStr s => if is_number_type ty then Err else Ok (34 :: s ++ [34], DStr)
  | TKw KTrue => if is_bool_type ty then Ok (bs "true", DTrue) else Err
  | TKw KFalse => if is_bool_type ty then Ok (bs "false", DFalse) else Err
  | TName s => Ok (s, DName)
  | _ => Err
  end.

(* parseStructMember: None = the closing brace *)
Definition parse_member (fuel : nat) (ts : list tok) : res (option smember * list tok) :=
  '(t, ts1) <- nx ts ;;
  match t with
  | TPunct PBraceR => Ok (None, ts1)
  | TInt _ tagv =>
      '(t2, ts2) <- nx ts1 ;;
      req <- match t2 with TKw KRequire => Ok true | TKw KOptional => Ok false | _ => Err end ;;
      '(t3, ts3) <- nx ts2 ;;
      if negb (starts_type t3) then Err else
      '(ty, ts4) <- parse_type fuel t3 ts3 ;;
      '(key, ts5) <- expect_name ts4 ;;
      '(t6, ts6) <- nx ts5 ;;
      let mk ty d dt := {| sm_tag := wrap32 tagv; sm_req := req; sm_ty := ty; sm_key := key; sm_def := d; sm_deft := dt |} in
      match t6 with
      | TPunct PSemi => Ok (Some (mk ty [] DNone), ts6)
      | TPunct PSqL =>
          '(len, ts7) <- expect_int ts6 ;;
          ts8 <- expect_p PSqR ts7 ;;
          ts9 <- expect_p PSemi ts8 ;;
          Ok (Some (mk (VArr ty len) [] DNone), ts9)
      | TPunct PEq =>
          '(t7, ts7) <- nx ts6 ;;
          '(d, dt) <- member_default ty t7 ;;
          ts8 <- expect_p PSemi ts7 ;;
          Ok (Some (mk ty d dt), ts8)
      | _ => Err
      end
  | _ => Err
  end.

Fixpoint member_loop (fuel : nat) (ts : list tok) (acc : list smember) : res (list smember * list tok) :=
  match fuel with
  | O => Fuel
  | S f =>
    '(m, ts1) <- parse_member fuel ts ;;
    match m with
    | None => Ok (rev acc, ts1)
    | Some m => member_loop f ts1 (m :: acc)
    end
  end.

(* checkTag: no two members with the same tag *)
Fixpoint tags_nodup (l : list smember) : bool :=
  match l with
  | [] => true
  | m :: r => negb (existsb (fun m' => (sm_tag m' =? sm_tag m)%Z) r) && tags_nodup r
  end.

(* sortTag: sort.Sort by tag; the tags are pairwise different here, so the result is the unique ascending
   arrangement whatever the algorithm *)
Fixpoint insert_tag (m : smember) (l : list smember) : list smember :=
  match l with
  | [] => [m]
  | x :: r => if (sm_tag m <? sm_tag x)%Z then m :: l else x :: insert_tag m r
  end.
Definition sort_tags (l : list smember) : list smember := fold_right insert_tag [] l.

Definition parse_struct (fuel : nat) (m : module) (ts : list tok) : res (module * list tok) :=
  '(name, ts1) <- expect_name ts ;;
  if existsb (fun s => beq (st_name s) name) (m_structs m) then Err else
  ts2 <- expect_p PBraceL ts1 ;;
  '(mbs, ts3) <- member_loop fuel ts2 [] ;;
  ts4 <- expect_p PSemi ts3 ;;
  if negb (tags_nodup mbs) then Err else
  Ok ({| m_name := m_name m; m_structs := m_structs m ++ [ {| st_name := name; st_mb := sort_tags mbs |} ];
         m_hashkeys := m_hashkeys m; m_enums := m_enums m; m_consts := m_consts m; m_ifaces := m_ifaces m |}, ts4).

(* ---------------- interfaces (parse.go:336-415) ---------------- *)
Fixpoint arg_loop (fuel : nat) (tk : tok) (ts : list tok) (acc : list arg) : res (list arg * list tok) :=
  match fuel with
  | O => Fuel
  | S f =>
    '(isout, tk1, ts1) <- match tk with
                          | TKw KOut => '(t, r) <- nx ts ;; Ok (true, t, r)
                          | _ => Ok (false, tk, ts)
                          end ;;
    '(ty, ts2) <- parse_type f tk1 ts1 ;;
    '(t3, ts3) <- nx ts2 ;;
    '(name, t4, ts4) <- match t3 with
                        | TName s => '(t, r) <- nx ts3 ;; Ok (s, t, r)
                        | _ => Ok ([], t3, ts3)
                        end ;;
    let a := {| a_name := name; a_out := isout; a_ty := ty |} in
    match t4 with
    | TPunct PComma => '(t5, ts5) <- nx ts4 ;; arg_loop f t5 ts5 (a :: acc)
    | TPunct PPtr => ts5 <- expect_p PSemi ts4 ;; Ok (rev (a :: acc), ts5)
    | _ => Err
    end
  end.

(* parseInterfaceFun: None = the closing brace *)
Definition parse_fun (fuel : nat) (ts : list tok) : res (option func * list tok) :=
  '(t, ts1) <- nx ts ;;
  match t with
  | TPunct PBraceR => Ok (None, ts1)
  | _ =>
    '(ret, ts2) <- match t with
                   | TKw KVoid => Ok (None, ts1)
                   | _ => if negb (starts_type t) then Err
                          else '(ty, r) <- parse_type fuel t ts1 ;; Ok (Some ty, r)
                   end ;;
    '(name, ts3) <- expect_name ts2 ;;
    ts4 <- expect_p PPtl ts3 ;;
    '(t5, ts5) <- nx ts4 ;;
    match t5 with
    | TPunct PShr => Ok (Some {| f_name := name; f_ret := ret; f_args := [] |}, ts5)   (* '>' after '(' returns at once *)
    | TPunct PPtr => ts6 <- expect_p PSemi ts5 ;; Ok (Some {| f_name := name; f_ret := ret; f_args := [] |}, ts6)
    | _ => '(args, ts6) <- arg_loop fuel t5 ts5 [] ;;
           Ok (Some {| f_name := name; f_ret := ret; f_args := args |}, ts6)
    end
  end.

Fixpoint fun_loop (fuel : nat) (ts : list tok) (acc : list func) : res (list func * list tok) :=
  match fuel with
  | O => Fuel
  | S f =>
    '(fn, ts1) <- parse_fun fuel ts ;;
    match fn with
    | None => Ok (rev acc, ts1)
    | Some fn => fun_loop f ts1 (fn :: acc)
    end
  end.

Definition parse_iface (fuel : nat) (m : module) (ts : list tok) : res (module * list tok) :=
  '(name, ts1) <- expect_name ts ;;
  if existsb (fun i => beq (if_name i) name) (m_ifaces m) then Err else
  ts2 <- expect_p PBraceL ts1 ;;
  '(fs, ts3) <- fun_loop fuel ts2 [] ;;
  ts4 <- expect_p PSemi ts3 ;;
  Ok ({| m_name := m_name m; m_structs := m_structs m; m_hashkeys := m_hashkeys m; m_enums := m_enums m;
         m_consts := m_consts m; m_ifaces := m_ifaces m ++ [ {| if_name := name; if_funcs := fs |} ] |}, ts4).

(* ---------------- constants (parse.go:417-467) ---------------- *)
Definition const_type_start (t : tok) : bool :=
  match t with
  | TTy BBool | TTy BByte | TTy BShort | TTy BInt | TTy BLong | TTy BFloat | TTy BDouble | TTy BString | TKw KUnsigned => true
  | _ => false
  end.

Definition parse_const (fuel : nat) (m : module) (ts : list tok) : res (module * list tok) :=
  '(t, ts1) <- nx ts ;;
  if negb (const_type_start t) then Err else
  '(ty, ts2) <- parse_type fuel t ts1 ;;
  '(name, ts3) <- expect_name ts2 ;;
  ts4 <- expect_p PEq ts3 ;;
  '(t5, ts5) <- nx ts4 ;;
  v <- match t5 with
       | TInt s _ | TFloat s => if is_number_type ty then Ok s else Err
       | TStr s => if is_number_type ty then Err else Ok (34 :: s ++ [34])
       | TKw KTrue => if is_bool_type ty then Ok (bs "true") else Err
       | TKw KFalse => if is_bool_type ty then Ok (bs "false") else Err
       | _ => Err
       end ;;
  ts6 <- expect_p PSemi ts5 ;;
  Ok ({| m_name := m_name m; m_structs := m_structs m; m_hashkeys := m_hashkeys m; m_enums := m_enums m;
         m_consts := m_consts m ++ [ {| c_ty := ty; c_name := name; c_val := v |} ]; m_ifaces := m_ifaces m |}, ts6).

(* ---------------- key[...] (parse.go:469-490) ---------------- *)
Fixpoint hashkey_loop (fuel : nat) (ts : list tok) (acc : list bytes) : res (list bytes * list tok) :=
  match fuel with
  | O => Fuel
  | S f =>
    '(n, ts1) <- expect_name ts ;;
    '(t2, ts2) <- nx ts1 ;;
    match t2 with
    | TPunct PSqR => ts3 <- expect_p PSemi ts2 ;; Ok (rev (n :: acc), ts3)
    | TPunct PComma => hashkey_loop f ts2 (n :: acc)
    | _ => Err
    end
  end.

Definition parse_hashkey (fuel : nat) (m : module) (ts : list tok) : res (module * list tok) :=
  ts1 <- expect_p PSqL ts ;;
  '(name, ts2) <- expect_name ts1 ;;
  ts3 <- expect_p PComma ts2 ;;
  '(mbs, ts4) <- hashkey_loop fuel ts3 [] ;;
  Ok ({| m_name := m_name m; m_structs := m_structs m; m_hashkeys := m_hashkeys m ++ [ {| hk_name := name; hk_mb := mbs |} ];
         m_enums := m_enums m; m_consts := m_consts m; m_ifaces := m_ifaces m |}, ts4).

(* ---------------- module body and file (parse.go:492-559, 691-708) ---------------- *)
Fixpoint segment_loop (fuel : nat) (m : module) (ts : list tok) : res (module * list tok) :=
  match fuel with
  | O => Fuel
  | S f =>
    '(t, ts1) <- nx ts ;;
    match t with
    | TPunct PBraceR => ts2 <- expect_p PSemi ts1 ;; Ok (m, ts2)
    | TKw KConst => '(m', ts2) <- parse_const fuel m ts1 ;; segment_loop f m' ts2
    | TKw KEnum => '(m', ts2) <- parse_enum fuel m ts1 ;; segment_loop f m' ts2
    | TKw KStruct => '(m', ts2) <- parse_struct fuel m ts1 ;; segment_loop f m' ts2
    | TKw KInterface => '(m', ts2) <- parse_iface fuel m ts1 ;; segment_loop f m' ts2
    | TKw KKey => '(m', ts2) <- parse_hashkey fuel m ts1 ;; segment_loop f m' ts2
    | _ => Err
    end
  end.

Definition parse_segment (fuel : nat) (m : module) (ts : list tok) : res (module * list tok) :=
  ts1 <- expect_p PBraceL ts ;; segment_loop fuel m ts1.

(* parseModule: the first module fills the file's own module; a further one is parsed by a fresh Parse
   sharing the lexer and recorded beside it (the same-name merge of parse.go:532-543 concatenates member
   lists and is not modelled: files with more than one module are compared on their outcome class only) *)
Definition parse_module (fuel : nat) (fl : file) (ts : list tok) : res (file * list tok) :=
  '(name, ts1) <- expect_name ts ;;
  '(m, ts2) <- parse_segment fuel (empty_module name) ts1 ;;
  match fl_primary fl with
  | None => Ok ({| fl_includes := fl_includes fl; fl_primary := Some m; fl_more := fl_more fl |}, ts2)
  | Some _ => Ok ({| fl_includes := fl_includes fl; fl_primary := fl_primary fl; fl_more := fl_more fl ++ [m] |}, ts2)
  end.

Fixpoint file_loop (fuel : nat) (fl : file) (ts : list tok) : res file :=
  match fuel with
  | O => Fuel
  | S f =>
    '(t, ts1) <- nx ts ;;
    match t with
    | TEof => Ok fl
    | TInclude =>
        '(t2, ts2) <- nx ts1 ;;
        match t2 with
        | TStr s => file_loop f {| fl_includes := fl_includes fl ++ [s]; fl_primary := fl_primary fl; fl_more := fl_more fl |} ts2
        | _ => Err
        end
    | TKw KModule => '(fl', ts2) <- parse_module fuel fl ts1 ;; file_loop f fl' ts2
    | _ => Err
    end
  end.

End WithRepair.

(* ---------------- analysis (parse.go:575-689), one module, no includes, ModuleCycle off ---------------- *)
Fixpoint has_prefix (p s : bytes) : bool :=
  match p, s with
  | [], _ => true
  | a :: p', b :: s' => (a =? b) && has_prefix p' s'
  | _, [] => false
  end.
(* strings.Replace(s, old, "", 1) *)
Fixpoint remove_first (old s : bytes) : bytes :=
  match s with
  | [] => []
  | c :: r => if has_prefix old s then skipn (length old) s else c :: remove_first old r
  end.

Definition colons : bytes := [58; 58].

(* FindTNameType on the file's own module *)
Definition find_tname (m : module) (full : bytes) : ctype :=
  if existsb (fun s => beq (m_name m ++ colons ++ st_name s) full) (m_structs m) then CStruct
  else if existsb (fun e => beq (m_name m ++ colons ++ en_name e) full) (m_enums m) then CEnum
  else CNone.

(* checkDepTName (vectors, maps and - since 08bbde0 - fixed arrays are descended into) *)
Fixpoint check_tname (m : module) (v : vty) : res vty :=
  match v with
  | VName s _ =>
      let full := if (count_cc s =? 0)%nat then m_name m ++ colons ++ s else s in
      match find_tname m full with
      | CNone => Err
      | c => Ok (VName (remove_first (m_name m ++ colons) s) c)
      end
  | VVec k => k' <- check_tname m k ;; Ok (VVec k')
  | VMap k w => k' <- check_tname m k ;; w' <- check_tname m w ;; Ok (VMap k' w')
  | VArr k len => k' <- check_tname m k ;; Ok (VArr k' len)
  | _ => Ok v
  end.

Fixpoint map_res {A B} (f : A -> res B) (l : list A) : res (list B) :=
  match l with
  | [] => Ok []
  | x :: r => y <- f x ;; ys <- map_res f r ;; Ok (y :: ys)
  end.

(* FindEnumName: strip "mod::", then exactly one enum member of that name in the module *)
Definition enum_hits (m : module) (ename : bytes) : list (enum * enum_mb) :=
  flat_map (fun e => map (fun mb => (e, mb)) (filter (fun mb => beq (em_key mb) ename) (en_mb e))) (m_enums m).

Definition upper_first (s : bytes) : bytes :=
  match s with
  | [] => []
  | c :: r => (if (97 <=? c) && (c <=? 122) then c - 32 else c) :: r
  end.

Definition analyze_default (m : module) (sm : smember) : res smember :=
  match sm_deft sm with
  | DName =>
      if match sm_def sm with [] => true | _ => false end then Ok sm else
      let ename := if (count_cc (sm_def sm) =? 0)%nat then sm_def sm else after_cc (sm_def sm) in
      match enum_hits m ename with
      | [(e, mb)] => Ok {| sm_tag := sm_tag sm; sm_req := sm_req sm; sm_ty := sm_ty sm; sm_key := sm_key sm;
                           sm_def := upper_first (en_name e) ++ [95] ++ upper_first (em_key mb); sm_deft := DName |}
      | _ => Err
      end
  | _ => Ok sm
  end.

Definition analyze_member (m : module) (sm : smember) : res smember :=
  ty <- check_tname m (sm_ty sm) ;;
  Ok {| sm_tag := sm_tag sm; sm_req := sm_req sm; sm_ty := ty; sm_key := sm_key sm; sm_def := sm_def sm; sm_deft := sm_deft sm |}.

Definition analyze_arg (m : module) (a : arg) : res arg :=
  ty <- check_tname m (a_ty a) ;; Ok {| a_name := a_name a; a_out := a_out a; a_ty := ty |}.
Definition analyze_fun (m : module) (f : func) : res func :=
  args <- map_res (analyze_arg m) (f_args f) ;;
  ret <- match f_ret f with None => Ok None | Some t => t' <- check_tname m t ;; Ok (Some t') end ;;
  Ok {| f_name := f_name f; f_ret := ret; f_args := args |}.

(* analyzeDefault over all structs, then analyzeTName over structs and interfaces *)
Definition analyze (m : module) : res module :=
  sts1 <- map_res (fun s => mbs <- map_res (analyze_default m) (st_mb s) ;; Ok {| st_name := st_name s; st_mb := mbs |}) (m_structs m) ;;
  sts2 <- map_res (fun s => mbs <- map_res (analyze_member m) (st_mb s) ;; Ok {| st_name := st_name s; st_mb := mbs |}) sts1 ;;
  ifs <- map_res (fun i => fs <- map_res (analyze_fun m) (if_funcs i) ;; Ok {| if_name := if_name i; if_funcs := fs |}) (m_ifaces m) ;;
  Ok {| m_name := m_name m; m_structs := sts2; m_hashkeys := m_hashkeys m; m_enums := m_enums m;
        m_consts := m_consts m; m_ifaces := ifs |}.

(* ---------------- the whole front end: parse.NewParse on one file in an otherwise empty directory ------------- *)
Inductive outcome :=
| OOk (m : module)     (* at most one module, no includes: the analysed AST ([empty_module []] for no module) *)
| OMulti               (* several modules in the file: syntax accepted; analysis of further modules not modelled *)
| OErr                 (* diagnostic *)
| OFuel.               (* does not terminate within the fuel *)

Definition parse_fuel (ts : list tok) : nat := S (S (length ts)).

Definition parse_tokens_gen (repaired : bool) (fuel : nat) (ts : list tok) : outcome :=
  match file_loop repaired fuel empty_file ts with
  | Fuel => OFuel
  | Err => OErr
  | Ok fl =>
      match fl_includes fl with
      | _ :: _ => OErr           (* analyzeDepend: the included file does not exist -> log.Fatalln *)
      | [] =>
        match fl_more fl with
        | _ :: _ => OMulti
        | [] => match fl_primary fl with
                | None => OOk (empty_module [])
                | Some m => match analyze m with Ok m' => OOk m' | _ => OErr end
                end
        end
      end
  end.

Definition parse_bytes_gen (repaired : bool) (input : bytes) : outcome :=
  match tokens_of input with
  | Fuel => OFuel
  | Err => OErr
  | Ok ts => parse_tokens_gen repaired (parse_fuel ts) ts
  end.

Definition parse_bytes : bytes -> outcome := parse_bytes_gen true.
