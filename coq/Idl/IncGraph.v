(* C16 model, part 7: the graph of file nodes the parser builds for ONE file with several module blocks
   (parse.go parseModule / analyzeDepend; ast.TarsFile.IncTarsFile), and the lookups that walk it.

   Nodes.  For a file with k further modules and ninc included files:
     inc i        (i < ninc)   an included file (its own sub-tree is a finite tree, Idl/Include.v: a leaf here);
     S_j, N_j     (1 <= j <= k) the sub-parser's file node N_j of the j-th further module and S_j, what it receives
                               as its first include: in the code a COPY of the first module's node made at that moment
                               (children: N_1 .. N_{j-1}, the further modules recorded so far);
     P                         the first module's node; at the end its children are N_1 .. N_k and the included files.
   [alias = true] is the variant in which N_j is handed the live node P instead of the copy S_j.

   FindTNameType / FindEnumName search a node's own module and then, recursively and in order, its children; they
   stop only on a hit.  [lookup] is that walk with an explicit bound on the recursion depth. *)
From Coq Require Import List Arith Bool Lia.
Import ListNotations.

Section Graph.
Variable alias : bool.
Variables k ninc : nat.

Definition id_S (j : nat) : nat := ninc + 2 * (j - 1).
Definition id_N (j : nat) : nat := ninc + 2 * (j - 1) + 1.
Definition id_P : nat := ninc + 2 * k.
Definition incs : list nat := seq 0 ninc.

Definition children (u : nat) : list nat :=
  if u <? ninc then []
  else if u =? id_P then map id_N (seq 1 k) ++ incs
  else let j := S ((u - ninc) / 2) in
       if Nat.even (u - ninc) then map id_N (seq 1 (j - 1))            (* S_j *)
       else (if alias then id_P else id_S j) :: incs.                  (* N_j *)
End Graph.

(* the walk: [has u] = the name is declared in node u's own module *)
Fixpoint lookup (fuel : nat) (g : nat -> list nat) (has : nat -> bool) (u : nat) : option (option nat) :=
  match fuel with
  | O => None                                                          (* recursion deeper than the bound *)
  | S f => if has u then Some (Some u)
           else (fix go (l : list nat) : option (option nat) :=
                   match l with
                   | [] => Some None
                   | v :: r => match lookup f g has v with
                               | None => None
                               | Some (Some h) => Some (Some h)
                               | Some None => go r
                               end
                   end) (g u)
  end.
