(* C16: the lexer maps every rendering of a token sequence (Idl/Render.v) back to that sequence. *)
From Coq Require Import String.
From Coq Require Import List NArith ZArith Bool Lia ZifyBool ZifyN.
From TarsV Require Import Idl.Lexer Idl.LexerProofs Idl.Render.
Import ListNotations.
Open Scope N_scope.

(* ---------------- the lexer's step relation and tokenize ---------------- *)
Inductive lexes : bytes -> list tok -> Prop :=
| L_eof : forall st, lex_step st = LEof -> lexes st []
| L_skip : forall st st' l, lex_step st = LSkip st' -> lexes st' l -> lexes st l
| L_tok : forall st st' t l, lex_step st = LTok t st' -> lexes st' l -> lexes st (t :: l).

Lemma lexes_tokenize : forall st l, lexes st l -> forall fuel l', tokenize fuel st = Ok l' -> l' = l.
Proof.
  induction 1 as [st E | st st' l E H IH | st st' t l E H IH]; intros fuel l' T; (destruct fuel as [|f]; [discriminate|]);
    cbn [tokenize] in T; rewrite E in T.
  - inversion T; reflexivity.
  - eapply IH; eauto.
  - destruct (tokenize f st') as [l0| |] eqn:E0; try discriminate. inversion T; subst. f_equal. eapply IH; eauto.
Qed.

Theorem lexes_tokens_of : forall input l, lexes (init_state input) l -> tokens_of input = Ok l.
Proof.
  intros input l H. unfold tokens_of.
  destruct (tokenize (lex_fuel input) (init_state input)) as [l'| |] eqn:E.
  - f_equal. eapply lexes_tokenize; eauto.
  - exfalso. eapply tokenize_not_err; eauto.
  - exfalso. eapply tokenize_fuel; [|exact E]. unfold lex_fuel, init_state. cbn [length]. lia.
Qed.

(* ---------------- character classes ---------------- *)
Definition follows (r : bytes) : Prop := match r with [] => True | c :: _ => stops c = true end.

Lemma sep_stops : forall c, stops c = true ->
  is_letter c = false /\ is_number c = false /\ (c =? 58) = false /\ (c =? 46) = false /\ is_x c = false /\ is_hexl c = false.
Proof. intros c. unfold stops, is_letter, is_number, is_digit, is_x, is_hexl. lia. Qed.

Lemma punct_none : forall c, (forall k, In k [123; 125; 59; 61; 60; 62; 44; 40; 41; 91; 93] -> c <> k) -> punct_of c = None.
Proof.
  intros c H. unfold punct_of.
  repeat match goal with |- context [?a =? ?b] => let E := fresh in destruct (a =? b) eqn:E; [exfalso; apply N.eqb_eq in E; apply (H b); [cbn [In]; tauto | exact E]|clear E] end.
  reflexivity.
Qed.

Lemma letter_class : forall c, is_letter c = true ->
  (c =? 0) = false /\ (is_blank c || is_newline c) = false /\ (c =? 47) = false /\ punct_of c = None /\
  (c =? 34) = false /\ (c =? 35) = false /\ is_number c = false.
Proof.
  intros c H. repeat split; try (revert H; unfold is_letter, is_blank, is_newline, is_number, is_digit; lia).
  apply punct_none. intros k Hk. cbn [In] in Hk. unfold is_letter in H. lia.
Qed.

Lemma number_class : forall c, is_number c = true ->
  (c =? 0) = false /\ (is_blank c || is_newline c) = false /\ (c =? 47) = false /\ punct_of c = None /\
  (c =? 34) = false /\ (c =? 35) = false.
Proof.
  intros c H. repeat split; try (revert H; unfold is_blank, is_newline, is_number, is_digit; lia).
  apply punct_none. intros k Hk. cbn [In] in Hk. unfold is_number, is_digit in H. lia.
Qed.

Lemma punct_class : forall c p, punct_of c = Some p ->
  (c =? 0) = false /\ (is_blank c || is_newline c) = false /\ (c =? 47) = false.
Proof.
  intros c p H. unfold punct_of in H.
  repeat match type of H with context [?a =? ?b] => let E := fresh in destruct (a =? b) eqn:E;
    [apply N.eqb_eq in E; subst c; repeat split; reflexivity | clear E] end.
  discriminate.
Qed.

(* ---------------- the scanning loops ---------------- *)
Lemma read_ident_scan : forall s last acc r, ident_scan s last = true -> follows r ->
  read_ident (s ++ r) last acc = Some (rev acc ++ s, r).
Proof.
  induction s as [|c s IH]; intros last acc r Hs Hr.
  - cbn [app]. rewrite app_nil_r. destruct r as [|c r]; cbn [read_ident]; [reflexivity|].
    cbn [follows] in Hr. destruct (sep_stops c Hr) as [A [B [C _]]]. rewrite A, B, C. reflexivity.
  - cbn [ident_scan] in Hs. apply andb_true_iff in Hs. destruct Hs as [Hs Hrest]. apply andb_true_iff in Hs. destruct Hs as [H1 H2].
    cbn [app read_ident]. rewrite H1. apply negb_true_iff in H2. rewrite H2.
    rewrite (IH c (c :: acc) r Hrest Hr). cbn [rev]. rewrite <- app_assoc. reflexivity.
Qed.

Lemma has_dot_cons : forall c s, has_dot (c :: s) = (c =? 46) || has_dot s.
Proof. reflexivity. Qed.

Lemma read_number_scan : forall s h d acc r, num_scan s h = true -> follows r ->
  read_number (s ++ r) h d acc = (rev acc ++ s, d || has_dot s, r).
Proof.
  induction s as [|c s IH]; intros h d acc r Hs Hr.
  - cbn [app has_dot existsb]. rewrite app_nil_r, orb_false_r. destruct r as [|c r]; cbn [read_number]; [reflexivity|].
    cbn [follows] in Hr. destruct (sep_stops c Hr) as [_ [B [_ [D [E F]]]]]. rewrite B, D, E, F, andb_false_r. reflexivity.
  - cbn [num_scan] in Hs. apply andb_true_iff in Hs. destruct Hs as [H1 Hrest].
    cbn [app read_number]. rewrite H1. rewrite (IH _ _ _ r Hrest Hr). cbn [rev]. rewrite <- app_assoc. cbn [app].
    rewrite has_dot_cons, orb_assoc. reflexivity.
Qed.

Lemma read_string_scan : forall s acc r, forallb (fun c => negb (c =? 0) && negb (c =? 34)) s = true ->
  read_string (s ++ 34 :: r) acc = Some (rev acc ++ s, r).
Proof.
  induction s as [|c s IH]; intros acc r H.
  - cbn [app read_string]. rewrite app_nil_r. reflexivity.
  - cbn [forallb] in H. apply andb_true_iff in H. destruct H as [H1 H2]. apply andb_true_iff in H1. destruct H1 as [A B].
    apply negb_true_iff in A. apply negb_true_iff in B. cbn [app read_string]. rewrite A, B.
    rewrite (IH (c :: acc) r H2). cbn [rev]. rewrite <- app_assoc. reflexivity.
Qed.

(* ---------------- one token ---------------- *)
Lemma lookup_kw_not_delim : forall s, self_delimiting (lookup_kw s keywords) = false.
Proof.
  intros s. unfold keywords.
  repeat (cbn [lookup_kw]; match goal with |- context [beq ?a s] => destruct (beq a s); [reflexivity|] end).
  reflexivity.
Qed.

Lemma lex_tok : forall t txt r, tok_text t txt -> (follows r \/ self_delimiting t = true) -> lex_step (txt ++ r) = LTok t r.
Proof.
  intros t txt r H Hr0.
  assert (Hr : match t with TPunct _ | TStr _ => True | _ => follows r end).
  { destruct Hr0 as [K|K]; [destruct t; auto | destruct t; try discriminate; exact I]. }
  clear Hr0. destruct H as [c p Hp | | c s s' t Hc Hs Hq Hk | c s v Hc Hs Hd Hv | c s Hc Hs Hd Hv | s Hs].
  - destruct (punct_class c p Hp) as [A [B C]]. cbn [app lex_step]. rewrite A, B, C, Hp. reflexivity.
  - change (bs "#include") with [35; 105; 110; 99; 108; 117; 100; 101].
    cbn [app lex_step]. change (35 =? 0) with false. change (is_blank 35 || is_newline 35) with false. change (35 =? 47) with false.
    change (punct_of 35) with (@None pk). change (35 =? 34) with false. change (35 =? 35) with true. cbv iota.
    assert (E : read_letters (105 :: 110 :: 99 :: 108 :: 117 :: 100 :: 101 :: r) [] = ([105; 110; 99; 108; 117; 100; 101], r)).
    { cbn [read_letters]. change (is_letter 105) with true. change (is_letter 110) with true. change (is_letter 99) with true.
      change (is_letter 108) with true. change (is_letter 117) with true. change (is_letter 100) with true. change (is_letter 101) with true.
      cbv iota. destruct r as [|c r]; cbn [read_letters rev app]; [reflexivity|].
      cbn [follows] in Hr. destruct (sep_stops c Hr) as [A _]. rewrite A. reflexivity. }
    rewrite E. reflexivity.
  - assert (Hr' : follows r).
    { pose proof (lookup_kw_not_delim s') as K. rewrite Hk in K. destruct t; try discriminate; exact Hr. }
    clear Hr. rename Hr' into Hr.
    destruct (letter_class c Hc) as [A [B [C [D [E [F G]]]]]].
    cbn [app lex_step]. rewrite A, B, C, D, E, F, G, Hc.
    change (c :: s ++ r) with ((c :: s) ++ r). rewrite (read_ident_scan (c :: s) 0 [] r Hs Hr). cbn [rev app].
    rewrite Hq, Hk. reflexivity.
  - destruct (number_class c Hc) as [A [B [C [D [E F]]]]].
    cbn [app lex_step]. rewrite A, B, C, D, E, F, Hc.
    change (c :: s ++ r) with ((c :: s) ++ r). rewrite (read_number_scan (c :: s) false false [] r Hs Hr). cbn [rev app orb].
    rewrite Hd, Hv. reflexivity.
  - destruct (number_class c Hc) as [A [B [C [D [E F]]]]].
    cbn [app lex_step]. rewrite A, B, C, D, E, F, Hc.
    change (c :: s ++ r) with ((c :: s) ++ r). rewrite (read_number_scan (c :: s) false false [] r Hs Hr). cbn [rev app orb].
    rewrite Hd, Hv. reflexivity.
  - cbn [app lex_step]. change (34 =? 0) with false. change (is_blank 34 || is_newline 34) with false. change (34 =? 47) with false.
    change (punct_of 34) with (@None pk). change (34 =? 34) with true. cbv iota.
    rewrite <- app_assoc. cbn [app]. rewrite (read_string_scan s [] r Hs). reflexivity.
Qed.

(* ---------------- blanks and comments ---------------- *)
Lemma skip_line_body : forall b st, forallb (fun c => negb (is_newline c) && negb (c =? 0)) b = true ->
  skip_line (b ++ 10 :: st) = 10 :: st.
Proof.
  induction b as [|c b IH]; intros st H.
  - reflexivity.
  - cbn [forallb] in H. apply andb_true_iff in H. destruct H as [H1 H2]. apply andb_true_iff in H1. destruct H1 as [A B].
    apply negb_true_iff in A. apply negb_true_iff in B. cbn [app skip_line]. rewrite A, B. cbn [orb]. apply IH. exact H2.
Qed.

Lemma long_comment_body : forall b st, forallb (fun c => negb (c =? 0)) b = true -> no_close b = true ->
  long_comment (b ++ 42 :: 47 :: st) = Some st.
Proof.
  induction b as [|c b IH]; intros st H N.
  - reflexivity.
  - cbn [forallb] in H. apply andb_true_iff in H. destruct H as [A H2]. apply negb_true_iff in A.
    cbn [app long_comment]. rewrite A.
    destruct b as [|d b'].
    + cbn [app]. destruct (c =? 42); reflexivity.
    + cbn [no_close] in N. apply andb_true_iff in N. destruct N as [N1 N2].
      pose proof H2 as H2'. cbn [forallb] in H2'. apply andb_true_iff in H2'. destruct H2' as [D _]. apply negb_true_iff in D.
      destruct (c =? 42) eqn:E.
      * cbn [app]. rewrite D. cbn [andb negb] in N1. apply negb_true_iff in N1. rewrite N1.
        change (d :: b' ++ 42 :: 47 :: st) with ((d :: b') ++ 42 :: 47 :: st). apply IH; assumption.
      * apply IH; assumption.
Qed.

Lemma blank_step : forall c st, (is_blank c || is_newline c) = true -> lex_step (c :: st) = LSkip st.
Proof.
  intros c st H. cbn [lex_step]. assert (Z : (c =? 0) = false) by (revert H; unfold is_blank, is_newline; lia).
  rewrite Z, H. reflexivity.
Qed.

Lemma gap_item_lexes : forall g st l, wf_gap_item g = true -> lexes st l -> lexes (gap_bytes g ++ st) l.
Proof.
  intros g st l Hg H. destruct g as [c | b | b]; cbn [gap_bytes wf_gap_item] in *.
  - eapply L_skip; [apply blank_step; exact Hg | exact H].
  - cbn [app]. rewrite <- app_assoc. cbn [app].
    eapply L_skip.
    + cbn [lex_step]. change (47 =? 0) with false. change (is_blank 47 || is_newline 47) with false. change (47 =? 47) with true. cbv iota.
      reflexivity.
    + cbn [skip_line]. change (is_newline 47 || (47 =? 0)) with false. cbv iota. rewrite (skip_line_body b st Hg).
      eapply L_skip; [apply blank_step; reflexivity | exact H].
  - cbn [app]. rewrite <- app_assoc. cbn [app].
    eapply L_skip; [|exact H].
    cbn [lex_step]. change (47 =? 0) with false. change (is_blank 47 || is_newline 47) with false. change (47 =? 47) with true.
    change (42 =? 47) with false. change (42 =? 42) with true. cbv iota.
    apply andb_true_iff in Hg. destruct Hg as [Hg1 Hg2]. rewrite (long_comment_body b st Hg1 Hg2). reflexivity.
Qed.

Lemma gaps_lexes : forall gs st l, forallb wf_gap_item gs = true -> lexes st l -> lexes (gaps_bytes gs ++ st) l.
Proof.
  induction gs as [|g gs IH]; intros st l Hg H; unfold gaps_bytes in *; cbn [map concat app].
  - exact H.
  - cbn [forallb] in Hg. apply andb_true_iff in Hg. destruct Hg as [H1 H2]. rewrite <- app_assoc.
    apply gap_item_lexes; [exact H1 | apply IH; assumption].
Qed.

Lemma gap_follows : forall gs st, gs <> [] -> forallb wf_gap_item gs = true -> follows (gaps_bytes gs ++ st).
Proof.
  intros gs st Hne Hg. destruct gs as [|g gs]; [congruence|]. cbn [forallb] in Hg. apply andb_true_iff in Hg. destruct Hg as [H1 _].
  unfold gaps_bytes. cbn [map concat]. destruct g as [c | b | b]; cbn [gap_bytes app follows wf_gap_item] in *.
  - revert H1. unfold stops, is_blank, is_newline, is_letter, is_number, is_digit. lia.
  - reflexivity.
  - reflexivity.
Qed.

(* ---------------- every rendering lexes back to its tokens ---------------- *)
Definition pieces_bytes (ps : list piece) : bytes := concat (map (fun p => p_txt p ++ gaps_bytes (p_gap p)) ps).

Lemma pieces_lexes : forall ps, wf_pieces ps -> lexes (pieces_bytes ps) (map p_tok ps).
Proof.
  induction ps as [|p ps IH]; intros H; unfold pieces_bytes in *; cbn [map concat].
  - apply L_eof. reflexivity.
  - cbn [wf_pieces] in H. destruct H as [Ht [Hg [Hd Hps]]]. rewrite <- app_assoc.
    eapply L_tok; [|apply gaps_lexes; [exact Hg | apply IH; exact Hps]].
    apply lex_tok; [exact Ht|].
    destruct Hd as [Hne | [Hs | Hn]]; [left; apply gap_follows; assumption | right; exact Hs |].
    destruct (p_gap p) as [|g gs]; [|left; apply gap_follows; [discriminate | exact Hg]].
    left. unfold gaps_bytes. cbn [map concat app].
    destruct ps as [|q qs]; cbn [map concat]; [exact I|].
    cbn [starts_stop] in Hn. destruct (p_txt q) as [|c r]; [discriminate|]. cbn [app follows]. exact Hn.
Qed.

Theorem render_tokens : forall lead ps, forallb wf_gap_item lead = true -> wf_pieces ps ->
  tokens_of (render lead ps) = Ok (map p_tok ps).
Proof.
  intros lead ps Hl Hps. apply lexes_tokens_of. unfold init_state, render.
  eapply L_skip; [apply blank_step; reflexivity|].
  apply gaps_lexes; [exact Hl | apply pieces_lexes; exact Hps].
Qed.
