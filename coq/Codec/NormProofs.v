(* the normal form of the round trip is the value itself up to Go's == on float members *)
From Coq Require Import List NArith ZArith Lia Bool Arith.
From Coq Require Import ZifyN ZifyNat ZifyBool.
From TarsV Require Import Gen.Consts Base.Hex Codec.Wire Codec.Skip Codec.Prim Codec.GenCodec Codec.Corr Codec.GenProofs
  Codec.RoundTrip Codec.RoundTripProofs.
Import ListNotations.
Open Scope N_scope.

Lemma norm_scalar_veq e t req d v : scalar_ty t = true -> sc_typed t v ->
  (forall dv, d = Some dv -> sc_typed t dv) -> veq e t (norm e t req d v) v.
Proof.
  intros Hsc Hty Hd. rewrite norm_scalar by assumption. destruct (omit t req d v) eqn:Eo; [|apply VQ_refl].
  unfold omit in Eo. destruct t; try discriminate; try (apply andb_true_iff in Eo; destruct Eo as [_ Eo]);
    destruct v; cbn [sc_typed] in Hty; try contradiction; cbn [scalar_is_default] in Eo;
    (destruct d as [dv|]; [specialize (Hd dv eq_refl); destruct dv; cbn [sc_typed] in Hd; try contradiction|]); cbn [zscalar];
    try (apply Bool.eqb_prop in Eo; subst; apply VQ_refl);
    try (apply Z.eqb_eq in Eo; subst; apply VQ_refl);
    try (apply bytes_eqb_eq in Eo; subst; apply VQ_refl);
    try (now apply VQ_f32); try (now apply VQ_f64).
Qed.

Section Norm.
Variable e : env.
Hypothesis Hdt : defaults_typed e.

Definition Q_var (n : nat) : Prop := forall t req d v, has_type e t v -> (need v <= n)%nat ->
  (forall dv, d = Some dv -> sc_typed t dv) -> veq e t (norm e t req d v) v.
Definition Q_elems (n : nat) : Prop := forall x xs, Forall (has_type e x) xs -> (need_list xs <= n)%nat ->
  Forall2 (veq e x) (norm_elems e x xs) xs.
Definition Q_entries (n : nat) : Prop := forall kt vt kvs,
  Forall (fun p => has_type e kt (fst p) /\ has_type e vt (snd p)) kvs -> (need_entries kvs <= n)%nat ->
  Forall2 (fun p q => veq e kt (fst p) (fst q) /\ veq e vt (snd p) (snd q)) (norm_entries e kt vt kvs) kvs.
Definition Q_fields (n : nat) : Prop := forall fds vs, Forall2 (fun fd x => has_type e (fty fd) x) fds vs ->
  (forall fd dv, In fd fds -> fdef fd = Some dv -> sc_typed (fty fd) dv) -> (need_list vs <= n)%nat ->
  Forall2 (fun p y => veq e (fty (fst p)) (snd p) y) (combine fds (norm_fields e vs fds)) vs.

Lemma norm_all : forall n, Q_var n /\ Q_elems n /\ Q_entries n /\ Q_fields n.
Proof.
  induction n as [|n (HV & HE & HM & HF)].
  { repeat split.
    - intros t req d v _ Hn. pose proof (need_ge v). lia.
    - intros x xs _ Hn. pose proof (need_list_ge xs). lia.
    - intros kt vt kvs _ Hn. pose proof (need_entries_ge kvs). lia.
    - intros fds vs _ _ Hn. pose proof (need_list_ge vs). lia. }
  assert (Hnone : forall t dv, @None val = Some dv -> sc_typed t dv) by (intros; discriminate).
  repeat split.
  - intros t req d v Hty Hn Hd. inversion Hty; subst.
    + now apply norm_scalar_veq.
    + apply VQ_refl.
    + rewrite norm_vec. rewrite need_VList in Hn. apply VQ_vec. apply HE; [assumption|lia].
    + rewrite norm_arr. rewrite need_VList in Hn. apply VQ_arr. apply HE; [assumption|lia].
    + rewrite norm_map. rewrite need_VMap in Hn. apply VQ_map. apply HM; [assumption|lia].
    + rewrite norm_str. rewrite need_VStruct in Hn. apply VQ_struct. apply HF; [assumption| |lia].
      intros fd dv Hin. apply (Hdt sid fd dv Hin).
  - intros x xs Hty Hn. destruct Hty as [|y r Hy Hr]; [constructor|]. cbn [norm_elems need_list] in *.
    constructor; [apply HV; try assumption; [lia|apply Hnone]|apply HE; [assumption|lia]].
  - intros kt vt kvs Hty Hn. destruct Hty as [|[ky y] r [Hk Hy] Hr]; [constructor|]. cbn [fst snd] in Hk, Hy.
    cbn [norm_entries need_entries] in *. constructor; [cbn [fst snd]; split; apply HV; try assumption; try lia; apply Hnone|].
    apply HM; [assumption|lia].
  - intros fds vs Hty Hd Hn. destruct Hty as [|fd x fds vs Hx Hvs]; [constructor|]. cbn [norm_fields combine need_list] in *.
    constructor; [cbn [fst snd]; apply HV; try assumption; [lia|intros dv Hdv; apply (Hd fd dv); [now left|assumption]]|].
    apply HF; try assumption; [|lia]. intros fd' dv Hin. apply Hd. now right.
Qed.

Theorem norm_veq sid vs : has_type e (TStruct sid) (VStruct vs) ->
  veq e (TStruct sid) (norm_struct e sid (VStruct vs)) (VStruct vs).
Proof.
  intros Hty. destruct (norm_all (need (VStruct vs))) as (HV & _). unfold norm_struct.
  apply HV; [assumption|lia|intros; discriminate].
Qed.
End Norm.

Theorem defaults_typed_b_sound e : defaults_typed_b e = true -> defaults_typed e.
Proof.
  intros H sid fd dv Hin Hd. unfold defaults_typed_b in H. rewrite forallb_forall in H.
  unfold fields_of in Hin. destruct (nth_in_or_default sid e []) as [Hs|Hs]; [|rewrite Hs in Hin; contradiction].
  specialize (H _ Hs). rewrite forallb_forall in H. specialize (H _ Hin). rewrite Hd in H. now apply sc_typed_b_sound.
Qed.
Print Assumptions norm_veq.

(* C03, first clause as the property states it: decoding the encoding yields an equal value *)
Theorem roundtrip_equal e k n sid vs :
  wf_schema k e -> defaults_typed e -> (S k <= 64)%nat ->
  tfin n e (TStruct sid) = true -> (tneed n e (TStruct sid) + k <= 64)%nat ->
  has_type e (TStruct sid) (VStruct vs) ->
  exists v', decode e sid (encode e sid (VStruct vs)) = DOk v' [] /\ veq e (TStruct sid) v' (VStruct vs).
Proof.
  intros Hwf Hdt Hk Hfin Hn Hty. exists (norm_struct e sid (VStruct vs)). split.
  - now apply (roundtrip_struct_static e k n).
  - now apply norm_veq.
Qed.
Print Assumptions roundtrip_equal.
