(* C03, second clause: the independent description of what the bytes of a value must be - a wire tree (Skip.v:
   wf, serialised by ser_field/ser_fields) built from the IDL type and the value alone: every member under
   its declared tag, integers in the narrowest width, strings by length, vector<byte> as SimpleList, other
   vectors and arrays as LIST of elements under tag 0, maps as MAP of key (tag 0) / value (tag 1) pairs,
   structs as StructBegin members StructEnd; optional members equal to their default are left out.
   Definitions only. *)
From Coq Require Import List NArith ZArith Lia Bool Arith.
From TarsV Require Import Gen.Consts Base.Hex Codec.Wire Codec.Skip Codec.Prim Codec.GenCodec Codec.Corr Codec.RoundTrip.
Import ListNotations.
Open Scope N_scope.

Definition wint (z : Z) : wf :=
  if (z =? 0)%Z then WZero
  else if fits 8 z then WByte (wrapu 8 z)
  else if fits 16 z then WShort (wrapu 16 z)
  else if fits 32 z then WInt (wrapu 32 z)
  else WLong (wrapu 64 z).
Definition wstr (s : list N) : wf := if N.of_nat (length s) <=? 255 then WStr1 s else WStr4 s.

(* is the member left out of the encoding? *)
Definition left_out (t : ty) (req : bool) (d : option val) (v : val) : bool :=
  match v with
  | VBytes s => negb req && (match s with [] => true | _ => false end)
  | VList xs => negb req && (match xs with [] => true | _ => false end)
  | VMap kvs => negb req && (match kvs with [] => true | _ => false end)
  | VStruct _ => false
  | _ => match t with TEnum => false | _ => negb req && scalar_is_default t d v end
  end.

Fixpoint wire_of (e : env) (t : ty) (v : val) {struct v} : wf :=
  match v with
  | VBool b => wint (if b then 1 else 0)%Z
  | VInt z => wint z
  | VFlt b => match t with TF32 => WFloat b | _ => WDouble b end
  | VStr s => wstr s
  | VBytes s => WSimple s
  | VList xs =>
      match t with
      | TVec x | TArr _ x => WList ((fix go l := match l with [] => [] | y :: r => (0, wire_of e x y) :: go r end) xs)
      | _ => WZero
      end
  | VMap kvs =>
      match t with
      | TMap kt vt => WMap ((fix go l := match l with [] => []
                               | (k, x) :: r => ((0, wire_of e kt k), (1, wire_of e vt x)) :: go r end) kvs)
      | _ => WZero
      end
  | VStruct vs =>
      match t with
      | TStruct sid =>
          WStruct ((fix go l (fds : schema) := match l, fds with
                      | x :: l', fd :: fds' =>
                          if left_out (fty fd) (freq fd) (fdef fd) x then go l' fds'
                          else (ftag fd, wire_of e (fty fd) x) :: go l' fds'
                      | _, _ => [] end) vs (fields_of e sid))
      | _ => WZero
      end
  end.
Fixpoint wire_elems (e : env) (x : ty) (l : list val) : list (N * wf) :=
  match l with [] => [] | y :: r => (0, wire_of e x y) :: wire_elems e x r end.
Fixpoint wire_entries (e : env) (kt vt : ty) (l : list (val * val)) : list ((N * wf) * (N * wf)) :=
  match l with [] => [] | (k, x) :: r => ((0, wire_of e kt k), (1, wire_of e vt x)) :: wire_entries e kt vt r end.
(* the members of a struct value as wire fields: the ones not left out, under their declared tags, in schema order *)
Fixpoint wire_fields (e : env) (l : list val) (fds : schema) : list (N * wf) :=
  match l, fds with
  | x :: l', fd :: fds' =>
      if left_out (fty fd) (freq fd) (fdef fd) x then wire_fields e l' fds'
      else (ftag fd, wire_of e (fty fd) x) :: wire_fields e l' fds'
  | _, _ => []
  end.

(* a field list conforms to a schema: every field sits under the tag of a member, in schema order (so, the
   member tags being strictly ascending, in ascending tag order and at most once), with a wire type the
   member's IDL type accepts; members may be missing only if optional *)
Inductive conforms : schema -> list (N * wf) -> Prop :=
| cf_nil : conforms [] []
| cf_skip fd fds fs : freq fd = false -> conforms fds fs -> conforms (fd :: fds) fs
| cf_take fd fds w fs : adm (fty fd) (ty_of w) = true -> conforms fds fs -> conforms (fd :: fds) ((ftag fd, w) :: fs).
